// C13 — torrent files: total parsing, consistent geometry, identity preserved.
package c13

import (
	"bytes"
	"crypto/sha1"
	"encoding/base32"
	"encoding/hex"
	"fmt"
	"math/big"
	nurl "net/url"
	"os"
	"os/exec"
	"runtime/debug"
	"sort"
	"strings"
	"syscall"
	"testing"

	"pgregory.net/rapid"

	"github.com/jech/storrent/tor"
	"github.com/jech/storrent/webseed"

	"verif/gen"
	"verif/ref"
	"verif/stats"
)

func TestMain(m *testing.M) {
	if os.Getenv("VERIF_C13_CHILD") == "alloc" {
		childAlloc()
		return
	}
	if os.Getenv("VERIF_C13_CHILD") != "" {
		childDeep()
		return
	}
	stats.Main(m)
}

const chunk = 16384

// ---------------------------------------------------------------- oracle

// geometry checks the self-consistency of a torrent ReadTorrent returned.
func geometry(t *tor.Torrent) string {
	ps := int64(t.Pieces.PieceSize())
	if ps <= 0 || ps%chunk != 0 {
		return fmt.Sprintf("piece size %d is not a positive multiple of 16 KiB", ps)
	}
	L := t.Pieces.Length()
	if L < 0 {
		return fmt.Sprintf("negative total length %d", L)
	}
	np := (L + ps - 1) / ps
	if int64(t.Pieces.Num()) != np {
		return fmt.Sprintf("piece table has %d entries for length %d / piece size %d (want %d)", t.Pieces.Num(), L, ps, np)
	}
	if int64(len(t.PieceHashes)) != np {
		return fmt.Sprintf("%d piece hashes for %d pieces", len(t.PieceHashes), np)
	}
	for _, h := range t.PieceHashes {
		if len(h) != 20 {
			return "piece hash of wrong size"
		}
	}
	// the piece table matches the length: every piece full-sized except a
	// possibly shorter last one, summing to the total
	if np > 0 {
		last := uint32(np - 1)
		if got, want := int64(t.Pieces.PieceLength(last)), L-(np-1)*ps; got != want {
			return fmt.Sprintf("last piece has length %d, want %d (length %d, piece size %d)", got, want, L, ps)
		}
		if np > 1 {
			if got := int64(t.Pieces.PieceLength(0)); got != ps {
				return fmt.Sprintf("first piece has length %d, piece size is %d", got, ps)
			}
			if got := int64(t.Pieces.PieceLength(last - 1)); got != ps {
				return fmt.Sprintf("piece %d has length %d, piece size is %d", last-1, got, ps)
			}
		}
	}
	if got, want := int64(len(tor.VerifInFlight(t))), (L+chunk-1)/chunk; got != want {
		return fmt.Sprintf("%d in-flight slots for %d blocks", got, want)
	}
	if t.Name == "" {
		return "empty name"
	}
	if t.Files != nil {
		sum := new(big.Int)
		for k, f := range t.Files {
			if f.Length < 0 {
				return fmt.Sprintf("file %d has negative length %d", k, f.Length)
			}
			if big.NewInt(f.Offset).Cmp(sum) != 0 {
				return fmt.Sprintf("file %d at offset %d, previous files end at %v", k, f.Offset, sum)
			}
			sum.Add(sum, big.NewInt(f.Length))
			if len(f.Path) == 0 {
				return fmt.Sprintf("file %d has an empty path", k)
			}
		}
		if sum.Cmp(big.NewInt(L)) != 0 {
			return fmt.Sprintf("files sum to %v, total length is %d", sum, L)
		}
	}
	if !t.InfoComplete() {
		return "ReadTorrent returned a torrent with incomplete metadata"
	}
	return ""
}

func read(b []byte) (t *tor.Torrent, err error, pv any) {
	defer func() {
		if r := recover(); r != nil {
			pv = fmt.Sprintf("%v\n%s", r, firstFrames(debug.Stack()))
		}
	}()
	t, err = tor.ReadTorrent("", bytes.NewReader(b))
	return
}

func firstFrames(st []byte) string {
	lines := strings.Split(string(st), "\n")
	var keep []string
	for _, l := range lines {
		if strings.Contains(l, "storrent") || strings.Contains(l, "bencode") {
			keep = append(keep, strings.TrimSpace(l))
		}
		if len(keep) > 6 {
			break
		}
	}
	return strings.Join(keep, " <- ")
}

func trackerURLs(t *tor.Torrent) [][]string {
	var out [][]string
	for _, tier := range t.Trackers() {
		var l []string
		for _, tr := range tier {
			l = append(l, tr.URL())
		}
		out = append(out, l)
	}
	return out
}

func webseedURLs(t *tor.Torrent) []string {
	var out []string
	for _, ws := range t.Webseeds() {
		kind := "?"
		switch ws.(type) {
		case *webseed.GetRight:
			kind = "gr"
		case *webseed.Hoffman:
			kind = "h"
		}
		out = append(out, kind+" "+ws.URL())
	}
	return out
}

// nonEmptyTiers drops empty-string URLs (not a tracker: storrent keeps them
// as disabled entries and omits them when writing) and tiers left empty.
func nonEmptyTiers(a [][]string) [][]string {
	var out [][]string
	for _, t := range a {
		var l []string
		for _, u := range t {
			if u != "" {
				l = append(l, u)
			}
		}
		if len(l) > 0 {
			out = append(out, l)
		}
	}
	return out
}

// roundTrip: the .torrent storrent serves back has the same identity.
func roundTrip(t *tor.Torrent) string {
	var buf bytes.Buffer
	var pv any
	var err error
	func() {
		defer func() { pv = recover() }()
		err = tor.WriteTorrent(&buf, t)
	}()
	if pv != nil {
		return fmt.Sprintf("WriteTorrent panicked: %v", pv)
	}
	if err != nil {
		return fmt.Sprintf("WriteTorrent: %v", err)
	}
	t2, err, pv := read(buf.Bytes())
	if pv != nil {
		return fmt.Sprintf("re-reading WriteTorrent's output panicked: %v", pv)
	}
	if err != nil {
		return fmt.Sprintf("re-reading WriteTorrent's output failed: %v", err)
	}
	if !bytes.Equal(t2.Hash, t.Hash) {
		return fmt.Sprintf("info-hash changed across WriteTorrent: %x -> %x", t.Hash, t2.Hash)
	}
	if !bytes.Equal(t2.Info, t.Info) {
		return "info dictionary bytes changed across WriteTorrent"
	}
	// the written file, read by the independent decoder, hashes to the same value
	v, _, derr := ref.Bdec(buf.Bytes())
	// (the info dictionary is copied verbatim, so non-canonical input that the
	// lenient third-party decoder accepted may not pass the strict one)
	if d, ok := v.(ref.Dict); ok && derr == nil {
		if info, ok := d.Get("info"); ok {
			h := sha1.Sum(ref.Benc(refToEnc(info)))
			if ref.Canonical(info) && !bytes.Equal(h[:], t.Hash) {
				return "info dictionary in WriteTorrent's output does not hash to the torrent's hash"
			}
		} else {
			return "WriteTorrent's output has no info dictionary"
		}
	}
	a, b := fmt.Sprint(nonEmptyTiers(trackerURLs(t))), fmt.Sprint(nonEmptyTiers(trackerURLs(t2)))
	if a != b {
		return fmt.Sprintf("trackers changed across WriteTorrent: %s -> %s", a, b)
	}
	a, b = fmt.Sprint(webseedURLs(t)), fmt.Sprint(webseedURLs(t2))
	if a != b {
		return fmt.Sprintf("web seeds changed across WriteTorrent: %s -> %s", a, b)
	}
	if t2.CreationDate != t.CreationDate {
		return "creation date changed across WriteTorrent"
	}
	return ""
}

// refToEnc turns a decoded value back into something ref.Benc accepts.
func refToEnc(v any) any {
	switch v := v.(type) {
	case ref.Dict:
		out := make(ref.Dict, len(v))
		for i, kv := range v {
			out[i] = ref.KV{K: kv.K, V: refToEnc(kv.V)}
		}
		return out
	case []any:
		out := make([]any, len(v))
		for i, e := range v {
			out[i] = refToEnc(e)
		}
		return out
	}
	return v
}

// ---------------------------------------------------------------- model

type mfile struct {
	path   []string
	path8  []string
	length int64
	pad    bool
	noPath bool
}

type model struct {
	name, name8   string
	hasName       bool
	pl            any // piece length value (int64 / *big.Int) or nil = absent
	single        bool
	length        any // single-file length or nil
	files         []mfile
	hasFiles      bool
	pieces        []byte
	announce      string
	announceList  [][]string
	hasAL         bool
	urlList       []string
	urlListString bool
	httpseeds     []string
	cdate         int64
	order         string // sorted | reversed | shuffled
	extraTop      bool
	extraInfo     bool
	degenerate    []string
}

var trackerSchemes = []string{"http://tr.example/announce", "https://t.example:8080/a?x=1", "udp://u.example:6969", "wss://ws.example/x", "ftp://f.example/", "::bad url", "%zz", ""}
var seedURLs = []string{"http://ws.example/dir/", "https://cdn.example/file", "ftp://old.example/f", "udp://nope", ":bad", "http://h.example/seed.php", ""}

func genName(t *rapid.T, label string) string {
	return rapid.OneOf(
		rapid.StringMatching(`[a-zA-Z0-9 ._-]{1,12}`),
		rapid.SampledFrom([]string{"a", "é", "日本", "x y", "a.b", "..", ".", "a\\b", "<b>", "%41", "a?b"}),
	).Draw(t, label)
}

func genValid(t *rapid.T) *model {
	m := &model{hasName: true}
	m.name = genName(t, "name")
	if rapid.IntRange(0, 5).Draw(t, "name8?") == 0 {
		m.name8 = genName(t, "name8")
	}
	k := rapid.SampledFrom([]int64{1, 1, 2, 2, 3, 4, 16, 64, 1 << 15, 1 << 17}).Draw(t, "plk")
	pl := k * chunk
	m.pl = pl
	// total length: small multiples around piece boundaries, or large
	var total int64
	switch rapid.IntRange(0, 9).Draw(t, "totalclass") {
	case 0:
		total = rapid.Int64Range(1, 100).Draw(t, "total")
	case 1:
		total = pl * rapid.Int64Range(1, 6).Draw(t, "npieces")
	case 2:
		total = pl*rapid.Int64Range(0, 6).Draw(t, "npieces") + rapid.SampledFrom([]int64{1, 100, 8192, 16383, 16384, 16385}).Draw(t, "tail")
	case 3:
		max := int64(1) << 36
		if k >= 1<<15 && rapid.IntRange(0, 9).Draw(t, "huge") == 0 {
			max = 1 << 40
		}
		total = rapid.Int64Range(1, max).Draw(t, "total")
		if total/pl > 3000 {
			total = pl*3000 + total%pl
		}
	default:
		total = rapid.Int64Range(1, pl*12).Draw(t, "total")
	}
	if rapid.IntRange(0, 2).Draw(t, "single") == 0 {
		m.single = true
		m.length = total
	} else {
		m.hasFiles = true
		n := rapid.IntRange(1, 12).Draw(t, "nfiles")
		remaining := total
		dirs := [][]string{nil}
		for i := 0; i < n; i++ {
			var f mfile
			switch {
			case i == n-1:
				f.length = remaining
			case rapid.IntRange(0, 4).Draw(t, "zero") == 0:
				f.length = 0
			default:
				if remaining > 0 {
					f.length = rapid.Int64Range(0, remaining).Draw(t, "flen")
					if rapid.Bool().Draw(t, "small") && f.length > 40000 {
						f.length = f.length % 40000
					}
				}
			}
			remaining -= f.length
			if rapid.IntRange(0, 4).Draw(t, "pad") == 0 {
				f.pad = true
				f.path = []string{".pad", fmt.Sprint(f.length)}
			} else {
				dir := rapid.SampledFrom(dirs).Draw(t, "dir")
				if len(dir) < 4 && rapid.IntRange(0, 2).Draw(t, "newdir") == 0 {
					dir = append(append([]string{}, dir...), genName(t, "dirname"))
					dirs = append(dirs, dir)
				}
				f.path = append(append([]string{}, dir...), genName(t, "fname"))
			}
			if rapid.IntRange(0, 7).Draw(t, "path8") == 0 {
				f.path8 = append([]string{"u8"}, f.path...)
			}
			m.files = append(m.files, f)
		}
	}
	np := (total + pl - 1) / pl
	m.pieces = gen.Fill(uint64(total)^0xabc, int(np*20))
	// trackers and seeds
	switch rapid.IntRange(0, 3).Draw(t, "trackers") {
	case 1:
		m.announce = rapid.SampledFrom(trackerSchemes).Draw(t, "announce")
	case 2, 3:
		m.hasAL = true
		nt := rapid.IntRange(0, 3).Draw(t, "tiers")
		for i := 0; i < nt; i++ {
			m.announceList = append(m.announceList, rapid.SliceOfN(rapid.SampledFrom(trackerSchemes), 0, 3).Draw(t, "tier"))
		}
		if rapid.Bool().Draw(t, "announce-too") {
			m.announce = rapid.SampledFrom(trackerSchemes).Draw(t, "announce")
		}
	}
	if rapid.Bool().Draw(t, "urllist?") {
		m.urlList = rapid.SliceOfN(rapid.SampledFrom(seedURLs), 1, 3).Draw(t, "urllist")
		m.urlListString = len(m.urlList) == 1 && rapid.Bool().Draw(t, "urlstr")
	}
	if rapid.IntRange(0, 2).Draw(t, "httpseeds?") == 0 {
		m.httpseeds = rapid.SliceOfN(rapid.SampledFrom(seedURLs), 1, 3).Draw(t, "httpseeds")
	}
	if rapid.Bool().Draw(t, "cdate?") {
		m.cdate = rapid.Int64Range(1, 1<<40).Draw(t, "cdate")
	}
	m.order = rapid.SampledFrom([]string{"sorted", "sorted", "reversed", "shuffled"}).Draw(t, "order")
	m.extraTop = rapid.Bool().Draw(t, "extraTop")
	m.extraInfo = rapid.Bool().Draw(t, "extraInfo")
	return m
}

func toList(p []string) []any {
	l := make([]any, len(p))
	for i, s := range p {
		l[i] = s
	}
	return l
}

func order(t *rapid.T, d ref.Dict, how string) ref.Dict {
	sort.Slice(d, func(i, j int) bool { return d[i].K < d[j].K })
	switch how {
	case "reversed":
		for i, j := 0, len(d)-1; i < j; i, j = i+1, j-1 {
			d[i], d[j] = d[j], d[i]
		}
	case "shuffled":
		if len(d) > 1 {
			perm := rapid.Permutation(d).Draw(t, "perm")
			return perm
		}
	}
	return d
}

// build serialises the model; it returns the file and the span of the info value.
func build(t *rapid.T, m *model) (file []byte, info []byte) {
	id := ref.Dict{}
	if m.hasName {
		id = append(id, ref.KV{K: "name", V: m.name})
	}
	if m.name8 != "" {
		id = append(id, ref.KV{K: "name.utf-8", V: m.name8})
	}
	if m.pl != nil {
		id = append(id, ref.KV{K: "piece length", V: m.pl})
	}
	id = append(id, ref.KV{K: "pieces", V: m.pieces})
	if m.length != nil {
		id = append(id, ref.KV{K: "length", V: m.length})
	}
	if m.hasFiles {
		var fl []any
		for _, f := range m.files {
			fd := ref.Dict{{K: "length", V: f.length}}
			if !f.noPath {
				fd = append(fd, ref.KV{K: "path", V: toList(f.path)})
			}
			if f.path8 != nil {
				fd = append(fd, ref.KV{K: "path.utf-8", V: toList(f.path8)})
			}
			if f.pad {
				fd = append(fd, ref.KV{K: "attr", V: "p"})
			}
			fl = append(fl, order(t, fd, m.order))
		}
		id = append(id, ref.KV{K: "files", V: fl})
	}
	if m.extraInfo {
		id = append(id, ref.KV{K: "private", V: 1}, ref.KV{K: "source", V: "src"}, ref.KV{K: "aaa", V: []any{1, "x", map[string]any{"k": "v"}}})
	}
	info = ref.Benc(order(t, id, m.order))
	td := ref.Dict{{K: "info", V: ref.Raw(info)}}
	if m.announce != "" {
		td = append(td, ref.KV{K: "announce", V: m.announce})
	}
	if m.hasAL {
		var al []any
		for _, tier := range m.announceList {
			al = append(al, toList(tier))
		}
		if al == nil {
			al = []any{}
		}
		td = append(td, ref.KV{K: "announce-list", V: al})
	}
	if m.urlList != nil {
		if m.urlListString {
			td = append(td, ref.KV{K: "url-list", V: m.urlList[0]})
		} else {
			td = append(td, ref.KV{K: "url-list", V: toList(m.urlList)})
		}
	}
	if m.httpseeds != nil {
		td = append(td, ref.KV{K: "httpseeds", V: toList(m.httpseeds)})
	}
	if m.cdate != 0 {
		td = append(td, ref.KV{K: "creation date", V: m.cdate})
	}
	if m.extraTop {
		td = append(td, ref.KV{K: "comment", V: "c"}, ref.KV{K: "aaa-first", V: []any{"x"}}, ref.KV{K: "zzz-last", V: map[string]any{"info": "decoy"}}, ref.KV{K: "created by", V: "gen"})
	}
	file = ref.Benc(order(t, td, m.order))
	return
}

func parseable(u string) bool {
	_, err := nurl.Parse(u)
	return err == nil
}

func httpScheme(u string) bool {
	p, err := nurl.Parse(u)
	return err == nil && (p.Scheme == "http" || p.Scheme == "https")
}

// expectations for a valid model
func (m *model) wantTrackers() [][]string {
	var out [][]string
	if m.hasAL && len(m.announceList) > 0 {
		for _, tier := range m.announceList {
			var l []string
			for _, u := range tier {
				if parseable(u) {
					l = append(l, u)
				}
			}
			out = append(out, l)
		}
		return out
	}
	if m.announce != "" && parseable(m.announce) {
		return [][]string{{m.announce}}
	}
	return nil
}

func (m *model) wantSeeds() []string {
	var out []string
	for _, u := range m.urlList {
		if httpScheme(u) {
			out = append(out, "gr "+u)
		}
	}
	for _, u := range m.httpseeds {
		if httpScheme(u) {
			out = append(out, "h "+u)
		}
	}
	return out
}

func checkAgainstModel(m *model, tt *tor.Torrent, info []byte) string {
	h := sha1.Sum(info)
	if !bytes.Equal(tt.Hash, h[:]) {
		return fmt.Sprintf("info-hash %x, SHA-1 of the info dictionary as it appears in the file is %x", tt.Hash, h)
	}
	if !bytes.Equal(tt.Info, info) {
		return "Torrent.Info differs from the info dictionary in the file"
	}
	wantName := m.name
	if m.name8 != "" {
		wantName = m.name8
	}
	if tt.Name != wantName {
		return fmt.Sprintf("name %q, want %q", tt.Name, wantName)
	}
	if int64(tt.Pieces.PieceSize()) != m.pl.(int64) {
		return fmt.Sprintf("piece size %d, want %d", tt.Pieces.PieceSize(), m.pl)
	}
	var total int64
	if m.single {
		total = m.length.(int64)
		if tt.Files != nil {
			return "single-file torrent has a file list"
		}
	} else {
		if len(tt.Files) != len(m.files) {
			return fmt.Sprintf("%d files, want %d", len(tt.Files), len(m.files))
		}
		for i, f := range m.files {
			g := tt.Files[i]
			wp := f.path
			if f.path8 != nil {
				wp = f.path8
			}
			if g.Offset != total || g.Length != f.length || g.Padding != f.pad || strings.Join(g.Path, "\x00") != strings.Join(wp, "\x00") {
				return fmt.Sprintf("file %d = %+v, want offset %d length %d pad %v path %q", i, g, total, f.length, f.pad, wp)
			}
			total += f.length
		}
	}
	if tt.Pieces.Length() != total {
		return fmt.Sprintf("length %d, want %d", tt.Pieces.Length(), total)
	}
	for i, ph := range tt.PieceHashes {
		if !bytes.Equal(ph, m.pieces[i*20:i*20+20]) {
			return fmt.Sprintf("piece hash %d differs from the file", i)
		}
	}
	if a, b := fmt.Sprint(trackerURLs(tt)), fmt.Sprint(m.wantTrackers()); fmt.Sprint(nonEmptyTiers(trackerURLs(tt))) != fmt.Sprint(nonEmptyTiers(m.wantTrackers())) {
		return fmt.Sprintf("trackers %s, want %s", a, b)
	}
	if a, b := fmt.Sprint(webseedURLs(tt)), fmt.Sprint(m.wantSeeds()); a != b {
		return fmt.Sprintf("web seeds %s, want %s", a, b)
	}
	if tt.CreationDate != m.cdate {
		return fmt.Sprintf("creation date %d, want %d", tt.CreationDate, m.cdate)
	}
	return ""
}

func layoutClass(m *model) string {
	if m.single {
		return "single"
	}
	var pad, zero, nested bool
	for _, f := range m.files {
		pad = pad || f.pad
		zero = zero || f.length == 0
		nested = nested || len(f.path) > 1
	}
	return fmt.Sprintf("multi%d.pad%v.zero%v.nested%v", min(len(m.files), 4), pad, zero, nested)
}

func TestC13Valid(t *testing.T) {
	rapid.Check(t, func(t *rapid.T) {
		m := genValid(t)
		file, info := build(t, m)
		tt, err, pv := read(file)
		if pv != nil {
			t.Fatalf("ReadTorrent panicked on well-formed metainfo: %v\ninput %q", pv, trunc(file))
		}
		if err != nil {
			t.Fatalf("ReadTorrent rejected well-formed metainfo: %v\ninput %q", err, trunc(file))
		}
		if f := geometry(tt); f != "" {
			t.Fatalf("geometry: %s\ninput %q", f, trunc(file))
		}
		if f := checkAgainstModel(m, tt, info); f != "" {
			t.Fatalf("model: %s\ninput %q", f, trunc(file))
		}
		if f := roundTrip(tt); f != "" {
			t.Fatalf("round trip: %s\ninput %q", f, trunc(file))
		}
		labels := []string{"valid", "order:" + m.order}
		if m.order != "sorted" {
			labels = append(labels, "keys-unsorted")
		}
		if m.extraTop && m.order != "reversed" {
			labels = append(labels, "info-not-first")
		}
		lc := layoutClass(m)
		if strings.Contains(lc, "padtrue") {
			labels = append(labels, "multi-file-with-padding")
		}
		if len(tt.Trackers()) > 1 {
			labels = append(labels, "multi-tier")
		}
		if len(tt.Webseeds()) > 0 {
			labels = append(labels, "webseeds")
		}
		if tt.Pieces.Length() > 1<<32 {
			labels = append(labels, "length>4GiB")
		}
		stats.Case(fmt.Sprintf("valid/%s/%s/t%d/w%d/x%v%v/pl%d", lc, m.order, len(tt.Trackers()), len(tt.Webseeds()), m.extraTop, m.extraInfo, tt.Pieces.PieceSize()/chunk), true, labels...)
		if stats.WantSample("valid:" + lc) {
			stats.Sample("valid:"+lc, trunc(file))
		}
	})
}

func trunc(b []byte) string {
	if len(b) > 600 {
		return string(b[:600]) + fmt.Sprintf("…(%d bytes)", len(b))
	}
	return string(b)
}

// ---------------------------------------------------------------- degenerate

var degenerateClasses = []string{
	"pl-absent", "pl-0", "pl-1", "pl-16383", "pl-16385", "pl-2^32-16384", "pl-2^32", "pl-negative",
	"pieces-20k+1", "pieces-20k-1", "pieces-empty", "pieces-too-few", "pieces-too-many",
	"flen--1", "flen--2^40", "flen-2^62", "flen-2^63-1", "flen-sum-wraps", "flen-negative-cancels",
	"length-and-files", "neither-length-nor-files", "length-0", "length-negative", "zero-length-consistent", "all-files-empty-consistent", "length-small-negative-no-hashes",
	"path-empty-list", "path-missing", "name-absent", "name-empty", "files-empty-list",
}

func applyDegenerate(t *rapid.T, m *model, c string) {
	multi := func() {
		if m.single || len(m.files) == 0 {
			m.single, m.length, m.hasFiles = false, nil, true
			m.files = []mfile{{path: []string{"f0"}, length: 70000}, {path: []string{"d", "f1"}, length: 30000}}
		}
	}
	switch c {
	case "pl-absent":
		m.pl = nil
	case "pl-0":
		m.pl = int64(0)
	case "pl-1":
		m.pl = int64(1)
	case "pl-16383":
		m.pl = int64(16383)
	case "pl-16385":
		m.pl = int64(16385)
	case "pl-2^32-16384":
		m.pl = int64(1<<32 - 16384)
	case "pl-2^32":
		m.pl = int64(1 << 32)
	case "pl-negative":
		m.pl = int64(-16384)
	case "pieces-20k+1":
		m.pieces = append(m.pieces, 7)
	case "pieces-20k-1":
		if len(m.pieces) > 0 {
			m.pieces = m.pieces[:len(m.pieces)-1]
		}
	case "pieces-empty":
		m.pieces = []byte{}
	case "pieces-too-few":
		if len(m.pieces) >= 20 {
			m.pieces = m.pieces[:len(m.pieces)-20]
		}
	case "pieces-too-many":
		m.pieces = append(m.pieces, gen.Fill(5, 20*rapid.IntRange(1, 3).Draw(t, "surplus"))...)
	case "flen--1", "flen--2^40", "flen-2^62", "flen-2^63-1":
		multi()
		v := map[string]int64{"flen--1": -1, "flen--2^40": -(1 << 40), "flen-2^62": 1 << 62, "flen-2^63-1": 1<<63 - 1}[c]
		m.files[rapid.IntRange(0, len(m.files)-1).Draw(t, "which")].length = v
	case "flen-sum-wraps":
		multi()
		m.files = append([]mfile{{path: []string{"w0"}, length: 1<<63 - 1}, {path: []string{"w1"}, length: 1<<63 - 1}, {path: []string{"w2"}, length: 2}}, m.files...)
	case "flen-negative-cancels":
		multi()
		n := rapid.Int64Range(1, 50000).Draw(t, "neg")
		m.files = append(m.files, mfile{path: []string{"n0"}, length: -n}, mfile{path: []string{"n1"}, length: n})
	case "length-and-files":
		multi()
		m.length = int64(100000)
	case "neither-length-nor-files":
		m.single, m.length, m.hasFiles, m.files = false, nil, false, nil
	case "length-0":
		m.single, m.hasFiles, m.files = true, false, nil
		m.length = int64(0)
	case "zero-length-consistent":
		// an empty torrent that is consistent with itself: no bytes, no hashes
		m.single, m.hasFiles, m.files = true, false, nil
		m.length = int64(0)
		m.pieces = []byte{}
	case "all-files-empty-consistent":
		m.single, m.length, m.hasFiles = false, nil, true
		m.files = []mfile{{path: []string{"e0"}, length: 0}, {path: []string{"d", "e1"}, length: 0}}
		m.pieces = []byte{}
	case "length-small-negative-no-hashes":
		// a negative length that rounds to "no pieces at all"
		m.single, m.hasFiles, m.files = true, false, nil
		m.length = rapid.SampledFrom([]int64{-1, -100, -16383, -16384, -32766}).Draw(t, "neglen")
		m.pieces = []byte{}
	case "length-around-2^32-blocks":
		// 2^32 blocks of 16 KiB: where a 32-bit block count wraps
		m.single, m.hasFiles, m.files = true, false, nil
		m.pl = int64(1 << 31)
		total := int64(1)<<46 + rapid.SampledFrom([]int64{-16384, -16383, -1, 0, 1, 16384}).Draw(t, "around")
		m.length = total
		np := (total + 1<<31 - 1) >> 31
		m.pieces = gen.Fill(9, int(np)*20)
	case "length-negative":
		m.single, m.hasFiles, m.files = true, false, nil
		m.length = int64(-100000)
	case "path-empty-list":
		multi()
		m.files[0].path = []string{}
		m.files[0].path8 = nil
	case "path-missing":
		multi()
		m.files[0].noPath = true
		m.files[0].path8 = nil
	case "name-absent":
		m.hasName, m.name8 = false, ""
	case "name-empty":
		m.name, m.name8 = "", ""
	case "files-empty-list":
		m.single, m.length, m.hasFiles, m.files = false, nil, true, nil
	}
}

func TestC13Degenerate(t *testing.T) {
	rapid.Check(t, func(t *rapid.T) {
		m := genValid(t)
		n := rapid.IntRange(1, 2).Draw(t, "ndeg")
		var cls []string
		for i := 0; i < n; i++ {
			c := rapid.SampledFrom(degenerateClasses).Draw(t, "degenerate")
			if (c == "pl-0" || c == "pl-absent") && stats.Excl("c13-piece-length-0") {
				stats.Excluded("c13-piece-length-0")
				c = "pl-1"
			}
			applyDegenerate(t, m, c)
			cls = append(cls, c)
		}
		file, info := build(t, m)
		tt, err, pv := read(file)
		outcome := "error"
		if pv != nil {
			t.Fatalf("ReadTorrent panicked (%v): %v\ninput %q", cls, pv, trunc(file))
		}
		if err == nil {
			outcome = "accepted"
			if f := geometry(tt); f != "" {
				t.Fatalf("accepted degenerate metainfo %v with inconsistent geometry: %s\ninput %q", cls, f, trunc(file))
			}
			h := sha1.Sum(info)
			if !bytes.Equal(tt.Hash, h[:]) {
				t.Fatalf("info-hash is not the SHA-1 of the info dictionary in the file")
			}
			if f := roundTrip(tt); f != "" {
				t.Fatalf("round trip: %s\ninput %q", f, trunc(file))
			}
		}
		sort.Strings(cls)
		labels := []string{"outcome:" + outcome}
		for _, c := range cls {
			labels = append(labels, "deg:"+c)
		}
		stats.Case(fmt.Sprintf("deg/%v/%s/%s", cls, outcome, layoutClass(m)), true, labels...)
		if stats.WantSample("deg:" + cls[0]) {
			stats.Sample("deg:"+cls[0], map[string]any{"classes": cls, "outcome": outcome, "input": trunc(file)})
		}
	})
}

// ---------------------------------------------------------------- bytes

func checkBytes(b []byte) string {
	tt, err, pv := read(b)
	if pv != nil {
		return fmt.Sprintf("ReadTorrent panicked: %v", pv)
	}
	if err == nil {
		if tt == nil {
			return "ReadTorrent returned neither a torrent nor an error"
		}
		if f := geometry(tt); f != "" {
			return "geometry: " + f
		}
		if f := roundTrip(tt); f != "" {
			return "round trip: " + f
		}
	}
	return ""
}

func TestC13Bytes(t *testing.T) {
	rapid.Check(t, func(t *rapid.T) {
		var b []byte
		mode := rapid.SampledFrom([]string{"random", "mutated-valid", "mutated-valid", "grammar"}).Draw(t, "mode")
		switch mode {
		case "random":
			b = rapid.SliceOfN(rapid.Byte(), 0, 200).Draw(t, "bytes")
		case "mutated-valid":
			m := genValid(t)
			b, _ = build(t, m)
			nm := rapid.IntRange(1, 4).Draw(t, "nmut")
			for i := 0; i < nm && len(b) > 0; i++ {
				at := rapid.IntRange(0, len(b)-1).Draw(t, "at")
				switch rapid.IntRange(0, 3).Draw(t, "op") {
				case 0:
					b[at] = rapid.Byte().Draw(t, "byte")
				case 1:
					b = append(b[:at], b[at+1:]...)
				case 2:
					b = append(b[:at], append([]byte{rapid.SampledFrom([]byte("0123456789:deli-")).Draw(t, "ins")}, b[at:]...)...)
				case 3:
					b = b[:at]
				}
			}
		case "grammar":
			// nested containers around an info key, depth capped (third-party finding)
			depth := rapid.SampledFrom([]int{1, 10, 1000, 10000}).Draw(t, "depth")
			open := rapid.SampledFrom([]string{"l", "d1:a", "d4:info"}).Draw(t, "open")
			b = []byte("d4:info" + strings.Repeat(open, depth))
			if rapid.Bool().Draw(t, "close") {
				b = append(b, strings.Repeat("e", depth+1)...)
			}
		}
		if stats.Excl("c13-bencode-string-alloc") && hugeString(b) {
			stats.Excluded("c13-bencode-string-alloc")
			return
		}
		if f := checkBytes(b); f != "" {
			t.Fatalf("%s\ninput %q", f, trunc(b))
		}
		_, err, _ := read(b)
		stats.Case(fmt.Sprintf("bytes/%s/%v/%d", mode, err == nil, len(b)/64), mode != "random", "bytes:"+mode, fmt.Sprintf("bytes-accepted:%v", err == nil))
	})
}

// ---------------------------------------------------------------- magnets

func TestC13Magnets(t *testing.T) {
	rapid.Check(t, func(t *rapid.T) {
		h := rapid.SliceOfN(rapid.Byte(), 20, 20).Draw(t, "hash")
		enc := rapid.SampledFrom([]string{"hex", "HEX", "base32", "bare-hex", "bare-base32"}).Draw(t, "enc")
		var hs string
		switch enc {
		case "hex", "bare-hex":
			hs = hex.EncodeToString(h)
		case "HEX":
			hs = strings.ToUpper(hex.EncodeToString(h))
		default:
			hs = base32.StdEncoding.EncodeToString(h)
		}
		var link string
		var wantTr, wantWs []string
		dn := ""
		if strings.HasPrefix(enc, "bare") {
			link = hs
		} else {
			q := []string{}
			// decoy xt before/after
			if rapid.IntRange(0, 3).Draw(t, "decoy") == 0 {
				q = append(q, "xt=urn:sha1:ABCDEF", "xt=urn:btih:tooshort")
			}
			if rapid.IntRange(0, 3).Draw(t, "shortXt") == 0 {
				// xt values shorter than, as long as, and a case variant of the prefix
				q = append(q, "xt="+rapid.SampledFrom([]string{"", "u", "urn", "urn:btih", "urn:sha1", "urn:btih:", "URN:BTIH", "Urn:Btih:", "urn%3Abtih", "%75"}).Draw(t, "xtShort"))
			}
			q = append(q, "xt=urn:btih:"+hs)
			for i, n := 0, rapid.IntRange(0, 3).Draw(t, "ntr"); i < n; i++ {
				u := rapid.SampledFrom(trackerSchemes[:6]).Draw(t, "tr")
				q = append(q, "tr="+nurl.QueryEscape(u))
				if parseable(u) {
					wantTr = append(wantTr, u)
				}
			}
			var as, ws []string
			for i, n := 0, rapid.IntRange(0, 2).Draw(t, "nws"); i < n; i++ {
				u := rapid.SampledFrom(seedURLs[:6]).Draw(t, "ws")
				key := rapid.SampledFrom([]string{"ws", "as"}).Draw(t, "wskey")
				q = append(q, key+"="+nurl.QueryEscape(u))
				if httpScheme(u) {
					if key == "as" {
						as = append(as, "gr "+u)
					} else {
						ws = append(ws, "gr "+u)
					}
				}
			}
			wantWs = append(as, ws...)
			if rapid.Bool().Draw(t, "dn?") {
				dn = genName(t, "dn")
				q = append(q, "dn="+nurl.QueryEscape(dn))
			}
			if rapid.Bool().Draw(t, "junk") {
				q = append(q, "x.pe=1.2.3.4:5", "kt=a+b", "=")
			}
			if rapid.Bool().Draw(t, "shuffle") {
				q = rapid.Permutation(q).Draw(t, "qperm")
				// dn: first wins; keep expectations order-independent for single values only
				var trs, ass, wss []string
				for _, kv := range q {
					k, v, _ := strings.Cut(kv, "=")
					u, _ := nurl.QueryUnescape(v)
					switch k {
					case "tr":
						if parseable(u) {
							trs = append(trs, u)
						}
					case "as":
						if httpScheme(u) {
							ass = append(ass, "gr "+u)
						}
					case "ws":
						if httpScheme(u) {
							wss = append(wss, "gr "+u)
						}
					}
				}
				wantTr, wantWs = trs, append(ass, wss...)
			}
			link = "magnet:?" + strings.Join(q, "&")
		}
		var tt *tor.Torrent
		var err error
		var pv any
		func() {
			defer func() { pv = recover() }()
			tt, err = tor.ReadMagnet("", link)
		}()
		if pv != nil {
			t.Fatalf("ReadMagnet(%q) panicked: %v", link, pv)
		}
		if err != nil || tt == nil {
			t.Fatalf("ReadMagnet(%q) = %v, %v; want a torrent", link, tt, err)
		}
		if !bytes.Equal(tt.Hash, h) {
			t.Fatalf("ReadMagnet(%q): hash %x, want %x", link, tt.Hash, h)
		}
		var gotTr []string
		for _, tier := range tt.Trackers() {
			if len(tier) != 1 {
				t.Fatalf("magnet tracker tier of size %d", len(tier))
			}
			gotTr = append(gotTr, tier[0].URL())
		}
		if fmt.Sprint(gotTr) != fmt.Sprint(wantTr) {
			t.Fatalf("ReadMagnet(%q): trackers %q, want %q", link, gotTr, wantTr)
		}
		if a, b := fmt.Sprint(webseedURLs(tt)), fmt.Sprint(wantWs); a != b {
			t.Fatalf("ReadMagnet(%q): web seeds %s, want %s", link, a, b)
		}
		if tt.Name != dn {
			t.Fatalf("ReadMagnet(%q): name %q, want %q", link, tt.Name, dn)
		}
		if tt.InfoComplete() {
			t.Fatalf("magnet torrent claims complete metadata")
		}
		stats.Case(fmt.Sprintf("magnet/%s/t%d/w%d/%v", enc, len(wantTr), len(wantWs), dn != ""), true, "magnet:"+enc)
		if stats.WantSample("magnet:" + enc) {
			stats.Sample("magnet:"+enc, link)
		}
	})
}

func TestC13MagnetJunk(t *testing.T) {
	rapid.Check(t, func(t *rapid.T) {
		s := rapid.OneOf(
			// near-miss hashes: base-32 of 15..19 bytes (32 characters with '=' padding), hex of odd sizes, line breaks inside
			rapid.Custom(func(t *rapid.T) string {
				k := rapid.IntRange(10, 24).Draw(t, "nbytes")
				raw := rapid.SliceOfN(rapid.Byte(), k, k).Draw(t, "raw")
				var h string
				switch rapid.IntRange(0, 3).Draw(t, "enc") {
				case 0:
					h = base32.StdEncoding.EncodeToString(raw)
				case 1:
					h = hex.EncodeToString(raw)
				case 2:
					h = base32.StdEncoding.EncodeToString(raw)
					if len(h) > 4 {
						h = h[:len(h)/2] + "%0A" + h[len(h)/2:]
					}
				default:
					h = strings.ToLower(base32.StdEncoding.EncodeToString(raw))
				}
				if rapid.Bool().Draw(t, "bare") {
					return h
				}
				return "magnet:?xt=urn:btih:" + h + rapid.SampledFrom([]string{"", "&xt=urn:btih:" + strings.Repeat("ab", 20), "&dn=x"}).Draw(t, "tail")
			}),
			rapid.String(),
			rapid.StringMatching(`magnet:\?(xt=urn:btih:[0-9a-fA-Z]{0,41}&?|tr=[a-z:/%.]{0,12}&?|dn=.{0,5}&?|[a-z]{1,3}=%[0-9a-z]{0,2}&?){0,5}`),
			rapid.StringMatching(`(http|magnet|MAGNET|urn):[a-z?=&:%/]{0,30}`),
			rapid.StringMatching(`magnet:\?(xt=(u|ur|urn|urn:|urn:b|urn:bt|urn:bti|urn:btih|urn:btih:|URN:BTIH:|urn:sha1)?[0-9a-f]{0,3}&?){1,3}`),
		).Draw(t, "s")
		var tt *tor.Torrent
		var err error
		var pv any
		func() {
			defer func() { pv = recover() }()
			tt, err = tor.ReadMagnet("", s)
		}()
		if pv != nil {
			t.Fatalf("ReadMagnet(%q) panicked: %v", s, pv)
		}
		out := "nil"
		if err != nil {
			out = "error"
			if tt != nil {
				t.Fatalf("ReadMagnet(%q) returned both a torrent and an error", s)
			}
		} else if tt != nil {
			out = "torrent"
			if len(tt.Hash) != 20 {
				t.Fatalf("ReadMagnet(%q) returned a torrent with a %d-byte hash", s, len(tt.Hash))
			}
			flat := strings.NewReplacer("%0A", "", "%0a", "", "\n", "", "\r", "").Replace(s) // base-32 decoding ignores line breaks
			if !strings.Contains(strings.ToLower(flat), strings.ToLower(hex.EncodeToString(tt.Hash))) &&
				!strings.Contains(flat, base32.StdEncoding.EncodeToString(tt.Hash)) {
				t.Fatalf("ReadMagnet(%q) invented hash %x", s, tt.Hash)
			}
		}
		stats.Case("junk/"+out, false, "magnet-junk:"+out)
	})
}

// ---------------------------------------------------------------- regressions

func regress(t *testing.T, m *model) {
	t.Helper()
	file, _ := buildPlain(m)
	tt, err, pv := read(file)
	if pv != nil {
		t.Fatalf("ReadTorrent panicked: %v\ninput %q", pv, trunc(file))
	}
	if err == nil {
		if f := geometry(tt); f != "" {
			t.Fatalf("geometry: %s\ninput %q", f, trunc(file))
		}
	}
}

func buildPlain(m *model) ([]byte, []byte) {
	m.order = "sorted"
	return build(nil, m)
}

func baseModel() *model {
	return &model{hasName: true, name: "n", pl: int64(16384), single: true, length: int64(20000), pieces: gen.Fill(1, 40)}
}

func TestReg_c13_piece_length_0(t *testing.T) {
	m := baseModel()
	m.pl = int64(0)
	regress(t, m)
	m = baseModel()
	m.pl = nil
	regress(t, m)
}

func TestReg_c13_hash_count(t *testing.T) {
	m := baseModel()
	m.pieces = gen.Fill(1, 60)
	regress(t, m)
	m = baseModel()
	m.pieces = gen.Fill(1, 20)
	regress(t, m)
}

func TestReg_c13_file_lengths(t *testing.T) {
	m := baseModel()
	m.single, m.length, m.hasFiles = false, nil, true
	m.files = []mfile{{path: []string{"a"}, length: 100000}, {path: []string{"b"}, length: -50000}, {path: []string{"c"}, length: 30000}}
	m.pieces = gen.Fill(1, 20*5)
	regress(t, m)
	m.files = []mfile{{path: []string{"a"}, length: 1<<63 - 1}, {path: []string{"b"}, length: 1<<63 - 1}, {path: []string{"c"}, length: 102}}
	m.pieces = gen.Fill(1, 20)
	regress(t, m)
}

// third-party: unbounded recursion in zeebo/bencode ends the process.
func childDeep() {
	n := 3_000_000
	b := []byte("d4:info" + strings.Repeat("l", n))
	_, err := tor.ReadTorrent("", bytes.NewReader(b))
	fmt.Println("child survived:", err)
	os.Exit(0)
}

func TestReg_c13_bencode_stack(t *testing.T) {
	cmd := exec.Command(os.Args[0], "-test.run", "^$")
	cmd.Env = append(os.Environ(), "VERIF_C13_CHILD=1", "VERIF_STATS_OUT=")
	out, err := cmd.CombinedOutput()
	if err != nil {
		s := string(out)
		if i := strings.Index(s, "\n\n"); i > 0 {
			s = s[:i]
		}
		t.Fatalf("ReadTorrent on 'd4:info' + 3*10^6 x 'l' ended the process: %v\n%s", err, trunc([]byte(s)))
	}
}

// third-party: zeebo/bencode allocates the declared length of a string before
// reading it.  With 1 GiB of address space (a small device, a container) the
// 40-byte file below ends the process.
const allocInput = "d4:infod4:name2147483647:abce"

func childAlloc() {
	lim := syscall.Rlimit{Cur: 1 << 30, Max: 1 << 30}
	if err := syscall.Setrlimit(syscall.RLIMIT_AS, &lim); err != nil {
		fmt.Println("child: setrlimit:", err)
		os.Exit(0)
	}
	_, err := tor.ReadTorrent("", bytes.NewReader([]byte(allocInput)))
	fmt.Println("child survived:", err)
	os.Exit(0)
}

func TestReg_c13_bencode_string_alloc(t *testing.T) {
	cmd := exec.Command(os.Args[0], "-test.run", "^$")
	cmd.Env = append(os.Environ(), "VERIF_C13_CHILD=alloc", "VERIF_STATS_OUT=")
	out, err := cmd.CombinedOutput()
	if err != nil {
		s := string(out)
		if i := strings.Index(s, "\n\n"); i > 0 {
			s = s[:i]
		}
		t.Fatalf("ReadTorrent on %q with 1 GiB of address space ended the process: %v\n%s", allocInput, err, trunc([]byte(s)))
	}
}

// hugeString reports whether b contains a decimal number of 7 digits or more
// followed by a colon: a bencoded string header declaring a length no input
// of this size can honour (inputs are capped at 256 KiB).
func hugeString(b []byte) bool {
	run := 0
	for _, c := range b {
		switch {
		case c >= '0' && c <= '9':
			run++
		case c == ':' && run >= 7:
			return true
		default:
			run = 0
		}
	}
	return false
}

// ---------------------------------------------------------------- native fuzz

func FuzzReadTorrent(f *testing.F) {
	for i := 0; i < 6; i++ {
		m := baseModel()
		switch i {
		case 1:
			m.single, m.length, m.hasFiles = false, nil, true
			m.files = []mfile{{path: []string{"a"}, length: 10000}, {path: []string{"d", "b"}, length: 10000, pad: true}}
		case 2:
			m.announce = "http://t/a"
			m.urlList = []string{"http://w/"}
		case 3:
			m.hasAL = true
			m.announceList = [][]string{{"udp://a:1"}, {"http://b/"}}
		case 4:
			m.pl = int64(32768)
			m.pieces = gen.Fill(1, 20)
		case 5:
			m.extraTop, m.extraInfo = true, true
		}
		b, _ := buildPlain(m)
		f.Add(b)
	}
	f.Add([]byte("d4:infod6:lengthi1e4:name1:a12:piece lengthi0e6:pieces0:ee"))
	f.Add([]byte("d4:infod5:filesld6:lengthi-1e4:pathl1:aeee4:name1:a12:piece lengthi16384e6:pieces20:aaaaaaaaaaaaaaaaaaaaee"))
	f.Add([]byte("d4:infod6:lengthi9223372036854775807e4:name1:a12:piece lengthi4294950912e6:pieces0:ee"))
	f.Fuzz(func(t *testing.T, b []byte) {
		if len(b) > 256<<10 {
			return
		}
		if stats.Excl("c13-piece-length-0") && (bytes.Contains(b, []byte("12:piece lengthi0e")) || !bytes.Contains(b, []byte("12:piece length"))) {
			return
		}
		if stats.Excl("c13-bencode-string-alloc") && hugeString(b) {
			stats.Excluded("c13-bencode-string-alloc")
			return
		}
		if f := checkBytes(b); f != "" {
			t.Fatalf("%s", f)
		}
		stats.Case("fuzz", false)
	})
}

// magnetCandidates is the independent reading of a magnet link: the values of
// its xt parameters after "urn:btih:" (and the string itself, which may be a
// bare hash), each decoded as 40 hex digits or 32 base-32 characters.
func magnetCandidates(s string) [][]byte {
	var texts []string
	texts = append(texts, s)
	if i := strings.IndexByte(s, '?'); i >= 0 && len(s) >= 7 && strings.EqualFold(s[:7], "magnet:") {
		q := s[i+1:]
		if j := strings.IndexByte(q, '#'); j >= 0 {
			q = q[:j]
		}
		for _, kv := range strings.FieldsFunc(q, func(r rune) bool { return r == '&' || r == ';' }) {
			k, v, _ := strings.Cut(kv, "=")
			ku, e1 := nurl.QueryUnescape(k)
			vu, e2 := nurl.QueryUnescape(v)
			if e1 != nil || e2 != nil || ku != "xt" {
				continue
			}
			if rest, ok := strings.CutPrefix(vu, "urn:btih:"); ok {
				texts = append(texts, rest)
			}
		}
	}
	var out [][]byte
	for _, c := range texts {
		if h, err := hex.DecodeString(c); err == nil && len(h) == 20 {
			out = append(out, h)
		}
		flat := strings.NewReplacer("\n", "", "\r", "").Replace(c) // base-32 decoding skips line breaks
		if h, err := base32.StdEncoding.DecodeString(flat); err == nil && len(h) == 20 {
			out = append(out, h)
		}
	}
	return out
}

func magnetHasKey(s, key string) bool {
	_, q, _ := strings.Cut(s, "?")
	for _, kv := range strings.FieldsFunc(q, func(r rune) bool { return r == '&' || r == ';' || r == '#' }) {
		k, _, _ := strings.Cut(kv, "=")
		if ku, err := nurl.QueryUnescape(k); err == nil && ku == key {
			return true
		}
	}
	return false
}

func FuzzReadMagnet(f *testing.F) {
	hx := strings.Repeat("ab", 20)
	b32 := base32.StdEncoding.EncodeToString(gen.Fill(3, 20))
	f.Add(hx)
	f.Add(b32)
	f.Add("magnet:?xt=urn:btih:" + hx)
	f.Add("magnet:?xt=urn:btih:" + b32 + "&dn=a+b&tr=http%3A%2F%2Ft%2Fa&ws=http%3A%2F%2Fw%2F&as=http://x/")
	f.Add("magnet:?xt=urn:sha1:AB&xt=urn:btih:short&xt=urn:btih:" + strings.ToUpper(hx) + "&x.pe=1.2.3.4:5")
	f.Add("MAGNET:?xt=urn:btih:" + hx)
	f.Add("magnet:?xt=urn:btih:%61%62" + hx[4:])
	f.Add("magnet:?xt=urn:btih:" + b32[:16] + "%0A" + b32[16:])
	f.Add("magnet:?dn=%zz&xt=urn:btih:" + hx)
	f.Add("http://example.com/?xt=urn:btih:" + hx)
	f.Add("magnet:?xt=")
	f.Add("magnet:?xt=urn:btih")
	f.Add("magnet:?xt=urn:sha1&xt=URN:BTIH:" + hx + "&xt=urn:btih:" + hx)
	f.Fuzz(func(t *testing.T, s string) {
		if len(s) > 64<<10 {
			return
		}
		var tt *tor.Torrent
		var err error
		var pv any
		func() {
			defer func() { pv = recover() }()
			tt, err = tor.ReadMagnet("", s)
		}()
		if pv != nil {
			t.Fatalf("ReadMagnet(%q) panicked: %v", s, pv)
		}
		if err != nil && tt != nil {
			t.Fatalf("ReadMagnet(%q) returned both a torrent and an error", s)
		}
		if tt != nil {
			if len(tt.Hash) != 20 {
				t.Fatalf("ReadMagnet(%q) returned a torrent with a %d-byte hash", s, len(tt.Hash))
			}
			ok := false
			for _, c := range magnetCandidates(s) {
				ok = ok || bytes.Equal(c, tt.Hash)
			}
			if !ok {
				t.Fatalf("ReadMagnet(%q): info-hash %s is not what any xt=urn:btih: value (or the string itself) spells", s, hex.EncodeToString(tt.Hash))
			}
			if tt.InfoComplete() {
				t.Fatalf("ReadMagnet(%q): magnet torrent claims complete metadata", s)
			}
			for _, tier := range tt.Trackers() {
				for _, tr := range tier {
					if !magnetHasKey(s, "tr") {
						t.Fatalf("ReadMagnet(%q): tracker %q from a link without tr=", s, tr.URL())
					}
				}
			}
			for _, w := range webseedURLs(tt) {
				if !magnetHasKey(s, "ws") && !magnetHasKey(s, "as") {
					t.Fatalf("ReadMagnet(%q): web seed %q from a link without ws= / as=", s, w)
				}
			}
		}
		stats.Case("fuzz-magnet", false)
	})
}

// The boundary at 2^32 blocks of 16 KiB (64 TiB), where a 32-bit block count
// wraps: whatever is accepted there has a self-consistent geometry (exactly
// 2^32-1 blocks is left out: it is accepted, and its bookkeeping takes 4 GiB).  (Six
// totals; the metainfo needs 650 KB of piece hashes, too heavy for the
// generative test.)
func TestC13BlockCountBoundary(t *testing.T) {
	for _, around := range []int64{-16383, -8192, -1, 0, 1, 16384} {
		m := baseModel()
		m.pl = int64(1 << 31)
		total := int64(1)<<46 + around
		m.length = total
		np := (total + 1<<31 - 1) >> 31
		m.pieces = gen.Fill(9, int(np)*20)
		file, _ := buildPlain(m)
		tt, err, pv := read(file)
		if pv != nil {
			t.Fatalf("total length 2^46%+d: ReadTorrent panicked: %v", around, pv)
		}
		out := "rejected"
		if err == nil {
			out = "accepted"
			if f := geometry(tt); f != "" {
				t.Fatalf("total length 2^46%+d (2^32 blocks%+d bytes) accepted with inconsistent geometry: %s", around, around, f)
			}
		}
		stats.Case(fmt.Sprintf("block-boundary/%d/%s", around, out), true, "block-count-boundary:"+out)
	}
	stats.Exhaustive("total lengths around 2^32 blocks")
}
