package c15

// Scripted loopback servers (engine E5): a raw HTTP/1.1 server and a UDP
// socket per address family, long-lived for the process; every announce step
// of a case installs its own script.

import (
	"bufio"
	"encoding/binary"
	"fmt"
	"net"
	"net/http"
	"sync"
	"time"
)

// ------------------------------------------------------------------ HTTP

type httpAnswer struct {
	status int
	body   []byte
	// cutAt >= 0: close the connection after that many bytes of the raw
	// response (status line and headers included)
	cutAt int
	// chunked transfer encoding instead of Content-Length
	chunked bool
	// delay before anything is sent back (the announce is in flight meanwhile)
	delay time.Duration
}

func (a *httpAnswer) raw() []byte {
	var b []byte
	b = fmt.Appendf(b, "HTTP/1.1 %d %s\r\nContent-Type: text/plain\r\nConnection: close\r\n", a.status, http.StatusText(a.status))
	if a.chunked {
		b = append(b, "Transfer-Encoding: chunked\r\n\r\n"...)
		body := a.body
		for len(body) > 0 {
			n := min(len(body), 1000)
			b = fmt.Appendf(b, "%x\r\n", n)
			b = append(b, body[:n]...)
			b = append(b, "\r\n"...)
			body = body[n:]
		}
		b = append(b, "0\r\n\r\n"...)
	} else {
		b = fmt.Appendf(b, "Content-Length: %d\r\n\r\n", len(a.body))
		b = append(b, a.body...)
	}
	if a.cutAt >= 0 && a.cutAt < len(b) {
		b = b[:a.cutAt]
	}
	return b
}

type httpServer struct {
	ln     net.Listener
	host   string // host:port as it goes into a URL
	mu     sync.Mutex
	answer *httpAnswer
	reqs   []string // request targets seen since the last script()
	hdrs   []http.Header
}

func newHTTPServer(network, addr string) (*httpServer, error) {
	ln, err := net.Listen(network, addr)
	if err != nil {
		return nil, err
	}
	s := &httpServer{ln: ln, host: ln.Addr().String()}
	go func() {
		for {
			c, err := ln.Accept()
			if err != nil {
				return
			}
			go s.serve(c)
		}
	}()
	return s, nil
}

func (s *httpServer) serve(c net.Conn) {
	defer c.Close()
	c.SetDeadline(time.Now().Add(60 * time.Second))
	req, err := http.ReadRequest(bufio.NewReader(c))
	if err != nil {
		return
	}
	s.mu.Lock()
	s.reqs = append(s.reqs, req.RequestURI)
	s.hdrs = append(s.hdrs, req.Header.Clone())
	a := s.answer
	s.mu.Unlock()
	if a == nil {
		a = &httpAnswer{status: 500, cutAt: -1}
	}
	if a.delay > 0 {
		time.Sleep(a.delay)
	}
	c.Write(a.raw())
}

func (s *httpServer) script(a *httpAnswer) {
	s.mu.Lock()
	s.answer = a
	s.reqs = nil
	s.hdrs = nil
	s.mu.Unlock()
}

func (s *httpServer) headers() []http.Header {
	s.mu.Lock()
	defer s.mu.Unlock()
	return append([]http.Header(nil), s.hdrs...)
}

func (s *httpServer) requests() []string {
	s.mu.Lock()
	defer s.mu.Unlock()
	return append([]string(nil), s.reqs...)
}

// ------------------------------------------------------------------ UDP

const udpMagic = 0x41727101980

type udpRequest struct {
	src    string
	kind   string // connect | announce | other
	tid    uint32
	cid    uint64
	length int
}

func (r udpRequest) String() string {
	return fmt.Sprintf("%s(tid=%08x,%dB)", r.kind, r.tid, r.length)
}

// a udpScript decides, for the k-th request of the current step, which
// datagrams go back (each is sent immediately, in order).
type udpScript func(k int, r udpRequest) [][]byte

type udpServer struct {
	pc     net.PacketConn
	host   string
	mu     sync.Mutex
	script udpScript
	reqs   []udpRequest
	sent   []sentDatagram
}

type sentDatagram struct {
	to   udpRequest // the request it answers
	data []byte
}

func newUDPServer(network, addr string) (*udpServer, error) {
	pc, err := net.ListenPacket(network, addr)
	if err != nil {
		return nil, err
	}
	s := &udpServer{pc: pc, host: pc.LocalAddr().String()}
	go func() {
		buf := make([]byte, 65536)
		for {
			n, src, err := pc.ReadFrom(buf)
			if err != nil {
				return
			}
			if string(buf[:n]) == flushMagic {
				pc.WriteTo(buf[:n], src)
				continue
			}
			r := udpRequest{src: src.String(), kind: "other", length: n}
			if n >= 16 {
				r.cid = binary.BigEndian.Uint64(buf[0:8])
				action := binary.BigEndian.Uint32(buf[8:12])
				r.tid = binary.BigEndian.Uint32(buf[12:16])
				switch {
				case action == 0 && r.cid == udpMagic && n == 16:
					r.kind = "connect"
				case action == 1 && n == 98:
					r.kind = "announce"
				}
			}
			s.mu.Lock()
			k := len(s.reqs)
			s.reqs = append(s.reqs, r)
			sc := s.script
			var out [][]byte
			if sc != nil {
				out = sc(k, r)
			}
			for _, d := range out {
				s.sent = append(s.sent, sentDatagram{r, d})
			}
			s.mu.Unlock()
			for _, d := range out {
				pc.WriteTo(d, src)
			}
		}
	}()
	return s, nil
}

const flushMagic = "VERIF-FLUSH"

// flush returns once the server has processed every datagram that was sent
// to it before the call (one socket, one goroutine: arrival order).
func (s *udpServer) flush() bool {
	c, err := net.Dial(s.pc.LocalAddr().Network(), s.host)
	if err != nil {
		return false
	}
	defer c.Close()
	buf := make([]byte, 64)
	for try := 0; try < 5; try++ {
		c.SetDeadline(time.Now().Add(4 * time.Second))
		if _, err := c.Write([]byte(flushMagic)); err != nil {
			continue
		}
		if n, err := c.Read(buf); err == nil && string(buf[:n]) == flushMagic {
			return true
		}
	}
	return false
}

func (s *udpServer) install(sc udpScript) {
	s.mu.Lock()
	s.script = sc
	s.reqs = nil
	s.sent = nil
	s.mu.Unlock()
}

func (s *udpServer) seen() ([]udpRequest, []sentDatagram) {
	s.mu.Lock()
	defer s.mu.Unlock()
	return append([]udpRequest(nil), s.reqs...), append([]sentDatagram(nil), s.sent...)
}

// ------------------------------------------------------------------ set-up

type servers struct {
	http4, http6 *httpServer
	udp4, udp6   *udpServer
}

var srvOnce sync.Once
var srv servers
var srvErr error

func getServers() (*servers, error) {
	srvOnce.Do(func() {
		if srv.http4, srvErr = newHTTPServer("tcp4", "127.0.0.1:0"); srvErr != nil {
			return
		}
		if srv.http6, srvErr = newHTTPServer("tcp6", "[::1]:0"); srvErr != nil {
			return
		}
		if srv.udp4, srvErr = newUDPServer("udp4", "127.0.0.1:0"); srvErr != nil {
			return
		}
		srv.udp6, srvErr = newUDPServer("udp6", "[::1]:0")
	})
	return &srv, srvErr
}
