package c15

// Reply models (what a tracker encodes) and the independent decoders that say
// which peers a reply encodes.  Nothing here uses storrent or the bencode
// library it links.

import (
	"encoding/binary"
	"fmt"
	"math/big"
	"net/netip"
	"strconv"
	"strings"

	"pgregory.net/rapid"

	"verif/gen"
	"verif/ref"
	"verif/stats"
)

// ------------------------------------------------------------------ HTTP model

type hModel struct {
	form       string           // compact | dict | absent
	peers      []netip.AddrPort // compact: IPv4 only
	withPeerID bool
	peers6     []netip.AddrPort // nil: key absent
	hasPeers6  bool
	interval   any // nil (absent) | int64 | *big.Int
	hasFailure bool
	failure    string
	retry      string // "" absent
	extras     bool
}

func (m *hModel) String() string {
	return fmt.Sprintf("{form=%s peers=%v peers6=%v(present=%v) interval=%v failure=%v(%q) retry=%q extras=%v}",
		m.form, m.peers, m.peers6, m.hasPeers6, m.interval, m.hasFailure, m.failure, m.retry, m.extras)
}

func genAddrPort(t *rapid.T, v6 bool) netip.AddrPort {
	var a netip.Addr
	if v6 {
		a = gen.Addr6(t, "a6")
	} else {
		a = gen.Addr4(t, "a4")
	}
	port := rapid.OneOf(rapid.Uint16(), rapid.SampledFrom([]uint16{0, 1, 80, 6881, 65535})).Draw(t, "port")
	return netip.AddrPortFrom(a, port)
}

var intervalChoices = []any{nil, int64(-1), int64(0), int64(59), int64(60), int64(61), int64(299), int64(300), int64(301), int64(900), int64(1800), int64(3600), int64(86400),
	int64(1) << 31, int64(1) << 32, int64(9223372036), int64(9223372037), int64(1) << 62, new(big.Int).Exp(big.NewInt(10), big.NewInt(19), nil)}

func genHModel(t *rapid.T) *hModel {
	m := &hModel{}
	m.form = rapid.SampledFrom([]string{"compact", "compact", "compact", "dict", "dict", "absent"}).Draw(t, "form")
	n := rapid.SampledFrom([]int{0, 1, 1, 2, 3, 5, 50}).Draw(t, "npeers")
	for i := 0; i < n && m.form != "absent"; i++ {
		v6 := m.form == "dict" && rapid.IntRange(0, 2).Draw(t, "dict6") == 0
		m.peers = append(m.peers, genAddrPort(t, v6))
	}
	m.withPeerID = rapid.Bool().Draw(t, "peerid")
	if rapid.IntRange(0, 2).Draw(t, "has6") == 0 {
		m.hasPeers6 = true
		n6 := rapid.SampledFrom([]int{0, 1, 2, 7}).Draw(t, "npeers6")
		for i := 0; i < n6; i++ {
			m.peers6 = append(m.peers6, genAddrPort(t, true))
		}
	}
	m.interval = rapid.SampledFrom(intervalChoices).Draw(t, "interval")
	if rapid.IntRange(0, 4).Draw(t, "failure") == 0 {
		m.hasFailure = true
		m.failure = rapid.SampledFrom([]string{"torrent not registered", "x", "unregistered torrent; please stop", "<b>no</b>"}).Draw(t, "reason")
		m.retry = rapid.SampledFrom([]string{"", "never", "never", "5", "0", "x", "20", "600", "-3", "153722867", "153722868", "99999999999999999999"}).Draw(t, "retry")
	}
	m.extras = rapid.Bool().Draw(t, "extras")
	return m
}

func compact(peers []netip.AddrPort) []byte {
	var b []byte
	for _, p := range peers {
		b = append(b, p.Addr().AsSlice()...)
		b = binary.BigEndian.AppendUint16(b, p.Port())
	}
	if b == nil {
		b = []byte{}
	}
	return b
}

// dict returns the reply as a value for the independent bencoder.
func (m *hModel) dict() map[string]any {
	d := map[string]any{}
	switch m.form {
	case "compact":
		d["peers"] = compact(m.peers)
	case "dict":
		l := []any{}
		for i, p := range m.peers {
			e := map[string]any{"ip": p.Addr().String(), "port": int64(p.Port())}
			if m.withPeerID {
				e["peer id"] = gen.Fill(uint64(i)+99, 20)
			}
			l = append(l, e)
		}
		d["peers"] = l
	}
	if m.hasPeers6 {
		d["peers6"] = compact(m.peers6)
	}
	if m.interval != nil {
		d["interval"] = m.interval
	}
	if m.hasFailure {
		d["failure reason"] = m.failure
		if m.retry != "" {
			d["retry in"] = m.retry
		}
	}
	if m.extras {
		d["complete"] = int64(12)
		d["incomplete"] = int64(3)
		d["min interval"] = int64(30)
		d["tracker id"] = "abc"
		d["warning message"] = "be nice"
		d["zz"] = []any{int64(1), "x", map[string]any{"k": []any{}}}
	}
	return d
}

func (m *hModel) body() []byte { return ref.Benc(m.dict()) }

// encoded returns the peers the reply encodes, IPv4 list first.
func (m *hModel) encoded() []netip.AddrPort {
	return append(append([]netip.AddrPort{}, m.peers...), m.peers6...)
}

// intervalBound is the gap the property demands after an attempt answered by
// this (intact) reply: the larger of five minutes and the announced interval
// when that is in (60 s, 2^63 ns]; five minutes otherwise.
func (m *hModel) intervalBound() (bound int64 /* seconds */, absurd bool) {
	const floor = 300
	if _, ok := m.interval.(*big.Int); ok {
		// no 64-bit decoder can hold it: the reply may be refused as a whole
		return floor, true
	}
	if m.hasFailure {
		// BEP 31 "retry in": minutes
		if m.retry == "" {
			return floor, false
		}
		if n, err := strconv.ParseInt(m.retry, 10, 64); err == nil && n > 1 && n <= 153722867 {
			return max(floor, n*60), false
		}
		return floor, m.retry != "0" && m.retry != "1"
	}
	if v, ok := m.interval.(int64); ok {
		if v > 60 && v <= 9223372036 {
			return max(floor, v), false
		}
		return floor, v < 0 || v > 9223372036
	}
	return floor, false
}

// ------------------------------------------------------------------ lenient extraction

// lenientValue parses one bencoded value as leniently as any decoder could
// (signs and leading zeros in numbers, any key order, duplicate keys, any text
// between 'i' and 'e'), so that the set of peers it yields is a superset of
// what a decoder may legitimately find.  Integers are kept as text.
type lint string

// hugeAt records where the walk met a string header announcing 10^7 bytes
// or more (-1: nowhere); see defuse.
var hugeAt = -1

func lenientValue(b []byte, i int, depth int) (v any, next int, ok bool) {
	if i >= len(b) || depth > 20000 {
		return nil, i, false
	}
	switch c := b[i]; {
	case c == 'i':
		j := i + 1
		for j < len(b) && b[j] != 'e' {
			j++
		}
		if j >= len(b) {
			return nil, i, false
		}
		return lint(b[i+1 : j]), j + 1, true
	case c >= '0' && c <= '9' || c == '+' || c == '-':
		j := i
		for j < len(b) && b[j] != ':' {
			j++
		}
		if j >= len(b) {
			return nil, i, false
		}
		n, err := strconv.ParseInt(string(b[i:j]), 10, 64)
		if err == nil && n >= 10_000_000 && hugeAt < 0 {
			hugeAt = i
		}
		if err != nil || n < 0 || n > int64(len(b)-(j+1)) {
			return nil, i, false
		}
		return b[j+1 : j+1+int(n)], j + 1 + int(n), true
	case c == 'l':
		l := []any{}
		i++
		for {
			if i >= len(b) {
				return l, i, false
			}
			if b[i] == 'e' {
				return l, i + 1, true
			}
			e, n, ok := lenientValue(b, i, depth+1)
			if e != nil {
				l = append(l, e)
			}
			if !ok {
				return l, n, false
			}
			i = n
		}
	case c == 'd':
		d := ref.Dict{}
		i++
		for {
			if i >= len(b) {
				return d, i, false
			}
			if b[i] == 'e' {
				return d, i + 1, true
			}
			k, n, ok := lenientValue(b, i, depth+1)
			ks, isStr := k.([]byte)
			if !ok || !isStr {
				return d, n, false
			}
			e, n2, ok := lenientValue(b, n, depth+1)
			if e != nil {
				d = append(d, ref.KV{K: string(ks), V: e})
			}
			if !ok {
				return d, n2, false
			}
			i = n2
		}
	}
	return nil, i, false
}

// extractPeers: every peer that some reading of the body could find under
// the keys "peers" and "peers6" of the top-level dictionary (all values of
// duplicate keys, complete groups of strings of odd length, every ip/port
// combination of a dictionary entry), even when the body is damaged further on.
func extractPeers(body []byte) map[netip.AddrPort]int {
	out := map[netip.AddrPort]int{}
	v, _, _ := lenientValue(body, 0, 0)
	d, ok := v.(ref.Dict)
	if !ok {
		return out
	}
	groups := func(s []byte, alen int) {
		for i := 0; i+alen+2 <= len(s); i += alen + 2 {
			if a, ok := netip.AddrFromSlice(s[i : i+alen]); ok {
				out[netip.AddrPortFrom(a, binary.BigEndian.Uint16(s[i+alen:]))]++
			}
		}
	}
	for _, kv := range d {
		switch kv.K {
		case "peers":
			switch pv := kv.V.(type) {
			case []byte:
				groups(pv, 4)
			case []any:
				for _, e := range pv {
					pd, ok := e.(ref.Dict)
					if !ok {
						continue
					}
					var ips []netip.Addr
					var ports []uint16
					sawPort := false
					for _, f := range pd {
						switch f.K {
						case "ip":
							if s, ok := f.V.([]byte); ok {
								if a, err := netip.ParseAddr(string(s)); err == nil {
									ips = append(ips, a)
								}
							}
						case "port":
							sawPort = true
							if s, ok := f.V.(lint); ok {
								if n, err := strconv.ParseUint(strings.TrimPrefix(string(s), "+"), 10, 64); err == nil && n <= 65535 {
									ports = append(ports, uint16(n))
								}
							}
						}
					}
					if !sawPort {
						ports = []uint16{0} // a decoder may default an absent port to 0
					}
					for _, a := range ips {
						for _, p := range ports {
							out[netip.AddrPortFrom(a, p)]++
						}
					}
				}
			}
		case "peers6":
			if s, ok := kv.V.([]byte); ok {
				groups(s, 16)
			}
		}
	}
	return out
}

// ------------------------------------------------------------------ mutations

// defuse keeps generated bodies out of the region of the recorded third-party
// finding c04-bencode-string-alloc: a string header announcing 10^7 bytes or
// more, met on the decoding path, makes the bencode library allocate that much
// before reading.  The header is broken (so decoding fails there instead).
func defuse(b []byte) []byte {
	for {
		hugeAt = -1
		lenientValue(b, 0, 0)
		if hugeAt < 0 {
			return b
		}
		stats.Excluded("c04-bencode-string-alloc")
		b = append([]byte{}, b...)
		b[hugeAt] = 'x'
	}
}

var mutationKinds = []string{"truncate", "flip", "peers-6k+1", "peers-6k-1", "peers6-18k+1", "peers6-any-length", "peers-any-length", "interval-string", "peers-int", "peers-dict",
	"peers-list-of-junk", "port-string", "port-out-of-range", "port-negative", "ip-not-an-address", "ip-int", "failure-int", "failure-empty", "dup-peers",
	"unsorted", "trailing-garbage", "deep-nesting", "huge-int-extra", "empty-dict", "top-list", "leading-zero-int", "signed-length", "peer-entry-arity"}

func mutate(t *rapid.T, m *hModel) (kind string, body []byte) {
	kind = rapid.SampledFrom(mutationKinds).Draw(t, "mutation")
	d := m.dict()
	peersOr := func(def []netip.AddrPort) []netip.AddrPort {
		if len(m.peers) > 0 && m.peers[0].Addr().Is4() && m.form == "compact" {
			return m.peers
		}
		return def
	}
	some4 := []netip.AddrPort{netip.MustParseAddrPort("10.1.2.3:6881"), netip.MustParseAddrPort("192.0.2.7:51413")}
	dictPeers := func(mod func(i int, e map[string]any)) []any {
		l := []any{}
		src := m.peers
		if len(src) == 0 {
			src = some4
		}
		for i, p := range src {
			e := map[string]any{"ip": p.Addr().String(), "port": int64(p.Port())}
			mod(i, e)
			l = append(l, e)
		}
		return l
	}
	switch kind {
	case "truncate":
		b := m.body()
		return kind, b[:rapid.IntRange(0, len(b)-1).Draw(t, "cut")]
	case "flip":
		b := m.body()
		i := rapid.IntRange(0, len(b)-1).Draw(t, "at")
		b[i] ^= byte(1 << rapid.IntRange(0, 7).Draw(t, "bit"))
		return kind, b
	case "peers-6k+1":
		d["peers"] = append(compact(peersOr(some4)), 0x55)
	case "peers-6k-1":
		c := compact(peersOr(some4))
		d["peers"] = c[:len(c)-1]
	case "peers6-18k+1":
		d["peers6"] = append(compact([]netip.AddrPort{netip.MustParseAddrPort("[2001:db8::1]:6881")}), 1)
	case "peers6-any-length":
		// every residue, in particular multiples of 6 that are not multiples of 18
		d["peers6"] = gen.Fill(uint64(rapid.IntRange(0, 1000).Draw(t, "p6seed")), rapid.SampledFrom([]int{1, 5, 6, 7, 12, 17, 19, 24, 30, 35, 42, 53, 55}).Draw(t, "p6len"))
	case "peers-any-length":
		d["peers"] = gen.Fill(uint64(rapid.IntRange(0, 1000).Draw(t, "p4seed")), rapid.SampledFrom([]int{1, 2, 3, 4, 5, 7, 9, 13, 17, 19, 23}).Draw(t, "p4len"))
	case "interval-string":
		d["interval"] = "1800"
	case "peers-int":
		d["peers"] = int64(6)
	case "peers-dict":
		d["peers"] = map[string]any{"ip": "10.0.0.1", "port": int64(1)}
	case "peers-list-of-junk":
		d["peers"] = []any{int64(1), "10.0.0.1:80", []any{}, map[string]any{"ip": "10.0.0.9", "port": int64(9)}}
	case "port-string":
		d["peers"] = dictPeers(func(i int, e map[string]any) { e["port"] = "6881" })
	case "port-out-of-range":
		add := rapid.SampledFrom([]int64{65536, 1 << 32, 1 << 48}).Draw(t, "portadd")
		d["peers"] = dictPeers(func(i int, e map[string]any) {
			if i == 0 {
				e["port"] = e["port"].(int64) + add
			}
		})
	case "port-negative":
		d["peers"] = dictPeers(func(i int, e map[string]any) { e["port"] = int64(-1) })
	case "ip-not-an-address":
		bad := rapid.SampledFrom([]string{"tracker.example.com", "1.2.3", "1.2.3.4.5", "", "::g", "1.2.3.4:80"}).Draw(t, "badip")
		d["peers"] = dictPeers(func(i int, e map[string]any) {
			if i == 0 {
				e["ip"] = bad
			}
		})
	case "ip-int":
		d["peers"] = dictPeers(func(i int, e map[string]any) { e["ip"] = int64(167772161) })
	case "failure-int":
		d["failure reason"] = int64(1)
	case "failure-empty":
		d["failure reason"] = ""
	case "dup-peers":
		return kind, ref.Benc(ref.Dict{{K: "interval", V: int64(1800)}, {K: "peers", V: compact(some4[:1])}, {K: "peers", V: compact(peersOr(some4[1:]))}})
	case "unsorted":
		return kind, ref.Benc(ref.Dict{{K: "peers", V: compact(peersOr(some4))}, {K: "interval", V: int64(1800)}, {K: "complete", V: int64(1)}})
	case "trailing-garbage":
		return kind, append(m.body(), "garbage i5e"...)
	case "deep-nesting":
		depth := rapid.SampledFrom([]int{10, 100, 1000, 10000}).Draw(t, "depth")
		d["aa"] = ref.Raw(strings.Repeat("l", depth) + strings.Repeat("e", depth))
		if rapid.Bool().Draw(t, "unterminated") {
			d["zzz"] = ref.Raw(strings.Repeat("l", depth))
		}
	case "huge-int-extra":
		d["complete"] = new(big.Int).Exp(big.NewInt(10), big.NewInt(30), nil)
	case "empty-dict":
		return kind, []byte("de")
	case "top-list":
		return kind, ref.Benc([]any{m.dict()})
	case "leading-zero-int":
		d["interval"] = ref.Raw("i007e")
	case "signed-length":
		return kind, []byte("d8:intervali1800e5:peers+6:" + string(compact(some4[:1])) + "e")
	case "peer-entry-arity":
		d["peers"] = []any{map[string]any{"ip": "10.0.0.1"}, map[string]any{"port": int64(7)}, map[string]any{}}
	}
	return kind, ref.Benc(d)
}

func genArbitrary(t *rapid.T) []byte {
	switch rapid.IntRange(0, 3).Draw(t, "arbclass") {
	case 0:
		return rapid.SliceOfN(rapid.Byte(), 0, 300).Draw(t, "bytes")
	case 1:
		return []byte(rapid.StringMatching(`[dlie0-9:a-z-]{0,80}`).Draw(t, "benclike"))
	case 2:
		return []byte(rapid.SampledFrom([]string{"", "d", "de", "e", "i1e", "0:", "d5:peers", "d5:peers6:", "d5:peersl", "d8:intervalie", "d5:peers0:e", "<html>503</html>",
			"d14:failure reason0:e", "d5:peersd2:ip7:1.2.3.44:porti1eee", "d5:peersld2:ip7:1.2.3.44:porti1eeee", "d5:peersli1ei2ee6:peers60:e", "d5:peers2147483647:ab", "d8:intervali1e+99999999:x"}).Draw(t, "const"))
	default:
		// a valid prefix followed by noise
		b := ref.Benc(map[string]any{"interval": int64(1800), "peers": compact([]netip.AddrPort{netip.MustParseAddrPort("10.9.8.7:6")})})
		return append(b[:rapid.IntRange(0, len(b)).Draw(t, "keep")], rapid.SliceOfN(rapid.Byte(), 0, 40).Draw(t, "noise")...)
	}
}

// ------------------------------------------------------------------ UDP codec (BEP 15)

func udpConnectReply(action, tid uint32, cid uint64) []byte {
	b := binary.BigEndian.AppendUint32(nil, action)
	b = binary.BigEndian.AppendUint32(b, tid)
	return binary.BigEndian.AppendUint64(b, cid)
}

func udpAnnounceReply(action, tid, interval, leechers, seeders uint32, peers []netip.AddrPort) []byte {
	b := binary.BigEndian.AppendUint32(nil, action)
	b = binary.BigEndian.AppendUint32(b, tid)
	b = binary.BigEndian.AppendUint32(b, interval)
	b = binary.BigEndian.AppendUint32(b, leechers)
	b = binary.BigEndian.AppendUint32(b, seeders)
	return append(b, compact(peers)...)
}

func udpError(tid uint32, msg string) []byte {
	b := binary.BigEndian.AppendUint32(nil, 3)
	b = binary.BigEndian.AppendUint32(b, tid)
	return append(b, msg...)
}

// udpCandidate decodes a datagram the way BEP 15 defines an announce
// response for transaction tid; alen is 4 or 16.  A client reads at most
// 4096 bytes of a datagram.
type udpCand struct {
	interval uint32
	peers    []netip.AddrPort
	exact    bool // the peer list is a whole number of entries
}

func udpCandidate(d []byte, tid uint32, alen int) (udpCand, bool) {
	exact := true
	if len(d) > 4096 {
		d, exact = d[:4096], false
	}
	if len(d) < 20 || binary.BigEndian.Uint32(d[0:4]) != 1 || binary.BigEndian.Uint32(d[4:8]) != tid {
		return udpCand{}, false
	}
	c := udpCand{interval: binary.BigEndian.Uint32(d[8:12])}
	rest := d[20:]
	for len(rest) >= alen+2 {
		if a, ok := netip.AddrFromSlice(rest[:alen]); ok {
			c.peers = append(c.peers, netip.AddrPortFrom(a, binary.BigEndian.Uint16(rest[alen:])))
		}
		rest = rest[alen+2:]
	}
	c.exact = exact && len(rest) == 0
	return c, true
}
