package c15

// A UDP tracker reachable over both address families.  One Announce runs the
// BEP 15 exchange twice in parallel (udp4 and udp6), each against its own
// scripted server with its own interval, peers and hostile datagrams.
//
// The tracker's host name has to resolve to an address of each family.  There
// is no network and /etc/hosts cannot be relied upon, so the process's
// resolver (net.DefaultResolver, which storrent's net.Dialer uses) is pointed
// at a 60-line DNS responder on loopback that answers every A question with
// 127.0.0.1 and every AAAA question with ::1.  The two tracker servers listen
// on one port number, one per family.

import (
	"context"
	"encoding/binary"
	"fmt"
	"net"
	"net/netip"
	"sort"
	"sync"
	"testing"
	"time"

	"pgregory.net/rapid"

	"github.com/jech/storrent/tracker"

	"verif/stats"
)

type dualUDP struct {
	dns    net.PacketConn
	u4, u6 *udpServer
	port   int
}

var dualOnce sync.Once
var dual dualUDP
var dualErr error

func dnsAnswer(q []byte) []byte {
	if len(q) < 12 || binary.BigEndian.Uint16(q[4:6]) != 1 {
		return nil
	}
	i := 12
	for i < len(q) && q[i] != 0 {
		if q[i]&0xc0 != 0 {
			return nil
		}
		i += 1 + int(q[i])
	}
	if i+5 > len(q) {
		return nil
	}
	qtype := binary.BigEndian.Uint16(q[i+1 : i+3])
	question := q[12 : i+5]
	var rdata []byte
	switch qtype {
	case 1:
		rdata = []byte{127, 0, 0, 1}
	case 28:
		rdata = net.ParseIP("::1").To16()
	}
	out := make([]byte, 12)
	copy(out[0:2], q[0:2])
	binary.BigEndian.PutUint16(out[2:4], 0x8180|uint16(q[2]&1)<<8) // response, recursion available, no error
	binary.BigEndian.PutUint16(out[4:6], 1)
	if rdata != nil {
		binary.BigEndian.PutUint16(out[6:8], 1)
	}
	out = append(out, question...)
	if rdata != nil {
		out = append(out, 0xc0, 12)
		out = binary.BigEndian.AppendUint16(out, qtype)
		out = binary.BigEndian.AppendUint16(out, 1)
		out = binary.BigEndian.AppendUint32(out, 0)
		out = binary.BigEndian.AppendUint16(out, uint16(len(rdata)))
		out = append(out, rdata...)
	}
	return out
}

func getDualUDP() (*dualUDP, error) {
	dualOnce.Do(func() {
		dual.dns, dualErr = net.ListenPacket("udp4", "127.0.0.1:0")
		if dualErr != nil {
			return
		}
		go func() {
			buf := make([]byte, 4096)
			for {
				n, src, err := dual.dns.ReadFrom(buf)
				if err != nil {
					return
				}
				if a := dnsAnswer(buf[:n]); a != nil {
					dual.dns.WriteTo(a, src)
				}
			}
		}()
		dnsAddr := dual.dns.LocalAddr().String()
		net.DefaultResolver = &net.Resolver{PreferGo: true, Dial: func(ctx context.Context, network, address string) (net.Conn, error) {
			var d net.Dialer
			return d.DialContext(ctx, "udp4", dnsAddr)
		}}
		for try := 0; try < 50; try++ {
			var u4, u6 *udpServer
			u4, dualErr = newUDPServer("udp4", "127.0.0.1:0")
			if dualErr != nil {
				return
			}
			port := u4.pc.LocalAddr().(*net.UDPAddr).Port
			u6, dualErr = newUDPServer("udp6", fmt.Sprintf("[::1]:%d", port))
			if dualErr != nil {
				u4.pc.Close()
				continue
			}
			dual.u4, dual.u6, dual.port = u4, u6, port
			return
		}
	})
	return &dual, dualErr
}

const dualHost = "dual-stack-tracker.verif.test"

func TestC15DualUDP(t *testing.T) {
	initGlobals()
	d, err := getDualUDP()
	if err != nil {
		t.Skip("inconclusive: cannot open loopback sockets: " + err.Error())
	}
	// the resolver set-up itself: both families, else nothing below means anything
	for _, fam := range []string{"ip4", "ip6"} {
		ctx, cancel := context.WithTimeout(context.Background(), 20*time.Second)
		ips, err := net.DefaultResolver.LookupIP(ctx, fam, dualHost)
		cancel()
		if err != nil || len(ips) != 1 || !ips[0].IsLoopback() {
			t.Skip(fmt.Sprintf("inconclusive: the harness's resolver gives %v, %v for %s/%s", ips, err, dualHost, fam))
		}
	}
	rapid.Check(t, func(t *rapid.T) {
		url := fmt.Sprintf("udp://%s:%d/announce", dualHost, d.port)
		tr, ok := tracker.New(url).(shifter)
		if !ok {
			t.Fatalf("harness: not a UDP tracker")
		}
		var hist []string
		fail := func(format string, a ...any) {
			// (timing-dependent failures are reported by rapid as "flaky": the text goes to the output too)
			fmt.Printf("C15 (UDP, both families) %s\n", fmt.Sprintf(format, a...))
			t.Fatalf("C15 (UDP, both families) %s\ntracker: %s\nhistory:\n  %s", fmt.Sprintf(format, a...), url, joinLines(hist))
		}
		labels := map[string]bool{}
		bound := floor
		attempted := false
		var since time.Duration
		var t0 time.Time
		rounds := rapid.IntRange(2, 4).Draw(t, "rounds")
		for k := 0; k < rounds; k++ {
			if k > 0 {
				var dd time.Duration
				switch rapid.IntRange(0, 4).Draw(t, "shiftclass") {
				case 0:
					dd = bound - since - time.Second
				case 1:
					dd = bound - since + time.Second
				case 2:
					dd = floor + time.Second
				default:
					dd = time.Duration(rapid.Int64Range(0, int64(2*time.Hour)).Draw(t, "shift"))
				}
				if dd < 0 || dd > 1<<61 {
					dd = 0
				}
				tr.VerifShift(dd)
				since += dd
				hist = append(hist, fmt.Sprintf("clock +%v (now %v after the last attempt; required gap %v)", dd, since, bound))
			}
			var plan [2]*udpPlan
			for f := range plan {
				p := genUDPPlan(t, f == 1)
				if rapid.Bool().Draw(t, "correct") {
					p.kinds = nil
				}
				p.interval = rapid.SampledFrom([]uint32{0, 60, 61, 299, 301, 600, 900, 1800, 3600, 86400}).Draw(t, "interval")
				plan[f] = p
			}
			d.u4.install(func(k int, r udpRequest) [][]byte {
				time.Sleep(plan[0].delay)
				return plan[0].datagrams(k, r, false)
			})
			d.u6.install(func(k int, r udpRequest) [][]byte {
				time.Sleep(plan[1].delay)
				return plan[1].datagrams(k, r, true)
			})
			// the torrent may be slow to take each peer: the two families' replies
			// are then being handed over at the same time
			callbackDelay = rapid.SampledFrom([]time.Duration{0, 0, 0, 100 * time.Microsecond, 500 * time.Microsecond}).Draw(t, "callbackDelay")
			if callbackDelay > 0 && len(plan[0].peers)+len(plan[1].peers) > 0 {
				labels["dual-udp:slow-peer-callback"] = true
			}
			start := time.Now()
			r := announce(tr, context.Background())
			callbackDelay = 0
			if r.timedOut {
				t.Skip("inconclusive: an announce against loopback did not return within 120 s")
			}
			if r.panic != nil {
				fail("Announce panicked: %v", r.panic)
			}
			if !d.u4.flush() || !d.u6.flush() {
				t.Skip("inconclusive: a loopback UDP server did not echo a flush datagram")
			}
			var reqs [2][]udpRequest
			var sent [2][]sentDatagram
			reqs[0], sent[0] = d.u4.seen()
			reqs[1], sent[1] = d.u6.seen()
			hist = append(hist, fmt.Sprintf("announce: udp4 server scripted %v interval %d peers %v, saw %v; udp6 server scripted %v interval %d peers %v, saw %v -> err=%v peers=%v",
				plan[0].kinds, plan[0].interval, plan[0].peers, reqs[0], plan[1].kinds, plan[1].interval, plan[1].peers, reqs[1], r.err, r.peers))
			contacts := len(reqs[0]) + len(reqs[1])
			upper := since + time.Since(t0)
			if attempted && upper < bound {
				labels["dual-udp:second-announce-too-early"] = true
				if contacts > 0 {
					fail("the tracker was contacted %v (at most %v) after the previous attempt; it must wait %v: the larger of five minutes and the larger of the intervals announced over the two families", since, upper, bound)
				}
			}
			if st, _ := tr.GetState(); st == tracker.Busy {
				fail("Announce has returned and GetState still reports busy")
			}
			if contacts == 0 {
				if len(r.peers) > 0 {
					fail("peers %v were reported although no server was contacted", r.peers)
				}
				continue
			}
			// ---- per family: what the client could have accepted
			var peersOf [2][]netip.AddrPort
			for _, p := range r.peers {
				if p.Addr().Is4() {
					peersOf[0] = append(peersOf[0], p)
				} else {
					peersOf[1] = append(peersOf[1], p)
				}
			}
			var clean, exact [2]bool
			for f := 0; f < 2; f++ {
				cs := &caseState{v6: f == 1}
				cands := cs.candidates(reqs[f], sent[f])
				clean[f] = len(reqs[f]) == 2
				for k := range reqs[f] {
					if k < len(plan[f].kinds) && plan[f].kinds[k] != "ok" {
						clean[f] = false
					}
				}
				prefix := len(peersOf[f]) == 0
				for _, cd := range cands {
					if cd.exact && sameMultiset(peersOf[f], cd.peers) {
						exact[f] = true
					}
					if isPrefix(peersOf[f], cd.peers) {
						prefix = true
					}
				}
				if !exact[f] && !prefix {
					fail("the %s peers learnt, %v, are not what any announce response of that family's server encodes (responses: %+v)", []string{"IPv4", "IPv6"}[f], peersOf[f], cands)
				}
				if clean[f] && !exact[f] {
					fail("the %s server answered both requests correctly and the peers learnt from it, %v, are not the ones it sent, %v", []string{"udp4", "udp6"}[f], peersOf[f], plan[f].peers)
				}
			}
			if (clean[0] || clean[1]) && r.err != nil {
				fail("one family's exchange was entirely correct and Announce failed: %v", r.err)
			}
			if r.err == nil && !exact[0] && !exact[1] {
				fail("Announce succeeded although neither family's server sent a response that encodes the peers learnt (%v)", r.peers)
			}
			// ---- timing model
			attempted, since, t0 = true, 0, start
			bound = floor
			for f := 0; f < 2; f++ {
				if clean[f] && plan[f].interval > 60 {
					bound = max(bound, time.Duration(plan[f].interval)*time.Second)
				}
			}
			switch {
			case clean[0] && clean[1]:
				labels["dual-udp:both-families-answered"] = true
				switch {
				case plan[1].interval > plan[0].interval && plan[1].interval > 300:
					labels["dual-udp:ipv6-interval-larger"] = true
				case plan[0].interval > plan[1].interval && plan[0].interval > 300:
					labels["dual-udp:ipv4-interval-larger"] = true
				}
				if len(peersOf[0]) > 0 && len(peersOf[1]) > 0 {
					labels["dual-udp:peers-of-both-families"] = true
				}
			case clean[0] || clean[1]:
				labels["dual-udp:one-family-failed"] = true
			default:
				labels["dual-udp:both-families-hostile"] = true
			}
		}
		var l []string
		for k := range labels {
			l = append(l, k)
		}
		sort.Strings(l)
		stats.Case(fmt.Sprint(l), labels["dual-udp:both-families-answered"] || labels["dual-udp:one-family-failed"], l...)
	})
}
