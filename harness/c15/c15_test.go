// C15 — trackers: hostile replies are harmless, announces are disciplined.
//
// One tracker.New(url) per case against scripted loopback HTTP / UDP servers
// (IPv4 literal or [::1], so exactly one address family reaches the server).
// A case is a history of clock shifts (verif-tagged VerifShift), announces
// with a scripted reply, GetState calls, concurrent announces and announces
// with a cancelled context.
package c15

import (
	"context"
	"errors"
	"fmt"
	"net/netip"
	"os"
	"sort"
	"strings"
	"sync"
	"testing"
	"time"

	"pgregory.net/rapid"

	"github.com/jech/storrent/config"
	"github.com/jech/storrent/httpclient"
	"github.com/jech/storrent/tracker"

	"verif/gen"
	"verif/stats"
)

func TestMain(m *testing.M) {
	if os.Getenv("VERIF_C15_CHILD") != "" {
		child()
		return
	}
	stats.Main(m)
}

var initOnce sync.Once

func initGlobals() {
	initOnce.Do(func() {
		config.SetDefaultProxy("")
		httpclient.Get("", "")
	})
}

// tb is what a case body needs from *rapid.T or *testing.T.
type tb interface {
	Fatalf(format string, args ...any)
	Skip(args ...any)
}

type shifter interface {
	tracker.Tracker
	VerifShift(d time.Duration)
}

const floor = 5 * time.Minute

// ------------------------------------------------------------------ steps

type step struct {
	kind  string // shift | announce | getstate | concurrent | cancelled
	shift time.Duration
	rel   string // shift relative to the current bound: "", "bound-1s", "bound+1s"
	http  *httpPlan
	udp   *udpPlan
}

type httpPlan struct {
	class    string // model | mutated | arbitrary | status | cut
	m        *hModel
	mutation string
	body     []byte
	status   int
	cutAt    int
	chunked  bool
	delay    time.Duration
}

type udpPlan struct {
	// reply kinds for the k-th request of the attempt; beyond: "ok"
	kinds    []string
	cid      uint64
	interval uint32
	peers    []netip.AddrPort
	seed     uint64
	delay    time.Duration
}

func (s step) String() string {
	switch s.kind {
	case "shift":
		if s.rel != "" {
			return "shift(" + s.rel + ")"
		}
		return fmt.Sprintf("shift(%v)", s.shift)
	case "announce", "concurrent":
		if s.http != nil {
			switch s.http.class {
			case "model":
				return fmt.Sprintf("%s(http model %v)", s.kind, s.http.m)
			case "mutated":
				return fmt.Sprintf("%s(http %s of %v: %q)", s.kind, s.http.mutation, s.http.m, clip(s.http.body))
			default:
				return fmt.Sprintf("%s(http %s status=%d cutAt=%d body=%q)", s.kind, s.http.class, s.http.status, s.http.cutAt, clip(s.http.body))
			}
		}
		return fmt.Sprintf("%s(udp replies %v then ok; interval=%d peers=%v)", s.kind, s.udp.kinds, s.udp.interval, s.udp.peers)
	}
	return s.kind
}

func clip(b []byte) string {
	if len(b) > 200 {
		return string(b[:200]) + fmt.Sprintf("…(%d bytes)", len(b))
	}
	return string(b)
}

var shiftChoices = []time.Duration{0, time.Second, 4*time.Minute + 59*time.Second, 5 * time.Minute, 5*time.Minute + time.Second,
	14 * time.Minute, 16 * time.Minute, 29 * time.Minute, 31 * time.Minute, 61 * time.Minute, 3000 * time.Hour}

func genShift(t *rapid.T) step {
	switch rapid.IntRange(0, 5).Draw(t, "shiftclass") {
	case 0:
		return step{kind: "shift", rel: "bound-1s"}
	case 1:
		return step{kind: "shift", rel: "bound+1s"}
	}
	return step{kind: "shift", shift: rapid.SampledFrom(shiftChoices).Draw(t, "shift")}
}

func genHTTPPlan(t *rapid.T) *httpPlan {
	p := &httpPlan{status: 200, cutAt: -1}
	p.m = genHModel(t)
	p.chunked = rapid.IntRange(0, 3).Draw(t, "chunked") == 0
	p.delay = rapid.SampledFrom([]time.Duration{0, 0, 0, time.Millisecond, 5 * time.Millisecond}).Draw(t, "delay")
	switch k := rapid.IntRange(0, 19).Draw(t, "replyclass"); {
	case k < 9:
		p.class = "model"
		p.body = p.m.body()
	case k < 15:
		p.class = "mutated"
		p.mutation, p.body = mutate(t, p.m)
		p.body = defuse(p.body)
	case k < 17:
		p.class = "arbitrary"
		p.body = defuse(genArbitrary(t))
	case k < 18:
		p.class = "status"
		p.status = rapid.SampledFrom([]int{404, 500, 503, 403, 400, 204, 206, 302}).Draw(t, "status")
		p.body = p.m.body()
	default:
		p.class = "cut"
		p.body = p.m.body()
		p.cutAt = rapid.IntRange(0, 120+len(p.body)).Draw(t, "cutAt")
	}
	return p
}

var udpBadKinds = []string{"foreign-tid", "wrong-action", "error3", "short0", "short4", "short7", "short8", "short12", "short15", "short16", "short19",
	"junk4096", "junk-hdr", "peers+1", "peers-1", "oversize", "double", "zero-tid-echo"}

func genUDPPlan(t *rapid.T, v6 bool) *udpPlan {
	p := &udpPlan{cid: rapid.Uint64().Draw(t, "cid"), seed: rapid.Uint64().Draw(t, "seed")}
	p.delay = rapid.SampledFrom([]time.Duration{0, 0, 0, time.Millisecond, 5 * time.Millisecond}).Draw(t, "delay")
	p.interval = rapid.SampledFrom([]uint32{0, 1, 59, 60, 61, 299, 301, 900, 1800, 3600, 86400, 1 << 31, 1<<32 - 1}).Draw(t, "interval")
	n := rapid.SampledFrom([]int{0, 1, 2, 5, 50}).Draw(t, "npeers")
	for i := 0; i < n; i++ {
		p.peers = append(p.peers, genAddrPort(t, v6))
	}
	switch rapid.IntRange(0, 9).Draw(t, "scriptclass") {
	case 0, 1, 2:
		// all correct
	case 3:
		// four times the same bad answer in one phase (connect or announce)
		k := rapid.SampledFrom(udpBadKinds).Draw(t, "bad")
		if rapid.Bool().Draw(t, "inAnnounce") {
			p.kinds = []string{"ok", k, k, k, k}
		} else {
			p.kinds = []string{k, k, k, k}
		}
	case 4:
		// 1–3 bad answers, then correct ones
		nb := rapid.IntRange(1, 3).Draw(t, "nbad")
		if rapid.Bool().Draw(t, "inAnnounce") {
			p.kinds = []string{"ok"}
		}
		for i := 0; i < nb; i++ {
			p.kinds = append(p.kinds, rapid.SampledFrom(udpBadKinds).Draw(t, "bad"))
		}
	default:
		nk := rapid.IntRange(1, 8).Draw(t, "nkinds")
		for i := 0; i < nk; i++ {
			if rapid.IntRange(0, 2).Draw(t, "okhere") == 0 {
				p.kinds = append(p.kinds, "ok")
			} else {
				p.kinds = append(p.kinds, rapid.SampledFrom(udpBadKinds).Draw(t, "bad"))
			}
		}
	}
	return p
}

// datagrams builds the answer to the k-th request of an attempt.
func (p *udpPlan) datagrams(k int, r udpRequest, v6 bool) [][]byte {
	kind := "ok"
	if k < len(p.kinds) {
		kind = p.kinds[k]
	}
	var good []byte
	switch r.kind {
	case "connect":
		good = udpConnectReply(0, r.tid, p.cid)
	case "announce":
		good = udpAnnounceReply(1, r.tid, p.interval, 3, 4, p.peers)
	default:
		return [][]byte{udpError(r.tid, "what?")}
	}
	junk := gen.Fill(p.seed+uint64(k), 4096)
	short := func(n int) [][]byte {
		d := append(append([]byte{}, good...), junk...)
		return [][]byte{d[:n]}
	}
	switch kind {
	case "silent":
		return nil // the request is dropped: the client retransmits after 5 s
	case "foreign-tid":
		d := append([]byte{}, good...)
		d[4+k%4] ^= 0x40
		return [][]byte{d}
	case "zero-tid-echo":
		d := append([]byte{}, good...)
		copy(d[4:8], []byte{0, 0, 0, 0})
		if r.tid == 0 {
			d[7] = 1
		}
		return [][]byte{d}
	case "wrong-action":
		d := append([]byte{}, good...)
		d[3] = map[string]byte{"connect": 1, "announce": 0}[r.kind]
		if k%2 == 1 {
			d[3] = 2
		}
		return [][]byte{d}
	case "error3":
		// padded so that it passes the client's minimum-length check
		return [][]byte{udpError(r.tid, "tracker says no, and says it at length")}
	case "short0":
		return short(0)
	case "short4":
		return short(4)
	case "short7":
		return short(7)
	case "short8":
		return short(8)
	case "short12":
		return short(12)
	case "short15":
		return short(15)
	case "short16":
		if r.kind == "connect" {
			return [][]byte{good} // 16 bytes is a complete connect response
		}
		return short(16)
	case "short19":
		if r.kind == "connect" {
			return [][]byte{good}
		}
		return short(19)
	case "junk4096":
		return [][]byte{junk}
	case "junk-hdr":
		d := append(append([]byte{}, good[:8]...), junk[8:]...)
		return [][]byte{d}
	case "peers+1":
		return [][]byte{append(append([]byte{}, good...), 0x77)}
	case "peers-1":
		if r.kind == "announce" && len(p.peers) > 0 {
			return [][]byte{good[:len(good)-1]}
		}
		return [][]byte{append(append([]byte{}, good...), 0x77, 0x78, 0x79)}
	case "oversize":
		if r.kind == "announce" {
			var many []netip.AddrPort
			alen := 4
			if v6 {
				alen = 16
			}
			for i := 0; len(many)*(alen+2) < 4200; i++ {
				b := gen.Fill(p.seed+uint64(i), alen)
				a, _ := netip.AddrFromSlice(b)
				many = append(many, netip.AddrPortFrom(a, uint16(i)))
			}
			return [][]byte{udpAnnounceReply(1, r.tid, p.interval, 1, 1, many)}
		}
		return [][]byte{append(append([]byte{}, good...), junk[:4090]...)}
	case "double":
		d := append([]byte{}, good...)
		d[5] ^= 0x01
		return [][]byte{d, good}
	}
	return [][]byte{good}
}

func genHistory(t *rapid.T, udp, v6 bool) []step {
	n := rapid.IntRange(1, 12).Draw(t, "nsteps")
	var steps []step
	for i := 0; i < n; i++ {
		var s step
		switch k := rapid.IntRange(0, 19).Draw(t, "stepkind"); {
		case k < 7:
			s = genShift(t)
		case k < 15 || i == 0:
			s = step{kind: "announce"}
		case k < 17:
			s = step{kind: "getstate"}
		case k < 19:
			s = step{kind: "concurrent"}
		default:
			s = step{kind: "cancelled"}
		}
		if s.kind == "announce" || s.kind == "concurrent" || s.kind == "cancelled" {
			if udp {
				s.udp = genUDPPlan(t, v6)
			} else {
				s.http = genHTTPPlan(t)
			}
		}
		steps = append(steps, s)
	}
	return steps
}

// ------------------------------------------------------------------ running an announce

type result struct {
	err      error
	peers    []netip.AddrPort
	panic    any
	timedOut bool
}

// callbackDelay: how long the peer callback takes (set by a test for the announces it makes)
var callbackDelay time.Duration

var hash20 = gen.Fill(1, 20)
var myid20 = gen.Fill(2, 20)

func announce(tr tracker.Tracker, ctx context.Context) result {
	var mu sync.Mutex
	var res result
	done := make(chan struct{})
	go func() {
		defer close(done)
		defer func() {
			if r := recover(); r != nil {
				res.panic = r
			}
		}()
		err := tr.Announce(ctx, hash20, myid20, 50, 1<<20, 6881, 6882, "", func(a netip.AddrPort) bool {
			if d := callbackDelay; d > 0 {
				// the torrent takes its time over each peer (its queue is full)
				time.Sleep(d)
			}
			mu.Lock()
			res.peers = append(res.peers, a)
			mu.Unlock()
			return true
		})
		mu.Lock()
		res.err = err
		mu.Unlock()
	}()
	select {
	case <-done:
	case <-time.After(120 * time.Second):
		return result{timedOut: true}
	}
	mu.Lock()
	defer mu.Unlock()
	return result{err: res.err, peers: append([]netip.AddrPort(nil), res.peers...), panic: res.panic}
}

func multiset(l []netip.AddrPort) map[netip.AddrPort]int {
	m := map[netip.AddrPort]int{}
	for _, p := range l {
		m[p]++
	}
	return m
}

func sameMultiset(a, b []netip.AddrPort) bool {
	ma, mb := multiset(a), multiset(b)
	if len(ma) != len(mb) {
		return false
	}
	for k, v := range ma {
		if mb[k] != v {
			return false
		}
	}
	return true
}

func subMultiset(a []netip.AddrPort, of map[netip.AddrPort]int) (netip.AddrPort, bool) {
	for k, v := range multiset(a) {
		if of[k] < v {
			return k, false
		}
	}
	return netip.AddrPort{}, true
}

// ------------------------------------------------------------------ the case

type caseState struct {
	t         tb
	udp, v6   bool
	tr        shifter
	url       string
	hs        *httpServer
	us        *udpServer
	attempted bool
	since     time.Duration // shifts applied since the last attempt
	t0        time.Time     // taken just before the call that became the last attempt
	bound     time.Duration // gap the property demands after the last attempt
	hist      []string
	labels    map[string]bool
	attempts  int
	malformed bool
	spaced    bool // >= 2 attempts separated by a clock step
	shifted   bool // a clock step since the last attempt
}

func (c *caseState) fail(format string, a ...any) {
	// (timing-dependent failures are reported by rapid as "flaky": the text goes to the output too)
	fmt.Printf("C15 %s (tracker %s)\n", fmt.Sprintf(format, a...), c.url)
	c.t.Fatalf("C15 %s\ntracker: %s\nhistory:\n  %s", fmt.Sprintf(format, a...), c.url, strings.Join(c.hist, "\n  "))
}

func (c *caseState) note(format string, a ...any) { c.hist = append(c.hist, fmt.Sprintf(format, a...)) }

func runCase(t tb, udp, v6 bool, steps []step) {
	initGlobals()
	ss, err := getServers()
	if err != nil {
		t.Skip("inconclusive: cannot open loopback sockets: " + err.Error())
	}
	c := &caseState{t: t, udp: udp, v6: v6, labels: map[string]bool{}, bound: floor}
	switch {
	case udp && v6:
		c.us, c.url = ss.udp6, "udp://"+ss.udp6.host+"/announce"
	case udp:
		c.us, c.url = ss.udp4, "udp://"+ss.udp4.host+"/announce"
	case v6:
		c.hs, c.url = ss.http6, "http://"+ss.http6.host+"/announce"
	default:
		c.hs, c.url = ss.http4, "http://"+ss.http4.host+"/announce?key=1"
	}
	tr, ok := tracker.New(c.url).(shifter)
	if !ok {
		t.Fatalf("harness: tracker.New(%q) is not an HTTP or UDP tracker", c.url)
	}
	c.tr = tr
	for _, s := range steps {
		switch s.kind {
		case "shift":
			d := s.shift
			switch s.rel {
			case "bound-1s":
				d = c.bound - c.since - time.Second
			case "bound+1s":
				d = c.bound - c.since + time.Second
			}
			if d < 0 || d > 1<<62 {
				d = 0
			}
			tr.VerifShift(d)
			c.since += d
			if c.since < 0 {
				c.since = 1 << 62
			}
			if d > 0 {
				c.shifted = true
			}
			c.note("clock +%v (now %v after the last attempt; required gap %v)", d, c.since, c.bound)
		case "getstate":
			st, err := tr.GetState()
			c.note("GetState -> %v, %v", st, err)
			if st == tracker.Busy {
				c.fail("GetState reports busy while no announce is in progress")
			}
		case "announce":
			c.announce(s, 1, false)
		case "concurrent":
			c.announce(s, 2, false)
		case "cancelled":
			c.announce(s, 1, true)
		}
	}
	var ls []string
	for k := range c.labels {
		ls = append(ls, k)
	}
	sort.Strings(ls)
	fam := "v4"
	if v6 {
		fam = "v6"
	}
	ls = append(ls, "family-"+fam)
	nontrivial := c.spaced || c.malformed
	stats.Case(fmt.Sprintf("%v|%s|%v|%d", udp, fam, ls, min(c.attempts, 4)), nontrivial, ls...)
	if nontrivial && stats.WantSample("nontrivial") {
		stats.Sample("nontrivial", append([]string{c.url}, c.hist...))
	}
}

// announce runs one announce step (n callers at once), applies the oracle
// and updates the timing model.
func (c *caseState) announce(s step, n int, cancelled bool) {
	tr := c.tr
	var model *hModel
	if c.udp {
		p := s.udp
		c.us.install(func(k int, r udpRequest) [][]byte {
			if p.delay > 0 {
				time.Sleep(p.delay)
			}
			return p.datagrams(k, r, c.v6)
		})
	} else {
		p := s.http
		c.hs.script(&httpAnswer{status: p.status, body: p.body, cutAt: p.cutAt, chunked: p.chunked, delay: p.delay})
		if p.class == "model" {
			model = p.m
		}
	}
	ctx, cancel := context.WithCancel(context.Background())
	if cancelled {
		cancel()
	}
	defer cancel()
	t0 := time.Now()
	results := make([]result, n)
	var wg sync.WaitGroup
	// somebody polls the tracker's state while the announce is in flight (the
	// torrent's ticker and the web interface do)
	stopWatch := make(chan struct{})
	watched := make(chan string, 1)
	go func() {
		polls, busy, bad := 0, 0, ""
		for {
			select {
			case <-stopWatch:
				watched <- fmt.Sprintf("%s|%d|%d", bad, polls, busy)
				return
			default:
			}
			func() {
				defer func() {
					if r := recover(); r != nil && bad == "" {
						bad = fmt.Sprintf("GetState panicked while an announce was in flight: %v", r)
					}
				}()
				if st, _ := tr.GetState(); st == tracker.Busy {
					busy++
				}
				polls++
			}()
			time.Sleep(150 * time.Microsecond)
		}
	}()
	for i := range results {
		wg.Add(1)
		go func() {
			defer wg.Done()
			results[i] = announce(tr, ctx)
		}()
	}
	wg.Wait()
	close(stopWatch)
	if w := strings.SplitN(<-watched, "|", 3); w[0] != "" {
		c.fail("%s", w[0])
	} else if w[2] != "0" {
		c.labels["state-polled-while-announce-in-flight"] = true
	}
	for _, r := range results {
		if r.timedOut {
			c.t.Skip("inconclusive: an announce against loopback did not return within 120 s")
		}
	}
	// The tracker compared its clock with the time of its last attempt at
	// some moment before now; that attempt was made after c.t0.  So what it
	// saw as elapsed lies in [since, upper].  (The wall clock only widens the
	// tolerance; it never turns a pass into a failure.)
	upper := c.since + time.Since(c.t0)
	mustWait := c.attempted && upper < c.bound
	st, sterr := tr.GetState()

	// ---- what happened
	var contacts int
	var reqs []udpRequest
	var sent []sentDatagram
	if c.udp {
		if !c.us.flush() {
			c.t.Skip("inconclusive: the loopback UDP server did not echo a flush datagram")
		}
		reqs, sent = c.us.seen()
		srcs := map[string]bool{}
		for _, r := range reqs {
			srcs[r.src] = true
		}
		contacts = len(srcs)
	} else {
		contacts = len(c.hs.requests())
	}
	attempts := 0
	var winner *result
	for i := range results {
		r := &results[i]
		c.note("%v -> err=%v peers=%v", s, r.err, r.peers)
		if r.panic != nil {
			c.fail("Announce panicked: %v", r.panic)
		}
		if !errors.Is(r.err, tracker.ErrNotReady) {
			attempts++
			winner = r
		} else if len(r.peers) > 0 {
			c.fail("Announce returned ErrNotReady and reported peers %v", r.peers)
		}
	}
	if c.udp {
		c.note("  server saw %v", reqs)
	} else {
		c.note("  server saw %d request(s)", contacts)
	}
	c.note("  GetState -> %v, %v", st, sterr)

	// ---- never stuck busy
	if st == tracker.Busy {
		c.fail("every Announce has returned and GetState still reports busy")
	}
	// ---- discipline
	if mustWait {
		c.labels["second-announce-too-early"] = true
		if contacts > 0 {
			c.fail("the tracker was contacted %v (at most %v) after the previous attempt; it must wait %v (the larger of five minutes and its announced interval)",
				c.since, upper, c.bound)
		}
	}
	if contacts > 1 {
		c.fail("%d announces reached the server for one announce round (concurrent callers: %d)", contacts, n)
	}
	if n > 1 {
		c.labels["concurrent-announce"] = true
		if attempts > 1 {
			c.fail("both concurrent Announce calls went ahead")
		}
	}
	if cancelled {
		c.labels["cancelled-context"] = true
	}

	// ---- peers
	if winner != nil {
		if c.udp {
			c.checkUDP(s.udp, winner, reqs, sent)
		} else {
			c.checkHTTP(s.http, winner, contacts)
		}
	}

	// ---- model update
	if attempts > 0 || contacts > 0 {
		c.attempts++
		if c.attempted && c.shifted {
			c.spaced = true
		}
		c.attempted = true
		c.shifted = false
		c.since = 0
		c.t0 = t0
		c.bound = floor
		if winner != nil && winner.err == nil && !cancelled {
			if model != nil {
				b, absurd := model.intervalBound()
				c.bound = time.Duration(b) * time.Second
				if absurd {
					c.labels["interval-absurd"] = true
				}
			} else if c.udp {
				c.bound = c.udpBound(winner, reqs, sent)
			}
		} else if model != nil && model.hasFailure && contacts > 0 {
			b, absurd := model.intervalBound()
			c.bound = time.Duration(b) * time.Second
			if absurd {
				c.labels["retry-absurd"] = true
			}
			if model.retry == "never" {
				c.labels["http-failure-retry-never"] = true
			}
		}
		if c.bound > floor {
			c.labels["interval-above-5min"] = true
		}
	}
}

func (c *caseState) checkHTTP(p *httpPlan, r *result, contacts int) {
	if contacts == 0 {
		if len(r.peers) > 0 {
			c.fail("peers %v were reported although the server was never contacted", r.peers)
		}
		return
	}
	switch p.class {
	case "model":
		c.labels["http-model-reply"] = true
		m := p.m
		_, big := m.interval.(interface{ BitLen() int })
		switch {
		case m.hasFailure:
			c.labels["http-failure"] = true
			if r.err == nil {
				c.fail("the reply carries a failure reason and Announce returned no error")
			}
			if _, ok := subMultiset(r.peers, multiset(m.encoded())); !ok {
				c.fail("peers %v reported, the reply encodes %v", r.peers, m.encoded())
			}
		case big:
			// an interval no 64-bit decoder can hold: an error, or exactly the peers
			if r.err == nil && !sameMultiset(r.peers, m.encoded()) || r.err != nil && len(r.peers) > 0 {
				c.fail("peers %v reported with error %v, the reply encodes %v", r.peers, r.err, m.encoded())
			}
		default:
			if r.err != nil {
				c.fail("a well-formed reply was refused: %v", r.err)
			}
			if !sameMultiset(r.peers, m.encoded()) {
				c.fail("peers learnt %v, the reply encodes exactly %v", r.peers, m.encoded())
			}
		}
		if m.form == "dict" {
			c.labels["http-dict-peers"] = true
		}
		if m.hasPeers6 && len(m.peers6) > 0 {
			c.labels["http-peers6"] = true
		}
	default:
		c.malformed = true
		c.labels["http-"+p.class] = true
		if p.mutation != "" {
			c.labels["mut:"+p.mutation] = true
		}
		if p.class == "status" || p.class == "cut" && p.cutAt < 17 {
			if len(r.peers) > 0 {
				c.fail("peers %v were learnt from a reply without a 200 status", r.peers)
			}
			return
		}
		enc := extractPeers(p.body)
		if x, ok := subMultiset(r.peers, enc); !ok {
			c.fail("peer %v was learnt (all: %v, err=%v); the independent decoder finds only %v in the reply %q", x, r.peers, r.err, keysOf(enc), clip(p.body))
		}
	}
}

func keysOf(m map[netip.AddrPort]int) []netip.AddrPort {
	var l []netip.AddrPort
	for k := range m {
		l = append(l, k)
	}
	sort.Slice(l, func(i, j int) bool { return l[i].Compare(l[j]) < 0 })
	return l
}

// candidates: the announce responses (BEP 15) the server sent for the
// transaction id(s) of the client's announce requests.
func (c *caseState) candidates(reqs []udpRequest, sent []sentDatagram) []udpCand {
	alen := 4
	if c.v6 {
		alen = 16
	}
	tids := map[uint32]bool{}
	for _, r := range reqs {
		if r.kind == "announce" {
			tids[r.tid] = true
		}
	}
	var out []udpCand
	for _, d := range sent {
		for tid := range tids {
			if cand, ok := udpCandidate(d.data, tid, alen); ok {
				out = append(out, cand)
			}
		}
	}
	return out
}

func isPrefix(a, b []netip.AddrPort) bool {
	if len(a) > len(b) {
		return false
	}
	for i := range a {
		if a[i] != b[i] {
			return false
		}
	}
	return true
}

func (c *caseState) checkUDP(p *udpPlan, r *result, reqs []udpRequest, sent []sentDatagram) {
	cands := c.candidates(reqs, sent)
	allOK := true
	for k := range reqs {
		if k < len(p.kinds) && p.kinds[k] != "ok" {
			allOK = false
		}
	}
	bad := map[string]int{}
	run, maxRun := 0, 0
	for k := range reqs {
		kind := "ok"
		if k < len(p.kinds) {
			kind = p.kinds[k]
		}
		if kind != "ok" {
			bad[kind]++
		}
		if kind == "foreign-tid" || kind == "zero-tid-echo" {
			run++
			maxRun = max(maxRun, run)
		} else {
			run = 0
		}
		if strings.HasPrefix(kind, "short") && !(kind >= "short16" && reqs[k].kind == "connect") {
			c.labels["udp-short"] = true
		}
		if kind != "ok" {
			c.labels["udp:"+kind] = true
		}
	}
	if maxRun >= 4 {
		c.labels["udp-4-foreign-tids"] = true
	}
	if len(reqs) == 0 {
		if len(r.peers) > 0 {
			c.fail("peers %v were reported although the server was never contacted", r.peers)
		}
		return
	}
	if !allOK {
		c.malformed = true
	}
	if allOK {
		c.labels["udp-all-correct"] = true
		if r.err != nil {
			c.fail("every datagram was a correct BEP 15 response and Announce failed: %v", r.err)
		}
	}
	if r.err == nil {
		ok := false
		for _, cd := range cands {
			if cd.exact && sameMultiset(r.peers, cd.peers) {
				ok = true
			}
		}
		if !ok {
			c.fail("Announce succeeded with peers %v; no announce response the server sent for the client's transaction encodes exactly these (responses: %+v)", r.peers, cands)
		}
	} else if len(r.peers) > 0 {
		ok := false
		for _, cd := range cands {
			if isPrefix(r.peers, cd.peers) {
				ok = true
			}
		}
		if !ok {
			c.fail("peers %v were learnt (err=%v); no announce response the server sent for the client's transaction encodes them (responses: %+v)", r.peers, r.err, cands)
		}
	}
}

// udpBound: the gap demanded after a successful UDP announce: the smallest
// interval among the responses that encode exactly the peers learnt.
func (c *caseState) udpBound(r *result, reqs []udpRequest, sent []sentDatagram) time.Duration {
	best := time.Duration(-1)
	for _, cd := range c.candidates(reqs, sent) {
		if cd.exact && sameMultiset(r.peers, cd.peers) {
			b := floor
			if cd.interval > 60 {
				b = max(floor, time.Duration(cd.interval)*time.Second)
			}
			if best < 0 || b < best {
				best = b
			}
		}
	}
	if best < 0 {
		return floor
	}
	return best
}

// ------------------------------------------------------------------ tests

func TestC15HTTP(t *testing.T) {
	rapid.Check(t, func(t *rapid.T) {
		v6 := rapid.IntRange(0, 3).Draw(t, "v6") == 0
		runCase(t, false, v6, genHistory(t, false, v6))
	})
}

func TestC15UDP(t *testing.T) {
	rapid.Check(t, func(t *rapid.T) {
		v6 := rapid.IntRange(0, 3).Draw(t, "v6") == 0
		runCase(t, true, v6, genHistory(t, true, v6))
	})
}

// TestC15UDPSilent is for the thorough tier only: each case contains exactly
// one request that the server drops silently, which costs 5 s of real time
// (the client's first retransmission time-out).  The retransmission must be
// answered like any other request and the outcome obeys the same oracle.
func TestC15UDPSilent(t *testing.T) {
	if os.Getenv("VERIF_C15_SLOW") == "" {
		t.Skip("set VERIF_C15_SLOW=1: every case takes 5 s of real time")
	}
	rapid.Check(t, func(t *rapid.T) {
		v6 := rapid.IntRange(0, 3).Draw(t, "v6") == 0
		p := genUDPPlan(t, v6)
		at := rapid.IntRange(0, 1).Draw(t, "silentAt")
		kinds := []string{"silent"}
		if at == 1 {
			kinds = []string{"ok", "silent"}
		}
		switch rapid.IntRange(0, 2).Draw(t, "then") {
		case 1:
			kinds = append(kinds, rapid.SampledFrom(udpBadKinds).Draw(t, "bad"))
		case 2:
			kinds = append(kinds, "foreign-tid", "foreign-tid", "foreign-tid")
		}
		p.kinds = kinds
		steps := []step{{kind: "announce", udp: p}, genShift(t), {kind: "announce", udp: genUDPPlan(t, v6)}, {kind: "getstate"}}
		runCase(t, true, v6, steps)
		stats.Label("udp-silent-drop")
	})
}
