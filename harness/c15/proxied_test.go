package c15

// The tracker client itself under a proxy (C18: a proxied torrent never
// reveals the client version or its own address to trackers).  A loopback
// server plays the HTTP proxy, another one the tracker.  Whatever the proxy /
// tracker answers - also the errors that invite a retry - every request goes
// to the proxy, none to the tracker directly, none names a client, and an
// unusable proxy setting means no request at all (the announce fails; it does
// not fall back to a direct connection).  Registered under C18.

import (
	"context"
	"fmt"
	"net/netip"
	"strings"
	"testing"
	"time"

	"github.com/jech/storrent/tracker"

	"verif/stats"
)

func proxiedAnnounce(url, proxy string) result {
	tr := tracker.New(url)
	ch := make(chan result, 1)
	go func() {
		var r result
		defer func() {
			if p := recover(); p != nil {
				r.panic = p
			}
			ch <- r
		}()
		ctx, cancel := context.WithTimeout(context.Background(), 20*time.Second)
		defer cancel()
		// (port 0: a proxied torrent does not tell its port)
		r.err = tr.Announce(ctx, hash20, myid20, 50, 1<<20, 0, 0, proxy, func(a netip.AddrPort) bool {
			r.peers = append(r.peers, a)
			return true
		})
	}()
	select {
	case r := <-ch:
		return r
	case <-time.After(60 * time.Second):
		return result{timedOut: true}
	}
}

func TestC18ProxiedTracker(t *testing.T) {
	initGlobals()
	ss, err := getServers()
	if err != nil {
		t.Skip("inconclusive: cannot open loopback sockets: " + err.Error())
	}
	trackerSrv, proxySrv := ss.http4, ss.http6
	url := "http://" + trackerSrv.host + "/announce"
	good := (&hModel{form: "compact", interval: int64(1800)}).body()
	// ---- a working proxy, whatever it answers
	for _, ans := range []httpAnswer{{status: 200, body: good}, {status: 403, body: []byte("forbidden")}, {status: 400, body: []byte("bad request")},
		{status: 407, body: []byte("proxy authentication required")}, {status: 503, body: []byte("busy")}, {status: 200, body: []byte("d14:failure reason9:not todaye")}} {
		ans.cutAt = -1
		a1, a2 := ans, httpAnswer{status: 200, body: good, cutAt: -1}
		proxySrv.script(&a1)
		trackerSrv.script(&a2)
		r := proxiedAnnounce(url, "http://"+proxySrv.host)
		if r.timedOut {
			t.Skip("inconclusive: an announce through a loopback proxy did not return within 60 s")
		}
		if r.panic != nil {
			t.Fatalf("proxy answers %d: Announce panicked: %v", ans.status, r.panic)
		}
		if direct := trackerSrv.requests(); len(direct) > 0 {
			t.Fatalf("proxy answers %d: the tracker was contacted directly (%q) by a torrent that has a proxy", ans.status, direct)
		}
		reqs, hdrs := proxySrv.requests(), proxySrv.headers()
		if len(reqs) == 0 {
			t.Fatalf("proxy answers %d: the announce (err=%v) sent nothing through the proxy", ans.status, r.err)
		}
		for i, h := range hdrs {
			if ua := h.Values("User-Agent"); len(ua) > 0 {
				t.Fatalf("proxy answers %d: request %d of %d through the proxy names the client: User-Agent %q (requests: %q)", ans.status, i+1, len(hdrs), ua, reqs)
			}
			for k, v := range h {
				if strings.Contains(strings.ToLower(fmt.Sprint(k, v)), "storrent") {
					t.Fatalf("proxy answers %d: request %d names the client in header %s: %q", ans.status, i+1, k, v)
				}
			}
			if strings.Contains(reqs[i], "port=") || strings.Contains(reqs[i], "ipv6=") || strings.Contains(reqs[i], "ip=") {
				t.Fatalf("proxy answers %d: request %d through the proxy tells the tracker where we are: %q", ans.status, i+1, reqs[i])
			}
		}
		stats.Case(fmt.Sprintf("proxied-tracker/%d", ans.status), true, "proxied-tracker-request")
	}
	// ---- proxy settings that cannot be used: nothing goes out at all
	for _, proxy := range []string{"127.0.0.1:9050", "://nowhere", "socks5://127.0.0.1:1", "http://127.0.0.1:1", "bogus://127.0.0.1:9", "http://[::1"} {
		a1, a2 := httpAnswer{status: 200, body: good, cutAt: -1}, httpAnswer{status: 200, body: good, cutAt: -1}
		proxySrv.script(&a1)
		trackerSrv.script(&a2)
		r := proxiedAnnounce(url, proxy)
		if r.timedOut {
			t.Skip("inconclusive: an announce with an unusable proxy did not return within 60 s")
		}
		if r.panic != nil {
			t.Fatalf("proxy %q: Announce panicked: %v", proxy, r.panic)
		}
		if direct := trackerSrv.requests(); len(direct) > 0 {
			t.Fatalf("proxy setting %q cannot be used, and the tracker was contacted directly (%q): the torrent's own address is revealed instead of the announce failing", proxy, direct)
		}
		if r.err == nil {
			t.Fatalf("proxy setting %q cannot be used, and Announce reports success (peers %v)", proxy, r.peers)
		}
		stats.Case("unusable-proxy/"+proxy, true, "unusable-proxy-fails-closed")
	}
	// ---- a UDP tracker: proxies relay TCP only, so the announce must fail;
	// no datagram may reach the tracker from our own address
	for _, us := range []*udpServer{ss.udp4, ss.udp6} {
		for _, proxy := range []string{"socks5://" + proxySrv.host, "socks5://127.0.0.1:1", "http://" + proxySrv.host, "socks5h://" + proxySrv.host} {
			a1 := httpAnswer{status: 200, body: good, cutAt: -1}
			proxySrv.script(&a1)
			us.install(nil)
			r := proxiedAnnounce("udp://"+us.host+"/announce", proxy)
			if r.timedOut {
				t.Skip("inconclusive: a UDP announce under a proxy did not return within 60 s")
			}
			if r.panic != nil {
				t.Fatalf("UDP tracker, proxy %q: Announce panicked: %v", proxy, r.panic)
			}
			if !us.flush() {
				t.Skip("inconclusive: the loopback UDP server does not answer")
			}
			if reqs, _ := us.seen(); len(reqs) > 0 {
				t.Fatalf("UDP tracker %s, proxy %q: the tracker received %d datagram(s) directly from our own address (%v): a proxied torrent reveals its address to the tracker instead of the announce failing", us.host, proxy, len(reqs), reqs)
			}
			if r.err == nil {
				t.Fatalf("UDP tracker %s, proxy %q: Announce reports success (peers %v) although nothing reached the tracker", us.host, proxy, r.peers)
			}
			stats.Case("proxied-udp-tracker/"+us.pc.LocalAddr().Network()+"/"+strings.SplitN(proxy, ":", 2)[0], true, "proxied-udp-tracker-fails-closed")
		}
	}
}
