package c15

// An HTTP tracker reachable over both address families: one Announce makes
// two requests (tcp4 and tcp6), each answered by its own scripted server with
// its own interval, failure or garbage.  Discipline: the tracker is not
// contacted again, over either family, before the larger of five minutes and
// the larger of the intervals the two replies announced.
//
// The host name of the URL resolves nowhere: the two per-family HTTP clients
// storrent caches (httpclient.Get("tcp4" / "tcp6", "")) get a dial function
// that connects to the loopback server of their family whatever the address.

import (
	"context"
	"fmt"
	"net"
	"net/http"
	"sort"
	"testing"
	"time"

	"pgregory.net/rapid"

	"github.com/jech/storrent/httpclient"
	"github.com/jech/storrent/tracker"

	"verif/stats"
)

func redirectFamilies(t4, t6 string) (restore func()) {
	var olds []func(ctx context.Context, n, a string) (net.Conn, error)
	var trs []*http.Transport
	for _, fam := range []struct{ network, target string }{{"tcp4", t4}, {"tcp6", t6}} {
		tr := httpclient.Get(fam.network, "").Transport.(*http.Transport)
		olds = append(olds, tr.DialContext)
		trs = append(trs, tr)
		network, target := fam.network, fam.target
		tr.DialContext = func(ctx context.Context, n, a string) (net.Conn, error) {
			var d net.Dialer
			return d.DialContext(ctx, network, target)
		}
		tr.CloseIdleConnections()
	}
	return func() {
		for i, tr := range trs {
			tr.DialContext = olds[i]
			tr.CloseIdleConnections()
		}
	}
}

type famPlan struct {
	class string // model | garbage | status
	m     *hModel
	body  []byte
	code  int
}

func genFamPlan(t *rapid.T, label string) famPlan {
	switch rapid.IntRange(0, 5).Draw(t, label+".class") {
	case 0:
		return famPlan{class: "status", code: rapid.SampledFrom([]int{404, 500, 503}).Draw(t, label+".code"), body: []byte("no")}
	case 1:
		return famPlan{class: "garbage", code: 200, body: defuse(genArbitrary(t))}
	}
	m := &hModel{form: "compact"}
	for i, n := 0, rapid.IntRange(0, 3).Draw(t, label+".npeers"); i < n; i++ {
		m.peers = append(m.peers, genAddrPort(t, false))
	}
	m.interval = rapid.SampledFrom([]any{nil, int64(60), int64(301), int64(600), int64(900), int64(1800), int64(3600), int64(86400)}).Draw(t, label+".interval")
	if rapid.IntRange(0, 5).Draw(t, label+".failure") == 0 {
		m.hasFailure = true
		m.failure = "not now"
		m.retry = rapid.SampledFrom([]string{"", "never", "10", "60"}).Draw(t, label+".retry")
	}
	return famPlan{class: "model", m: m, code: 200, body: m.body()}
}

func (p famPlan) String() string {
	if p.class == "model" {
		return p.m.String()
	}
	return fmt.Sprintf("{%s %d %s}", p.class, p.code, clip(p.body))
}

func TestC15DualFamily(t *testing.T) {
	initGlobals()
	ss, err := getServers()
	if err != nil {
		t.Skip("inconclusive: cannot open loopback sockets: " + err.Error())
	}
	restore := redirectFamilies(ss.http4.host, ss.http6.host)
	defer restore()
	rapid.Check(t, func(t *rapid.T) {
		url := fmt.Sprintf("http://dual-stack.verif.invalid:%d/announce", 6969)
		tr, ok := tracker.New(url).(shifter)
		if !ok {
			t.Fatalf("harness: not an HTTP tracker")
		}
		var hist []string
		fail := func(format string, a ...any) {
			t.Fatalf("C15 (both families) %s\nhistory:\n  %s", fmt.Sprintf(format, a...), joinLines(hist))
		}
		labels := map[string]bool{}
		bound := floor
		attempted := false
		var since time.Duration
		var t0 time.Time
		rounds := rapid.IntRange(2, 5).Draw(t, "rounds")
		for k := 0; k < rounds; k++ {
			if k > 0 {
				// move the clock: short of the required gap, just beyond it, or anywhere
				var d time.Duration
				switch rapid.IntRange(0, 4).Draw(t, "shiftclass") {
				case 0:
					d = bound - since - time.Second
				case 1:
					d = bound - since + time.Second
				case 2:
					d = floor + time.Second
				default:
					d = time.Duration(rapid.Int64Range(0, int64(2*time.Hour)).Draw(t, "shift"))
				}
				if d < 0 {
					d = 0
				}
				tr.VerifShift(d)
				since += d
				hist = append(hist, fmt.Sprintf("clock +%v (now %v after the last attempt; required gap %v)", d, since, bound))
			}
			p4, p6 := genFamPlan(t, "v4"), genFamPlan(t, "v6")
			ss.http4.script(&httpAnswer{status: p4.code, body: p4.body, cutAt: -1})
			ss.http6.script(&httpAnswer{status: p6.code, body: p6.body, cutAt: -1})
			start := time.Now()
			r := announce(tr, context.Background())
			if r.timedOut {
				t.Skip("inconclusive: an announce against loopback did not return within 120 s")
			}
			if r.panic != nil {
				fail("Announce panicked: %v", r.panic)
			}
			c4, c6 := len(ss.http4.requests()), len(ss.http6.requests())
			hist = append(hist, fmt.Sprintf("announce: IPv4 server answers %v, IPv6 server answers %v -> err=%v, %d peers; requests seen: v4 %d, v6 %d", p4, p6, r.err, len(r.peers), c4, c6))
			upper := since + time.Since(t0)
			if attempted && upper < bound {
				labels["dual:second-announce-too-early"] = true
				if c4+c6 > 0 {
					fail("the tracker was contacted %v (at most %v) after the previous attempt; it must wait %v: the larger of five minutes and the larger of the intervals its two replies announced", since, upper, bound)
				}
			}
			if c4 > 1 || c6 > 1 {
				fail("%d + %d requests for one announce", c4, c6)
			}
			if st, _ := tr.GetState(); st == tracker.Busy {
				fail("Announce has returned and GetState still reports busy")
			}
			if c4+c6 > 0 {
				attempted, since, t0 = true, 0, start
				bound = floor
				ok4 := c4 > 0 && p4.class == "model"
				ok6 := c6 > 0 && p6.class == "model"
				for _, x := range []struct {
					ok bool
					p  famPlan
				}{{ok4, p4}, {ok6, p6}} {
					// (a failure reply's own delay is left out of the bound: it binds
					// only when the announce as a whole failed; the bound stays a lower one)
					if x.ok && !x.p.m.hasFailure {
						b, _ := x.p.m.intervalBound()
						bound = max(bound, time.Duration(b)*time.Second)
					}
				}
				if ok4 && ok6 && !p4.m.hasFailure && !p6.m.hasFailure {
					labels["dual:both-families-answered"] = true
					b4, _ := p4.m.intervalBound()
					b6, _ := p6.m.intervalBound()
					switch {
					case b6 > b4:
						labels["dual:ipv6-interval-larger"] = true
					case b4 > b6:
						labels["dual:ipv4-interval-larger"] = true
					}
				}
				if (ok4 && !p4.m.hasFailure) != (ok6 && !p6.m.hasFailure) {
					labels["dual:one-family-failed"] = true
				}
			}
		}
		var l []string
		for k := range labels {
			l = append(l, k)
		}
		sort.Strings(l)
		stats.Case(fmt.Sprint(l), labels["dual:both-families-answered"], l...)
	})
}

func joinLines(l []string) string {
	s := ""
	for i, x := range l {
		if i > 0 {
			s += "\n  "
		}
		s += x
	}
	return s
}
