package c15

// Deterministic regression tests.

import (
	"context"
	"fmt"
	"net/netip"
	"os"
	"os/exec"
	"strings"
	"testing"
	"time"

	"github.com/jech/storrent/tracker"
)

// child runs the AF-C15-1 scenario in a process of its own: the panic is
// raised in a goroutine that nobody can recover, so it ends the process.
func child() {
	initGlobals()
	ss, err := getServers()
	if err != nil {
		fmt.Println("CHILD-INCONCLUSIVE:", err)
		os.Exit(0)
	}
	phase := os.Getenv("VERIF_C15_CHILD")
	p := &udpPlan{cid: 7, interval: 1800, kinds: []string{"foreign-tid", "foreign-tid", "foreign-tid", "foreign-tid"}}
	if phase == "announce" {
		p.kinds = append([]string{"ok"}, p.kinds...)
	}
	ss.udp4.install(func(k int, r udpRequest) [][]byte { return p.datagrams(k, r, false) })
	tr := tracker.New("udp://" + ss.udp4.host)
	ctx, cancel := context.WithTimeout(context.Background(), 60*time.Second)
	defer cancel()
	var peers []netip.AddrPort
	err = tr.Announce(ctx, hash20, myid20, 50, 1<<20, 6881, 6882, "", func(a netip.AddrPort) bool {
		peers = append(peers, a)
		return true
	})
	st, _ := tr.GetState()
	fmt.Printf("CHILD-RESULT: err=%v peers=%d state=%v\n", err, len(peers), st)
	os.Exit(0)
}

// AF-C15-1: four datagrams in a row that carry a foreign transaction id made
// udpRequestReply fall out of its retry loop with a nil error and hit
// panic("eek") in a goroutine of its own: the process dies.  The property
// demands an error (and no peers).
func TestReg_AF_C15_1_UDPForeignTransactionIDs(t *testing.T) {
	for _, phase := range []string{"connect", "announce"} {
		cmd := exec.Command(os.Args[0], "-test.run", "^$")
		cmd.Env = append(os.Environ(), "VERIF_C15_CHILD="+phase, "VERIF_STATS_OUT=")
		out, err := cmd.CombinedOutput()
		s := string(out)
		if strings.Contains(s, "CHILD-INCONCLUSIVE") {
			t.Skip("inconclusive: " + s)
		}
		if err != nil {
			if i := strings.Index(s, "\n\n"); i > 0 {
				s = s[:i]
			}
			t.Fatalf("C15: four %s responses with a foreign transaction id ended the process (%v):\n%s", phase, err, s)
		}
		if !strings.Contains(s, "CHILD-RESULT: err=") || strings.Contains(s, "err=<nil>") || !strings.Contains(s, "peers=0") || strings.Contains(s, "state=busy") {
			t.Fatalf("C15: four %s responses with a foreign transaction id must give an error, no peers and a tracker that is not busy; got: %s", phase, s)
		}
	}
}

// C15-dict-port: a dictionary-format peer whose port does not fit 16 bits
// (65537) was learnt with the port reduced modulo 2^16 (port 1): a peer the
// reply does not encode.
func TestReg_C15_DictPeerPortOutOfRange(t *testing.T) {
	for _, port := range []string{"65537", "4294967376", "281474976710657"} {
		body := []byte("d8:intervali1800e5:peersld2:ip8:10.0.0.14:porti" + port + "eeee")
		runCase(t, false, false, []step{{kind: "announce",
			http: &httpPlan{class: "mutated", mutation: "port-out-of-range", body: body, status: 200, cutAt: -1, m: &hModel{}}}})
	}
}
