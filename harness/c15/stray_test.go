package c15

// "Never left stuck in the busy state", against a tracker (or anybody who can
// send datagrams to the client's port) that keeps talking: for as long as the
// announce is in progress the server sends a datagram every 100 ms that is not
// an answer to the client's request - a foreign transaction id, a fragment,
// noise, a foreign error.  Whatever the client does with such datagrams, all
// its legitimate waiting (four transmissions, 5 + 10 + 20 + 40 s) is over after
// 75 s: an Announce that has not returned after 90 s is stuck.
//
// On a tree that behaves this takes well under a second per variant (storrent
// retransmits at once on a datagram it cannot use, and gives up after four).

import (
	"context"
	"fmt"
	"net"
	"sync"
	"sync/atomic"
	"testing"
	"time"

	"github.com/jech/storrent/tracker"

	"verif/gen"
	"verif/stats"
)

func TestC15StrayStream(t *testing.T) {
	initGlobals()
	kinds := []string{"foreign-tid", "fragment", "noise", "foreign-error"}
	type outcome struct {
		name string
		fail string
		took time.Duration
	}
	var wg sync.WaitGroup
	results := make(chan outcome, 16)
	for _, phase := range []string{"connect", "announce"} {
		for _, kind := range kinds {
			wg.Add(1)
			go func() {
				defer wg.Done()
				name := kind + " datagrams during the " + phase + " exchange"
				srv, err := newUDPServer("udp4", "127.0.0.1:0")
				if err != nil {
					results <- outcome{name: name, fail: "inconclusive: " + err.Error()}
					return
				}
				defer srv.pc.Close()
				var stop atomic.Bool
				var streams sync.WaitGroup
				defer func() {
					stop.Store(true)
					streams.Wait()
				}()
				srv.install(func(k int, r udpRequest) [][]byte {
					if phase == "announce" && r.kind == "connect" {
						return [][]byte{udpConnectReply(0, r.tid, 0x1122334455667788)}
					}
					if k > 0 && (phase == "connect" || k > 1) {
						// a retransmission: the stream started by the first request goes on
						return nil
					}
					dst, err := net.ResolveUDPAddr("udp4", r.src)
					if err != nil {
						return nil
					}
					streams.Add(1)
					go func() {
						defer streams.Done()
						for i := 0; i < 950 && !stop.Load(); i++ {
							var d []byte
							switch kind {
							case "foreign-tid":
								if r.kind == "connect" {
									d = udpConnectReply(0, r.tid^0x01000000, 7)
								} else {
									d = udpAnnounceReply(1, r.tid^0x01000000, 1800, 1, 1, nil)
								}
							case "fragment":
								d = udpConnectReply(0, r.tid, 7)[:7]
							case "noise":
								d = gen.Fill(uint64(i), 64)
								if d[4] == byte(r.tid>>24) {
									d[4] ^= 1
								}
							case "foreign-error":
								d = udpError(r.tid^0x00010000, "go away, and take your friends with you")
							}
							srv.pc.WriteTo(d, dst)
							time.Sleep(100 * time.Millisecond)
						}
					}()
					return nil
				})
				tr := tracker.New("udp://" + srv.host + "/announce")
				start := time.Now()
				done := make(chan result, 1)
				go func() { done <- announce(tr, context.Background()) }()
				select {
				case r := <-done:
					took := time.Since(start)
					switch {
					case r.panic != nil:
						results <- outcome{name, fmt.Sprintf("Announce panicked: %v", r.panic), took}
					case r.timedOut:
						results <- outcome{name, "Announce has not returned after 120 s", took}
					case r.err == nil:
						results <- outcome{name, fmt.Sprintf("Announce succeeded (peers %v) although the server never answered its request", r.peers), took}
					default:
						if st, _ := tr.GetState(); st == tracker.Busy {
							results <- outcome{name, "Announce has returned and GetState still reports busy", took}
						} else {
							results <- outcome{name, "", took}
						}
					}
				case <-time.After(90 * time.Second):
					st, _ := tr.GetState()
					results <- outcome{name, fmt.Sprintf("Announce has not returned after 90 s (GetState: %v) although every legitimate wait - four transmissions, 5 + 10 + 20 + 40 s - is over: the tracker is stuck in the busy state for as long as such datagrams keep arriving", st), 90 * time.Second}
				}
			}()
		}
	}
	wg.Wait()
	close(results)
	for o := range results {
		if len(o.fail) > 13 && o.fail[:13] == "inconclusive:" {
			t.Skip(o.fail)
		}
		if o.fail != "" {
			t.Errorf("%s: %s", o.name, o.fail)
		}
		stats.Case("stray-stream/"+o.name, true, "udp-stray-stream")
	}
}
