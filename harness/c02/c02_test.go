// C02 — a Reader is an exact, live view of its byte range.
package c02

import (
	"bytes"
	"context"
	"errors"
	"fmt"
	"io"
	"net"
	"os"
	"sort"
	"sync"
	"testing"
	"time"

	"pgregory.net/rapid"

	"github.com/jech/storrent/config"
	"github.com/jech/storrent/tor"

	"verif/ref"
	"verif/sim"
	"verif/stats"
)

func TestMain(m *testing.M) { stats.Main(m) }

// seed makes r an honest, unchoking seed: it answers every request from the
// true content after `latency` of virtual time, unless the request has been
// cancelled meanwhile (as a real seed does).  corrupt > 0: the first `corrupt`
// blocks it serves are wrong.
// seedRepeatsUnchoke: the scripted seeds answer every Interested with Unchoke
// (set per case).
var seedRepeatsUnchoke bool

func seed(x *sim.Tor, r *sim.Remote, corrupt int, served *int, latency time.Duration) {
	bad := corrupt
	var mu sync.Mutex
	type key struct{ i, b uint32 }
	gen := map[key]int{} // generation of the latest request for a block; a cancel bumps it
	unchoked := false
	r.Auto(func(m ref.Msg) []ref.Msg {
		switch m.Kind {
		case ref.KRequest:
			d := x.Data(int(m.Index), int64(m.Begin), int64(m.Length))
			if d == nil {
				return nil
			}
			d = append([]byte(nil), d...)
			mu.Lock()
			if bad > 0 {
				bad--
				d[0] ^= 0xff
			}
			k := key{m.Index, m.Begin}
			gen[k]++
			g := gen[k]
			mu.Unlock()
			reply := ref.Msg{Kind: ref.KPiece, Index: m.Index, Begin: m.Begin, Data: d}
			if latency == 0 {
				mu.Lock()
				*served++
				mu.Unlock()
				return []ref.Msg{reply}
			}
			go func() {
				time.Sleep(latency)
				mu.Lock()
				live := gen[k] == g
				if live {
					*served++
				}
				mu.Unlock()
				if live {
					r.Send(reply)
				}
			}()
			return nil
		case ref.KCancel:
			mu.Lock()
			gen[key{m.Index, m.Begin}]++
			mu.Unlock()
		case ref.KInterest:
			// an unchoking seed says so once; a seed that repeated it at every
			// Interested would re-trigger storrent's scheduler each time, and
			// hide a scheduler that has stopped asking
			mu.Lock()
			first := !unchoked
			unchoked = true
			mu.Unlock()
			if first || seedRepeatsUnchoke {
				return []ref.Msg{{Kind: ref.KUnchoke}}
			}
		}
		return nil
	})
	if r.Caps.Fast {
		r.Send(ref.Msg{Kind: ref.KHaveAll})
	} else {
		bf := make([]byte, (x.N+7)/8)
		for i := 0; i < x.N; i++ {
			bf[i/8] |= 0x80 >> (i % 8)
		}
		r.Send(ref.Msg{Kind: ref.KBitfield, Data: bf})
	}
	r.Send(ref.Msg{Kind: ref.KUnchoke})
}

type step struct {
	Kind   string
	Off    int64
	Whence int
	N      int
	Target int64
}

func (s step) String() string {
	switch s.Kind {
	case "seek":
		return fmt.Sprintf("Seek(%d,%d)", s.Off, s.Whence)
	case "read":
		return fmt.Sprintf("Read(%d)", s.N)
	case "read1":
		return fmt.Sprintf("Read-once(%d)", s.N)
	case "evict":
		return fmt.Sprintf("evict(to %d)", s.Target)
	case "sleep":
		return fmt.Sprintf("sleep(%ds)", s.N)
	}
	return s.Kind
}

type caseSpec struct {
	g             sim.Geometry
	off, len      int64
	steps         []step
	prefill       []int
	idleRate      uint32
	lowMem        bool
	corrupt       int
	fast          bool
	latency       time.Duration // of the honest seed
	repeatUnchoke bool          // the seed answers every Interested with Unchoke, not only the first
	end           string        // close | kill-blocked | cancel-blocked
	liar          bool          // a third peer sends don't-have for every piece without ever having had any
	huge          bool          // g.PieceSize and g.Length describe a torrent too large to materialise (sim.BuildHuge)
}

func genCase(rt *rapid.T) caseSpec {
	var c caseSpec
	psK := rapid.SampledFrom([]int64{16, 32, 64}).Draw(rt, "pieceKiB")
	ps := psK * 1024
	n := rapid.IntRange(1, 12).Draw(rt, "pieces")
	total := ps*int64(n) - rapid.SampledFrom([]int64{0, 0, 1, 100, 8192, 16383}).Draw(rt, "tail")
	if total <= 0 {
		total = ps
	}
	c.g = sim.Geometry{PieceSize: ps, Length: total, Seed: rapid.Uint64().Draw(rt, "seed")}
	if rapid.Bool().Draw(rt, "multifile") {
		// split into files (some tiny, some empty) that share pieces
		nf := rapid.IntRange(2, 6).Draw(rt, "files")
		rem := total
		for i := 0; i < nf; i++ {
			l := rem
			if i < nf-1 {
				switch rapid.IntRange(0, 3).Draw(rt, "fclass") {
				case 0:
					l = 0
				case 1:
					l = min(rem, rapid.Int64Range(1, 1000).Draw(rt, "fsmall"))
				default:
					l = rapid.Int64Range(0, rem).Draw(rt, "flen")
				}
			}
			c.g.Files = append(c.g.Files, sim.FileSpec{Path: []string{fmt.Sprintf("f%d", i)}, Length: l})
			rem -= l
		}
		// reader on a whole file, as HTTP and FUSE do
		k := rapid.IntRange(0, nf-1).Draw(rt, "whichfile")
		for i := 0; i < k; i++ {
			c.off += c.g.Files[i].Length
		}
		c.len = c.g.Files[k].Length
	} else {
		switch rapid.IntRange(0, 2).Draw(rt, "range") {
		case 0:
			c.off, c.len = 0, total
		default:
			c.off = rapid.Int64Range(0, total-1).Draw(rt, "off")
			c.len = rapid.Int64Range(0, total-c.off).Draw(rt, "len")
		}
	}
	switch rapid.IntRange(0, 5).Draw(rt, "prefillclass") {
	case 0: // everything but one piece
		miss := rapid.IntRange(0, n-1).Draw(rt, "missing")
		for i := 0; i < n; i++ {
			if i != miss {
				c.prefill = append(c.prefill, i)
			}
		}
	case 1: // everything
		for i := 0; i < n; i++ {
			c.prefill = append(c.prefill, i)
		}
	default:
		for i := 0; i < n; i++ {
			if rapid.IntRange(0, 2).Draw(rt, "prefill") == 0 {
				c.prefill = append(c.prefill, i)
			}
		}
	}
	c.idleRate = rapid.SampledFrom([]uint32{0, 0, 64 * 1024}).Draw(rt, "idleRate")
	c.lowMem = rapid.Bool().Draw(rt, "memAboveLowMark")
	c.corrupt = rapid.SampledFrom([]int{0, 0, 1, 3}).Draw(rt, "corruptBlocks")
	c.fast = rapid.Bool().Draw(rt, "fast")
	c.repeatUnchoke = rapid.IntRange(0, 3).Draw(rt, "repeatUnchoke") == 0
	c.liar = rapid.IntRange(0, 3).Draw(rt, "liar") == 0
	c.latency = rapid.SampledFrom([]time.Duration{0, 0, 5 * time.Millisecond, 80 * time.Millisecond, 400 * time.Millisecond}).Draw(rt, "seedLatency")
	ns := rapid.IntRange(1, 25).Draw(rt, "nsteps")
	for i := 0; i < ns; i++ {
		switch k := rapid.IntRange(0, 9).Draw(rt, "step"); {
		case k < 5:
			kind := "read"
			if rapid.IntRange(0, 4).Draw(rt, "once") == 0 {
				kind = "read1"
			}
			c.steps = append(c.steps, step{Kind: kind, N: rapid.SampledFrom([]int{0, 1, 100, 16383, 16384, 16385, int(ps), 1 << 20}).Draw(rt, "n")})
		case k < 8:
			s := step{Kind: "seek", Whence: rapid.IntRange(0, 2).Draw(rt, "whence")}
			switch rapid.IntRange(0, 4).Draw(rt, "seekclass") {
			case 0:
				s.Off = rapid.Int64Range(-c.len-10, c.len+10).Draw(rt, "seekoff")
			case 1:
				s.Off = 0
			case 2: // piece boundaries of the torrent, seen from the reader
				p := rapid.Int64Range(0, int64(n)).Draw(rt, "boundary")*ps - c.off + rapid.Int64Range(-1, 1).Draw(rt, "delta")
				s.Off, s.Whence = p, 0
			default:
				s.Off = rapid.Int64Range(0, max(c.len, 1)).Draw(rt, "seekin")
				s.Whence = 0
			}
			c.steps = append(c.steps, s)
		case k == 8 && rapid.Bool().Draw(rt, "sleep?"):
			// time passes: the scheduler may go quiet (everything asked for is there)
			c.steps = append(c.steps, step{Kind: "sleep", N: rapid.SampledFrom([]int{1, 3, 10, 60}).Draw(rt, "secs")})
		default:
			c.steps = append(c.steps, step{Kind: "evict", Target: rapid.SampledFrom([]int64{0, 0, ps, 3 * ps}).Draw(rt, "target")})
		}
	}
	c.end = rapid.SampledFrom([]string{"close", "kill-blocked", "cancel-blocked"}).Draw(rt, "end")
	return c
}

// readLoop calls Read until it returns data or an error, backing off in
// virtual time after empty successes.  A Read that is still blocked when the
// budget (virtual time) is spent is reported as stuck.
// singleRead: readLoop makes one Read call only (a consumer that looks at an
// empty read and then does something else: closes, seeks, gives up).
var singleRead bool

func readLoop(rd *tor.Reader, buf []byte, budget time.Duration) (n int, err error, empties int, took time.Duration, stuck bool) {
	start := time.Now()
	wait := 10 * time.Millisecond
	type res struct {
		n   int
		err error
	}
	for {
		ch := make(chan res, 1)
		go func() {
			n, err := rd.Read(buf)
			ch <- res{n, err}
		}()
		select {
		case v := <-ch:
			n, err = v.n, v.err
		case <-time.After(budget):
			return 0, nil, empties, time.Since(start), true
		}
		if n > 0 || err != nil || len(buf) == 0 || singleRead {
			return n, err, empties, time.Since(start), false
		}
		empties++
		if time.Since(start) > budget {
			return 0, nil, empties, time.Since(start), false
		}
		time.Sleep(wait)
		if wait < 5*time.Second {
			wait *= 2
		}
	}
}

func runCase(c caseSpec) (fail string, labels map[string]bool) {
	labels = map[string]bool{}
	seedRepeatsUnchoke = c.repeatUnchoke
	config.SetIdleRate(c.idleRate)
	defer config.SetIdleRate(64 * 1024)
	if c.lowMem {
		// memory "above the low mark": the idle prefetcher stays away, as it
		// does in the very situation in which pieces get evicted
		config.MemoryMark = 1
	} else {
		config.MemoryMark = 1 << 30
	}
	defer func() { config.MemoryMark = 1 << 30 }()
	var x *sim.Tor
	var err error
	if c.huge {
		// true hashes for the pieces the reader's range touches, and one either side
		var real []int
		n := int((c.g.Length + c.g.PieceSize - 1) / c.g.PieceSize)
		for i := int(c.off/c.g.PieceSize) - 1; i <= int((c.off+c.len)/c.g.PieceSize)+1; i++ {
			if i >= 0 && i < n {
				real = append(real, i)
			}
		}
		x, err = sim.BuildHuge(c.g.PieceSize, c.g.Length, c.g.Seed, real)
	} else {
		x, err = sim.Build(c.g, "")
	}
	if err != nil {
		return "build: " + err.Error(), labels
	}
	ctx0, cancel0 := context.WithCancel(context.Background())
	defer cancel0()
	if err := x.Start(ctx0); err != nil {
		return "start: " + err.Error(), labels
	}
	t := x.T
	for _, i := range c.prefill {
		if i < x.N {
			x.Fill(i)
		}
	}
	served := 0
	r, err := x.Connect(sim.Caps{Fast: c.fast, Extended: true}, 1, false)
	if err != nil {
		return "connect: " + err.Error(), labels
	}
	seed(x, r, 0, &served, c.latency)
	closeAll := func() {}
	if c.liar && !c.huge {
		// a peer that has nothing and says so about every piece, one by one -
		// pieces it never announced: that must not take anything away from what
		// the honest seed contributes
		r3, err := x.Connect(sim.Caps{Fast: true, Extended: true}, 3, false)
		if err != nil {
			return "connect: " + err.Error(), labels
		}
		r3.SendExt(nil, nil, nil, "")
		r3.Send(ref.Msg{Kind: ref.KHaveNone})
		for k := 0; k < x.N; k++ {
			r3.Send(ref.Msg{Kind: ref.KExtended, Sub: 3, X: ref.XDontHave, Index: uint32(k)})
		}
		sim.Settle()
		labels["peer-disowns-pieces-it-never-had"] = true
	}
	if c.corrupt > 0 {
		// a second peer whose first blocks are wrong (storrent may ban it; the
		// honest seed stays)
		bad := 0
		r2, err := x.Connect(sim.Caps{Fast: !c.fast, Extended: true}, 2, false)
		if err != nil {
			return "connect: " + err.Error(), labels
		}
		seed(x, r2, c.corrupt, &bad, 0)
		closeAll = r2.Close
	}
	sim.Settle()

	var F []byte
	if c.huge {
		for o := c.off; o < c.off+c.len; {
			i := int(o / x.PieceSize)
			d := x.Data(i, o-int64(i)*x.PieceSize, c.off+c.len-o)
			F = append(F, d...)
			o += int64(len(d))
		}
	} else {
		F = x.Content[c.off : c.off+c.len]
	}
	rctx, rcancel := context.WithCancel(context.Background())
	defer rcancel()
	rd := t.NewReader(rctx, c.off, c.len)
	pos := int64(0)
	var hist []string
	lastReadPiece := int64(-1)
	evictedSince := false
	quiet := false // time has passed since the last read: the request ticker may have stopped
	describe := func() string {
		return fmt.Sprintf("reader on [%d,+%d) of a %d-byte torrent (piece %d KiB, files %d, prefilled %v, idle rate %d, mem above low mark %v, corrupt blocks %d)\nhistory: %v",
			c.off, c.len, x.Length, x.PieceSize/1024, len(c.g.Files), c.prefill, c.idleRate, c.lowMem, c.corrupt, hist)
	}
	evict := func(target int64) {
		n := t.Pieces.Expire(target, nil, func(i uint32) { t.Have(i, false) })
		if n > 0 {
			evictedSince = true
			labels["evicted"] = true
		}
		sim.Settle()
	}
	for _, s := range c.steps {
		hist = append(hist, s.String())
		switch s.Kind {
		case "seek":
			var want int64
			switch s.Whence {
			case io.SeekStart:
				want = s.Off
			case io.SeekCurrent:
				want = pos + s.Off
			case io.SeekEnd:
				want = c.len + s.Off
			}
			got, err := rd.Seek(s.Off, s.Whence)
			if want < 0 {
				if err == nil {
					return fmt.Sprintf("%s to a negative position succeeded (returned %d)\n%s", s, got, describe()), labels
				}
				if got != pos {
					return fmt.Sprintf("failed %s returned position %d, want the unchanged %d\n%s", s, got, pos, describe()), labels
				}
			} else {
				if err != nil || got != want {
					return fmt.Sprintf("%s returned (%d, %v), want (%d, nil)\n%s", s, got, err, want, describe()), labels
				}
				pos = want
				if pos > c.len {
					labels["seek-beyond-end"] = true
				}
			}
		case "evict":
			evict(s.Target)
			if len(tor.VerifRequested(t)) > 0 && quiet {
				labels["evicted-after-scheduler-went-quiet"] = true
			}
			quiet = false
		case "sleep":
			time.Sleep(time.Duration(s.N) * time.Second)
			sim.Settle()
			quiet = s.N >= 3
		case "read", "read1":
			singleRead = s.Kind == "read1"
			buf := make([]byte, s.N)
			for i := range buf {
				buf[i] = 0xA5
			}
			n, err, empties, took, stuck := readLoop(rd, buf, 10*time.Minute)
			if stuck {
				rcancel()
				time.Sleep(time.Second)
				return fmt.Sprintf("%s at position %d is still blocked after 10 virtual minutes although an honest unchoking seed is connected (it served %d blocks)\n%s", s, pos, served, describe()), labels
			}
			hist[len(hist)-1] += fmt.Sprintf("→(%d,%v) after %v, %d empty", n, err, took.Round(time.Millisecond), empties)
			if empties > 0 {
				labels["empty-reads-before-data"] = true
			}
			if pos >= c.len {
				if n != 0 || err != io.EOF {
					return fmt.Sprintf("%s at position %d >= length %d returned (%d, %v), want (0, EOF)\n%s", s, pos, c.len, n, err, describe()), labels
				}
				labels["eof-at-end"] = true
				continue
			}
			if s.N == 0 {
				if n != 0 || (err != nil && err != io.EOF) {
					return fmt.Sprintf("zero-length %s returned (%d, %v)\n%s", s, n, err, describe()), labels
				}
				continue
			}
			if err != nil && err != io.EOF {
				return fmt.Sprintf("%s at position %d returned error %v while the context is live, the torrent alive and an honest seed connected\n%s", s, pos, err, describe()), labels
			}
			if n == 0 && err == nil && s.Kind == "read1" {
				// the piece was evicted; this consumer does not insist
				labels["single-read-saw-eviction"] = true
				continue
			}
			if n == 0 && err == nil {
				return fmt.Sprintf("%s at position %d: no data within 10 virtual minutes (%d empty reads) although an honest unchoking seed is connected (it served %d blocks)\n%s", s, pos, empties, served, describe()), labels
			}
			if pos+int64(n) > c.len {
				return fmt.Sprintf("%s at position %d returned %d bytes: beyond the reader's length %d\n%s", s, pos, n, c.len, describe()), labels
			}
			if !bytes.Equal(buf[:n], F[pos:pos+int64(n)]) {
				return fmt.Sprintf("%s at position %d returned %d bytes that differ from the torrent's content at offset %d\n%s", s, pos, n, c.off+pos, describe()), labels
			}
			for _, b := range buf[n:] {
				if b != 0xA5 {
					return fmt.Sprintf("%s wrote beyond the %d bytes it reported\n%s", s, n, describe()), labels
				}
			}
			abs := c.off + pos
			piece := abs / x.PieceSize
			if piece == lastReadPiece && evictedSince {
				labels["evict-between-reads-same-piece"] = true
			}
			lastReadPiece, evictedSince = piece, false
			if (abs+int64(n)-1)/x.PieceSize != piece {
				return fmt.Sprintf("%s returned bytes from two pieces at once\n%s", s, describe()), labels
			}
			pos += int64(n)
			if (err == io.EOF) != (pos >= c.len) {
				return fmt.Sprintf("%s: EOF=%v reported with position %d of %d\n%s", s, err == io.EOF, pos, c.len, describe()), labels
			}
			if pos == c.len {
				labels["read-to-end"] = true
				if (c.off+c.len)%x.PieceSize != 0 && c.off+c.len < x.Length {
					labels["range-ends-mid-piece"] = true
				}
			}
			if n < s.N && pos < c.len {
				labels["short-read-at-piece-boundary"] = true
			}
		}
	}
	if c.corrupt > 0 && served > 0 {
		labels["corrupt-block-first"] = true
	}
	// ending: the reader must fail promptly, never hang
	switch c.end {
	case "close":
		rd.Close()
		if _, err := rd.Read(make([]byte, 1)); !errors.Is(err, net.ErrClosed) {
			return fmt.Sprintf("Read after Close returned %v, want net.ErrClosed\n%s", err, describe()), labels
		}
	case "kill-blocked", "cancel-blocked":
		// park the reader on a piece nobody will deliver: drop the peers, evict everything
		for _, p := range tor.VerifPeers(t) {
			_ = p
		}
		r.Close()
		closeAll()
		sim.Settle()
		evict(0)
		if c.len == 0 {
			break
		}
		rd.Seek(0, io.SeekStart)
		type res struct {
			n   int
			err error
		}
		ch := make(chan res, 1)
		go func() {
			for {
				n, err := rd.Read(make([]byte, 10))
				if n > 0 || err != nil {
					ch <- res{n, err}
					return
				}
				time.Sleep(100 * time.Millisecond)
			}
		}()
		time.Sleep(5 * time.Second)
		sim.Settle()
		select {
		case v := <-ch:
			return fmt.Sprintf("with no peer and no data, Read returned (%d, %v)\n%s", v.n, v.err, describe()), labels
		default:
		}
		var want error
		if c.end == "kill-blocked" {
			go t.Kill(context.Background())
			want = tor.ErrTorrentDead
			labels["kill-while-blocked"] = true
		} else {
			rcancel()
			want = context.Canceled
			labels["cancel-while-blocked"] = true
		}
		time.Sleep(time.Second)
		sim.Settle()
		select {
		case v := <-ch:
			if !errors.Is(v.err, want) {
				return fmt.Sprintf("blocked Read ended with (%d, %v), want %v\n%s", v.n, v.err, want, describe()), labels
			}
		default:
			return fmt.Sprintf("Read is still blocked one virtual second after %s\n%s", c.end, describe()), labels
		}
		rd.Close()
	}
	if c.end != "kill-blocked" {
		// the only consumer is gone: nothing may stay requested on its behalf
		sim.Settle()
		req := tor.VerifRequested(t)
		var idx []int
		for i := range req {
			idx = append(idx, int(i))
		}
		sort.Ints(idx)
		for _, i := range idx {
			if len(req[uint32(i)].Prio) > 0 {
				return fmt.Sprintf("the reader has been closed, yet piece %d is still requested with priorities %v: they are never withdrawn\n%s", i, req[uint32(i)].Prio, describe()), labels
			}
		}
		labels["priorities-withdrawn-at-end"] = true
	}
	lastHist = fmt.Sprint(hist)
	return "", labels
}

var lastHist string

func TestC02Reader(t *testing.T) {
	rapid.Check(t, func(rt *rapid.T) {
		c := genCase(rt)
		if stats.Excl("c02-evicted-complete-piece") {
			// region of the recorded finding: never evict
			var st []step
			for _, s := range c.steps {
				if s.Kind == "evict" {
					stats.Excluded("c02-evicted-complete-piece")
					continue
				}
				st = append(st, s)
			}
			c.steps = st
		}
		var fail string
		var labels map[string]bool
		leak := sim.Bubble(t, func() { fail, labels = runCase(c) })
		if fail != "" {
			rt.Fatalf("%s", fail)
		}
		if leak != "" {
			rt.Fatalf("goroutines left behind: %s", leak)
		}
		var l []string
		for k := range labels {
			l = append(l, k)
		}
		sort.Strings(l)
		nontrivial := labels["short-read-at-piece-boundary"] || labels["evict-between-reads-same-piece"] || labels["range-ends-mid-piece"] || labels["corrupt-block-first"]
		l2 := append([]string{"end:" + c.end}, l...)
		if c.latency > 0 {
			l2 = append(l2, "seed-with-latency")
		}
		if len(c.g.Files) > 0 {
			l2 = append(l2, "multi-file")
		}
		stats.Case(fmt.Sprintf("%v|%s|files%d|idle%d|low%v", l, c.end, min(len(c.g.Files), 3), c.idleRate, c.lowMem), nontrivial, l2...)
		if nontrivial && stats.WantSample("c02") {
			stats.Sample("c02", map[string]any{"range": []int64{c.off, c.len}, "length": c.g.Length, "pieceKiB": c.g.PieceSize / 1024, "steps": fmt.Sprint(c.steps), "end": c.end, "labels": l})
		}
	})
}

// Regression: a piece that was complete when the reader first asked for it is
// evicted between two reads; the reader never asks again.
func TestReg_c02_evicted_complete_piece(t *testing.T) {
	c := caseSpec{g: sim.Geometry{PieceSize: 16384, Length: 16384 * 4, Seed: 5}, off: 0, len: 16384 * 4,
		prefill: []int{0, 1, 2, 3}, idleRate: 0, end: "close",
		steps: []step{{Kind: "read", N: 100}, {Kind: "evict", Target: 0}, {Kind: "read", N: 100}}}
	var fail string
	leak := sim.Bubble(t, func() { fail, _ = runCase(c) })
	if fail != "" {
		t.Fatalf("%s", fail)
	}
	if leak != "" {
		t.Fatalf("leak: %s", leak)
	}
}

// Regression: a reader whose current piece is piece 0 never withdrew its
// priorities (request(-1, -1) computed -1 / pieceSize == 0, "still the same
// piece", and returned early).
func TestReg_c02_reader_in_piece_0_leaks_priorities(t *testing.T) {
	for _, end := range []string{"close", "cancel-blocked"} {
		c := caseSpec{g: sim.Geometry{PieceSize: 16384, Length: 16384 * 4, Seed: 6}, off: 0, len: 1000,
			prefill: []int{0, 1, 2, 3}, idleRate: 0, end: end,
			steps: []step{{Kind: "read", N: 100}}}
		var fail string
		leak := sim.Bubble(t, func() { fail, _ = runCase(c) })
		if fail != "" {
			t.Fatalf("%s", fail)
		}
		if leak != "" {
			t.Fatalf("leak: %s", leak)
		}
	}
}

// A reader still holds its priority on a piece (fetched on its behalf) when the
// piece is evicted; everything else is complete and the idle prefetcher is off,
// so nothing but the reader's own re-request can get the scheduler going again.
func TestC02EvictedWhileHeld(t *testing.T) {
	// a consumer that sees the eviction (an empty read) and leaves at once
	for _, end := range []string{"close", "cancel-blocked"} {
		c := caseSpec{g: sim.Geometry{PieceSize: 16384, Length: 16384 * 4, Seed: 8}, off: 16384, len: 16384 * 3,
			prefill: []int{0, 3}, idleRate: 0, end: end,
			steps: []step{{Kind: "read", N: 100}, {Kind: "sleep", N: 3}, {Kind: "evict", Target: 0}, {Kind: "read1", N: 100}}}
		var fail string
		var labels map[string]bool
		leak := sim.Bubble(t, func() { fail, labels = runCase(c) })
		if fail != "" {
			t.Fatalf("%s", fail)
		}
		if leak != "" {
			t.Fatalf("leak: %s", leak)
		}
		if !labels["single-read-saw-eviction"] {
			t.Fatalf("harness: the single read did not see the eviction")
		}
		stats.Case("held/once/"+end, true, "single-read-saw-eviction", "evicted-while-held")
	}
	for _, prefill := range [][]int{{1, 2, 3}, {0, 2, 3}, {}} {
		c := caseSpec{g: sim.Geometry{PieceSize: 16384, Length: 16384 * 4, Seed: 7}, off: 0, len: 16384 * 4,
			prefill: prefill, idleRate: 0, end: "close",
			steps: []step{{Kind: "read", N: 100}, {Kind: "sleep", N: 10}, {Kind: "evict", Target: 0}, {Kind: "read", N: 100}, {Kind: "sleep", N: 60}, {Kind: "evict", Target: 0},
				{Kind: "read", N: 16384}, {Kind: "read", N: 100}, {Kind: "sleep", N: 3}, {Kind: "evict", Target: 0}, {Kind: "read", N: 100}}}
		var fail string
		var labels map[string]bool
		leak := sim.Bubble(t, func() { fail, labels = runCase(c) })
		if fail != "" {
			t.Fatalf("%s", fail)
		}
		if leak != "" {
			t.Fatalf("leak: %s", leak)
		}
		var l []string
		for k := range labels {
			l = append(l, k)
		}
		sort.Strings(l)
		if os.Getenv("VERIF_C02_TRACE") != "" {
			t.Logf("prefill %v: %v\n%s", prefill, l, lastHist)
		}
		stats.Case(fmt.Sprintf("held/%v", prefill), true, append(l, "evicted-while-held")...)
	}
}

// Beyond 4 GiB: a reader over the tail of a torrent whose size does not fit
// in 32 bits and whose piece size does not divide 2^32 - the last piece's
// length, the block offsets and the end of file are all 64-bit quantities.
func TestC02HugeTail(t *testing.T) {
	for _, g := range []struct{ ps, length int64 }{{48 * 1024, 1<<32 + 1}, {48 * 1024, 1<<32 + 40000}, {80 * 1024, 1<<32 + 81920*3 + 5}, {16 * 1024, 1<<32 + 16384}, {48 * 1024, 3<<31 + 12345}} {
		for _, span := range []int64{1, 20000, 120000} {
			c := caseSpec{g: sim.Geometry{PieceSize: g.ps, Length: g.length, Seed: 77}, off: g.length - span, len: span, huge: true, fast: true, idleRate: 0, end: "close",
				steps: []step{{Kind: "read", N: 7000}, {Kind: "read", N: 70000}, {Kind: "seek", Off: -1, Whence: io.SeekEnd}, {Kind: "read", N: 100}, {Kind: "seek", Off: 0, Whence: io.SeekStart}, {Kind: "read", N: 200000}, {Kind: "read", N: 10}}}
			var fail string
			var labels map[string]bool
			leak := sim.Bubble(t, func() { fail, labels = runCase(c) })
			if fail != "" {
				if len(fail) > 2000 {
					fail = fail[:2000] + " ..."
				}
				t.Fatalf("torrent of %d bytes in pieces of %d, reader over the last %d bytes: %s", g.length, g.ps, span, fail)
			}
			if leak != "" {
				t.Fatalf("leak: %s", leak)
			}
			_ = labels
		}
	}
	stats.Case("huge-tail", true, "reader-over-the-tail-beyond-4GiB")
}
