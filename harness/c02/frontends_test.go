package c02

import (
	"bytes"
	"context"
	"fmt"
	"io"
	"mime"
	"mime/multipart"
	"net/http"
	"strconv"
	"strings"
	"sync"
	"testing"
	"time"

	bfuse "bazil.org/fuse"
	"bazil.org/fuse/fs"
	"pgregory.net/rapid"

	"github.com/jech/storrent/config"
	sfuse "github.com/jech/storrent/fuse"

	"verif/sim"
	"verif/stats"
	"verif/webfix"
)

// HTTP Range requests and concurrent FUSE reads are Readers too: the same
// exactness and liveness, through the real front-end code, on a torrent that is
// being downloaded from a (possibly slow) honest seed and evicted meanwhile.

type rng struct{ a, b int64 } // inclusive

type labelSet struct {
	mu *sync.Mutex
	m  map[string]bool
}

func (l labelSet) set(k string) {
	l.mu.Lock()
	l.m[k] = true
	l.mu.Unlock()
}

// parseRange is an independent reading of RFC 7233 for a file of n bytes:
// ok=false means "ignore the header"; a nil result with ok means unsatisfiable.
func parseRange(h string, n int64) (out []rng, ok bool) {
	if !strings.HasPrefix(h, "bytes=") {
		return nil, false
	}
	for _, part := range strings.Split(h[6:], ",") {
		part = strings.TrimSpace(part)
		if part == "" {
			continue
		}
		i := strings.IndexByte(part, '-')
		if i < 0 {
			return nil, false
		}
		as, bs := strings.TrimSpace(part[:i]), strings.TrimSpace(part[i+1:])
		if as == "" {
			k, err := strconv.ParseInt(bs, 10, 64)
			if err != nil || k < 0 {
				return nil, false
			}
			if k == 0 {
				continue
			}
			k = min(k, n)
			out = append(out, rng{n - k, n - 1})
			continue
		}
		a, err := strconv.ParseInt(as, 10, 64)
		if err != nil || a < 0 {
			return nil, false
		}
		if a >= n {
			continue
		}
		b := n - 1
		if bs != "" {
			b, err = strconv.ParseInt(bs, 10, 64)
			if err != nil || b < a {
				return nil, false
			}
			b = min(b, n-1)
		}
		out = append(out, rng{a, b})
	}
	return out, true
}

type feCase struct {
	g        sim.Geometry
	which    int
	prefill  []int
	latency  time.Duration
	evictAt  []time.Duration
	ranges   []string
	fuseOps  [][2]int64 // (offset, size)
	fuseSeq  bool       // then sequential reads with evictions in between
	fuseIntr int        // >= 0: one of the sequential reads is interrupted after that many ms, the read for the range behind it goes ahead
	idleRate uint32
}

func TestC02FrontEnds(t *testing.T) {
	webfix.Init()
	rapid.Check(t, func(rt *rapid.T) {
		var c feCase
		ps := rapid.SampledFrom([]int64{16, 32}).Draw(rt, "pieceKiB") * 1024
		nf := rapid.IntRange(1, 4).Draw(rt, "files")
		c.g = sim.Geometry{PieceSize: ps, Seed: rapid.Uint64().Draw(rt, "seed"), Name: "fe"}
		for i := 0; i < nf; i++ {
			l := rapid.SampledFrom([]int64{0, 1, 1000, 16384, 40000, 100000}).Draw(rt, "flen")
			c.g.Files = append(c.g.Files, sim.FileSpec{Path: []string{"d", fmt.Sprintf("f%d.bin", i)}, Length: l})
		}
		c.which = rapid.IntRange(0, nf-1).Draw(rt, "which")
		c.latency = rapid.SampledFrom([]time.Duration{0, 20 * time.Millisecond, 300 * time.Millisecond}).Draw(rt, "latency")
		c.prefill = rapid.SliceOfN(rapid.IntRange(0, 20), 0, 6).Draw(rt, "prefill")
		c.evictAt = rapid.SliceOfN(rapid.SampledFrom([]time.Duration{1 * time.Millisecond, 50 * time.Millisecond, 700 * time.Millisecond, 3 * time.Second}), 0, 3).Draw(rt, "evictAt")
		c.idleRate = rapid.SampledFrom([]uint32{0, 64 * 1024}).Draw(rt, "idleRate")
		flen := c.g.Files[c.which].Length
		for i, n := 0, rapid.IntRange(1, 3).Draw(rt, "nreq"); i < n; i++ {
			a := rapid.Int64Range(0, max(flen+10, 1)).Draw(rt, "a")
			b := rapid.Int64Range(0, max(flen+10, 1)).Draw(rt, "b")
			c.ranges = append(c.ranges, rapid.SampledFrom([]string{"", fmt.Sprintf("bytes=%d-%d", min(a, b), max(a, b)), fmt.Sprintf("bytes=%d-", a), fmt.Sprintf("bytes=-%d", max(b, 1)),
				fmt.Sprintf("bytes=%d-%d,%d-", 0, min(a, 10), b), fmt.Sprintf("bytes=%d-", flen+5), "bytes=0-0", "bytes=5-2", "items=0-5"}).Draw(rt, "range"))
		}
		c.fuseSeq = rapid.Bool().Draw(rt, "fuseSeq")
		c.fuseIntr = rapid.SampledFrom([]int{-1, -1, 0, 1, 50}).Draw(rt, "fuseIntr")
		for i, n := 0, rapid.IntRange(1, 4).Draw(rt, "nfuse"); i < n; i++ {
			c.fuseOps = append(c.fuseOps, [2]int64{rapid.Int64Range(0, flen+100).Draw(rt, "foff"), rapid.SampledFrom([]int64{1, 100, 4096, 65536, 131072}).Draw(rt, "fsize")})
		}
		var fail string
		labels := map[string]bool{}
		leak := sim.Bubble(t, func() { fail = runFE(c, labels) })
		if fail != "" {
			rt.Fatalf("%s\ncase: %+v", fail, c)
		}
		if leak != "" {
			rt.Fatalf("goroutines left behind: %s", leak)
		}
		var l []string
		for k := range labels {
			l = append(l, k)
		}
		stats.Case(fmt.Sprint(l, nf, c.latency), labels["http-range"] || labels["fuse-concurrent"], l...)
		if stats.WantSample("frontends") {
			stats.Sample("frontends", fmt.Sprintf("%+v", c))
		}
	})
}

func runFE(c feCase, out map[string]bool) string {
	var lmu sync.Mutex
	labels := labelSet{&lmu, out}
	config.SetIdleRate(c.idleRate)
	defer config.SetIdleRate(64 * 1024)
	x, err := sim.Build(c.g, "")
	if err != nil {
		return "build: " + err.Error()
	}
	if x.Length == 0 {
		return ""
	}
	ctx, cancel := context.WithCancel(context.Background())
	defer cancel()
	if err := x.Start(ctx); err != nil {
		return "start: " + err.Error()
	}
	for _, i := range c.prefill {
		x.Fill(i % x.N)
	}
	served := 0
	r, err := x.Connect(sim.Caps{Fast: true, Extended: true}, 1, false)
	if err != nil {
		return err.Error()
	}
	seed(x, r, 0, &served, c.latency)
	sim.Settle()
	var off int64
	for i := 0; i < c.which; i++ {
		off += c.g.Files[i].Length
	}
	flen := c.g.Files[c.which].Length
	F := x.Content[off : off+flen]
	for _, d := range c.evictAt {
		d := d
		go func() {
			time.Sleep(d)
			x.T.Pieces.Expire(0, nil, func(i uint32) { x.T.Have(i, false) })
			labels.set("evicted-during-request")
		}()
	}
	path := fmt.Sprintf("/%s/d/f%d.bin", x.T.Hash.String(), c.which)
	// ---- HTTP
	for _, rh := range c.ranges {
		hdr := http.Header{}
		if rh != "" {
			hdr.Set("Range", rh)
		}
		type res struct {
			r   *webfix.Resp
			err error
		}
		ch := make(chan res, 1)
		go func() {
			rr, err := webfix.Do("GET", "localhost:8088", path, hdr, nil)
			ch <- res{rr, err}
		}()
		var rr *webfix.Resp
		select {
		case v := <-ch:
			if v.err != nil {
				return "request: " + v.err.Error()
			}
			rr = v.r
		case <-time.After(15 * time.Minute):
			cancel()
			return fmt.Sprintf("GET %s (Range %q) has not finished after 15 virtual minutes although an honest unchoking seed is connected (it served %d blocks)", path, rh, served)
		}
		if rr.Panic != nil {
			return fmt.Sprintf("GET %s (Range %q) panicked: %v", path, rh, rr.Panic)
		}
		want, ok := parseRange(rh, flen)
		where := fmt.Sprintf("GET %s with Range %q on a %d-byte file: status %d, Content-Range %q, %d body bytes", path, rh, flen, rr.Status, rr.Header.Get("Content-Range"), len(rr.Body))
		switch {
		case rh == "":
			if rr.Status != 200 || !bytes.Equal(rr.Body, F) {
				return "expected the whole file: " + where
			}
		case !ok:
			// a malformed Range header: RFC 7233 says ignore it, net/http answers 416; both are fine, wrong bytes are not
			if !(rr.Status == 416 || rr.Status == 200 && bytes.Equal(rr.Body, F)) {
				return "malformed Range: expected the whole file or 416: " + where
			}
		case len(want) == 0:
			if flen == 0 && rr.Status == 200 {
				break // net/http serves an empty file as 200 whatever the range
			}
			if rr.Status != 416 {
				return "expected 416 (no satisfiable range): " + where
			}
			labels.set("http-unsatisfiable")
		case len(want) == 1:
			w := want[0]
			if rr.Status != 206 || !bytes.Equal(rr.Body, F[w.a:w.b+1]) || rr.Header.Get("Content-Range") != fmt.Sprintf("bytes %d-%d/%d", w.a, w.b, flen) {
				return fmt.Sprintf("expected 206 with bytes %d-%d of the file: %s", w.a, w.b, where)
			}
			labels.set("http-range")
		default:
			if rr.Status == 200 && bytes.Equal(rr.Body, F) {
				break // a server may answer a multi-range request with the whole file
			}
			_, params, err := mime.ParseMediaType(rr.Header.Get("Content-Type"))
			if rr.Status != 206 || err != nil {
				return "expected multipart/byteranges: " + where
			}
			mr := multipart.NewReader(bytes.NewReader(rr.Body), params["boundary"])
			for _, w := range want {
				p, err := mr.NextPart()
				if err != nil {
					return "multipart: " + err.Error() + ": " + where
				}
				b, _ := io.ReadAll(p)
				if !bytes.Equal(b, F[w.a:w.b+1]) || p.Header.Get("Content-Range") != fmt.Sprintf("bytes %d-%d/%d", w.a, w.b, flen) {
					return fmt.Sprintf("part for %d-%d differs from the file: %s", w.a, w.b, where)
				}
			}
			labels.set("http-multi-range")
		}
	}
	// ---- FUSE: concurrent reads on one handle
	root := sfuse.VerifRoot()
	node := root
	for _, name := range []string{"fe", "d", fmt.Sprintf("f%d.bin", c.which)} {
		lk, ok := node.(fs.NodeStringLookuper)
		if !ok {
			return "fuse: node cannot look names up"
		}
		node, err = lk.Lookup(context.Background(), name)
		if err != nil {
			return fmt.Sprintf("fuse: Lookup(%q): %v", name, err)
		}
	}
	op, ok := node.(fs.NodeOpener)
	if !ok {
		return "fuse: file node cannot be opened"
	}
	h, err := op.Open(context.Background(), &bfuse.OpenRequest{Flags: bfuse.OpenReadOnly}, &bfuse.OpenResponse{})
	if err != nil {
		return fmt.Sprintf("fuse: Open: %v", err)
	}
	rd := h.(fs.HandleReader)
	// (a reader that is dropped without being closed is closed by a finalizer,
	// outside the bubble: the handle is released on every path)
	defer func() {
		if rl, ok := h.(fs.HandleReleaser); ok {
			rdone := make(chan struct{})
			go func() {
				rl.Release(context.Background(), &bfuse.ReleaseRequest{})
				close(rdone)
			}()
			select {
			case <-rdone:
			case <-time.After(time.Minute):
			}
		}
	}()
	type fres struct {
		i    int
		data []byte
		err  error
	}
	fch := make(chan fres, len(c.fuseOps))
	for i, o := range c.fuseOps {
		i, o := i, o
		go func() {
			resp := &bfuse.ReadResponse{Data: make([]byte, 0, o[1])}
			err := rd.Read(context.Background(), &bfuse.ReadRequest{Offset: o[0], Size: int(o[1])}, resp)
			fch <- fres{i, resp.Data, err}
		}()
	}
	for range c.fuseOps {
		select {
		case v := <-fch:
			o := c.fuseOps[v.i]
			var want []byte
			if o[0] < flen {
				want = F[o[0]:min(o[0]+o[1], flen)]
			}
			if v.err != nil {
				return fmt.Sprintf("fuse: Read(offset %d, size %d) on a %d-byte file failed: %v", o[0], o[1], flen, v.err)
			}
			if !bytes.Equal(v.data, want) {
				return fmt.Sprintf("fuse: Read(offset %d, size %d) on a %d-byte file returned %d bytes, want %d; contents equal: %v", o[0], o[1], flen, len(v.data), len(want), bytes.Equal(v.data, want[:min(len(want), len(v.data))]))
			}
		case <-time.After(15 * time.Minute):
			cancel()
			return fmt.Sprintf("fuse: a Read has not returned after 15 virtual minutes although an honest unchoking seed is connected (it served %d blocks)", served)
		}
	}
	if len(c.fuseOps) > 1 {
		labels.set("fuse-concurrent")
	}
	// the way the kernel reads a file: one read after the other on the same
	// handle, here with everything evicted in between (memory pressure from
	// another torrent).  A short read in the middle of a file is end-of-file to
	// the kernel.
	if flen > 200 && c.fuseSeq {
		pos := int64(0)
		for k := 0; k < 3 && pos < flen; k++ {
			size := min(int64(100+k*4000), flen-pos)
			if c.fuseIntr >= 0 && k == 1 && pos+size < flen {
				// the kernel had two reads queued, for this range and the next; the
				// first is interrupted (its context ends) before or while it waits
				// for data, the second goes ahead
				ictx, icancel := context.WithCancel(context.Background())
				go func() {
					time.Sleep(time.Duration(c.fuseIntr) * time.Millisecond)
					icancel()
				}()
				ra := &bfuse.ReadResponse{Data: make([]byte, 0, size)}
				adone := make(chan error, 1)
				go func() { adone <- rd.Read(ictx, &bfuse.ReadRequest{Offset: pos, Size: int(size)}, ra) }()
				select {
				case err := <-adone:
					if err == nil && !bytes.Equal(ra.Data, F[pos:pos+int64(len(ra.Data))]) {
						return fmt.Sprintf("fuse: interrupted Read(offset %d, size %d) returned %d bytes that are not the file's", pos, size, len(ra.Data))
					}
					if err != nil || int64(len(ra.Data)) < size {
						labels.set("fuse-read-interrupted")
					}
				case <-time.After(15 * time.Minute):
					cancel()
					return fmt.Sprintf("fuse: a Read(offset %d, size %d) whose context ended has not returned after 15 virtual minutes", pos, size)
				}
				icancel()
				pos += size
				size = min(size, flen-pos)
			}
			resp := &bfuse.ReadResponse{Data: make([]byte, 0, size)}
			done := make(chan error, 1)
			go func() { done <- rd.Read(context.Background(), &bfuse.ReadRequest{Offset: pos, Size: int(size)}, resp) }()
			select {
			case err := <-done:
				if err != nil {
					return fmt.Sprintf("fuse: sequential Read(offset %d, size %d) failed: %v", pos, size, err)
				}
			case <-time.After(15 * time.Minute):
				cancel()
				return fmt.Sprintf("fuse: a sequential Read(offset %d, size %d) has not returned after 15 virtual minutes although an honest unchoking seed is connected", pos, size)
			}
			if !bytes.Equal(resp.Data, F[pos:pos+size]) {
				return fmt.Sprintf("fuse: sequential Read(offset %d, size %d) on a %d-byte file, everything having been evicted since the previous read, returned %d bytes (contents equal so far: %v): a short read in the middle of a file is end-of-file to the kernel",
					pos, size, flen, len(resp.Data), bytes.Equal(resp.Data, F[pos:pos+int64(min(len(resp.Data), int(size)))]))
			}
			pos += size
			x.T.Pieces.Expire(0, nil, func(i uint32) { x.T.Have(i, false) })
			sim.Settle()
			labels.set("fuse-evicted-between-sequential-reads")
		}
	}
	// the seed goes away and everything is evicted: a read now waits for data
	// nobody can supply; when the kernel interrupts it (the process that was
	// reading got a signal) it must come back instead of waiting for ever
	if flen > 0 && c.fuseIntr >= 0 {
		r.Close()
		sim.Settle()
		x.T.Pieces.Expire(0, nil, func(i uint32) { x.T.Have(i, false) })
		sim.Settle()
		ictx, icancel := context.WithCancel(context.Background())
		defer icancel()
		ro := &bfuse.ReadResponse{Data: make([]byte, 0, 100)}
		odone := make(chan error, 1)
		go func() { odone <- rd.Read(ictx, &bfuse.ReadRequest{Offset: 0, Size: int(min(100, flen))}, ro) }()
		time.Sleep(time.Duration(1+c.fuseIntr) * time.Second)
		sim.Settle()
		select {
		case err := <-odone:
			// (served from a piece the idle prefetcher had not let go of, or refused at once)
			if err == nil && !bytes.Equal(ro.Data, F[:len(ro.Data)]) {
				return "fuse: a Read without any peer returned bytes that are not the file's"
			}
		default:
			icancel()
			select {
			case <-odone:
				labels.set("fuse-blocked-read-interrupted-without-peers")
			case <-time.After(time.Minute):
				cancel()
				return "fuse: a Read that waits for data nobody can supply (no peers, everything evicted) was interrupted - its context ended - and has not returned a virtual minute later"
			}
		}
	}
	return ""
}
