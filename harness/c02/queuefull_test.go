package c02

// A piece finishes hashing at a moment when the torrent's loop is busy and its
// event queue is full.  The completion notice is the only thing that wakes a
// blocked reader: it must wait for room in the queue, not get lost.
//
// The hasher is held at its yield point (piece.VerifYieldHook), the loop is
// held delivering a status reply nobody reads yet, the queue is filled with
// harmless queries up to a drawn level, then the hasher is let go, and then
// the loop.

import (
	"bytes"
	"context"
	"fmt"
	"testing"
	"time"

	"github.com/jech/storrent/config"
	"github.com/jech/storrent/peer"
	"github.com/jech/storrent/tor/piece"

	"verif/sim"
	"verif/stats"
)

func runQueueFull(psize int64, free int, holdFor time.Duration) (fail string) {
	config.SetIdleRate(0)
	defer config.SetIdleRate(64 * 1024)
	x, err := sim.Build(sim.Geometry{PieceSize: psize, Length: psize * 3, Seed: 91}, "")
	if err != nil {
		return "build: " + err.Error()
	}
	ctx0, cancel0 := context.WithCancel(context.Background())
	defer cancel0()
	if err := x.Start(ctx0); err != nil {
		return "start: " + err.Error()
	}
	t := x.T
	hashRelease := make(chan struct{})
	parked := make(chan struct{}, 8)
	piece.VerifYieldHook = func(point string, idx int) {
		if point == "Finalise.beforeHash" && idx == 1 {
			select {
			case parked <- struct{}{}:
			default:
			}
			<-hashRelease
		}
	}
	defer func() { piece.VerifYieldHook = nil }()
	released := false
	sim.Cleanup(func() {
		if !released {
			close(hashRelease)
		}
	})
	served := 0
	r, err := x.Connect(sim.Caps{Fast: true, Extended: true}, 1, false)
	if err != nil {
		return "connect: " + err.Error()
	}
	seed(x, r, 0, &served, 0)
	sim.Settle()
	rctx, rcancel := context.WithCancel(context.Background())
	defer rcancel()
	rd := t.NewReader(rctx, psize, psize) // exactly piece 1
	defer rd.Close()
	type res struct {
		n   int
		err error
		buf []byte
	}
	got := make(chan res, 1)
	go func() {
		buf := make([]byte, 1000)
		n, err := rd.Read(buf)
		got <- res{n, err, buf}
	}()
	describe := fmt.Sprintf(" (piece of %d bytes; %d of the queue's %d slots left free; loop released after %v)", psize, free, cap(t.Event), holdFor)
	select {
	case <-parked:
	case <-time.After(5 * time.Minute):
		return "the piece a reader waits for was not fetched and handed to the hasher within 5 minutes although an honest seed is connected" + describe
	}
	sim.Settle()
	// the loop: busy, its queue filled to the drawn level
	held := make(chan *peer.TorStats)
	t.Event <- peer.TorGetStats{Ch: held}
	sim.Settle()
fill:
	for len(t.Event) < cap(t.Event)-free {
		select {
		case t.Event <- peer.TorGetStats{Ch: make(chan *peer.TorStats, 1)}:
		default:
			break fill
		}
	}
	left := cap(t.Event) - len(t.Event)
	close(hashRelease)
	released = true
	sim.Settle()
	time.Sleep(holdFor)
	sim.Settle()
	select {
	case <-held:
	case <-time.After(time.Minute):
		return "the torrent's loop did not deliver the status reply it was asked for" + describe
	}
	select {
	case v := <-got:
		if v.err != nil || v.n == 0 {
			return fmt.Sprintf("the read returned (%d, %v)", v.n, v.err) + describe
		}
		if !bytes.Equal(v.buf[:v.n], x.Data(1, 0, int64(v.n))) {
			return "the read returned bytes that are not the torrent's content" + describe
		}
	case <-time.After(10 * time.Minute):
		return fmt.Sprintf("the piece was verified while the torrent's event queue had %d free slots; 10 minutes after the loop went on, the reader that waits for that piece is still blocked although the verified piece is in memory (complete=%v)", left, t.Pieces.Complete(1)) + describe
	}
	return ""
}

func TestC02CompletionWhileQueueFull(t *testing.T) {
	n := 0
	for _, psize := range []int64{16384, 65536} {
		for _, free := range []int{0, 1, 2, 50, 600} {
			for _, holdFor := range []time.Duration{0, 3 * time.Second} {
				var fail string
				leak := sim.Bubble(t, func() { fail = runQueueFull(psize, free, holdFor) })
				if fail != "" {
					t.Fatalf("%s", fail)
				}
				if leak != "" {
					t.Fatalf("leak: %s", leak)
				}
				n++
			}
		}
	}
	stats.Case("completion-while-queue-full", true, "piece-verified-while-the-event-queue-is-full")
}
