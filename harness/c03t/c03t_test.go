// C03 at torrent level: access-time bookkeeping behind the LRU order, and the
// global eviction policy tor.Expire.
package c03t

import (
	"context"
	"fmt"
	"sort"
	"sync"
	"testing"
	"time"

	"pgregory.net/rapid"

	"github.com/jech/storrent/alloc"
	"github.com/jech/storrent/config"
	"github.com/jech/storrent/hash"
	"github.com/jech/storrent/peer"
	"github.com/jech/storrent/tor"
	"github.com/jech/storrent/tor/piece"

	"verif/ref"
	"verif/sim"
	"verif/stats"
)

func TestMain(m *testing.M) { stats.Main(m) }

func seed(x *sim.Tor, r *sim.Remote) {
	r.Auto(func(m ref.Msg) []ref.Msg {
		switch m.Kind {
		case ref.KRequest:
			d := x.Data(int(m.Index), int64(m.Begin), int64(m.Length))
			if d == nil {
				return nil
			}
			return []ref.Msg{{Kind: ref.KPiece, Index: m.Index, Begin: m.Begin, Data: append([]byte(nil), d...)}}
		case ref.KInterest:
			return []ref.Msg{{Kind: ref.KUnchoke}}
		}
		return nil
	})
	r.Send(ref.Msg{Kind: ref.KHaveAll})
	r.Send(ref.Msg{Kind: ref.KUnchoke})
}

type step struct {
	Kind   string
	I      int
	D      time.Duration
	Target int
}

func (s step) String() string {
	switch s.Kind {
	case "touch":
		return fmt.Sprintf("request(%d)", s.I)
	case "sleep":
		return fmt.Sprintf("sleep(%v)", s.D)
	}
	return fmt.Sprintf("evict(keep %d)", s.Target)
}

// A consumer's request for a piece is an access, whether or not the piece was
// there yet; a partial eviction must drop the least recently accessed pieces.
func runLRU(n int, prefill []int, steps []step) (fail string, labels map[string]bool, hist []string) {
	labels = map[string]bool{}
	config.SetIdleRate(0)
	defer config.SetIdleRate(64 * 1024)
	x, err := sim.Build(sim.Geometry{PieceSize: 16384, Length: 16384 * int64(n), Seed: 11}, "")
	if err != nil {
		return err.Error(), labels, nil
	}
	ctx, cancel := context.WithCancel(context.Background())
	defer cancel()
	if err := x.Start(ctx); err != nil {
		return err.Error(), labels, nil
	}
	t := x.T
	for _, i := range prefill {
		x.Fill(i % n)
	}
	r, err := x.Connect(sim.Caps{Fast: true, Extended: true}, 1, false)
	if err != nil {
		return err.Error(), labels, nil
	}
	seed(x, r)
	sim.Settle()
	nconn := 0
	start := time.Now()
	access := make([]time.Duration, n) // virtual time of the last request, 0 = never
	describe := func() string { return fmt.Sprintf("\n%d pieces, prefilled %v; history: %v", n, prefill, hist) }
	for _, s := range steps {
		hist = append(hist, s.String())
		switch s.Kind {
		case "touch":
			i := s.I % n
			if r.Closed() {
				// storrent drops peers that were silent for five minutes
				nconn++
				r, err = x.Connect(sim.Caps{Fast: true, Extended: true}, 1+nconn, false)
				if err != nil {
					return err.Error(), labels, hist
				}
				seed(x, r)
				sim.Settle()
			}
			was := t.Pieces.Complete(uint32(i))
			_, _, err := t.Request(uint32(i), 1, true, false)
			if err != nil {
				return "Request: " + err.Error() + describe(), labels, hist
			}
			access[i] = time.Since(start) + time.Second
			// let it arrive, then let go of it
			time.Sleep(5 * time.Second)
			sim.Settle()
			t.Request(uint32(i), 1, false, false)
			sim.Settle()
			if !t.Pieces.Complete(uint32(i)) {
				return fmt.Sprintf("piece %d did not arrive within 5 s from an honest seed", i) + describe(), labels, hist
			}
			if !was {
				labels["requested-while-incomplete"] = true
			} else {
				labels["requested-while-complete"] = true
			}
		case "sleep":
			time.Sleep(s.D)
		case "evict":
			var complete []int
			for i := 0; i < n; i++ {
				if t.Pieces.Complete(uint32(i)) {
					complete = append(complete, i)
				}
			}
			keep := s.Target % (len(complete) + 1)
			evicted := map[int]bool{}
			t.Pieces.Expire(int64(keep)*16384, nil, func(i uint32) {
				evicted[int(i)] = true
				t.Have(i, false)
			})
			sim.Settle()
			if len(evicted) > 0 && len(evicted) < len(complete) {
				labels["partial-eviction"] = true
			}
			for e := range evicted {
				for _, k := range complete {
					if !evicted[k] && access[e] > access[k]+2*time.Second {
						return fmt.Sprintf("eviction dropped piece %d (last requested at +%v) but kept piece %d (last requested at +%v): not least-recently-accessed first",
							e, access[e].Round(time.Second), k, access[k].Round(time.Second)) + describe(), labels, hist
					}
				}
				if access[e] > 0 {
					labels["evicted-an-accessed-piece"] = true
				}
			}
		}
	}
	return "", labels, hist
}

func TestC03TorrentLRU(t *testing.T) {
	rapid.Check(t, func(rt *rapid.T) {
		n := rapid.IntRange(2, 8).Draw(rt, "pieces")
		prefill := rapid.SliceOfN(rapid.IntRange(0, 7), 0, 6).Draw(rt, "prefill")
		var steps []step
		for i, k := 0, rapid.IntRange(2, 14).Draw(rt, "nsteps"); i < k; i++ {
			switch rapid.IntRange(0, 3).Draw(rt, "kind") {
			case 0, 1:
				steps = append(steps, step{Kind: "touch", I: rapid.IntRange(0, 7).Draw(rt, "i")})
			case 2:
				steps = append(steps, step{Kind: "sleep", D: rapid.SampledFrom([]time.Duration{10 * time.Second, 100 * time.Second, 600 * time.Second}).Draw(rt, "d")})
			default:
				steps = append(steps, step{Kind: "evict", Target: rapid.IntRange(0, 8).Draw(rt, "keep")})
			}
		}
		var fail string
		var labels map[string]bool
		leak := sim.Bubble(t, func() { fail, labels, _ = runLRU(n, prefill, steps) })
		if fail != "" {
			rt.Fatalf("%s", fail)
		}
		if leak != "" {
			rt.Fatalf("goroutines left behind: %s", leak)
		}
		var l []string
		for k := range labels {
			l = append(l, "lru:"+k)
		}
		sort.Strings(l)
		stats.Case(fmt.Sprint(l, n), labels["partial-eviction"] && labels["evicted-an-accessed-piece"], l...)
		if stats.WantSample("lru") {
			stats.Sample("lru", map[string]any{"pieces": n, "prefill": prefill, "steps": fmt.Sprint(steps)})
		}
	})
}

// ---------------------------------------------------------------- global policy

type gcase struct {
	ntor    int
	sizes   []int // pieces filled per torrent
	psK     []int64
	mark    int64 // MemoryMark relative: see below
	markSel int
	action  string // what happens between the usage sample and the walk
}

func runGlobal(c gcase) (fail string, labels map[string]bool) {
	labels = map[string]bool{}
	base := alloc.Bytes()
	if base != 0 {
		return fmt.Sprintf("harness: %d bytes allocated at the start of the case", base), labels
	}
	if n := tor.VerifTorrentCount(); n != 0 {
		return fmt.Sprintf("harness: %d torrents registered at the start of the case", n), labels
	}
	ctx, cancel := context.WithCancel(context.Background())
	defer cancel()
	var xs []*sim.Tor
	var watchers []*sim.Remote
	var held []chan *peer.TorStats
	for k := 0; k < c.ntor; k++ {
		x, err := sim.Build(sim.Geometry{PieceSize: c.psK[k] * 1024, Length: c.psK[k] * 1024 * 8, Seed: uint64(100 + k)}, "")
		if err != nil {
			return err.Error(), labels
		}
		if err := x.Start(ctx); err != nil {
			return err.Error(), labels
		}
		for i := 0; i < c.sizes[k] && i < 8; i++ {
			x.Fill(i)
		}
		xs = append(xs, x)
		// a connected peer that understands lt_donthave: what it is told is what
		// the torrent advertises
		r, err := x.Connect(sim.Caps{Fast: k%2 == 0, Extended: true}, 1, false)
		if err != nil {
			return err.Error(), labels
		}
		r.SendExt(nil, nil, nil, "")
		watchers = append(watchers, r)
	}
	sim.Settle()
	usage := alloc.Bytes()
	var mark int64
	switch c.markSel {
	case 0:
		mark = 0
	case 1:
		mark = 1
	case 2:
		mark = 16384
	case 3:
		mark = usage / 2
	case 4:
		mark = usage
	case 5:
		mark = usage*8/7 + 1
	default:
		mark = usage * 4
	}
	config.MemoryMark = mark
	defer func() { config.MemoryMark = 1 << 30 }()
	describe := func() string {
		return fmt.Sprintf("\n%d torrents with %v verified pieces of %v KiB, %d bytes in use, memory mark %d (low %d), action between sample and walk: %s",
			c.ntor, c.sizes, c.psK, usage, mark, config.MemoryLowMark(), c.action)
	}
	tor.VerifYieldHook = func(point string) {
		if point != "Expire.afterSample" {
			return
		}
		switch c.action {
		case "kill-one":
			if len(xs) > 0 {
				xs[0].T.Kill(context.Background())
				labels["global-expire-with-concurrent-kill"] = true
			}
		case "kill-all":
			for _, x := range xs {
				x.T.Kill(context.Background())
			}
			labels["global-expire-with-concurrent-kill"] = true
		case "evict-all":
			for _, x := range xs {
				x.T.Pieces.Expire(0, nil, func(i uint32) { x.T.Have(i, false) })
			}
		}
	}
	if c.action == "loop-busy" && len(xs) == 1 {
		// the torrent's loop is busy and its queue is full when the eviction
		// goroutine starts dropping pieces (tor.Expire has already asked the
		// loop for the availability vector by then): the reports of dropped
		// pieces have to wait, they must not be lost
		var once sync.Once
		piece.VerifYieldHook = func(point string, index int) {
			if point != "Expire.beforeBytes" {
				return
			}
			once.Do(func() {
				x := xs[0]
				ch := make(chan *peer.TorStats)
				x.T.Event <- peer.TorGetStats{Ch: ch}
				for len(x.T.Event) < cap(x.T.Event) {
					select {
					case x.T.Event <- peer.TorAnnounce{}:
					default:
					}
				}
				held = append(held, ch)
				labels["global-expire-with-busy-loop"] = true
			})
		}
		defer func() { piece.VerifYieldHook = nil }()
	}
	defer func() { tor.VerifYieldHook = nil }()
	// one torrent is dying but still listed while the pass walks the torrents:
	// its loop has stopped (it no longer answers), its deletion waits for a
	// piece that is being hashed
	var hashRelease chan struct{}
	if c.action == "dying-one" && len(xs) >= 2 && c.sizes[0] < 8 {
		x := xs[0]
		const h = 7
		for b := 0; b < x.Blocks(h); b++ {
			x.T.Pieces.AddData(h, uint32(b*16384), x.Data(h, int64(b)*16384, 16384), 1)
		}
		hashRelease = make(chan struct{})
		rel := hashRelease
		piece.VerifYieldHook = func(point string, idx int) {
			if point == "Finalise.beforeHash" && idx == h {
				<-rel
			}
		}
		go x.T.Pieces.Finalise(h, hash.Hash(x.Hashes[h]))
		sim.Settle()
		piece.VerifYieldHook = nil
		go x.T.Kill(context.Background())
		sim.Settle()
		if tor.Get(x.T.Hash) == nil {
			return "harness: the dying torrent is no longer listed" + describe(), labels
		}
		usage = alloc.Bytes()
		labels["global-expire-while-a-torrent-is-dying"] = true
		sim.Cleanup(func() {
			select {
			case <-rel:
			default:
				close(rel)
			}
		})
	}
	var ret int
	var pv any
	func() {
		defer func() { pv = recover() }()
		ret = tor.Expire()
	}()
	tor.VerifYieldHook = nil
	if pv != nil {
		return fmt.Sprintf("tor.Expire panicked: %v", pv) + describe(), labels
	}
	sim.Settle()
	if hashRelease != nil {
		close(hashRelease)
		sim.Settle()
	}
	for _, ch := range held {
		select {
		case <-ch:
		case <-time.After(time.Second):
		}
	}
	sim.Settle()
	time.Sleep(time.Second)
	sim.Settle()
	// what is advertised is what is there: every complete piece that was
	// dropped has been reported to the peers
	for k, x := range xs {
		select {
		case <-x.T.Done:
			continue
		default:
		}
		if watchers[k].Closed() {
			continue
		}
		adv := map[int]bool{}
		for _, m := range watchers[k].All() {
			switch {
			case m.Kind == ref.KBitfield:
				adv = map[int]bool{}
				for i := 0; i < x.N; i++ {
					if i/8 < len(m.Data) && m.Data[i/8]&(0x80>>(i%8)) != 0 {
						adv[i] = true
					}
				}
			case m.Kind == ref.KHaveAll:
				for i := 0; i < x.N; i++ {
					adv[i] = true
				}
			case m.Kind == ref.KHaveNone:
				adv = map[int]bool{}
			case m.Kind == ref.KHave:
				adv[int(m.Index)] = true
			case m.Kind == ref.KExtended && m.X == ref.XDontHave:
				delete(adv, int(m.Index))
			}
		}
		for i := 0; i < x.N; i++ {
			if adv[i] && !x.T.Pieces.Complete(uint32(i)) {
				return fmt.Sprintf("torrent %d: piece %d was dropped, yet a connected peer (which understands lt_donthave) was last told that we have it", k, i) + describe(), labels
			}
			if adv[i] {
				labels["piece-still-advertised-and-present"] = true
			} else if i < c.sizes[k] {
				labels["dropped-piece-retracted"] = true
			}
		}
	}
	low, high := config.MemoryLowMark(), config.MemoryHighMark()
	mid := (low + high) / 2
	want := -1
	if usage < mid {
		want = +1
	} else if usage < high {
		want = 0
	}
	if ret != want && !(want == -1 && ret == 0) {
		// (when usage is above the high mark but nothing can be evicted any
		// more, "nothing done" is an acceptable answer)
		return fmt.Sprintf("tor.Expire returned %d with %d bytes in use (mid %d, high %d): want %d", ret, usage, mid, high, want) + describe(), labels
	}
	labels[fmt.Sprintf("global-return:%d", ret)] = true
	if want == -1 {
		if got := alloc.Bytes(); got > low {
			return fmt.Sprintf("after an eviction pass %d bytes remain allocated, the low-water mark is %d", got, low) + describe(), labels
		}
		labels["global-evicted-to-low-mark"] = true
	} else if got := alloc.Bytes(); got != usage && c.action == "none" {
		return fmt.Sprintf("tor.Expire returned %d (no eviction needed) but usage went from %d to %d", ret, usage, got) + describe(), labels
	}
	if c.ntor == 0 {
		labels["global-no-torrents"] = true
	}
	if mark == 0 {
		labels["global-mark-0"] = true
	}
	return "", labels
}

func TestC03GlobalExpire(t *testing.T) {
	rapid.Check(t, func(rt *rapid.T) {
		c := gcase{ntor: rapid.IntRange(0, 4).Draw(rt, "torrents"), markSel: rapid.IntRange(0, 6).Draw(rt, "mark"),
			action: rapid.SampledFrom([]string{"none", "none", "kill-one", "kill-all", "evict-all", "loop-busy", "loop-busy", "dying-one", "dying-one"}).Draw(rt, "action")}
		if c.action == "loop-busy" {
			c.ntor = 1
		}
		for k := 0; k < c.ntor; k++ {
			c.sizes = append(c.sizes, rapid.IntRange(0, 8).Draw(rt, "filled"))
			c.psK = append(c.psK, rapid.SampledFrom([]int64{16, 32, 128}).Draw(rt, "pieceKiB"))
		}
		if stats.Excl("c03-expire-div-zero") {
			// region of the recorded finding: no live torrent at the time of the walk
		}
		var fail string
		var labels map[string]bool
		leak := sim.Bubble(t, func() { fail, labels = runGlobal(c) })
		if fail != "" {
			rt.Fatalf("%s", fail)
		}
		if leak != "" {
			rt.Fatalf("goroutines left behind: %s", leak)
		}
		var l []string
		for k := range labels {
			l = append(l, k)
		}
		sort.Strings(l)
		stats.Case(fmt.Sprint(l, c.ntor, c.markSel, c.action), c.ntor >= 2 || c.action != "none", l...)
		if stats.WantSample("global") {
			stats.Sample("global", fmt.Sprintf("%+v", c))
		}
	})
}

// MemoryMark 0 (storrent -mem 0) and no torrent: integer divide by zero
func TestReg_c03_expire_div_zero(t *testing.T) {
	for _, c := range []gcase{{ntor: 0, markSel: 0, action: "none"},
		{ntor: 1, sizes: []int{4}, psK: []int64{16}, markSel: 2, action: "kill-all"},
		{ntor: 2, sizes: []int{4, 4}, psK: []int64{16, 16}, markSel: 3, action: "evict-all"}} {
		var fail string
		leak := sim.Bubble(t, func() { fail, _ = runGlobal(c) })
		if fail != "" {
			t.Fatalf("%s", fail)
		}
		if leak != "" {
			t.Fatalf("leak: %s", leak)
		}
	}
}
