package c12

// The live form of C12: a real magnet torrent (tor.New without metadata, its
// own event loop, real peer goroutines, the real wire codec on both sides of
// a pipe).  Scripted remotes vote sizes and push metadata blocks, forged and
// authentic, also in bursts from several connections while the torrent's
// loop is busy.  Oracle: the torrent never holds metadata other than the
// true info dictionary, and once every authentic block has been delivered
// after the last corruption the metadata is complete.

import (
	"bytes"
	"context"
	"crypto/sha1"
	"fmt"
	"sort"
	"testing"
	"time"

	"pgregory.net/rapid"

	"github.com/jech/storrent/hash"
	"github.com/jech/storrent/peer"
	"github.com/jech/storrent/tor"

	"verif/gen"
	"verif/ref"
	"verif/sim"
	"verif/stats"
)

type liveStep struct {
	Kind  string // forged | authentic | burst | hold | release | sleep | leave
	P     int
	Index int
	How   string
}

func (s liveStep) String() string {
	switch s.Kind {
	case "forged":
		return fmt.Sprintf("p%d.forged(block %d, %s)", s.P, s.Index, s.How)
	case "authentic":
		return fmt.Sprintf("p%d.authentic(block %d)", s.P, s.Index)
	}
	return fmt.Sprintf("%s(p%d)", s.Kind, s.P)
}

func metaMsg(index int, total uint32, data []byte) ref.Msg {
	return ref.Msg{Kind: ref.KExtended, Sub: 2, X: ref.XMetadata, MetaType: 1, MetaPiece: uint32(index), MetaTotal: &total, Data: data}
}

func runLive(sp infoSpec, npeers int, steps []liveStep) (fail string, labels map[string]bool, hist []string) {
	labels = map[string]bool{}
	info := buildInfo(sp)
	size := uint32(len(info))
	count := (len(info) + blk - 1) / blk
	h := sha1.Sum(info)
	t, err := tor.New("", hash.Hash(h[:]), "", nil, 0, nil, nil)
	if err != nil {
		return "tor.New: " + err.Error(), labels, nil
	}
	t.Log.SetOutput(nullW{})
	ctx, cancel := context.WithCancel(context.Background())
	defer cancel()
	if _, err := tor.AddTorrent(ctx, t); err != nil {
		return "AddTorrent: " + err.Error(), labels, nil
	}
	sim.Cleanup(func() {
		k, kc := context.WithTimeout(context.Background(), time.Minute)
		defer kc()
		t.Kill(k)
	})
	x := &sim.Tor{T: t}
	describe := func() string {
		return fmt.Sprintf("\ntrue metadata: %d bytes (%d blocks, last %d bytes); history: %v", len(info), count, len(info)-(count-1)*blk, hist)
	}
	var rs []*sim.Remote
	for i := 0; i < npeers; i++ {
		r, err := x.Connect(sim.Caps{Fast: i%2 == 0, Extended: true}, i+1, false)
		if err != nil {
			return "connect: " + err.Error(), labels, nil
		}
		// every peer here votes the true size: what is under test is the path of
		// the blocks (size votes are the business of the pumped form)
		r.SendExt(map[string]uint8{"ut_metadata": 7}, nil, &size, "")
		rs = append(rs, r)
	}
	sim.Settle()
	var held chan *peer.TorStats
	release := func() {
		if held != nil {
			select {
			case <-held:
			case <-time.After(time.Second):
			}
			held = nil
		}
	}
	invariant := func(when string) string {
		if t.InfoComplete() && !bytes.Equal(t.Info, info) {
			return fmt.Sprintf("%s: the torrent holds complete metadata that is not the true info dictionary", when) + describe()
		}
		return ""
	}
	live := func(p int) *sim.Remote {
		for k := 0; k < len(rs); k++ {
			if r := rs[(p+k)%len(rs)]; !r.Closed() {
				return r
			}
		}
		// everybody has been dropped (a peer that contributed to metadata that
		// failed its hash is not kept): a fresh honest peer turns up
		r, err := x.Connect(sim.Caps{Extended: true}, len(rs)+1, false)
		if err != nil {
			return nil
		}
		r.SendExt(map[string]uint8{"ut_metadata": 7}, nil, &size, "")
		rs = append(rs, r)
		sim.Settle()
		labels["fresh-peer-after-everybody-was-dropped"] = true
		return r
	}
	for _, s := range steps {
		if t.InfoComplete() {
			break
		}
		r := live(s.P)
		if r == nil {
			break
		}
		hist = append(hist, s.String())
		idx := s.Index % count
		switch s.Kind {
		case "forged":
			d := append([]byte(nil), honestBlock(info, idx)...)
			switch s.How {
			case "flip":
				d[len(d)/2] ^= 0x40
			case "other-index":
				d = append([]byte(nil), honestBlock(info, (idx+1)%count)...)
			case "short":
				d = d[:len(d)-1]
			case "garbage":
				d = gen.Fill(uint64(idx)+99, len(d))
			}
			r.Send(metaMsg(idx, size, d))
			labels["forged-block"] = true
		case "authentic":
			r.Send(metaMsg(idx, size, honestBlock(info, idx)))
		case "burst":
			// every block from this peer, back to back
			var raw []byte
			for i := 0; i < count; i++ {
				raw = append(raw, ref.Encode(metaMsg(i, size, honestBlock(info, i)))...)
			}
			r.SendRaw(raw)
			labels["authentic-burst"] = true
			if held != nil {
				labels["burst-while-loop-busy"] = true
			}
		case "hold":
			if held == nil {
				held = make(chan *peer.TorStats)
				t.Event <- peer.TorGetStats{Ch: held}
				labels["loop-busy"] = true
			}
		case "release":
			release()
		case "sleep":
			time.Sleep(6 * time.Second)
		case "leave":
			if len(rs) > 1 {
				r.Close()
			}
		case "join":
			// a peer turns up while the metadata is half assembled, and says what it has
			nr, err := x.Connect(sim.Caps{Fast: s.P%2 == 0, Extended: true}, len(rs)+1, false)
			if err != nil {
				return "connect: " + err.Error() + describe(), labels, hist
			}
			nr.SendExt(map[string]uint8{"ut_metadata": 7}, nil, &size, "")
			rs = append(rs, nr)
			sim.Settle()
			if s.Index%2 == 0 {
				nr.Send(ref.Msg{Kind: ref.KHave, Index: uint32(s.Index)})
			} else {
				nr.Send(ref.Msg{Kind: ref.KBitfield, Data: []byte{0xff, 0x80}})
			}
			if tor.VerifInfoBitmapCount(t) > 0 {
				labels["peer-joins-while-metadata-half-assembled"] = true
			}
			// what we tell a peer about metadata we do not have (verified) yet: nothing
			for _, m := range nr.All() {
				if m.Kind == ref.KExtended && m.X == ref.XHandshake && m.HS != nil && m.HS.MetadataSize != nil && !t.InfoComplete() {
					return fmt.Sprintf("a peer that connected while the metadata was incomplete was told metadata_size=%d: the unverified buffer is passed on as if it were the torrent's metadata", *m.HS.MetadataSize) + describe(), labels, hist
				}
			}
		}
		sim.Settle()
		if f := invariant("after " + s.String()); f != "" {
			return f, labels, hist
		}
	}
	early := t.InfoComplete()
	// ---- after the last corruption: every authentic block is delivered, by two
	// peers at once where there are two, while the loop is busy; then the loop
	// catches up
	if !early {
		time.Sleep(6 * time.Second)
		sim.Settle()
		a, b := live(0), live(1)
		if a == nil {
			return "", labels, hist
		}
		if held == nil {
			held = make(chan *peer.TorStats)
			t.Event <- peer.TorGetStats{Ch: held}
		}
		sim.Settle()
		var rawA, rawB []byte
		for i := 0; i < count; i++ {
			m := ref.Encode(metaMsg(i, size, honestBlock(info, i)))
			if i%2 == 0 || b == nil || b == a {
				rawA = append(rawA, m...)
			} else {
				rawB = append(rawB, m...)
			}
		}
		hist = append(hist, "authentic blocks from two peers at once, loop busy")
		done := make(chan struct{}, 2)
		go func() { a.SendRaw(rawA); done <- struct{}{} }()
		go func() {
			if len(rawB) > 0 {
				b.SendRaw(rawB)
			}
			done <- struct{}{}
		}()
		sim.Settle()
		release()
		<-done
		<-done
		sim.Settle()
		rounds := 0
		for ; rounds < 3 && !t.InfoComplete(); rounds++ {
			// quiet rounds, one block at a time (a forged block that was being held
			// makes the first complete set fail its hash: that is the corruption
			// being flushed, not a defect)
			hist = append(hist, "authentic blocks one at a time")
			// (after a failed hash the buffer is gone until the torrent's next
			// five-second tick sizes it again)
			time.Sleep(6 * time.Second)
			sim.Settle()
			for i := 0; i < count && !t.InfoComplete(); i++ {
				if r := live(i); r != nil {
					r.Send(metaMsg(i, size, honestBlock(info, i)))
					sim.Settle()
				}
			}
		}
		if f := invariant("at the end"); f != "" {
			return f, labels, hist
		}
		if !t.InfoComplete() {
			return fmt.Sprintf("every authentic block has been delivered %d times after the last corruption, the metadata is still incomplete (%d of %d blocks held)", rounds+1, tor.VerifInfoBitmapCount(t), count) + describe(), labels, hist
		}
		if rounds > 0 && !labels["forged-block"] {
			return "no forged block was ever sent, yet the authentic blocks delivered by two peers at once while the torrent was busy did not complete the metadata; delivered again one by one they did: blocks were damaged on their way from the connection to the torrent" + describe(), labels, hist
		}
		if rounds > 0 {
			labels["needed-more-rounds"] = true
		}
		labels["completed-by-concurrent-authentic-delivery"] = true
	} else {
		labels["completed-early"] = true
	}
	release()
	return "", labels, hist
}

type nullW struct{}

func (nullW) Write(p []byte) (int, error) { return len(p), nil }

func TestC12Live(t *testing.T) {
	sim.Init()
	rapid.Check(t, func(rt *rapid.T) {
		sp := infoSpec{npieces: rapid.SampledFrom([]int{820, 1639, 1640, 2458, 3000}).Draw(rt, "npieces"), pad: rapid.SampledFrom([]int{0, 0, 1, 300, 16000}).Draw(rt, "pad")}
		npeers := rapid.IntRange(1, 4).Draw(rt, "peers")
		var steps []liveStep
		for i, n := 0, rapid.IntRange(0, 14).Draw(rt, "nsteps"); i < n; i++ {
			s := liveStep{Kind: rapid.SampledFrom([]string{"forged", "forged", "authentic", "authentic", "burst", "hold", "release", "sleep", "leave", "join", "join"}).Draw(rt, "kind"),
				P: rapid.IntRange(0, 3).Draw(rt, "p"), Index: rapid.IntRange(0, 7).Draw(rt, "index")}
			if s.Kind == "forged" {
				s.How = rapid.SampledFrom([]string{"flip", "other-index", "short", "garbage"}).Draw(rt, "how")
			}
			steps = append(steps, s)
		}
		var fail string
		var labels map[string]bool
		leak := sim.Bubble(t, func() { fail, labels, _ = runLive(sp, npeers, steps) })
		if fail != "" {
			rt.Fatalf("%s", fail)
		}
		if leak != "" {
			rt.Fatalf("goroutines left behind: %s", leak)
		}
		var l []string
		for k := range labels {
			l = append(l, "live:"+k)
		}
		sort.Strings(l)
		stats.Case(fmt.Sprint(l, npeers), labels["forged-block"] || labels["burst-while-loop-busy"], l...)
	})
}

// Metadata large enough that the bencoded header of a block message grows
// past its usual size (three-digit block indexes with a seven-digit total
// size; two-digit indexes with an eight-digit one): every authentic block
// travels through the real wire codec and the magnet must complete.
func TestC12LargeMetadataLive(t *testing.T) {
	sim.Init()
	for _, pad := range []int{1_700_000, 10_100_000} {
		sp := infoSpec{npieces: 1000, pad: pad}
		var fail string
		var labels map[string]bool
		leak := sim.Bubble(t, func() {
			fail, labels, _ = runLive(sp, 2, []liveStep{{Kind: "authentic", P: 0, Index: 3}, {Kind: "forged", P: 1, Index: 1, How: "flip"}})
		})
		if fail != "" {
			if len(fail) > 1500 {
				fail = fail[:1500] + " ..."
			}
			t.Fatalf("metadata of about %d bytes: %s", pad, fail)
		}
		if leak != "" {
			t.Fatalf("goroutines left behind: %s", leak)
		}
		var l []string
		for k := range labels {
			l = append(l, "live:"+k)
		}
		sort.Strings(l)
		stats.Case(fmt.Sprintf("large-metadata/%d", pad), true, append(l, "live:large-metadata-over-the-wire")...)
	}
}
