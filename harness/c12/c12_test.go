// C12 — magnet metadata is accepted only if authentic, whatever peers send.
package c12

import (
	"slices"
	"bytes"
	"crypto/sha1"
	"fmt"
	"sort"
	"testing"

	"pgregory.net/rapid"

	"github.com/jech/storrent/hash"
	"github.com/jech/storrent/protocol"
	"github.com/jech/storrent/tor"

	"verif/gen"
	"verif/pump"
	"verif/ref"
	"verif/sim"
	"verif/stats"
)

func TestMain(m *testing.M) { stats.Main(m) }

const blk = 16384

type step struct {
	Kind    string
	P       int
	Index   uint32
	Size    uint32
	Payload string // honest | flip | shift | other-index | empty | one | short | long-tail | plus1 | minus1
}

func (s step) String() string {
	switch s.Kind {
	case "block":
		return fmt.Sprintf("p%d.block(index %d, size %d, %s)", s.P, s.Index, s.Size, s.Payload)
	case "newpeer":
		return fmt.Sprintf("newpeer(vote %d)", s.Size)
	case "revote":
		return fmt.Sprintf("p%d.repeats-extended-handshake(vote %d, x%d)", s.P, s.Size, 1+s.Index%4)
	}
	return fmt.Sprintf("%s(p%d)", s.Kind, s.P)
}

type infoSpec struct {
	npieces int
	pad     int
	invalid string // "" | pl-0 | pl-odd | no-name | hashes-wrong | neg-length
}

func buildInfo(sp infoSpec) []byte {
	d := map[string]any{"name": "magnet-torrent", "piece length": 16384, "length": int64(sp.npieces) * 16384, "pieces": gen.Fill(uint64(sp.npieces)*31+7, 20*sp.npieces)}
	if sp.pad > 0 {
		d["zz-padding"] = gen.Fill(uint64(sp.pad), sp.pad)
	}
	switch sp.invalid {
	case "pl-0":
		d["piece length"] = 0
	case "pl-odd":
		d["piece length"] = 16385
	case "no-name":
		delete(d, "name")
	case "hashes-wrong":
		d["pieces"] = gen.Fill(3, 20*sp.npieces+20)
	case "neg-length":
		delete(d, "length")
		d["files"] = []any{map[string]any{"length": int64(100000), "path": []any{"a"}}, map[string]any{"length": int64(-50000), "path": []any{"b"}}}
	}
	return ref.Benc(d)
}

func honestBlock(info []byte, i int) []byte {
	off := i * blk
	if off >= len(info) {
		return nil
	}
	return info[off:min(off+blk, len(info))]
}

// advertisements (have / have-all / bitfield / don't-have, in range or not)
// that some peer sends just before the metadata completes; set per case
var transitAdverts []protocol.Message

func run(sp infoSpec, npeers int, votes []uint32, steps []step, opt ...bool) (fail string, labels map[string]bool, hist []string) {
	viaCongested := len(opt) > 0 && opt[0]
	transit := transitAdverts
	labels = map[string]bool{}
	info := buildInfo(sp)
	size := uint32(len(info))
	count := (len(info) + blk - 1) / blk
	hs := sha1.Sum(info)
	t, err := tor.New("", hash.Hash(hs[:]), "", nil, 0, nil, nil)
	if err != nil {
		return err.Error(), labels, nil
	}
	t.Log.SetOutput(nullWriter{})
	w := pump.NewWorld(t)
	defer w.Close()
	describe := func() string {
		return fmt.Sprintf("\ntrue metadata: %d bytes (%d blocks, last %d bytes), %s; history: %v", size, count, len(info)-(count-1)*blk, orValid(sp.invalid), hist)
	}
	invariant := func(when string) string {
		if !t.InfoComplete() {
			return ""
		}
		if sp.invalid != "" {
			return fmt.Sprintf("%s: the torrent became usable with authentic but invalid metadata (%s)", when, sp.invalid) + describe()
		}
		got := sha1.Sum(t.Info)
		if !bytes.Equal(got[:], t.Hash) {
			return fmt.Sprintf("%s: metadata accepted whose SHA-1 %x is not the info-hash %x", when, got, t.Hash) + describe()
		}
		if !bytes.Equal(t.Info, info) {
			return when + ": accepted metadata differs from the true dictionary" + describe()
		}
		if t.Pieces.PieceSize() != 16384 || t.Pieces.Num() != sp.npieces || len(t.PieceHashes) != sp.npieces {
			return when + ": geometry after completion is inconsistent" + describe()
		}
		return ""
	}
	// the model's vote table: one vote per live connection (its first extended
	// handshake)
	modelVote := map[*pump.PP]uint32{}
	noUtMetadata := false // the next peer names a metadata size but does not offer ut_metadata
	addPeer := func(vote uint32) (*pump.PP, string) {
		pp := w.AddPeer(pump.Caps{Fast: true, Extended: true}, false)
		modelVote[pp] = vote
		msgs := map[string]uint8{"ut_metadata": 7}
		if noUtMetadata {
			msgs = map[string]uint8{"ut_pex": 1}
			noUtMetadata = false
			labels["size-vote-without-ut_metadata"] = true
		}
		_, pv := pp.Msg(protocol.Extended0{Version: "x", MetadataSize: vote, Messages: msgs})
		if pv != "" {
			return pp, pv + describe()
		}
		if p := w.Drain(); p != "" {
			return pp, p + describe()
		}
		return pp, ""
	}
	for _, v := range votes[:npeers] {
		hist = append(hist, fmt.Sprintf("peer(vote %d)", v))
		if _, f := addPeer(v); f != "" {
			return f, labels, hist
		}
	}
	deliver := func(pp *pump.PP, index uint32, claimed uint32, data []byte) string {
		_, pv := pp.Msg(protocol.ExtendedMetadata{Subtype: protocol.ExtMetadata, Type: 1, Piece: index, TotalSize: claimed, Data: data})
		if pv != "" {
			return pv + describe()
		}
		if p := w.Drain(); p != "" {
			return p + describe()
		}
		return ""
	}
	tail := len(info) - (count-1)*blk
	for _, s := range steps {
		hist = append(hist, s.String())
		live := []*pump.PP{}
		for _, pp := range w.Peers {
			if pp.Alive {
				live = append(live, pp)
			}
		}
		switch s.Kind {
		case "newpeer":
			if len(w.Peers) >= 12 {
				continue
			}
			noUtMetadata = s.Index%4 == 3
			if _, f := addPeer(s.Size); f != "" {
				return f, labels, hist
			}
		case "revote":
			// a connection repeats its extended handshake with another size: one
			// connection, one vote (storrent drops the peer)
			if len(live) == 0 {
				continue
			}
			pp := live[s.P%len(live)]
			for k := 0; k < 1+int(s.Index%4); k++ {
				if _, pv := pp.Msg(protocol.Extended0{Version: "x", MetadataSize: s.Size, Messages: map[string]uint8{"ut_metadata": 7}}); pv != "" {
					return pv + describe(), labels, hist
				}
			}
			if p := w.Drain(); p != "" {
				return p + describe(), labels, hist
			}
			labels["extended-handshake-repeated"] = true
		case "disconnect":
			if len(live) > 1 {
				live[s.P%len(live)].Disconnect()
				if p := w.Drain(); p != "" {
					return p + describe(), labels, hist
				}
			}
		case "tick":
			if p := w.Tick(); p != "" {
				return p + describe(), labels, hist
			}
			if p := w.Drain(); p != "" {
				return p + describe(), labels, hist
			}
		case "congest":
			// the remote stops reading and pipelines metadata requests: our
			// replies pile up until the connection counts as congested
			if len(live) == 0 {
				continue
			}
			pp := live[s.P%len(live)]
			pp.StopReading()
			for k := 0; k < 40 && !pp.Congested(); k++ {
				if _, pv := pp.Msg(protocol.ExtendedMetadata{Subtype: protocol.ExtMetadata, Type: 0, Piece: uint32(k % max(count, 1))}); pv != "" {
					return pv + describe(), labels, hist
				}
			}
			if p := w.Drain(); p != "" {
				return p + describe(), labels, hist
			}
			if pp.Congested() {
				labels["congested-connection"] = true
			}
		case "block":
			if len(live) == 0 {
				continue
			}
			pp := live[s.P%len(live)]
			idx := int(s.Index)
			src := honestBlock(info, idx%max(count, 1))
			if idx < count {
				src = honestBlock(info, idx)
			}
			var data []byte
			switch s.Payload {
			case "honest":
				data = append([]byte(nil), src...)
			case "flip":
				data = append([]byte(nil), src...)
				if len(data) > 0 {
					data[len(data)/2] ^= 0x40
				}
				labels["forged-block"] = true
			case "shift":
				data = append([]byte{0}, src[:max(len(src)-1, 0)]...)
				labels["forged-block"] = true
			case "other-index":
				data = append([]byte(nil), honestBlock(info, (idx+1)%max(count, 1))...)
				labels["forged-block"] = true
			case "empty":
				data = nil
			case "one":
				data = []byte{1}
			case "short":
				data = gen.Fill(5, blk-1)
			case "full":
				data = gen.Fill(6, blk)
				if idx == count-1 && tail != blk {
					labels["tail-block-overlong"] = true
				}
			case "plus1":
				data = append(append([]byte(nil), src...), 9)
			case "minus1":
				data = append([]byte(nil), src[:max(len(src)-1, 0)]...)
			}
			if idx >= count {
				if idx == count {
					if len(info)%blk == 0 {
						labels["index == count (exact multiple)"] = true
					} else {
						labels["index == count (size not multiple of 16 KiB)"] = true
					}
				}
				labels["index >= count"] = true
			}
			if s.P%5 == 4 && len(live) > 1 {
				// the sender has hung up by the time the torrent hears of its block
				if _, pv := pp.Msg(protocol.ExtendedMetadata{Subtype: protocol.ExtMetadata, Type: 1, Piece: s.Index, TotalSize: s.Size, Data: data}); pv != "" {
					return pv + describe(), labels, hist
				}
				pp.Disconnect()
				labels["sender-gone-before-its-block-is-handled"] = true
				if p := w.Drain(); p != "" {
					return p + describe(), labels, hist
				}
			} else if f := deliver(pp, s.Index, s.Size, data); f != "" {
				return f, labels, hist
			}
		}
		if f := invariant("after " + s.String()); f != "" {
			return f, labels, hist
		}
	}
	early := t.InfoComplete()
	// ---- honest phase: a strict majority votes the true size; up to 3 rounds of
	// tick, answer what was asked, deliver every block
	// (counted in the model - one vote per connection there ever was, votes are
	// not withdrawn when a peer leaves -, not in storrent's own table: a table
	// that counts a connection twice is what must show)
	nvotes, trueVotes := 0, 0
	for _, pp := range w.Peers {
		if v, ok := modelVote[pp]; ok && v > 0 && v <= 128<<20 {
			nvotes++
			if v == size {
				trueVotes++
			}
		}
	}
	var honest []*pump.PP
	for i := 0; !t.InfoComplete() && (trueVotes*2 <= nvotes || len(honest) == 0) && i < 40; i++ {
		pp, f := addPeer(size)
		if f != "" {
			return f, labels, hist
		}
		honest = append(honest, pp)
		nvotes++
		trueVotes++
	}
	// the honest blocks may as well arrive over a connection whose outgoing
	// queue is congested: incoming data has nothing to do with that
	for _, pp := range w.Peers {
		if pp.Alive && pp.Congested() && viaCongested {
			honest = []*pump.PP{pp}
			labels["honest-blocks-over-congested-connection"] = true
			break
		}
	}
	for round := 1; round <= 3 && !t.InfoComplete(); round++ {
		hist = append(hist, fmt.Sprintf("honest-round-%d", round))
		for _, pp := range w.Peers {
			pp.TakeSent()
		}
		if p := w.Tick(); p != "" {
			return p + describe(), labels, hist
		}
		if p := w.Drain(); p != "" {
			return p + describe(), labels, hist
		}
		// answer every request storrent issued to an honest peer
		for _, pp := range honest {
			for _, m := range pp.TakeSent() {
				if rq, ok := m.(protocol.ExtendedMetadata); ok && rq.Type == 0 {
					if rq.Subtype != 7 {
						return fmt.Sprintf("metadata request sent with sub-id %d, the peer asked for 7", rq.Subtype) + describe(), labels, hist
					}
					if int(rq.Piece) >= count {
						return fmt.Sprintf("metadata request for block %d of %d", rq.Piece, count) + describe(), labels, hist
					}
					labels["request-answered"] = true
					if f := deliver(pp, rq.Piece, size, honestBlock(info, int(rq.Piece))); f != "" {
						return f, labels, hist
					}
				}
			}
		}
		for i := 0; i < count && !t.InfoComplete(); i++ {
			injected := false
			if len(transit) > 0 && tor.VerifInfoBitmapCount(t) == count-1 {
				// one block short of complete: other peers' advertisements are handled
				// by their goroutines now (they do not know the piece count yet) and
				// reach the torrent after the block that completes the metadata
				var adv *pump.PP
				for _, pp := range w.Peers {
					if pp.Alive && !slices.Contains(honest, pp) {
						adv = pp
						break
					}
				}
				if adv != nil {
					for _, m := range transit {
						hist = append(hist, fmt.Sprintf("in-transit:%T%+v", m, m))
						if _, pv := adv.Msg(m); pv != "" {
							return pv + describe(), labels, hist
						}
					}
					injected = true
					w.ReverseCollect = true
				}
				transit = nil
			}
			if f := deliver(honest[i%len(honest)], uint32(i), size, honestBlock(info, i)); f != "" {
				return f, labels, hist
			}
			w.ReverseCollect = false
			if injected && t.InfoComplete() {
				labels["advertisements-in-transit-across-completion"] = true
			}
		}
		if f := invariant(fmt.Sprintf("honest round %d", round)); f != "" {
			return f, labels, hist
		}
		if round > 1 && t.InfoComplete() {
			labels["hash-mismatch-then-recover"] = true
		}
	}
	if sp.invalid == "" && !t.InfoComplete() {
		return "a strict majority votes the true size and every honest block was delivered in each of 3 rounds, yet the metadata is still incomplete" + describe(), labels, hist
	}
	if sp.invalid != "" {
		labels["authentic-invalid"] = true
	}
	if early {
		labels["completed-before-honest-phase"] = true
	}
	return "", labels, hist
}

type nullWriter struct{}

func (nullWriter) Write(p []byte) (int, error) { return len(p), nil }

func orValid(s string) string {
	if s == "" {
		return "valid"
	}
	return "authentic but invalid: " + s
}

func TestC12Metadata(t *testing.T) {
	sim.Init()
	rapid.Check(t, func(rt *rapid.T) {
		sp := infoSpec{npieces: rapid.SampledFrom([]int{1, 1, 2, 50, 800, 815, 816, 1637, 2500, 4000}).Draw(rt, "pieces")}
		switch rapid.IntRange(0, 3).Draw(rt, "sizeclass") {
		case 0: // steer the size to a multiple of 16 KiB or next to one
			base := len(buildInfo(sp))
			target := (base/blk+1)*blk + rapid.SampledFrom([]int{-1, 0, 0, 1}).Draw(rt, "delta")
			sp.pad = max(target-base-20, 0)
			for d := 0; d < 40 && len(buildInfo(sp)) != target; d++ {
				sp.pad += target - len(buildInfo(sp))
				if sp.pad < 0 {
					sp.pad = 0
					break
				}
			}
		case 1:
			sp.pad = rapid.IntRange(0, 40000).Draw(rt, "pad")
		}
		if rapid.IntRange(0, 5).Draw(rt, "invalid?") == 0 {
			sp.invalid = rapid.SampledFrom([]string{"pl-0", "pl-odd", "no-name", "hashes-wrong", "neg-length"}).Draw(rt, "invalid")
		}
		info := buildInfo(sp)
		size := uint32(len(info))
		count := (len(info) + blk - 1) / blk
		sizes := []uint32{size, size, size, 0, 1, size - 1, size + 1, uint32(count * blk), uint32((count + 1) * blk), 128 << 20, 128<<20 + 1, 1<<32 - 1}
		if stats.Excl("c12-huge-size-vote") {
			sizes = sizes[:9]
		}
		npeers := rapid.IntRange(2, 5).Draw(rt, "peers")
		var votes []uint32
		for i := 0; i < 5; i++ {
			votes = append(votes, rapid.SampledFrom(sizes).Draw(rt, "vote"))
		}
		var steps []step
		n := rapid.IntRange(1, 60).Draw(rt, "nsteps")
		for i := 0; i < n; i++ {
			switch k := rapid.IntRange(0, 9).Draw(rt, "kind"); {
			case k < 7:
				idx := rapid.SampledFrom([]uint32{0, 0, 1, uint32(max(count-1, 0)), uint32(max(count-1, 0)), uint32(count), uint32(count), uint32(count + 1), uint32(count + 2), 1 << 31, 1<<32 - 1}).Draw(rt, "index")
				if rapid.Bool().Draw(rt, "anyIndex") {
					idx = uint32(rapid.IntRange(0, count+1).Draw(rt, "idx"))
				}
				steps = append(steps, step{Kind: "block", P: rapid.IntRange(0, 9).Draw(rt, "p"), Index: idx,
					Size:    rapid.SampledFrom([]uint32{size, size, size, size, size + 1, uint32(count * blk), 0}).Draw(rt, "claimed"),
					Payload: rapid.SampledFrom([]string{"honest", "honest", "honest", "flip", "shift", "other-index", "empty", "one", "short", "full", "plus1", "minus1"}).Draw(rt, "payload")})
			case k == 7:
				if rapid.IntRange(0, 2).Draw(rt, "congest?") == 0 {
					steps = append(steps, step{Kind: "congest", P: rapid.IntRange(0, 9).Draw(rt, "p")})
				} else {
					steps = append(steps, step{Kind: "tick"})
				}
			case k == 8:
				if rapid.IntRange(0, 2).Draw(rt, "revote?") == 0 {
					steps = append(steps, step{Kind: "revote", P: rapid.IntRange(0, 9).Draw(rt, "p"), Size: rapid.SampledFrom(sizes).Draw(rt, "vote"), Index: uint32(rapid.IntRange(0, 3).Draw(rt, "times"))})
				} else {
					steps = append(steps, step{Kind: "newpeer", Size: rapid.SampledFrom(sizes).Draw(rt, "vote"), Index: uint32(rapid.IntRange(0, 3).Draw(rt, "offers"))})
				}
			default:
				steps = append(steps, step{Kind: "disconnect", P: rapid.IntRange(0, 9).Draw(rt, "p")})
			}
		}
		transitAdverts = nil
		for i, n := 0, rapid.IntRange(0, 3).Draw(rt, "transit"); i < n; i++ {
			// piece indexes: in range, the piece count, just beyond (large ones are the
			// business of C05's recorded finding about indexes before metadata)
			idx := uint32(rapid.SampledFrom([]int{0, sp.npieces - 1, sp.npieces, sp.npieces + 1, sp.npieces + 7, sp.npieces + 64, 2*sp.npieces + 3}).Draw(rt, "advIndex"))
			switch rapid.IntRange(0, 4).Draw(rt, "advKind") {
			case 0, 1:
				transitAdverts = append(transitAdverts, protocol.Have{Index: idx})
			case 2:
				transitAdverts = append(transitAdverts, protocol.HaveAll{})
			case 3:
				bf := make([]byte, idx/8+1)
				bf[idx/8] |= 0x80 >> (idx % 8)
				bf[0] |= 0x80
				transitAdverts = append(transitAdverts, protocol.Bitfield{Bitfield: bf})
			default:
				transitAdverts = append(transitAdverts, protocol.ExtendedDontHave{Subtype: 3, Index: idx})
			}
		}
		fail, labels, _ := run(sp, npeers, votes, steps, rapid.Bool().Draw(rt, "viaCongested"))
		transitAdverts = nil
		if fail != "" {
			rt.Fatalf("%s", fail)
		}
		var l []string
		for k := range labels {
			l = append(l, k)
		}
		sort.Strings(l)
		sizeClass := "size-not-multiple"
		if len(info)%blk == 0 {
			sizeClass = "size-multiple-of-16KiB"
		}
		l = append(l, sizeClass)
		stats.Case(fmt.Sprint(l, count > 1), labels["forged-block"] || labels["index >= count"] || labels["hash-mismatch-then-recover"], l...)
		if stats.WantSample("c12") {
			stats.Sample("c12", map[string]any{"size": size, "blocks": count, "invalid": sp.invalid, "votes": votes[:npeers], "steps": fmt.Sprint(steps)})
		}
	})
}

// block index == number of blocks, size not a multiple of 16 KiB: slice out of range
func TestReg_c12_index_equals_count(t *testing.T) {
	sim.Init()
	sp := infoSpec{npieces: 50}
	size := uint32(len(buildInfo(sp)))
	fail, _, _ := run(sp, 2, []uint32{size, size, size, size, size}, []step{{Kind: "block", P: 0, Index: 1, Size: size, Payload: "full"}})
	if fail != "" {
		t.Fatalf("%s", fail)
	}
}

// authentic metadata with piece length 0
func TestReg_c12_authentic_invalid(t *testing.T) {
	sim.Init()
	for _, inv := range []string{"pl-0", "hashes-wrong", "neg-length", "no-name"} {
		sp := infoSpec{npieces: 2, invalid: inv}
		size := uint32(len(buildInfo(sp)))
		fail, _, _ := run(sp, 2, []uint32{size, size, size, size, size}, nil)
		if fail != "" {
			t.Fatalf("%s", fail)
		}
	}
}
