package c20

import (
	"bytes"
	"context"
	"errors"
	"fmt"
	"os"
	"sort"
	"strings"
	"syscall"
	"testing"

	bfuse "bazil.org/fuse"
	"bazil.org/fuse/fs"
	"pgregory.net/rapid"

	sfuse "github.com/jech/storrent/fuse"

	"verif/webfix"
)

// ---------------------------------------------------------------- FUSE oracle
//
// The node methods are called the way bazil's fs.Serve calls them for the
// kernel: a lookup is Lookup followed by Attr on the node (saveLookup), so an
// entry "exists" iff both succeed.

var bg = context.Background()

func isENOENT(err error) bool {
	var en bfuse.Errno
	if errors.As(err, &en) {
		return syscall.Errno(en) == syscall.ENOENT
	}
	return false
}

type fnode struct {
	node fs.Node
	attr bfuse.Attr
}

// lookup = Lookup + Attr.  absent == true means ENOENT (from either step).
func lookupNode(dir fs.Node, name string) (n *fnode, absent bool, err error, pv any) {
	defer func() {
		if r := recover(); r != nil {
			pv = r
		}
	}()
	lk, ok := dir.(fs.NodeStringLookuper)
	if !ok {
		return nil, false, fmt.Errorf("node %T has no Lookup", dir), nil
	}
	child, err := lk.Lookup(bg, name)
	if err != nil {
		return nil, isENOENT(err), err, nil
	}
	out := &fnode{node: child}
	if err := child.Attr(bg, &out.attr); err != nil {
		return nil, isENOENT(err), err, nil
	}
	return out, false, nil, nil
}

type dent struct {
	name string
	dir  bool
}

func readDir(n fs.Node) (ents []bfuse.Dirent, err error, pv any) {
	defer func() {
		if r := recover(); r != nil {
			pv = r
		}
	}()
	rd, ok := n.(fs.HandleReadDirAller)
	if !ok {
		return nil, fmt.Errorf("node %T has no ReadDirAll", n), nil
	}
	ents, err = rd.ReadDirAll(bg)
	return
}

type walker struct {
	t       *rapid.T
	w       *world
	labels  map[string]bool
	outcome map[string]bool
	lookups int
}

func (k *walker) fail(format string, a ...any) {
	k.t.Fatalf("FUSE: %s\n%s", fmt.Sprintf(format, a...), k.w.describe())
}

// children of dir in the model: non-padding files only
func children(lt *ltor, dir []string) map[dent]bool {
	out := map[dent]bool{}
	for _, f := range lt.files {
		if f.pad || !within(f.path, dir) {
			continue
		}
		out[dent{f.path[len(dir)], len(f.path) > len(dir)+1}] = true
	}
	return out
}

// paddingOnly: name is reachable below dir only through padding files (the
// statement hides those from listings; whether a lookup finds them is left
// open).
func paddingTouches(lt *ltor, p []string) bool {
	for _, f := range lt.files {
		if f.pad && (eq(f.path, p) || within(f.path, p)) {
			return true
		}
	}
	return false
}

func (k *walker) checkFile(lt *ltor, p []string, n *fnode, lb string) {
	f := lt.find(p)
	if f == nil {
		k.fail("lookup of %q in torrent %s gives a file, the torrent has no such file", p, lt.hash)
	}
	if n.attr.Mode&os.ModeDir != 0 {
		k.fail("file %q of torrent %s has directory mode %v", p, lt.hash, n.attr.Mode)
	}
	if n.attr.Size != uint64(f.length) || n.attr.Blocks != (uint64(f.length)+511)/512 {
		k.fail("file %q of torrent %s: Attr reports size %d, blocks %d; the file has %d bytes", p, lt.hash, n.attr.Size, n.attr.Blocks, f.length)
	}
	var again bfuse.Attr
	if err := n.node.Attr(bg, &again); err != nil || again.Inode != n.attr.Inode {
		k.fail("file %q: inode not stable across Attr calls (%d, then %d, err %v)", p, n.attr.Inode, again.Inode, err)
	}
	op, ok := n.node.(fs.NodeOpener)
	if !ok {
		k.fail("file node %T has no Open", n.node)
	}
	var oresp bfuse.OpenResponse
	h, err := op.Open(bg, &bfuse.OpenRequest{Flags: bfuse.OpenReadOnly}, &oresp)
	if err != nil {
		k.fail("Open of file %q of torrent %s: %v", p, lt.hash, err)
	}
	rd := h.(fs.HandleReader)
	nreads := rapid.IntRange(1, 3).Draw(k.t, lb+".nreads")
	for i := 0; i < nreads; i++ {
		off := rapid.Int64Range(0, f.length+10).Draw(k.t, lb+".off")
		size := rapid.IntRange(0, 6000).Draw(k.t, lb+".size")
		if rapid.IntRange(0, 4).Draw(k.t, lb+".whole") == 0 {
			off, size = 0, int(f.length)+100
		}
		resp := bfuse.ReadResponse{Data: make([]byte, 0, size)}
		if err := rd.Read(bg, &bfuse.ReadRequest{Offset: off, Size: size}, &resp); err != nil {
			k.fail("Read(offset %d, size %d) of file %q (length %d): %v", off, size, p, f.length, err)
		}
		lo := min(off, f.length)
		hi := min(off+int64(size), f.length)
		if !bytes.Equal(resp.Data, lt.bytesOf(f)[lo:hi]) {
			k.fail("Read(offset %d, size %d) of file %q (torrent offset %d, length %d) returned %d bytes that are not bytes %d..%d of the file", off, size, p, f.offset, f.length, len(resp.Data), lo, hi)
		}
	}
	if rl, ok := h.(fs.HandleReleaser); ok {
		rl.Release(bg, &bfuse.ReleaseRequest{})
	}
	k.labels["fuse-file-read"] = true
	if f.length == 0 {
		k.labels["empty-file"] = true
	}
}

func (k *walker) walkDir(lt *ltor, dir []string, n *fnode, parentInode uint64, lb string) {
	if n.attr.Mode&os.ModeDir == 0 {
		k.fail("directory %q of torrent %s has mode %v", dir, lt.hash, n.attr.Mode)
	}
	ents, err, pv := readDir(n.node)
	if pv != nil {
		k.fail("ReadDirAll of %q panicked: %v", dir, pv)
	}
	if err != nil {
		k.fail("ReadDirAll of directory %q of torrent %s: %v", dir, lt.hash, err)
	}
	want := children(lt, dir)
	got := map[dent]int{}
	for _, e := range ents {
		switch e.Name {
		case ".":
			if e.Inode != n.attr.Inode {
				k.fail("directory %q: '.' has inode %d, Attr of the directory says %d", dir, e.Inode, n.attr.Inode)
			}
			continue
		case "..":
			if e.Inode != parentInode {
				k.fail("directory %q: '..' has inode %d, Attr of the parent says %d", dir, e.Inode, parentInode)
			}
			continue
		}
		got[dent{e.Name, e.Type == bfuse.DT_Dir}]++
		if e.Type != bfuse.DT_Dir && e.Type != bfuse.DT_File {
			k.fail("directory %q: entry %q has type %v", dir, e.Name, e.Type)
		}
	}
	for d := range want {
		if got[d] != 1 {
			k.fail("directory %q of torrent %s lists %q (dir=%v) %d times, want once; listing %v", dir, lt.hash, d.name, d.dir, got[d], ents)
		}
	}
	for d := range got {
		if !want[d] {
			f := lt.find(append(append([]string{}, dir...), d.name))
			if f != nil && f.pad {
				k.fail("directory %q of torrent %s lists the padding file %q", dir, lt.hash, d.name)
			}
			k.fail("directory %q of torrent %s lists %q (dir=%v), which is not an entry of that directory", dir, lt.hash, d.name, d.dir)
		}
	}
	for _, f := range lt.files {
		if f.pad && within(f.path, dir) {
			k.labels["padding-hidden"] = true
		}
	}
	// present entries
	var names []dent
	for d := range want {
		names = append(names, d)
	}
	sort.Slice(names, func(i, j int) bool { return names[i].name < names[j].name })
	for i, d := range names {
		p := append(append([]string{}, dir...), d.name)
		c, absent, err, pv := lookupNode(n.node, d.name)
		if pv != nil {
			k.fail("Lookup(%q) in %q panicked: %v", d.name, dir, pv)
		}
		if c == nil {
			k.fail("Lookup(%q) in directory %q of torrent %s fails (absent=%v, %v) although the directory lists it", d.name, dir, lt.hash, absent, err)
		}
		k.lookups++
		if d.dir {
			k.walkDir(lt, p, c, n.attr.Inode, fmt.Sprintf("%s.%d", lb, i))
		} else {
			k.checkFile(lt, p, c, fmt.Sprintf("%s.%d", lb, i))
		}
	}
	// absent names
	for _, name := range k.absentNames(lt, dir, lb) {
		p := append(append([]string{}, dir...), name)
		c, absent, err, pv := lookupNode(n.node, name)
		k.lookups++
		if pv != nil {
			k.fail("Lookup(%q) in directory %q of torrent %s panicked: %v", name, dir, lt.hash, pv)
		}
		if paddingTouches(lt, p) {
			k.outcome["padding-lookup"] = true
			continue
		}
		if c != nil {
			k.fail("Lookup(%q) in directory %q of torrent %s succeeds (size %d, mode %v); there is no such entry", name, dir, lt.hash, c.attr.Size, c.attr.Mode)
		}
		if !absent {
			k.fail("Lookup(%q) in directory %q of torrent %s fails with %v, want ENOENT", name, dir, lt.hash, err)
		}
		k.labels["fuse-absent-lookup"] = true
	}
}

// absentNames: crafted names that are not entries of dir.
func (k *walker) absentNames(lt *ltor, dir []string, lb string) []string {
	have := map[string]bool{}
	for d := range children(lt, dir) {
		have[d.name] = true
	}
	var cand []string
	for d := range have {
		cand = append(cand, d+"x", swapCase(d), d[:len(d)-1], d+"/", d+"/x", "./"+d, d+"\x00")
	}
	// names that exist elsewhere in the torrent (other directories, deeper levels)
	for _, f := range lt.files {
		for _, c := range f.path {
			cand = append(cand, c)
		}
		cand = append(cand, strings.Join(f.path, "/"))
		if within(f.path, dir) && len(f.path) > len(dir)+1 {
			cand = append(cand, strings.Join(f.path[len(dir):], "/"), f.path[len(f.path)-1])
		}
	}
	cand = append(cand, ".", "..", "", lt.name, lt.hash, "x")
	sort.Strings(cand)
	var out []string
	seen := map[string]bool{}
	for _, c := range cand {
		if !have[c] && !seen[c] {
			seen[c] = true
			out = append(out, c)
		}
	}
	if len(out) > 8 {
		out = rapid.Permutation(out).Draw(k.t, lb+".absent")[:8]
	}
	return out
}

func TestC20FUSE(t *testing.T) {
	rapid.Check(t, func(t *rapid.T) {
		webfix.KillAll()
		w := genWorld(t)
		w.start(t)
		defer webfix.KillAll()
		k := &walker{t: t, w: w, labels: map[string]bool{}, outcome: map[string]bool{}}

		root := &fnode{node: sfuse.VerifRoot()}
		if err := root.node.Attr(bg, &root.attr); err != nil {
			k.fail("Attr of the root: %v", err)
		}
		ents, err, pv := readDir(root.node)
		if pv != nil || err != nil {
			k.fail("ReadDirAll of the root: %v %v", err, pv)
		}
		// the root names exactly the complete torrents
		want := map[dent]int{}
		byName := map[string][]*ltor{}
		for _, lt := range w.tors {
			if !lt.magnet {
				want[dent{lt.name, !lt.single}]++
				byName[lt.name] = append(byName[lt.name], lt)
			}
		}
		got := map[dent]int{}
		for _, e := range ents {
			got[dent{e.Name, e.Type == bfuse.DT_Dir}]++
		}
		if fmt.Sprint(got) != fmt.Sprint(want) {
			k.fail("the root lists %v, want one entry per complete torrent: %v", ents, want)
		}
		nontrivial := false
		shapes := ""
		var names []string
		for n := range byName {
			names = append(names, n)
		}
		sort.Strings(names)
		for i, name := range names {
			cands := byName[name]
			// duplicates: the complete torrent with the smallest hash
			win := cands[0]
			for _, c := range cands[1:] {
				if bytes.Compare(c.hbytes, win.hbytes) < 0 {
					win = c
				}
			}
			if len(cands) > 1 {
				k.labels["duplicate-torrent-name"] = true
			}
			for _, lt := range w.tors {
				if lt.magnet && lt.name == name {
					k.labels["incomplete-torrent-same-name"] = true
					if bytes.Compare(lt.hbytes, win.hbytes) < 0 {
						k.labels["incomplete-torrent-same-name-smaller-hash"] = true
					}
				}
			}
			ls, shape := win.shape()
			shapes += shape + ";"
			for _, l := range ls {
				if l != "empty-file" {
					k.labels[l] = true
				}
			}
			c, absent, err, pv := lookupNode(root.node, name)
			if pv != nil {
				k.fail("Lookup(%q) in the root panicked: %v", name, pv)
			}
			if c == nil {
				k.fail("Lookup(%q) in the root fails (absent=%v, %v) although the root lists it (complete torrent %s)", name, absent, err, win.hash)
			}
			lb := fmt.Sprintf("n%d", i)
			if win.single {
				k.checkFile(win, []string{name}, c, lb)
			} else {
				k.walkDir(win, nil, c, root.attr.Inode, lb)
				if len(win.files) >= 2 && len(win.dirs()) > 0 {
					nontrivial = true
				}
			}
		}
		// absent names in the root, including names of incomplete torrents
		var absentRoot []string
		for _, lt := range w.tors {
			if lt.magnet && byName[lt.name] == nil {
				absentRoot = append(absentRoot, lt.name)
				k.labels["incomplete-torrent-hidden"] = true
			}
			absentRoot = append(absentRoot, lt.hash, lt.name+"x", swapCase(lt.name), lt.name+"/", lt.name[:len(lt.name)-1])
			for _, f := range lt.files {
				absentRoot = append(absentRoot, f.path[0], lt.name+"/"+strings.Join(f.path, "/"))
			}
		}
		absentRoot = append(absentRoot, "", ".", "..", "x")
		for _, name := range absentRoot {
			if byName[name] != nil {
				continue
			}
			c, absent, err, pv := lookupNode(root.node, name)
			k.lookups++
			if pv != nil {
				k.fail("Lookup(%q) in the root panicked: %v", name, pv)
			}
			if c != nil {
				k.fail("Lookup(%q) in the root succeeds (size %d, mode %v); no complete torrent has that name", name, c.attr.Size, c.attr.Mode)
			}
			if !absent {
				k.fail("Lookup(%q) in the root fails with %v, want ENOENT", name, err)
			}
		}
		k.labels["fuse-root-absent-lookup"] = true
		finish("fuse", shapes, k.labels, k.outcome, nontrivial, w)
	})
}
