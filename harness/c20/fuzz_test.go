package c20

// Native fuzzing of the HTTP file route: arbitrary request paths below two
// fixed torrents whose file names collide in the ways a sloppy matcher would
// confuse.  Oracle (the one of TestC20HTTP, without the draws): a path is
// served only if, decoded, it is exactly the path of a file of that torrent,
// and then with exactly that file's bytes.

import (
	"bytes"
	"fmt"
	nurl "net/url"
	"os"
	"strings"
	"sync"
	"testing"

	"verif/stats"
	"verif/webfix"
)

var fuzzWorldOnce sync.Once
var fuzzWorld *world
var fuzzWorldErr error

func fixedWorld() (*world, error) {
	fuzzWorldOnce.Do(func() {
		// (webfix silences storrent by pointing os.Stderr at /dev/null; the fuzzing
		// coordinator reports its progress there, and no peer runs here)
		stderr := os.Stderr
		defer func() { os.Stderr = stderr }()
		webfix.Init()
		webfix.KillAll()
		mk := func(name string, seed uint64, files ...lfile) *ltor {
			lt := &ltor{name: name, pieceLen: 16384, seed: seed}
			var off int64
			for _, f := range files {
				f.offset = off
				off += f.length
				lt.files = append(lt.files, f)
			}
			return lt
		}
		f := func(l int64, p ...string) lfile { return lfile{path: p, length: l} }
		a := mk("a b", 41,
			f(100, "a"), f(200, "a.b"), f(300, "ab"), f(17000, "A"), f(50, "a b"), f(60, "a%20b"), f(70, "d", "a"), f(80, "d", "a?b"),
			f(90, "d", "%2F"), f(110, "d", ".."+"a"), f(120, "d d", "x"), f(130, "é"), f(140, "é"), f(0, "empty"), f(150, "a#b"), f(33000, "d", "big"),
			lfile{path: []string{".pad", "1"}, length: 1000, pad: true}, f(160, "d", "a", "deep"), f(170, "index.html"), f(180, "a&b"), f(190, "a+b"), f(210, "playlist"))
		b := mk("a", 42, f(400, "a"), f(500, "b", "a"), f(600, "a b", "a"))
		c := &ltor{name: "solo file", single: true, length: 12345, pieceLen: 16384, seed: 43}
		fuzzWorld = &world{tors: []*ltor{a, b, c}}
		for i, lt := range fuzzWorld.tors {
			if err := lt.start(); err != nil {
				fuzzWorldErr = fmt.Errorf("torrent %d: %v", i, err)
				return
			}
		}
	})
	return fuzzWorld, fuzzWorldErr
}

func FuzzFilePath(f *testing.F) {
	for _, s := range []string{"a", "a.b", "A", "a%20b", "a%2520b", "d/a", "d/a%3Fb", "d/%252F", "d%2Fa", "d//a", "./a", "d/../a", "a/", "", "é", "e%CC%81", "%C3%A9", ".pad/1",
		"a?playlist", "a%3Fplaylist", "d/a/deep", "D/a", "a%00", "a b", "a+b", "a%2Bb", "index.html", "%61", "solo%20file", "solo file", "a%23b", "a#b", "empty", "d/big", "d/..a"} {
		f.Add(s, uint8(0))
		f.Add(s, uint8(1))
	}
	f.Fuzz(func(t *testing.T, raw string, which uint8) {
		if len(raw) > 300 {
			return
		}
		w, err := fixedWorld()
		if err != nil {
			t.Fatalf("harness: %v", err)
		}
		lt := w.tors[int(which)%len(w.tors)]
		target := "/" + lt.hash + "/" + raw
		u, err := nurl.ParseRequestURI(target)
		if err != nil {
			return
		}
		if _, isPlaylist := u.Query()["playlist"]; isPlaylist {
			return
		}
		decoded := u.Path
		rest := strings.TrimPrefix(decoded, "/"+lt.hash+"/")
		if decoded == rest || strings.HasSuffix(decoded, "/") {
			return
		}
		var want *lfile
		if lt.single {
			// a single-file torrent is its one file, named like the torrent
			if rest == lt.name {
				want = &lfile{path: []string{lt.name}, length: lt.length}
			}
		} else {
			want = lt.find(strings.Split(strings.TrimLeft(rest, "/"), "/"))
		}
		class := "not-a-file"
		if want != nil {
			class = "file"
		}
		for _, m := range []string{"HEAD", "GET"} {
			r, err := webfix.Do(m, localHost, target, nil, nil)
			if err != nil {
				return
			}
			if r.Panic != nil {
				t.Fatalf("%s %q panicked: %v", m, target, r.Panic)
			}
			served := r.Status >= 200 && r.Status < 300
			if served && want == nil {
				t.Fatalf("%s %q (decoded path %q) is not a file of the torrent, yet it is answered %d (Content-Length %s, %d bytes)\n%s", m, target, rest, r.Status, r.Header.Get("Content-Length"), len(r.Body), w.describe())
			}
			if served && m == "HEAD" {
				if cl := r.Header.Get("Content-Length"); cl != fmt.Sprint(want.length) {
					t.Fatalf("HEAD %q reports Content-Length %q, the file %q has %d bytes", target, cl, want.path, want.length)
				}
			}
			if served && m == "GET" {
				exp := lt.content
				if !lt.single {
					exp = lt.bytesOf(want)
				}
				if !bytes.Equal(r.Body, exp) {
					t.Fatalf("GET %q: %d bytes that are not the content of file %q (offset %d, length %d)\n%s", target, len(r.Body), want.path, want.offset, want.length, w.describe())
				}
				class = "file-served"
			}
			if want != nil && !served && raw == escPath(want.path) {
				t.Fatalf("%s of file %q by its canonical path %q answered %d", m, want.path, target, r.Status)
			}
		}
		stats.Case("fuzz-path/"+class, want != nil)
	})
}
