package c20

// Nodes the kernel still holds for a torrent that has been deleted - and
// perhaps added again from a magnet link, its metadata not yet known - are
// paths into nothing: stat, lookup, listing and open on them must fail, not
// report a directory or an empty regular file.

import (
	"encoding/hex"
	"fmt"
	"testing"

	bfuse "bazil.org/fuse"
	"bazil.org/fuse/fs"

	sfuse "github.com/jech/storrent/fuse"

	"verif/stats"
	"verif/webfix"
)

func TestC20StaleNodes(t *testing.T) {
	for _, readd := range []string{"deleted", "deleted, added again from a magnet link (metadata not known yet)"} {
		webfix.KillAll()
		spec := &webfix.Spec{Name: "album", PieceLen: 16384, Seed: 5, Files: []webfix.File{
			{Path: []string{"d", "one.bin"}, Length: 3000}, {Path: []string{"d", "e", "two.bin"}, Length: 40000}, {Path: []string{"top.bin"}, Length: 7}}}
		l, err := webfix.Add(spec, true)
		if err != nil {
			t.Fatal(err)
		}
		root := sfuse.VerifRoot()
		hold := map[string]*fnode{}
		cur := &fnode{node: root}
		for _, step := range [][]string{{"album"}, {"album", "d"}, {"album", "d", "one.bin"}, {"album", "d", "e"}, {"album", "d", "e", "two.bin"}, {"album", "top.bin"}} {
			cur = &fnode{node: root}
			for _, name := range step {
				n, _, err, pv := lookupNode(cur.node, name)
				if pv != nil || n == nil {
					t.Fatalf("harness: lookup of %v failed before deletion: %v %v", step, err, pv)
				}
				cur = n
			}
			hold[fmt.Sprint(step)] = cur
		}
		h := l.T.Hash
		l.Kill()
		if readd != "deleted" {
			if _, err := webfix.AddMagnet("magnet:?xt=urn:btih:" + hex.EncodeToString(h) + "&dn=album"); err != nil {
				t.Fatal(err)
			}
		}
		for path, n := range hold {
			var a bfuse.Attr
			var err error
			var pv any
			func() {
				defer func() { pv = recover() }()
				err = n.node.Attr(bg, &a)
			}()
			if pv != nil {
				t.Fatalf("torrent %s: Attr on the node of %s panicked: %v", readd, path, pv)
			}
			if err == nil {
				t.Fatalf("torrent %s: the node the kernel still holds for %s stats fine (mode %v, size %d); there is no such file or directory any more", readd, path, a.Mode, a.Size)
			}
			if _, ok := n.node.(fs.NodeStringLookuper); ok {
				for _, name := range []string{"one.bin", "e", "d", "top.bin", "x"} {
					child, _, _, pv := lookupNode(n.node, name)
					if pv != nil {
						t.Fatalf("torrent %s: Lookup(%q) in the stale node of %s panicked: %v", readd, name, path, pv)
					}
					if child != nil {
						t.Fatalf("torrent %s: Lookup(%q) in the stale directory %s succeeds", readd, name, path)
					}
				}
				if ents, err, pv := readDir(n.node); pv != nil || (err == nil && len(ents) > 0) {
					t.Fatalf("torrent %s: the stale directory %s lists %v (panic: %v)", readd, path, ents, pv)
				}
			}
			if op, ok := n.node.(fs.NodeOpener); ok {
				var hd fs.Handle
				func() {
					defer func() { pv = recover() }()
					hd, err = op.Open(bg, &bfuse.OpenRequest{Flags: bfuse.OpenReadOnly}, &bfuse.OpenResponse{})
				}()
				if pv != nil {
					t.Fatalf("torrent %s: Open on the stale node of %s panicked: %v", readd, path, pv)
				}
				if err == nil {
					if rl, ok := hd.(fs.HandleReleaser); ok {
						rl.Release(bg, &bfuse.ReleaseRequest{})
					}
					t.Fatalf("torrent %s: the stale file node of %s can be opened", readd, path)
				}
			}
		}
		webfix.KillAll()
		stats.Case("stale-nodes/"+readd, true, "fuse-stale-nodes")
	}
}
