package c20

import (
	"testing"

	sfuse "github.com/jech/storrent/fuse"

	"verif/webfix"
)

// c20-fuse-magnet-shadow: tor.GetByName picks the smallest hash among all
// torrents of that name, including ones that only have a magnet display name.
// A magnet link "dn=<name of an existing torrent>" with a smaller hash (the
// hash in a magnet link is free text, e.g. all zeroes) makes the FUSE root
// list the complete torrent but fail to look it up.
func TestReg_c20_fuse_magnet_shadow(t *testing.T) {
	webfix.KillAll()
	defer webfix.KillAll()
	w := &world{tors: []*ltor{
		{name: "a", magnet: true, mhash: make([]byte, 20)},
		{name: "a", single: true, length: 1000, pieceLen: 16384, seed: 3},
	}}
	w.start(t)
	root := sfuse.VerifRoot()
	ents, err, _ := readDir(root)
	if err != nil || len(ents) != 1 || ents[0].Name != "a" {
		t.Fatalf("root lists %v (%v), want the one complete torrent \"a\"", ents, err)
	}
	n, absent, err, pv := lookupNode(root, "a")
	if pv != nil {
		t.Fatalf("Lookup panicked: %v", pv)
	}
	if n == nil {
		t.Fatalf("FUSE: the root lists \"a\" but Lookup(\"a\") + Attr fails (absent=%v, %v)\n%s", absent, err, w.describe())
	}
	if n.attr.Size != 1000 {
		t.Fatalf("FUSE: \"a\" has size %d, want 1000", n.attr.Size)
	}
}

// c20-slash-only-name: a single-file torrent whose name consists of slashes
// only ("/" is accepted by ReadTorrent: the name is merely non-empty) has the
// empty path once parsed; pathUrl and m3uentry index it at len-1 and panic, so
// the front page, the torrent's directory page and its playlists crash for as
// long as the torrent exists.  (Names containing '/' are otherwise outside
// C20's domain: such a file is not addressable; what is asserted here is only
// "fails cleanly instead of crashing".)
func TestReg_c20_slash_only_name(t *testing.T) {
	for _, name := range []string{"/", "///"} {
		webfix.KillAll()
		w := &world{tors: []*ltor{{name: name, single: true, length: 100, pieceLen: 16384, seed: 3}}}
		w.start(t)
		h := w.tors[0].hash
		for _, target := range []string{"/", "/" + h + "/", "/" + h + ".m3u", "/" + h + "/?playlist", "/?q=peers&hash=" + h, "/" + h + ".torrent", "/" + h + "/%2F", "/" + h + "/x"} {
			r, err := webfix.Do("GET", localHost, target, nil, nil)
			if err != nil {
				t.Fatal(err)
			}
			if r.Panic != nil {
				t.Fatalf("single-file torrent named %q: GET %s panicked: %v", name, target, r.Panic)
			}
			if r.Status >= 500 {
				t.Fatalf("single-file torrent named %q: GET %s: status %d", name, target, r.Status)
			}
		}
		root := sfuse.VerifRoot()
		if _, _, pv := readDir(root); pv != nil {
			t.Fatalf("FUSE ReadDirAll of the root panicked: %v", pv)
		}
		for _, n := range []string{name, "", "x"} {
			if _, _, _, pv := lookupNode(root, n); pv != nil {
				t.Fatalf("FUSE Lookup(%q) in the root panicked: %v", n, pv)
			}
		}
		webfix.KillAll()
	}
}
