package c20

import (
	"encoding/hex"
	"fmt"
	nurl "net/url"
	"sort"
	"strings"

	"pgregory.net/rapid"

	"github.com/jech/storrent/tor"

	"verif/webfix"
)

// ---------------------------------------------------------------- layouts

type lfile struct {
	path   []string
	length int64
	pad    bool
	attr   string // attr string of the metainfo when it is not just "p" / absent
	offset int64
}

type ltor struct {
	name     string
	single   bool
	magnet   bool    // metadata incomplete: only a display name is known
	legacy   int     // see genLegacy
	viaDN    *string // added from a magnet link with this display name; the metadata has completed since
	files    []lfile
	length   int64 // single
	pieceLen int64
	seed     uint64
	mhash    []byte

	live    *webfix.Live
	hash    string
	hbytes  []byte
	content []byte
}

// Names chosen to collide in every way a sloppy matcher could confuse:
// string prefixes of one another, case variants, characters that need URL
// or HTML escaping, Unicode normal forms, invalid UTF-8, dots.
var tricky = []string{
	"a", "a.b", "ab", "a.txt", "A", "b", "a b", "a%20b", "a?b", "a#b", "a+b", "é", "é", "a&amp;b", "x&lt;y", "R&copy", "日本", "%41", "%2F", "%2f..", "...", "-", "~",
	"a;b", "a=b", "a:b", "a@b", "a'b", "a\"b", "a<b>", "a\\b", "a,b", "a\nb", " a", "a ", "index.html", ".pad", ".hidden", "a..b", "..a", "a.", "a*b", "[a]", "{a}", "a|b", "a^b", "a`b", "Ω",
	"\xff\xfe", "a\tb", "playlist", "a?playlist", "0", "00", "aa", "aaa", "a.b.c", "B", "Ab", "aB",
}

func needsEscape(s string) bool { return nurl.PathEscape(s) != s }

func genComp(t *rapid.T, lb string, pool *[]string) string {
	for try := 0; ; try++ {
		var s string
		switch rapid.IntRange(0, 9).Draw(t, lb+".k") {
		case 0, 1, 2, 3, 4:
			s = rapid.SampledFrom(tricky).Draw(t, lb)
		case 5, 6:
			if len(*pool) > 0 {
				// derive from a name already in use: prefix, extension, case
				b := rapid.SampledFrom(*pool).Draw(t, lb+".base")
				s = rapid.SampledFrom([]string{b + ".txt", b + "b", b + " ", strings.ToUpper(b), strings.ToLower(b), b[:max(1, len(b)-1)], b + "." + b, b + "%2F", "%" + b}).Draw(t, lb+".derive")
			} else {
				s = rapid.SampledFrom(tricky).Draw(t, lb)
			}
		case 7:
			s = rapid.StringMatching(`[a-c]{1,3}`).Draw(t, lb+".short")
		default:
			s = rapid.StringN(1, 12, 40).Draw(t, lb+".any")
		}
		// domain: non-empty, no '/', no NUL, not a dot entry (neither a URL nor a
		// kernel lookup can carry such a component)
		if s == "" || s == "." || s == ".." || strings.ContainsAny(s, "/\x00") {
			if try > 20 {
				return "x"
			}
			continue
		}
		*pool = append(*pool, s)
		return s
	}
}

// genTree fills files with a valid tree: within a directory names are
// distinct, and a name is either a file or a directory.
func genTree(t *rapid.T, lb string, dir []string, depth int, budget *int, pool *[]string, out *[]lfile) {
	n := rapid.IntRange(1, 5).Draw(t, lb+".n")
	used := map[string]bool{}
	for i := 0; i < n && *budget > 0; i++ {
		el := fmt.Sprintf("%s.%d", lb, i)
		name := genComp(t, el, pool)
		if used[name] {
			continue
		}
		used[name] = true
		p := append(append([]string{}, dir...), name)
		if depth < 4 && rapid.IntRange(0, 2).Draw(t, el+".isdir") == 0 {
			before := len(*out)
			genTree(t, el, p, depth+1, budget, pool, out)
			if len(*out) == before && *budget > 0 { // a directory exists only through its files
				*budget--
				*out = append(*out, lfile{path: append(p, genComp(t, el+".only", pool)), length: genLen(t, el+".len")})
			}
			continue
		}
		*budget--
		f := lfile{path: p, length: genLen(t, el+".len")}
		switch rapid.IntRange(0, 8).Draw(t, el+".pad") {
		case 0:
			f.pad = true
		case 1:
			// BEP 47: attr is a set of flag letters; "p" among others still means padding
			f.pad, f.attr = true, rapid.SampledFrom([]string{"hp", "ph", "xp", "lhp"}).Draw(t, el+".attr")
		case 2:
			// other flags do not make a file padding
			f.attr = rapid.SampledFrom([]string{"x", "h", "hx", "l"}).Draw(t, el+".attr")
		}
		*out = append(*out, f)
	}
}

func genLen(t *rapid.T, lb string) int64 {
	switch rapid.IntRange(0, 5).Draw(t, lb+".class") {
	case 0:
		return 0
	case 1:
		return rapid.Int64Range(1, 20).Draw(t, lb)
	case 2:
		return rapid.SampledFrom([]int64{16383, 16384, 16385, 32768}).Draw(t, lb)
	default:
		return rapid.Int64Range(1, 40000).Draw(t, lb)
	}
}

func genTorrent(t *rapid.T, lb string, names *[]string) *ltor {
	lt := &ltor{seed: rapid.Uint64().Draw(t, lb+".seed"), pieceLen: rapid.SampledFrom([]int64{16384, 16384, 32768}).Draw(t, lb+".pl")}
	if len(*names) > 0 && rapid.IntRange(0, 2).Draw(t, lb+".dupname") == 0 {
		lt.name = rapid.SampledFrom(*names).Draw(t, lb+".samename")
	} else {
		lt.name = genComp(t, lb+".name", names)
	}
	switch rapid.IntRange(0, 11).Draw(t, lb+".kind") {
	case 0:
		lt.magnet = true
		lt.mhash = rapid.SliceOfN(rapid.Byte(), 20, 20).Draw(t, lb+".mhash")
		if rapid.Bool().Draw(t, lb+".lowhash") {
			copy(lt.mhash, []byte{0, 0, 0})
		}
		return lt
	case 1, 2:
		lt.single = true
		lt.length = max(1, genLen(t, lb+".length"))
		lt.genVia(t, lb, names)
		lt.genLegacy(t, lb)
		return lt
	}
	lt.genVia(t, lb, names)
	lt.genLegacy(t, lb)
	budget := rapid.SampledFrom([]int{1, 2, 3, 4, 5, 6, 8, 10, 12, 15}).Draw(t, lb+".nfiles")
	var pool []string
	for len(lt.files) == 0 {
		genTree(t, lb+".tree", nil, 1, &budget, &pool, &lt.files)
	}
	if rapid.Bool().Draw(t, lb+".shuffle") && len(lt.files) > 1 {
		lt.files = rapid.Permutation(lt.files).Draw(t, lb+".order")
	}
	var off int64
	for i := range lt.files {
		lt.files[i].offset = off
		off += lt.files[i].length
	}
	return lt
}

// genVia: one torrent in four started life as a magnet link whose display
// name is not the torrent's real name (another name of the pool, a tricky
// one, or none at all).
func (lt *ltor) genVia(t *rapid.T, lb string, names *[]string) {
	if rapid.IntRange(0, 3).Draw(t, lb+".via") != 0 {
		return
	}
	dn := rapid.SampledFrom(append([]string{"", "dn"}, tricky[:12]...)).Draw(t, lb+".dn")
	if len(*names) > 0 && rapid.Bool().Draw(t, lb+".dnpool") {
		dn = rapid.SampledFrom(*names).Draw(t, lb+".dnname")
	}
	lt.viaDN = &dn
}

// genLegacy: in one torrent out of four the real names travel in path.utf-8 /
// name.utf-8, next to other spellings in path / name (bit 0: paths, bit 1: name).
func (lt *ltor) genLegacy(t *rapid.T, lb string) {
	if rapid.IntRange(0, 3).Draw(t, lb+".legacyKeys") == 0 {
		lt.legacy = rapid.IntRange(1, 3).Draw(t, lb+".legacy")
	}
}

func (lt *ltor) spec() *webfix.Spec {
	s := &webfix.Spec{Name: lt.name, PieceLen: lt.pieceLen, Seed: lt.seed, LegacyPaths: lt.legacy&1 != 0, LegacyName: lt.legacy&2 != 0}
	if lt.single {
		s.Length = lt.length
		return s
	}
	s.Files = []webfix.File{}
	for _, f := range lt.files {
		s.Files = append(s.Files, webfix.File{Path: f.path, Length: f.length, Pad: f.pad, Attr: f.attr})
	}
	return s
}

// start registers the torrent.  Generated torrents can coincide (same name,
// layout and content seed, or the same magnet hash): the info-hash is then made
// distinct deterministically (next content seed / next hash) before adding.
func (lt *ltor) start() error {
	var err error
	if lt.magnet {
		for tor.Get(lt.mhash) != nil {
			for i := 19; i >= 0; i-- {
				lt.mhash[i]++
				if lt.mhash[i] != 0 {
					break
				}
			}
		}
		lt.live, err = webfix.AddMagnet("magnet:?xt=urn:btih:" + hex.EncodeToString(lt.mhash) + "&dn=" + nurl.QueryEscape(lt.name))
	} else {
		for try := 0; try < 1000; try++ {
			l, rerr := webfix.Read(lt.spec())
			if rerr != nil {
				return rerr
			}
			if tor.Get(l.T.Hash) == nil {
				break
			}
			lt.seed++
			if l.Spec.Total() == 0 { // no content to vary: vary the piece length
				lt.pieceLen += 16384
			}
		}
		if lt.viaDN != nil {
			lt.live, err = webfix.AddViaMagnet(lt.spec(), *lt.viaDN, true)
		} else {
			lt.live, err = webfix.Add(lt.spec(), true)
		}
	}
	if err != nil {
		return err
	}
	lt.hbytes = lt.live.T.Hash
	lt.hash = lt.live.T.Hash.String()
	lt.content = lt.live.Content
	return nil
}

// allFiles: the file table as (path, offset, length); a single-file torrent
// is one file named after the torrent.
func (lt *ltor) allFiles() []lfile {
	if lt.magnet {
		return nil
	}
	if lt.single {
		return []lfile{{path: []string{lt.name}, length: lt.length}}
	}
	return lt.files
}

func (lt *ltor) find(comps []string) *lfile {
	for _, f := range lt.allFiles() {
		if eq(f.path, comps) {
			f := f
			return &f
		}
	}
	return nil
}

func (lt *ltor) bytesOf(f *lfile) []byte { return lt.content[f.offset : f.offset+f.length] }

func eq(a, b []string) bool {
	if len(a) != len(b) {
		return false
	}
	for i := range a {
		if a[i] != b[i] {
			return false
		}
	}
	return true
}

// within: file lies (at any depth) below dir.
func within(file, dir []string) bool {
	return len(file) > len(dir) && eq(file[:len(dir)], dir)
}

// less: lexicographic order on component lists, bytewise per component.
func less(a, b []string) bool {
	for i := 0; i < len(a) && i < len(b); i++ {
		if a[i] != b[i] {
			return a[i] < b[i]
		}
	}
	return len(a) < len(b)
}

func (lt *ltor) sortedWithin(dir []string) []lfile {
	var out []lfile
	for _, f := range lt.allFiles() {
		if within(f.path, dir) {
			out = append(out, f)
		}
	}
	sort.SliceStable(out, func(i, j int) bool { return less(out[i].path, out[j].path) })
	return out
}

// dirs: every proper prefix of a file path (multi-file torrents).
func (lt *ltor) dirs() [][]string {
	var out [][]string
	seen := map[string]bool{}
	for _, f := range lt.files {
		for k := 1; k < len(f.path); k++ {
			key := strings.Join(f.path[:k], "/")
			if !seen[key] {
				seen[key] = true
				out = append(out, f.path[:k])
			}
		}
	}
	return out
}

func escPath(comps []string) string {
	var out []string
	for _, c := range comps {
		out = append(out, nurl.PathEscape(c))
	}
	return strings.Join(out, "/")
}

// layout labels and shape
func (lt *ltor) shape() (labels []string, shape string) {
	if lt.magnet {
		return []string{"magnet"}, "magnet"
	}
	if lt.single {
		l := []string{"single-file"}
		if needsEscape(lt.name) {
			l = append(l, "escaped-names")
		}
		if lt.viaDN != nil && *lt.viaDN != lt.name {
			l = append(l, "started-as-magnet-with-another-name")
		}
		return l, "single"
	}
	if lt.viaDN != nil && *lt.viaDN != lt.name {
		defer func() { labels = append(labels, "started-as-magnet-with-another-name") }()
	}
	set := map[string]bool{}
	depth := 0
	bydir := map[string][]string{}
	for _, f := range lt.files {
		depth = max(depth, len(f.path))
		if f.pad {
			set["padding-file"] = true
		}
		if f.length == 0 {
			set["empty-file"] = true
		}
		for k, c := range f.path {
			if needsEscape(c) {
				set["escaped-names"] = true
			}
			d := strings.Join(f.path[:k], "/")
			bydir[d] = append(bydir[d], c)
		}
	}
	for _, names := range bydir {
		for _, x := range names {
			for _, y := range names {
				if x != y && strings.HasPrefix(y, x) {
					set["prefix-names"] = true
				}
				if x != y && strings.EqualFold(x, y) {
					set["case-variant-names"] = true
				}
			}
		}
	}
	if depth > 1 {
		set["nested"] = true
	}
	for l := range set {
		labels = append(labels, l)
	}
	sort.Strings(labels)
	return labels, fmt.Sprintf("multi.f%d.d%d.%s", min(len(lt.files), 6), depth, strings.Join(labels, "+"))
}
