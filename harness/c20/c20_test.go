// C20 — front-ends expose exactly the torrent's files.
//
// Engine E6: live torrents (real tor.AddTorrent, every piece pre-filled and
// hash-verified through the real piece store); the HTTP handlers are called in
// process through http.DefaultServeMux, the FUSE node methods are called
// directly on the root node (verif-tagged accessor fuse.VerifRoot), without
// mounting.  Oracle: the file table of the generated layout, both directions.
package c20

import (
	"os"
	"bytes"
	"fmt"
	"net/http"
	nurl "net/url"
	"sort"
	"strings"
	"testing"

	"golang.org/x/net/html"
	"pgregory.net/rapid"

	"verif/stats"
	"verif/webfix"
)

const localHost = "localhost:8088"

func TestMain(m *testing.M) {
	// (webfix silences storrent by pointing os.Stderr at /dev/null; the native
	// fuzzer's coordinator reports its progress on os.Stderr)
	stderr := os.Stderr
	webfix.Init()
	for _, a := range os.Args {
		if strings.HasPrefix(a, "-test.fuzz=") || a == "-test.fuzz" {
			os.Stderr = stderr
		}
	}
	stats.Main(m)
}

type failer interface {
	Fatalf(format string, args ...any)
}

func clip(b []byte) string {
	if len(b) > 800 {
		return string(b[:800]) + fmt.Sprintf("…(%d bytes)", len(b))
	}
	return string(b)
}

// ---------------------------------------------------------------- world

type world struct {
	tors []*ltor
}

func genWorld(t *rapid.T) *world {
	w := &world{}
	var names []string
	n := rapid.SampledFrom([]int{1, 1, 2, 2, 3}).Draw(t, "ntorrents")
	for i := 0; i < n; i++ {
		w.tors = append(w.tors, genTorrent(t, fmt.Sprintf("t%d", i), &names))
	}
	// at least one torrent with files
	if all(w.tors, func(lt *ltor) bool { return lt.magnet }) {
		w.tors[0].magnet = false
		w.tors[0].single = true
		w.tors[0].length = 100
	}
	return w
}

func all(ts []*ltor, f func(*ltor) bool) bool {
	for _, t := range ts {
		if !f(t) {
			return false
		}
	}
	return true
}

// start registers the torrents; two magnets (or a magnet and a torrent) may
// collide on the info-hash only with negligible probability; a collision is
// reported as a harness error.
func (w *world) start(t failer) {
	for i, lt := range w.tors {
		if err := lt.start(); err != nil {
			webfix.KillAll()
			t.Fatalf("harness: torrent %d: %v", i, err)
		}
	}
}

func (w *world) describe() string {
	var b strings.Builder
	for i, lt := range w.tors {
		switch {
		case lt.magnet:
			fmt.Fprintf(&b, "torrent %d: magnet %s name %q (metadata incomplete)\n", i, lt.hash, lt.name)
		case lt.single:
			fmt.Fprintf(&b, "torrent %d: %s single file %q, %d bytes\n", i, lt.hash, lt.name, lt.length)
		default:
			fmt.Fprintf(&b, "torrent %d: %s name %q, files:\n", i, lt.hash, lt.name)
			for _, f := range lt.files {
				fmt.Fprintf(&b, "    %q offset %d length %d padding %v\n", f.path, f.offset, f.length, f.pad)
			}
		}
	}
	return b.String()
}

// ---------------------------------------------------------------- HTTP oracle

type lookup struct {
	class string
	raw   string // escaped path after "/<hash>/"
}

func swapCase(s string) string {
	return strings.Map(func(r rune) rune {
		switch {
		case r >= 'a' && r <= 'z':
			return r - 32
		case r >= 'A' && r <= 'Z':
			return r + 32
		}
		return r
	}, s)
}

// genLookups: the lookups of one torrent.  Present ones first (every file),
// then the absent / crafted classes of DESIGN §4 C20.
func genLookups(t *rapid.T, lt *ltor, lb string) []lookup {
	var out []lookup
	files := lt.allFiles()
	for _, f := range files {
		out = append(out, lookup{"true-path", escPath(f.path)})
	}
	if len(files) == 0 {
		return []lookup{{"magnet-any", "x"}, {"magnet-name", nurl.PathEscape(lt.name)}}
	}
	for _, d := range lt.dirs() {
		out = append(out, lookup{"absent-prefix-lookup", escPath(d)})
	}
	pick := func(l string) lfile { return rapid.SampledFrom(files).Draw(t, lb+"."+l) }
	n := rapid.IntRange(4, 14).Draw(t, lb+".ncrafted")
	for i := 0; i < n; i++ {
		f := pick(fmt.Sprintf("f%d", i))
		p := f.path
		cl := rapid.SampledFrom([]string{"extra-component", "case-changed", "swapped-components", "dot-components", "encoded-slash", "truncated-name", "extended-name",
			"random", "other-torrent-path", "double-escaped", "unescaped", "last-only", "dropped-first", "query-junk"}).Draw(t, fmt.Sprintf("%s.class%d", lb, i))
		switch cl {
		case "extra-component":
			x := rapid.SampledFrom([]string{"x", p[len(p)-1], "..x", "0"}).Draw(t, lb+".extra")
			out = append(out, lookup{cl, escPath(append(append([]string{}, p...), x))})
		case "case-changed":
			q := append([]string{}, p...)
			k := rapid.IntRange(0, len(q)-1).Draw(t, lb+".which")
			q[k] = swapCase(q[k])
			out = append(out, lookup{cl, escPath(q)})
		case "swapped-components":
			g := pick(fmt.Sprintf("g%d", i))
			q := append([]string{}, p[:len(p)-1]...)
			q = append(q, g.path[len(g.path)-1])
			out = append(out, lookup{cl, escPath(q)})
			if len(p) > 1 {
				r := append([]string{}, p...)
				r[0], r[len(r)-1] = r[len(r)-1], r[0]
				out = append(out, lookup{cl, escPath(r)})
			}
		case "dot-components":
			e := escPath(p)
			form := rapid.SampledFrom([]string{"./{}", "{}/.", "x/../{}", "{}/../{last}", "%2e/{}", "%2e%2e/{}", "{}/%2e%2e", "/{}", "{}//x", "..%2f{}", "{}%2f..", "%2e%2e%2f{}", "{}/%2e"}).Draw(t, lb+".dotform")
			form = strings.ReplaceAll(form, "{last}", nurl.PathEscape(p[len(p)-1]))
			out = append(out, lookup{cl, strings.ReplaceAll(form, "{}", e)})
		case "encoded-slash":
			e := strings.Join(strings.Split(escPath(p), "/"), "%2F")
			out = append(out, lookup{cl, e}, lookup{cl, "%2F" + escPath(p)}, lookup{cl, escPath(p) + "%2F"}, lookup{cl, escPath(p) + "%2Fx"})
		case "truncated-name":
			q := append([]string{}, p...)
			last := q[len(q)-1]
			if len(last) > 1 {
				q[len(q)-1] = last[:len(last)-1]
				out = append(out, lookup{cl, escPath(q)})
			}
			if len(p) > 1 && len(p[0]) > 1 {
				r := append([]string{}, p...)
				r[0] = r[0][:len(r[0])-1]
				out = append(out, lookup{cl, escPath(r)})
			}
		case "extended-name":
			q := append([]string{}, p...)
			q[len(q)-1] += rapid.SampledFrom([]string{"x", ".txt", " ", "%00", "\x01"}).Draw(t, lb+".ext")
			out = append(out, lookup{cl, escPath(q)})
		case "random":
			s := rapid.StringN(1, 10, 30).Draw(t, lb+".random")
			out = append(out, lookup{cl, nurl.PathEscape(s)})
		case "other-torrent-path":
			out = append(out, lookup{cl, nurl.PathEscape(lt.name) + "/" + escPath(p)}, lookup{cl, nurl.PathEscape(lt.name)})
		case "double-escaped":
			out = append(out, lookup{cl, nurl.PathEscape(escPath(p))}, lookup{cl, strings.ReplaceAll(escPath(p), "%", "%25")})
		case "unescaped":
			// the raw name, only made acceptable as a request URI
			raw := strings.Join(p, "/")
			if u, err := nurl.ParseRequestURI("/h/" + raw); err == nil && u.RawQuery == "" && !strings.ContainsAny(raw, "?#") {
				out = append(out, lookup{cl, raw})
			}
		case "last-only":
			if len(p) > 1 {
				out = append(out, lookup{cl, nurl.PathEscape(p[len(p)-1])})
			}
		case "dropped-first":
			if len(p) > 1 {
				out = append(out, lookup{cl, escPath(p[1:])})
			}
		case "query-junk":
			out = append(out, lookup{cl, escPath(p) + "?x=1"}, lookup{cl, escPath(p[:len(p)-1]) + "?" + nurl.PathEscape(p[len(p)-1])})
		}
	}
	return out
}

// checkFileLookup issues one GET/HEAD for /<hash>/<raw> and judges it against
// the file table.  It returns the outcome class.
func checkFileLookup(t *rapid.T, w *world, lt *ltor, lk lookup, lb string) string {
	target := "/" + lt.hash + "/" + lk.raw
	u, err := nurl.ParseRequestURI(target)
	if err != nil {
		return "unparseable"
	}
	if _, isPlaylist := u.Query()["playlist"]; isPlaylist {
		return "playlist-query"
	}
	decoded := u.Path
	rest := strings.TrimPrefix(decoded, "/"+lt.hash+"/")
	if decoded == rest || strings.HasSuffix(decoded, "/") {
		return "directory-form"
	}
	// Redundant leading slashes (only expressible as %2F; the mux redirects
	// literal ones) are tolerated as another spelling of the same path, like
	// POSIX does; an empty component anywhere else names nothing.
	want := lt.find(strings.Split(strings.TrimLeft(rest, "/"), "/"))
	canonical := want != nil && lk.raw == escPath(want.path)

	fail := func(format string, a ...any) {
		t.Fatalf("%s\nlookup class %s: %s\n%s", fmt.Sprintf(format, a...), lk.class, target, w.describe())
	}
	// HEAD
	r, err := webfix.Do("HEAD", localHost, target, nil, nil)
	if err != nil {
		return "unparseable"
	}
	if r.Panic != nil {
		fail("HEAD panicked: %v", r.Panic)
	}
	served := r.Status >= 200 && r.Status < 300
	switch {
	case served && want == nil:
		fail("HEAD of a path that is not a file of the torrent is answered %d (Content-Length %s)", r.Status, r.Header.Get("Content-Length"))
	case served:
		if cl := r.Header.Get("Content-Length"); cl != fmt.Sprint(want.length) {
			fail("HEAD reports Content-Length %q, the file %q has %d bytes", cl, want.path, want.length)
		}
	case canonical:
		fail("HEAD of file %q answered %d", want.path, r.Status)
	}
	// GET, whole or ranged
	var hdr http.Header
	a, b := int64(0), int64(-1)
	ranged := false
	if want != nil && want.length > 0 && rapid.IntRange(0, 3).Draw(t, lb+".ranged") > 0 {
		a = rapid.Int64Range(0, want.length-1).Draw(t, lb+".from")
		b = rapid.Int64Range(a, min(want.length-1, a+5000)).Draw(t, lb+".to")
		hdr = http.Header{"Range": {fmt.Sprintf("bytes=%d-%d", a, b)}}
		ranged = true
	}
	r, err = webfix.Do("GET", localHost, target, hdr, nil)
	if err != nil {
		return "unparseable"
	}
	if r.Panic != nil {
		fail("GET panicked: %v", r.Panic)
	}
	served = r.Status >= 200 && r.Status < 300
	switch {
	case served && want == nil:
		fail("GET of a path that is not a file of the torrent is answered %d with %d bytes: %q", r.Status, len(r.Body), clip(r.Body))
	case served && ranged:
		exp := lt.bytesOf(want)[a : b+1]
		if r.Status != 206 || !bytes.Equal(r.Body, exp) {
			fail("GET Range %d-%d of file %q (offset %d, length %d): status %d, %d bytes; they are not the file's bytes %d..%d (torrent bytes %d..%d)",
				a, b, want.path, want.offset, want.length, r.Status, len(r.Body), a, b, want.offset+a, want.offset+b)
		}
		if cr, exp := r.Header.Get("Content-Range"), fmt.Sprintf("bytes %d-%d/%d", a, b, want.length); cr != exp {
			fail("Content-Range %q, want %q", cr, exp)
		}
	case served:
		if r.Status != 200 || !bytes.Equal(r.Body, lt.bytesOf(want)) {
			fail("GET of file %q (offset %d, length %d): status %d with %d bytes that are not the file's content", want.path, want.offset, want.length, r.Status, len(r.Body))
		}
	case canonical:
		fail("GET of file %q answered %d: %q", want.path, r.Status, clip(r.Body))
	}
	if served {
		return "served"
	}
	return fmt.Sprintf("refused-%d", r.Status)
}

// pageLinks extracts, in page order, the decoded paths of the links to files
// (…/<hash>/<path> not ending in a slash) and to directories.
func pageLinks(body []byte, hash string) (files, dirs, playlists []string, err error) {
	z := html.NewTokenizer(bytes.NewReader(body))
	for {
		tt := z.Next()
		if tt == html.ErrorToken {
			return
		}
		if tt != html.StartTagToken {
			continue
		}
		tk := z.Token()
		if tk.Data != "a" {
			continue
		}
		for _, at := range tk.Attr {
			if at.Key != "href" {
				continue
			}
			u, perr := nurl.Parse(at.Val)
			if perr != nil {
				return nil, nil, nil, fmt.Errorf("link %q does not parse: %v", at.Val, perr)
			}
			if !strings.HasPrefix(u.Path, "/"+hash+"/") || u.Path == "/"+hash+"/" {
				continue
			}
			rest := strings.TrimPrefix(u.Path, "/"+hash+"/")
			switch {
			case strings.HasSuffix(rest, "/") && u.RawQuery == "playlist":
				playlists = append(playlists, strings.TrimSuffix(rest, "/"))
			case strings.HasSuffix(rest, "/") && u.RawQuery == "":
				dirs = append(dirs, strings.TrimSuffix(rest, "/"))
			case u.RawQuery == "":
				files = append(files, rest)
			default:
				return nil, nil, nil, fmt.Errorf("unexpected link %q", at.Val)
			}
		}
	}
}

func joinAll(fs []lfile) []string {
	out := []string{}
	for _, f := range fs {
		out = append(out, strings.Join(f.path, "/"))
	}
	return out
}

// checkListing: the directory page and the playlist of dir list exactly the
// files within dir, once each, in path order.
func checkListing(t failer, w *world, lt *ltor, dir []string) {
	base := "/" + lt.hash + "/"
	if len(dir) > 0 {
		base += escPath(dir) + "/"
	}
	fail := func(format string, a ...any) {
		t.Fatalf("%s\ndirectory %q of torrent %s\n%s", fmt.Sprintf(format, a...), dir, lt.hash, w.describe())
	}
	want := joinAll(lt.sortedWithin(dir))
	r, err := webfix.Do("GET", localHost, base, nil, nil)
	if err != nil {
		t.Fatalf("harness: %v", err)
	}
	if r.Panic != nil {
		fail("GET %s panicked: %v", base, r.Panic)
	}
	if r.Status != 200 {
		fail("GET %s: status %d", base, r.Status)
	}
	files, dirs, pls, err := pageLinks(r.Body, lt.hash)
	if err != nil {
		fail("GET %s: %v", base, err)
	}
	if fmt.Sprintf("%q", files) != fmt.Sprintf("%q", want) {
		fail("GET %s lists files\n  %q\nwant exactly the files within the directory, in path order:\n  %q", base, files, want)
	}
	// directory rows: every proper prefix of a listed file, once
	wantDirs := map[string]bool{}
	for _, f := range lt.sortedWithin(dir) {
		for k := 1; k < len(f.path); k++ {
			wantDirs[strings.Join(f.path[:k], "/")] = true
		}
	}
	if lt.single {
		wantDirs = map[string]bool{}
	}
	for _, l := range [][]string{dirs, pls} {
		got := map[string]int{}
		for _, d := range l {
			got[d]++
		}
		for d := range wantDirs {
			if got[d] != 1 {
				fail("GET %s: directory %q has %d rows, want 1 (rows %q)", base, d, got[d], l)
			}
		}
		for d := range got {
			if !wantDirs[d] {
				fail("GET %s: row for %q, which is not a directory of the listed files", base, d)
			}
		}
	}
	// playlist
	for _, target := range playlistTargets(lt, dir) {
		r, err := webfix.Do("GET", localHost, target, nil, nil)
		if err != nil {
			t.Fatalf("harness: %v", err)
		}
		if r.Panic != nil {
			fail("GET %s panicked: %v", target, r.Panic)
		}
		if len(want) == 0 {
			if r.Status >= 200 && r.Status < 300 {
				fail("GET %s: playlist of a directory without files answered %d: %q", target, r.Status, clip(r.Body))
			}
			continue
		}
		if r.Status != 200 {
			fail("GET %s: status %d", target, r.Status)
		}
		lines := strings.Split(strings.TrimSuffix(string(r.Body), "\n"), "\n")
		var got []string
		for i, l := range lines {
			if i == 0 || strings.HasPrefix(l, "#") {
				continue
			}
			u, err := nurl.Parse(l)
			if err != nil || u.Host != localHost || !strings.HasPrefix(u.Path, "/"+lt.hash+"/") {
				fail("GET %s: line %d %q is not a URL below http://%s/%s/", target, i+1, l, localHost, lt.hash)
			}
			got = append(got, strings.TrimPrefix(u.Path, "/"+lt.hash+"/"))
		}
		if hasLineBreak(want) {
			// titles of names with line breaks are C19's business; compare the URLs only
			var urls []string
			for _, g := range got {
				if lt.find(strings.Split(g, "/")) != nil {
					urls = append(urls, g)
				}
			}
			got = urls
		}
		if fmt.Sprintf("%q", got) != fmt.Sprintf("%q", want) {
			fail("GET %s lists\n  %q\nwant exactly the files within the directory, in path order:\n  %q", target, got, want)
		}
	}
}

func hasLineBreak(l []string) bool {
	for _, s := range l {
		if strings.ContainsAny(s, "\r\n") {
			return true
		}
	}
	return false
}

func playlistTargets(lt *ltor, dir []string) []string {
	if len(dir) == 0 {
		return []string{"/" + lt.hash + ".m3u", "/" + lt.hash + "/?playlist"}
	}
	return []string{"/" + lt.hash + "/" + escPath(dir) + "/?playlist"}
}

func TestC20HTTP(t *testing.T) {
	rapid.Check(t, func(t *rapid.T) {
		webfix.KillAll()
		w := genWorld(t)
		w.start(t)
		defer webfix.KillAll()

		labels := map[string]bool{}
		outcomes := map[string]bool{}
		nontrivial := false
		shapes := ""
		for i, lt := range w.tors {
			lb := fmt.Sprintf("t%d", i)
			ls, shape := lt.shape()
			shapes += shape + ";"
			for _, l := range ls {
				labels[l] = true
			}
			for _, f := range lt.files {
				if f.pad && f.attr != "" {
					labels["padding-flag-among-other-flags"] = true
				}
				if !f.pad && f.attr != "" {
					labels["other-flags-without-padding"] = true
				}
			}
			if !lt.magnet && lt.legacy&1 != 0 && !lt.single {
				labels["names-in-path.utf-8"] = true
				if lt.legacy&2 == 0 {
					labels["names-in-path.utf-8-without-name.utf-8"] = true
				}
			}
			if !lt.magnet && lt.legacy&2 != 0 {
				labels["name-in-name.utf-8"] = true
			}
			if !lt.single && !lt.magnet && len(lt.files) >= 2 && len(lt.dirs()) > 0 {
				nontrivial = true
			}
			for k, lk := range genLookups(t, lt, lb) {
				out := checkFileLookup(t, w, lt, lk, fmt.Sprintf("%s.l%d", lb, k))
				labels[lk.class] = true
				outcomes[lk.class+":"+out] = true
			}
			if lt.magnet {
				continue
			}
			// listings: root, every directory, and directories that do not exist
			checkListing(t, w, lt, nil)
			for _, d := range lt.dirs() {
				checkListing(t, w, lt, d)
				labels["listing-subdir"] = true
			}
			for _, f := range lt.allFiles() {
				if rapid.IntRange(0, 3).Draw(t, lb+".asdir") == 0 {
					checkListing(t, w, lt, f.path) // a file's path used as a directory
					labels["listing-file-as-dir"] = true
				}
			}
			if ds := lt.dirs(); len(ds) > 0 {
				d := rapid.SampledFrom(ds).Draw(t, lb+".absentdir")
				x := append(append([]string{}, d[:len(d)-1]...), d[len(d)-1]+"x")
				if len(lt.sortedWithin(x)) == 0 {
					checkListing(t, w, lt, x)
					labels["listing-absent-dir"] = true
				}
				if len(d[len(d)-1]) > 1 {
					y := append(append([]string{}, d[:len(d)-1]...), d[len(d)-1][:len(d[len(d)-1])-1])
					if last := y[len(y)-1]; len(lt.sortedWithin(y)) == 0 && last != "." && last != ".." {
						checkListing(t, w, lt, y)
						labels["listing-prefix-dir"] = true
					}
				}
			}
		}
		finish("http", shapes, labels, outcomes, nontrivial, w)
	})
}

func finish(kind, shapes string, labels, outcomes map[string]bool, nontrivial bool, w *world) {
	var ls, os []string
	for l := range labels {
		ls = append(ls, l)
	}
	for o := range outcomes {
		os = append(os, o)
	}
	sort.Strings(ls)
	sort.Strings(os)
	stats.Case(kind+"/"+shapes+"/"+strings.Join(os, ","), nontrivial, ls...)
	for _, o := range os {
		stats.Label("outcome:" + o)
	}
	for _, l := range ls {
		if stats.WantSample(l) {
			stats.Sample(l, w.describe())
		}
	}
}
