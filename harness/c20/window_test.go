package c20

// The moment a magnet torrent's metadata becomes complete, seen from the
// front-ends: requests running in parallel with MetadataComplete must see the
// torrent either as it was before (no metadata) or as it is afterwards, never
// a mixture (complete, but without its file table).
//
// This is a stress test with real parallelism: the window is a few
// instructions wide.  Each round answers are compared with the two stable
// answers (before, after) of the same request.

import (
	"crypto/sha1"
	"encoding/hex"
	"fmt"
	"net/url"
	"runtime"
	"sync"
	"sync/atomic"
	"testing"

	"verif/stats"
	"verif/webfix"
)

func respKey(r *webfix.Resp) string {
	return fmt.Sprintf("%d ct=%q cl=%q loc=%q", r.Status, r.Header.Get("Content-Type"), r.Header.Get("Content-Length"), r.Header.Get("Location"))
}

func TestC20MetadataWindow(t *testing.T) {
	webfix.Init()
	if runtime.GOMAXPROCS(0) < 2 {
		t.Skip("inconclusive: needs two processors")
	}
	rounds := 300
	if testing.Short() {
		rounds = 50
	}
	spec := &webfix.Spec{Name: "album", PieceLen: 16384, Seed: 77,
		Files: []webfix.File{{Path: []string{"cd1", "01.flac"}, Length: 30000}, {Path: []string{"cd1", "02.flac"}, Length: 1}, {Path: []string{"cover.jpg"}, Length: 20000}}}
	_, info := spec.Metainfo()
	// (file requests only: every directory page - any path ending in a slash -
	// prints the torrent's name and statistics without looking at its metadata
	// state first; that is a data race in its own right, on what the page
	// displays, not on which files exist)
	targets := []string{"/%s/" + url.PathEscape(spec.Name), "/%s/" + url.PathEscape(spec.Name) + "/cd1", "/%s/" + url.PathEscape(spec.Name) + "/cd1/01.flac", "/%s/" + url.PathEscape(spec.Name) + "/cover.jpg"}
	inWindow := 0
	for round := 0; round < rounds; round++ {
		webfix.KillAll()
		l, err := webfix.AddMagnet("magnet:?xt=urn:btih:" + hex.EncodeToString(infoHashOf(info)))
		if err != nil {
			t.Fatalf("harness: %v", err)
		}
		hx := hex.EncodeToString(l.T.Hash)
		var tg []string
		for _, f := range targets {
			tg = append(tg, fmt.Sprintf(f, hx))
		}
		before := map[string]string{}
		for _, m := range []string{"GET", "HEAD"} {
			for _, x := range tg {
				r, err := webfix.Do(m, "localhost:8088", x, nil, nil)
				if err != nil {
					t.Fatalf("harness: %v", err)
				}
				before[m+" "+x] = respKey(r)
			}
		}
		type obs struct{ req, key string }
		var mu sync.Mutex
		var seen []obs
		var stop atomic.Bool
		var wg sync.WaitGroup
		var started sync.WaitGroup
		for g := 0; g < 3; g++ {
			wg.Add(1)
			started.Add(1)
			go func(g int) {
				defer wg.Done()
				first := true
				for k := 0; !stop.Load(); k++ {
					m := []string{"GET", "HEAD"}[(k+g)%2]
					x := tg[(k/2+g)%len(tg)]
					r, err := webfix.Do(m, "localhost:8088", x, nil, nil)
					if first {
						started.Done()
						first = false
					}
					if err != nil || r.Panic != nil {
						mu.Lock()
						seen = append(seen, obs{m + " " + x, fmt.Sprintf("panic/err: %v %v", err, r.Panic)})
						mu.Unlock()
						continue
					}
					key := respKey(r)
					if key != before[m+" "+x] {
						mu.Lock()
						if len(seen) < 10000 {
							seen = append(seen, obs{m + " " + x, key})
						}
						mu.Unlock()
					}
				}
			}(g)
		}
		started.Wait()
		l.T.Info = info
		if err := l.T.MetadataComplete(); err != nil {
			t.Fatalf("harness: MetadataComplete: %v", err)
		}
		runtime.Gosched()
		stop.Store(true)
		wg.Wait()
		after := map[string]string{}
		for _, m := range []string{"GET", "HEAD"} {
			for _, x := range tg {
				r, err := webfix.Do(m, "localhost:8088", x, nil, nil)
				if err != nil {
					t.Fatalf("harness: %v", err)
				}
				after[m+" "+x] = respKey(r)
			}
		}
		for _, o := range seen {
			inWindow++
			if o.key != after[o.req] {
				t.Fatalf("round %d: while the metadata of a multi-file magnet torrent was becoming complete, %s was answered %s; before: %s; afterwards: %s — the front-end saw a torrent that is complete but has no file table yet",
					round, o.req, o.key, before[o.req], after[o.req])
			}
		}
		l.Kill()
	}
	stats.Case("metadata-window", true, "metadata-window-rounds")
	stats.Note("metadata window: %d rounds, %d answers observed after the switch while requests were running", rounds, inWindow)
}

func infoHashOf(info []byte) []byte {
	h := sha1.Sum(info)
	return h[:]
}
