// Package conv maps between storrent's protocol.Message values and the
// reference codec's ref.Msg.  It contains no protocol knowledge beyond field
// correspondence.
package conv

import (
	"bytes"
	"fmt"
	"net/netip"
	"reflect"

	"github.com/jech/storrent/pex"
	"github.com/jech/storrent/protocol"

	"verif/ref"
)

// FromRef builds the storrent message that corresponds to m.  Absent optional
// fields become zero values (storrent's types cannot express absence).
func FromRef(m ref.Msg) protocol.Message {
	switch m.Kind {
	case ref.KKeepAlive:
		return protocol.KeepAlive{}
	case ref.KChoke:
		return protocol.Choke{}
	case ref.KUnchoke:
		return protocol.Unchoke{}
	case ref.KInterest:
		return protocol.Interested{}
	case ref.KNotInt:
		return protocol.NotInterested{}
	case ref.KHave:
		return protocol.Have{Index: m.Index}
	case ref.KBitfield:
		return protocol.Bitfield{Bitfield: m.Data}
	case ref.KRequest:
		return protocol.Request{Index: m.Index, Begin: m.Begin, Length: m.Length}
	case ref.KPiece:
		return protocol.Piece{Index: m.Index, Begin: m.Begin, Data: m.Data}
	case ref.KCancel:
		return protocol.Cancel{Index: m.Index, Begin: m.Begin, Length: m.Length}
	case ref.KPort:
		return protocol.Port{Port: m.Port}
	case ref.KSuggest:
		return protocol.SuggestPiece{Index: m.Index}
	case ref.KHaveAll:
		return protocol.HaveAll{}
	case ref.KHaveNone:
		return protocol.HaveNone{}
	case ref.KReject:
		return protocol.RejectRequest{Index: m.Index, Begin: m.Begin, Length: m.Length}
	case ref.KAllowed:
		return protocol.AllowedFast{Index: m.Index}
	case ref.KExtended:
		switch m.X {
		case ref.XHandshake:
			h := m.HS
			var e protocol.Extended0
			if h.V != nil {
				e.Version = *h.V
			}
			if h.P != nil {
				e.Port = *h.P
			}
			if h.ReqQ != nil {
				e.ReqQ = *h.ReqQ
			}
			if len(h.IPv4) == 4 {
				e.IPv4, _ = netip.AddrFromSlice(h.IPv4)
			}
			if len(h.IPv6) == 16 {
				e.IPv6, _ = netip.AddrFromSlice(h.IPv6)
			}
			if h.MetadataSize != nil {
				e.MetadataSize = *h.MetadataSize
			}
			if len(h.M) > 0 {
				e.Messages = h.M
			}
			if h.UploadOnly != nil {
				e.UploadOnly = *h.UploadOnly
			}
			if h.E != nil {
				e.Encrypt = *h.E
			}
			return e
		case ref.XPex:
			return protocol.ExtendedPex{Subtype: m.Sub, Added: pexFrom(m.Added), Dropped: pexFrom(m.Dropped)}
		case ref.XMetadata:
			var total uint32
			if m.MetaTotal != nil {
				total = *m.MetaTotal
			}
			return protocol.ExtendedMetadata{Subtype: m.Sub, Type: m.MetaType, Piece: m.MetaPiece, TotalSize: total, Data: m.Data}
		case ref.XDontHave:
			return protocol.ExtendedDontHave{Subtype: m.Sub, Index: m.Index}
		case ref.XUploadOnly:
			return protocol.ExtendedUploadOnly{Subtype: m.Sub, Value: m.Flag}
		case ref.XOpaque:
			return protocol.ExtendedUnknown{Subtype: m.Sub}
		}
	}
	panic(fmt.Sprintf("conv.FromRef: %+v", m))
}

func pexFrom(l []ref.PexPeer) []pex.Peer {
	var out []pex.Peer
	for _, p := range l {
		out = append(out, pex.Peer{Addr: p.Addr, Flags: p.Flags})
	}
	return out
}

func pexTo(l []pex.Peer) []ref.PexPeer {
	var out []ref.PexPeer
	for _, p := range l {
		out = append(out, ref.PexPeer{Addr: p.Addr, Flags: p.Flags})
	}
	return out
}

// ToRef is the inverse of FromRef for the messages storrent can hold.  Zero
// values of optional handshake fields are reported as absent, except
// upload_only, which storrent always emits.
func ToRef(m protocol.Message) (ref.Msg, bool) {
	switch m := m.(type) {
	case protocol.KeepAlive:
		return ref.Msg{Kind: ref.KKeepAlive}, true
	case protocol.Choke:
		return ref.Msg{Kind: ref.KChoke}, true
	case protocol.Unchoke:
		return ref.Msg{Kind: ref.KUnchoke}, true
	case protocol.Interested:
		return ref.Msg{Kind: ref.KInterest}, true
	case protocol.NotInterested:
		return ref.Msg{Kind: ref.KNotInt}, true
	case protocol.Have:
		return ref.Msg{Kind: ref.KHave, Index: m.Index}, true
	case protocol.Bitfield:
		return ref.Msg{Kind: ref.KBitfield, Data: m.Bitfield}, true
	case protocol.Request:
		return ref.Msg{Kind: ref.KRequest, Index: m.Index, Begin: m.Begin, Length: m.Length}, true
	case protocol.Piece:
		return ref.Msg{Kind: ref.KPiece, Index: m.Index, Begin: m.Begin, Data: m.Data}, true
	case protocol.Cancel:
		return ref.Msg{Kind: ref.KCancel, Index: m.Index, Begin: m.Begin, Length: m.Length}, true
	case protocol.Port:
		return ref.Msg{Kind: ref.KPort, Port: m.Port}, true
	case protocol.SuggestPiece:
		return ref.Msg{Kind: ref.KSuggest, Index: m.Index}, true
	case protocol.HaveAll:
		return ref.Msg{Kind: ref.KHaveAll}, true
	case protocol.HaveNone:
		return ref.Msg{Kind: ref.KHaveNone}, true
	case protocol.RejectRequest:
		return ref.Msg{Kind: ref.KReject, Index: m.Index, Begin: m.Begin, Length: m.Length}, true
	case protocol.AllowedFast:
		return ref.Msg{Kind: ref.KAllowed, Index: m.Index}, true
	case protocol.Extended0:
		h := &ref.ExtHS{}
		if m.Version != "" {
			v := m.Version
			h.V = &v
		}
		if m.Port != 0 {
			v := m.Port
			h.P = &v
		}
		if m.ReqQ != 0 {
			v := m.ReqQ
			h.ReqQ = &v
		}
		if m.IPv4.IsValid() {
			h.IPv4 = m.IPv4.AsSlice()
		}
		if m.IPv6.IsValid() {
			h.IPv6 = m.IPv6.AsSlice()
		}
		if m.MetadataSize != 0 {
			v := m.MetadataSize
			h.MetadataSize = &v
		}
		if len(m.Messages) > 0 {
			h.M = m.Messages
		}
		u := m.UploadOnly
		h.UploadOnly = &u
		if m.Encrypt {
			e := true
			h.E = &e
		}
		return ref.Msg{Kind: ref.KExtended, Sub: 0, X: ref.XHandshake, HS: h}, true
	case protocol.ExtendedPex:
		return ref.Msg{Kind: ref.KExtended, Sub: m.Subtype, X: ref.XPex, Added: pexTo(m.Added), Dropped: pexTo(m.Dropped)}, true
	case protocol.ExtendedMetadata:
		r := ref.Msg{Kind: ref.KExtended, Sub: m.Subtype, X: ref.XMetadata, MetaType: m.Type, MetaPiece: m.Piece, Data: m.Data}
		if m.TotalSize != 0 {
			t := m.TotalSize
			r.MetaTotal = &t
		}
		return r, true
	case protocol.ExtendedDontHave:
		return ref.Msg{Kind: ref.KExtended, Sub: m.Subtype, X: ref.XDontHave, Index: m.Index}, true
	case protocol.ExtendedUploadOnly:
		return ref.Msg{Kind: ref.KExtended, Sub: m.Subtype, X: ref.XUploadOnly, Flag: m.Value}, true
	}
	return ref.Msg{}, false
}

// Equal compares two storrent messages, treating nil and empty slices/maps as
// equal (the wire format cannot tell them apart).
func Equal(a, b protocol.Message) bool {
	if reflect.TypeOf(a) != reflect.TypeOf(b) {
		return false
	}
	switch x := a.(type) {
	case protocol.Bitfield:
		return bytes.Equal(x.Bitfield, b.(protocol.Bitfield).Bitfield)
	case protocol.Piece:
		y := b.(protocol.Piece)
		return x.Index == y.Index && x.Begin == y.Begin && bytes.Equal(x.Data, y.Data)
	case protocol.ExtendedMetadata:
		y := b.(protocol.ExtendedMetadata)
		return x.Subtype == y.Subtype && x.Type == y.Type && x.Piece == y.Piece &&
			x.TotalSize == y.TotalSize && bytes.Equal(x.Data, y.Data)
	case protocol.ExtendedPex:
		y := b.(protocol.ExtendedPex)
		return x.Subtype == y.Subtype && peersEq(x.Added, y.Added) && peersEq(x.Dropped, y.Dropped)
	case protocol.Extended0:
		y := b.(protocol.Extended0)
		if len(x.Messages) != len(y.Messages) {
			return false
		}
		for k, v := range x.Messages {
			if w, ok := y.Messages[k]; !ok || v != w {
				return false
			}
		}
		x.Messages, y.Messages = nil, nil
		return reflect.DeepEqual(x, y)
	}
	return reflect.DeepEqual(a, b)
}

// peersEq compares peer lists as the wire can carry them: the IPv4
// subsequence and the IPv6 subsequence (BEP 11 has one list per family).
func peersEq(a, b []pex.Peer) bool {
	fam := func(l []pex.Peer) []pex.Peer {
		var v4, v6 []pex.Peer
		for _, p := range l {
			if p.Addr.Addr().Is4() {
				v4 = append(v4, p)
			} else {
				v6 = append(v6, p)
			}
		}
		return append(v4, v6...)
	}
	a, b = fam(a), fam(b)
	if len(a) != len(b) {
		return false
	}
	for i := range a {
		if a[i] != b[i] {
			return false
		}
	}
	return true
}
