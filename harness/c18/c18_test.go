// C18 — privacy switches are honoured.
package c18

import (
	"errors"
	"context"
	"fmt"
	"net"
	"net/netip"
	"sort"
	"sync"
	"sync/atomic"
	"testing"
	"time"

	"pgregory.net/rapid"

	"github.com/jech/storrent/config"
	"github.com/jech/storrent/crypto"
	"github.com/jech/storrent/hash"
	"github.com/jech/storrent/httpclient"
	"github.com/jech/storrent/peer"
	"github.com/jech/storrent/tor"
	"github.com/jech/storrent/tracker"
	"github.com/jech/storrent/webseed"

	"verif/ref"
	"verif/sim"
	"verif/stats"
)

func TestMain(m *testing.M) {
	sim.Init()
	startListener()
	stats.Main(m)
}

// ---- observation points

var wsConns atomic.Int64 // web-seed fetch attempts: direct connections to W, or SOCKS5 CONNECTs to W through P
var lnAddr string       // W: the web seed
var proxyAddr string    // P: the SOCKS5 proxy of proxied torrents

func startListener() {
	w, err := net.Listen("tcp", "127.0.0.1:0")
	if err != nil {
		panic(err)
	}
	lnAddr = w.Addr().String()
	go func() {
		for {
			c, err := w.Accept()
			if err != nil {
				return
			}
			wsConns.Add(1)
			c.Close()
		}
	}()
	p, err := net.Listen("tcp", "127.0.0.1:0")
	if err != nil {
		panic(err)
	}
	proxyAddr = p.Addr().String()
	wport := w.Addr().(*net.TCPAddr).Port
	go func() {
		for {
			c, err := p.Accept()
			if err != nil {
				return
			}
			// just enough SOCKS5 to learn the CONNECT target, then hang up
			func() {
				defer c.Close()
				c.SetDeadline(time.Now().Add(5 * time.Second))
				hdr := make([]byte, 2)
				if _, err := readFull(c, hdr); err != nil || hdr[0] != 5 {
					return
				}
				if _, err := readFull(c, make([]byte, int(hdr[1]))); err != nil {
					return
				}
				c.Write([]byte{5, 0})
				req := make([]byte, 4)
				if _, err := readFull(c, req); err != nil {
					return
				}
				var alen int
				switch req[3] {
				case 1:
					alen = 4
				case 4:
					alen = 16
				case 3:
					l := make([]byte, 1)
					if _, err := readFull(c, l); err != nil {
						return
					}
					alen = int(l[0])
				}
				rest := make([]byte, alen+2)
				if _, err := readFull(c, rest); err != nil {
					return
				}
				port := int(rest[alen])<<8 | int(rest[alen+1])
				if port == wport {
					wsConns.Add(1)
				}
			}()
		}
	}()
	// create the HTTP clients outside any bubble
	httpclient.Get("", "")
	httpclient.Get("", "socks5://"+proxyAddr)
}

type annRec struct {
	port4, port6 int
	proxy        string
}

type fakeTracker struct {
	url string
	mu  *sync.Mutex
	log *[]annRec
	// behaviour: an announce takes delay (virtual time) and then fails or not;
	// a tracker is Busy while an announce is pending and in the Error state for
	// a minute after a failure (what makes storrent try the next one of its tier)
	delay    time.Duration
	fail     bool
	busy     bool
	errUntil time.Time
}

func (f *fakeTracker) URL() string { return f.url }
func (f *fakeTracker) GetState() (tracker.State, error) {
	f.mu.Lock()
	defer f.mu.Unlock()
	switch {
	case f.busy:
		return tracker.Busy, nil
	case time.Now().Before(f.errUntil):
		return tracker.Error, errors.New("scripted failure")
	}
	return tracker.Ready, nil
}
func (f *fakeTracker) Announce(ctx context.Context, hash []byte, myid []byte, want int, size int64, port4, port6 int, proxy string, cb func(netip.AddrPort) bool) error {
	f.mu.Lock()
	*f.log = append(*f.log, annRec{port4, port6, proxy})
	f.busy = true
	f.mu.Unlock()
	defer func() {
		f.mu.Lock()
		f.busy = false
		if f.fail {
			f.errUntil = time.Now().Add(time.Minute)
		}
		f.mu.Unlock()
	}()
	if f.delay > 0 {
		select {
		case <-time.After(f.delay):
		case <-ctx.Done():
			return ctx.Err()
		}
	}
	if f.fail {
		return errors.New("scripted failure")
	}
	return nil
}

type dhtRec struct {
	ipv6 bool
	port uint16
}

type conf struct {
	trackers, webseeds bool
	dht                config.DhtMode
}

func (c conf) String() string {
	return fmt.Sprintf("{trackers:%v webseeds:%v dht:%v}", c.trackers, c.webseeds, c.dht)
}

type step struct {
	Kind string
	C    conf
	A    int
	D    time.Duration
}

func (s step) String() string {
	switch s.Kind {
	case "setconf":
		return "SetConf" + s.C.String()
	case "sleep":
		return fmt.Sprintf("sleep(%v)", s.D)
	}
	return fmt.Sprintf("%s(%d)", s.Kind, s.A)
}

type caseSpec struct {
	magnet  bool          // the torrent is added by info-hash; a "metadata" step completes it
	slowA   time.Duration // the first tracker of the first tier answers after this long, with a failure
	proxied bool
	init    conf
	steps   []step
}

func genConf(rt *rapid.T) conf {
	return conf{rapid.Bool().Draw(rt, "trackers"), rapid.Bool().Draw(rt, "webseeds"), config.DhtMode(rapid.IntRange(0, 2).Draw(rt, "dht"))}
}

func genCase(rt *rapid.T) caseSpec {
	c := caseSpec{proxied: rapid.Bool().Draw(rt, "proxied"), init: genConf(rt)}
	c.magnet = rapid.IntRange(0, 3).Draw(rt, "magnet") == 0
	c.slowA = rapid.SampledFrom([]time.Duration{0, 0, 30 * time.Second, 50 * time.Second}).Draw(rt, "slowFailingTracker")
	n := rapid.IntRange(1, 15).Draw(rt, "nsteps")
	for i := 0; i < n; i++ {
		s := step{Kind: rapid.SampledFrom([]string{"setconf", "setconf", "setconf", "setconf-pair", "announce", "announce", "want", "want", "peer-out", "peer-out", "peer-in", "peer-in", "sleep", "sleep", "sleep", "sleep",
			"re-add", "swap", "peer-in-swap", "metadata", "metadata"}).Draw(rt, "kind"), A: rapid.IntRange(0, 1000).Draw(rt, "a")}
		switch s.Kind {
		case "setconf", "re-add":
			s.C = genConf(rt)
		case "sleep":
			s.D = rapid.SampledFrom([]time.Duration{time.Second, 25 * time.Second, 70 * time.Second, 29 * time.Minute, 60 * time.Minute}).Draw(rt, "d")
		}
		c.steps = append(c.steps, s)
	}
	return c
}

const (
	portV6  = 6881
	portTCP = 6882
	portUDP = 6883
)

type pipeConn struct {
	net.Conn
	remote net.Addr
}

func (p pipeConn) RemoteAddr() net.Addr { return p.remote }

func run(c caseSpec) (fail string, labels map[string]bool, hist []string) {
	labels = map[string]bool{}
	config.ProtocolPort = portV6
	config.SetExternalIPv4Port(portTCP, true)
	config.SetExternalIPv4Port(portUDP, false)
	config.DefaultDhtMode = c.init.dht
	config.DefaultUseTrackers = c.init.trackers
	config.DefaultUseWebseeds = c.init.webseeds
	config.SetIdleRate(0)
	defer func() {
		config.DefaultDhtMode, config.DefaultUseTrackers, config.DefaultUseWebseeds = config.DhtNone, false, false
		config.SetIdleRate(64 * 1024)
	}()
	proxied := c.proxied
	proxy := ""
	g := sim.Geometry{PieceSize: 16384, Length: 16384 * 6, Seed: 99, Name: "t"}
	_, info, _, _ := sim.Metainfo(g)
	ih := infoHash(info)
	var mu sync.Mutex
	var anns []annRec
	var dhts []dhtRec
	var curA *fakeTracker
	build := func(prox string) (*tor.Torrent, error) {
		// two tiers; the first tracker of the first tier may be slow and failing
		curA = &fakeTracker{url: "http://tracker-a.example/announce", mu: &mu, log: &anns, delay: c.slowA, fail: c.slowA > 0}
		trk := [][]tracker.Tracker{{curA,
			&fakeTracker{url: "http://tracker-a2.example/announce", mu: &mu, log: &anns}}, {&fakeTracker{url: "udp://tracker-b.example:6969", mu: &mu, log: &anns}}}
		ws := []webseed.Webseed{webseed.New("http://"+lnAddr+"/", true)}
		if c.magnet {
			// added by info-hash: the metadata arrives from a peer later on
			return tor.New(prox, ih, "", nil, 0, trk, ws)
		}
		return tor.New(prox, ih, "", info, 0, trk, ws)
	}
	h := ref.Benc(0) // placeholder to keep the import used
	_ = h
	var noneAcked chan struct{} // closed when a switch to DHT mode 'none' has been acknowledged
	lateAnnounce := false
	tor.VerifAnnounceTap = func(hh hash.Hash, ipv6 bool, port uint16) {
		if hh.Equal(ih) {
			mu.Lock()
			dhts = append(dhts, dhtRec{ipv6, port})
			if noneAcked != nil {
				select {
				case <-noneAcked:
					lateAnnounce = true
				default:
				}
			}
			mu.Unlock()
		}
	}
	defer func() { tor.VerifAnnounceTap = nil }()
	ctx, cancel := context.WithCancel(context.Background())
	defer cancel()
	var t *tor.Torrent
	kill := func() {
		if t != nil {
			k, kc := context.WithTimeout(context.Background(), time.Minute)
			defer kc()
			t.Kill(k)
			t = nil
		}
	}
	sim.Cleanup(kill)
	// (re)creates the torrent, proxied or not, under the global defaults
	create := func() string {
		proxy = ""
		if proxied {
			proxy = "socks5://" + proxyAddr
		}
		nt, err := build(proxy)
		if err != nil {
			return "tor.New: " + err.Error()
		}
		nt.Log.SetOutput(nullWriter{})
		if !c.magnet {
			if err := nt.MetadataComplete(); err != nil {
				return "MetadataComplete: " + err.Error()
			}
		}
		if _, err := tor.AddTorrent(ctx, nt); err != nil {
			return "AddTorrent: " + err.Error()
		}
		t = nt
		return ""
	}
	if f := create(); f != "" {
		return f, labels, nil
	}
	K := c.init
	describe := func() string {
		return fmt.Sprintf("\nproxied=%v, initial %v, current %v; history: %v", proxied, c.init, K, hist)
	}
	// observe one step: returns what happened since the last call
	type obs struct {
		anns []annRec
		dhts []dhtRec
		ws   int64
	}
	wsBase := wsConns.Load()
	take := func() obs {
		sim.Settle()
		// give the loopback listener (outside the bubble) real time to count
		mu.Lock()
		o := obs{anns: anns, dhts: dhts}
		anns, dhts = nil, nil
		mu.Unlock()
		now := wsConns.Load()
		o.ws = now - wsBase
		wsBase = now
		return o
	}
	check := func(o obs, what string) string {
		if len(o.anns) > 0 && !K.trackers {
			return fmt.Sprintf("%s: %d tracker announce(s) although tracker use is disabled", what, len(o.anns)) + describe()
		}
		for _, a := range o.anns {
			if proxied && (a.port4 != 0 || a.port6 != 0) {
				return fmt.Sprintf("%s: proxied torrent told a tracker its ports (%d, %d)", what, a.port4, a.port6) + describe()
			}
			if !proxied && (a.port4 != portTCP || a.port6 != portV6) {
				return fmt.Sprintf("%s: tracker announce with ports (%d, %d), configured (%d, %d)", what, a.port4, a.port6, portTCP, portV6) + describe()
			}
			if a.proxy != proxy {
				return fmt.Sprintf("%s: tracker announce through proxy %q, torrent's proxy is %q", what, a.proxy, proxy) + describe()
			}
		}
		if o.ws > 0 && !K.webseeds {
			return fmt.Sprintf("%s: %d web-seed connection(s) although web-seed use is disabled", what, o.ws) + describe()
		}
		for _, d := range o.dhts {
			if K.dht == config.DhtNone {
				return fmt.Sprintf("%s: DHT announce although the DHT mode is none", what) + describe()
			}
			wantPort := uint16(0)
			if K.dht == config.DhtNormal && !proxied {
				wantPort = portUDP
				if d.ipv6 {
					wantPort = portV6
				}
			}
			if d.port != wantPort {
				return fmt.Sprintf("%s: DHT announce (ipv6=%v) advertises port %d, want %d (mode %v, proxied %v)", what, d.ipv6, d.port, wantPort, K.dht, proxied) + describe()
			}
		}
		return ""
	}
	// creation: AddTorrent announces to the DHT under the initial mode
	created := func(what string) string {
		o := take()
		if f := check(o, what); f != "" {
			return f
		}
		if K.dht != config.DhtNone && len(o.dhts) != 2 {
			return fmt.Sprintf("%s: DHT mode %v but %d announces were made (want one per family)", what, K.dht, len(o.dhts)) + describe()
		}
		return ""
	}
	if f := created("at creation"); f != "" {
		return f, labels, hist
	}
	npeer := 0
	var attached []*sim.Remote // remotes of the current torrent
	// audit looks at what a peer has been sent since it was last looked at
	audit := func(r *sim.Remote, what string) string {
		for _, m := range r.Take() {
			switch {
			case m.Kind == ref.KPort:
				if proxied {
					return what + ": proxied torrent sent a Port message to a peer" + describe()
				}
				if m.Port != portUDP {
					return fmt.Sprintf("%s: Port message carries %d, configured UDP port is %d", what, m.Port, portUDP) + describe()
				}
				labels["port-sent-unproxied"] = true
			case m.Kind == ref.KExtended && m.X == ref.XHandshake:
				hs := m.HS
				if proxied {
					if hs.V != nil || hs.P != nil || hs.IPv6 != nil || hs.IPv4 != nil {
						return fmt.Sprintf("%s: proxied torrent's extended handshake reveals v=%v p=%v ipv6=%x", what, deref(hs.V), derefp(hs.P), hs.IPv6) + describe()
					}
					labels["ext-handshake-proxied-clean"] = true
				} else {
					if (hs.V == nil || hs.P == nil || *hs.P != portTCP) && !labels["metadata-completed-with-peers-connected"] {
						return fmt.Sprintf("%s: unproxied extended handshake lacks version or carries port %v (configured %d)", what, derefp(hs.P), portTCP) + describe()
					}
					labels["ext-handshake-unproxied"] = true
				}
			}
		}
		return ""
	}
	var seeds []*sim.Remote // connected peers that have everything and never unchoke
	// swap: the torrent is deleted and added again with the other proxy setting
	swap := func(what string) string {
		kill()
		take()
		proxied = !proxied
		K = c.init
		seeds = nil
		attached = nil
		delete(labels, "ws-backoff") // a new web-seed object: no failures yet
		if f := create(); f != "" {
			return f + describe()
		}
		if proxied {
			labels["swapped to proxied"] = true
		} else {
			labels["swapped to unproxied"] = true
		}
		return created(what)
	}
	seen := map[string]bool{K.String(): true}
	for _, s := range c.steps {
		hist = append(hist, s.String())
		what := "after " + s.String()
		switch s.Kind {
		case "setconf":
			old := K
			err := t.SetConf(peer.TorConf{DhtMode: s.C.dht, UseTrackers: s.C.trackers, UseWebseeds: s.C.webseeds})
			if err != nil {
				return "SetConf: " + err.Error() + describe(), labels, hist
			}
			K = s.C
			seen[K.String()] = true
			o := take()
			if f := check(o, what); f != "" {
				return f, labels, hist
			}
			if old.dht < K.dht {
				if len(o.dhts) != 2 {
					return fmt.Sprintf("%s: DHT mode raised %v -> %v but %d announces were made", what, old.dht, K.dht, len(o.dhts)) + describe(), labels, hist
				}
				labels[fmt.Sprintf("dht %v->%v", old.dht, K.dht)] = true
			}
			if old.dht > K.dht {
				labels[fmt.Sprintf("dht %v->%v", old.dht, K.dht)] = true
			}
			if old.trackers && !K.trackers {
				labels["trackers on->off"] = true
				mu.Lock()
				if curA != nil && curA.busy {
					labels["trackers switched off while an announce is pending"] = true
				}
				mu.Unlock()
			}
			if old.webseeds && !K.webseeds {
				labels["webseeds on->off"] = true
			}
			g2, _ := t.GetConf()
			if g2.DhtMode != K.dht || g2.UseTrackers != K.trackers || g2.UseWebseeds != K.webseeds {
				return fmt.Sprintf("%s: GetConf returns %+v", what, g2) + describe(), labels, hist
			}
		case "setconf-pair":
			// two configuration changes queued one behind the other while the
			// torrent is busy: the DHT mode is raised to 'normal' and at once set
			// to 'none'.  The announce the raise calls for belongs before the
			// acknowledgement of 'none', not after it.
			if K.dht == config.DhtNormal || t == nil {
				continue
			}
			held := make(chan *peer.TorStats)
			t.Event <- peer.TorGetStats{Ch: held}
			sim.Settle()
			ack1, ack2 := make(chan struct{}), make(chan struct{})
			t.Event <- peer.TorSetConf{Conf: peer.TorConf{DhtMode: config.DhtNormal, UseTrackers: K.trackers, UseWebseeds: K.webseeds}, Ch: ack1}
			t.Event <- peer.TorSetConf{Conf: peer.TorConf{DhtMode: config.DhtNone, UseTrackers: K.trackers, UseWebseeds: K.webseeds}, Ch: ack2}
			mu.Lock()
			noneAcked = ack2
			mu.Unlock()
			<-held
			<-ack1
			<-ack2
			sim.Settle()
			time.Sleep(time.Second)
			sim.Settle()
			mu.Lock()
			late := lateAnnounce
			noneAcked = nil
			mu.Unlock()
			if late {
				return fmt.Sprintf("%s: the torrent was announced to the DHT after its switch to mode 'none' had been acknowledged", what) + describe(), labels, hist
			}
			K.dht = config.DhtNone
			seen[K.String()] = true
			take()
			labels["dht raised and set to none back to back"] = true
		case "re-add":
			// the same info-hash is submitted again (web UI, command line) while
			// other global defaults are in force: the duplicate is refused, and
			// nothing is done on its behalf
			config.DefaultDhtMode, config.DefaultUseTrackers, config.DefaultUseWebseeds = s.C.dht, s.C.trackers, s.C.webseeds
			dprox := proxy
			if s.A%3 == 0 {
				dprox = ""
			}
			dup, err := build(dprox)
			if err != nil {
				return "tor.New (duplicate): " + err.Error() + describe(), labels, hist
			}
			dup.Log.SetOutput(nullWriter{})
			_, err = tor.AddTorrent(ctx, dup)
			config.DefaultDhtMode, config.DefaultUseTrackers, config.DefaultUseWebseeds = c.init.dht, c.init.trackers, c.init.webseeds
			if err == nil {
				return what + ": a second torrent with the same info-hash was accepted" + describe(), labels, hist
			}
			if f := check(take(), what); f != "" {
				return f, labels, hist
			}
			labels["duplicate-add"] = true
			if K.dht == config.DhtNone && s.C.dht != config.DhtNone {
				labels["duplicate-add under none, default not none"] = true
			}
		case "swap":
			if f := swap(what); f != "" {
				return f, labels, hist
			}
		case "metadata":
			// a connected peer delivers the info dictionary of a torrent that was
			// added by info-hash; everybody connected is then told about it
			if !c.magnet || t.InfoComplete() || len(attached) == 0 {
				continue
			}
			dr := attached[s.A%len(attached)]
			if dr.Closed() {
				continue
			}
			total := uint32(len(info))
			dr.SendExt(map[string]uint8{"ut_metadata": 7}, nil, &total, "")
			sim.Settle()
			for b := 0; b*16384 < len(info); b++ {
				dr.Send(ref.Msg{Kind: ref.KExtended, Sub: 2, X: ref.XMetadata, MetaType: 1, MetaPiece: uint32(b), MetaTotal: &total, Data: info[b*16384 : min((b+1)*16384, len(info))]})
			}
			sim.Settle()
			if t.InfoComplete() {
				labels["metadata-completed-with-peers-connected"] = true
				if proxied {
					labels["metadata-completed-with-peers-connected, proxied"] = true
				}
			}
			for _, ar := range attached {
				if f := audit(ar, what+" (what connected peers were sent)"); f != "" {
					return f, labels, hist
				}
			}
			if f := check(take(), what); f != "" {
				return f, labels, hist
			}
		case "announce":
			tor.Announce(t.Hash, s.A%2 == 0)
			o := take()
			if f := check(o, what); f != "" {
				return f, labels, hist
			}
			if K.dht != config.DhtNone && len(o.dhts) != 1 {
				return fmt.Sprintf("%s: DHT mode %v but the announce was not made", what, K.dht) + describe(), labels, hist
			}
			if K.dht == config.DhtNone {
				labels["dht-trigger-under-none"] = true
			}
		case "want":
			if !t.InfoComplete() {
				continue
			}
			// a piece nobody has: only a web seed could supply it
			t.Request(uint32(s.A%6), 1, true, false)
			o := take()
			if K.webseeds && (s.A/6)%2 == 0 {
				// web seeds are switched off right behind the fetch, within the
				// same second: whatever a fetch does about a failure (the seed
				// here never delivers), nothing may go to the seed once the
				// switch has been acknowledged
				if f := check(o, what); f != "" {
					return f, labels, hist
				}
				if err := t.SetConf(peer.TorConf{DhtMode: K.dht, UseTrackers: K.trackers, UseWebseeds: false}); err != nil {
					return "SetConf: " + err.Error() + describe(), labels, hist
				}
				K.webseeds = false
				seen[K.String()] = true
				hist = append(hist, "web seeds switched off at once")
				what += ", web seeds switched off at once"
				o1 := take()
				time.Sleep(3 * time.Second)
				o2 := take()
				o2.ws += o1.ws
				o2.anns = append(o1.anns, o2.anns...)
				o2.dhts = append(o1.dhts, o2.dhts...)
				if f := check(o2, what); f != "" {
					return f, labels, hist
				}
				if o.ws > 0 {
					labels["webseeds switched off right behind a failed fetch"] = true
					labels["ws-backoff"] = true
				}
				labels["webseeds on->off"] = true
				t.Request(uint32(s.A%6), 1, false, false)
				continue
			}
			time.Sleep(3 * time.Second)
			o2 := take()
			o.ws += o2.ws
			o.anns = append(o.anns, o2.anns...)
			o.dhts = append(o.dhts, o2.dhts...)
			if f := check(o, what); f != "" {
				return f, labels, hist
			}
			if K.webseeds && o.ws == 0 && !labels["ws-backoff"] {
				return fmt.Sprintf("%s: web seeds are enabled and a piece is wanted that no peer has, but no web-seed connection was made", what) + describe(), labels, hist
			}
			chokedSeeds := 0
			for _, sr := range seeds {
				if !sr.Closed() {
					chokedSeeds++
				}
			}
			if chokedSeeds > 0 {
				if K.webseeds {
					labels["want-with-choked-seed, web seeds on"] = true
				} else {
					labels["want-with-choked-seed, web seeds off"] = true
				}
			}
			if K.webseeds {
				labels["webseed-fetch-when-enabled"] = true
				labels["ws-backoff"] = true // after failures the seed backs off; later absences are not failures
			} else {
				labels["webseed-trigger-when-disabled"] = true
			}
			t.Request(uint32(s.A%6), 1, false, false)
		case "peer-out", "peer-in", "peer-in-swap":
			npeer++
			before := len(tor.VerifPeers(t))
			var r *sim.Remote
			if s.Kind == "peer-out" {
				a, b := net.Pipe()
				id := make([]byte, 20)
				copy(id, fmt.Sprintf("-VF0001-c18peer%05d", npeer))
				addr := netip.AddrPortFrom(netip.AddrFrom4([4]byte{8, 8, 0, byte(npeer)}), uint16(10000+npeer))
				res := protocolResult(t.Hash, id, s.A)
				if err := t.NewPeer(proxy, a, addr, false, res, nil); err != nil {
					return "NewPeer: " + err.Error() + describe(), labels, hist
				}
				r = sim.Attach(b, sim.Caps{Fast: res.Fast, Extended: res.Extended, DHT: res.Dht})
				sim.Cleanup(r.Close)
			} else {
				a, b := net.Pipe()
				srvConn := pipeConn{a, &net.TCPAddr{IP: net.IPv4(8, 8, 1, byte(npeer)), Port: 40000 + npeer}}
				errc := make(chan error, 1)
				go func() { errc <- tor.Server(srvConn, crypto.DefaultOptions(false, false)) }()
				swapped := false
				if s.Kind == "peer-in-swap" {
					// the connection is accepted, and before the remote says anything
					// the torrent is replaced by one with the other proxy setting
					sim.Settle()
					if f := swap(what); f != "" {
						return f, labels, hist
					}
					before = len(tor.VerifPeers(t))
					swapped = true
				}
				id := make([]byte, 20)
				copy(id, fmt.Sprintf("-VF0001-c18inc%06d", npeer))
				hs := append([]byte{19}, []byte("BitTorrent protocol")...)
				hs = append(hs, 0, 0, 0, 0, 0, 0x10, 0, 0x05)
				hs = append(hs, t.Hash...)
				hs = append(hs, id...)
				b.SetDeadline(time.Now().Add(time.Minute))
				go b.Write(hs)
				reply := make([]byte, 68)
				n, _ := readFull(b, reply)
				b.SetDeadline(time.Time{})
				sim.Settle()
				var serr error
				select {
				case serr = <-errc:
				default:
					return what + ": tor.Server has not returned" + describe(), labels, hist
				}
				attached := len(tor.VerifPeers(t)) > before
				if swapped {
					// the handshake was answered on behalf of the torrent that existed
					// when the connection came in; what counts is that a torrent that is
					// proxied now does not end up with an incoming peer
					if proxied && (serr == nil || attached) {
						return fmt.Sprintf("%s: a torrent that became proxied during the handshake accepted the incoming connection (Server returned %v, attached %v)", what, serr, attached) + describe(), labels, hist
					}
					if proxied {
						labels["incoming-refused: proxied during handshake"] = true
					}
					if !attached {
						b.Close()
						continue
					}
				} else if proxied {
					if serr == nil || attached || n != 0 {
						return fmt.Sprintf("%s: proxied torrent accepted an incoming connection (Server returned %v, replied %d bytes, attached %v)", what, serr, n, attached) + describe(), labels, hist
					}
					labels["incoming-refused-when-proxied"] = true
					b.Close()
					continue
				}
				if !swapped && (serr != nil || !attached) {
					return fmt.Sprintf("%s: unproxied torrent refused a correct incoming handshake: %v", what, serr) + describe(), labels, hist
				}
				labels["incoming-accepted"] = true
				r = sim.Attach(b, sim.Caps{Fast: true, Extended: true, DHT: true})
				sim.Cleanup(r.Close)
			}
			if s.A&8 != 0 {
				// the peer has everything and never unchokes us: pieces are available,
				// yet cannot be asked for
				full := make([]byte, 1)
				full[0] = 0xfc
				r.Send(ref.Msg{Kind: ref.KBitfield, Data: full})
				seeds = append(seeds, r)
				labels["choked-seed-connected"] = true
			}
			sim.Settle()
			// what the peer was told
			if f := audit(r, what); f != "" {
				return f, labels, hist
			}
			attached = append(attached, r)
			if bad := r.Bad(); bad != "" {
				return what + ": undecodable frame: " + bad + describe(), labels, hist
			}
			if f := check(take(), what); f != "" {
				return f, labels, hist
			}
		case "sleep":
			lastDht := K.dht
			time.Sleep(s.D)
			o := take()
			if f := check(o, what); f != "" {
				return f, labels, hist
			}
			if s.D >= 25*time.Second {
				if K.trackers && len(o.anns) == 0 {
					return fmt.Sprintf("%s: tracker use is enabled, a tracker is ready, and %v passed without an announce", what, s.D) + describe(), labels, hist
				}
				if K.trackers {
					labels["tracker-announce-when-enabled"] = true
					if proxied {
						labels["tracker-announce-proxied"] = true
					}
				} else {
					labels["tracker-round-when-disabled"] = true
				}
			}
			if s.D >= 29*time.Minute {
				if lastDht != config.DhtNone && len(o.dhts) < 2 {
					return fmt.Sprintf("%s: DHT mode %v and %v passed without the periodic re-announce", what, lastDht, s.D) + describe(), labels, hist
				}
				if lastDht == config.DhtNone {
					labels["28-min re-announce under none"] = true
				} else {
					labels["28-min re-announce"] = true
				}
			}
		}
	}
	if len(seen) >= 2 {
		labels["two-or-more-configurations"] = true
	}
	return "", labels, hist
}

type nullWriter struct{}

func (nullWriter) Write(p []byte) (int, error) { return len(p), nil }

func deref(s *string) string {
	if s == nil {
		return "<absent>"
	}
	return *s
}

func derefp(p *uint16) string {
	if p == nil {
		return "<absent>"
	}
	return fmt.Sprint(*p)
}

func readFull(c net.Conn, b []byte) (int, error) {
	n := 0
	for n < len(b) {
		k, err := c.Read(b[n:])
		n += k
		if err != nil {
			return n, err
		}
	}
	return n, nil
}

func TestC18Privacy(t *testing.T) {
	rapid.Check(t, func(rt *rapid.T) {
		c := genCase(rt)
		var fail string
		var labels map[string]bool
		leak := sim.Bubble(t, func() { fail, labels, _ = run(c) })
		if fail != "" {
			rt.Fatalf("%s", fail)
		}
		if leak != "" {
			rt.Fatalf("goroutines left behind: %s", leak)
		}
		var l []string
		for k := range labels {
			if k != "ws-backoff" {
				l = append(l, k)
			}
		}
		sort.Strings(l)
		if c.proxied {
			l = append(l, "proxied")
		} else {
			l = append(l, "unproxied")
		}
		stats.Case(fmt.Sprint(l), labels["two-or-more-configurations"] && len(l) > 3, l...)
		if stats.WantSample("c18") {
			stats.Sample("c18", map[string]any{"proxied": c.proxied, "initial": c.init.String(), "steps": fmt.Sprint(c.steps), "labels": l})
		}
	})
}

// the configuration cube x triggers, cell by cell
func TestC18Cube(t *testing.T) {
	for _, proxied := range []bool{false, true} {
		for _, tr := range []bool{false, true} {
			for _, wsd := range []bool{false, true} {
				for d := 0; d < 3; d++ {
					c := caseSpec{proxied: proxied, init: conf{tr, wsd, config.DhtMode(d)},
						steps: []step{{Kind: "announce", A: 0}, {Kind: "announce", A: 1}, {Kind: "want", A: 3}, {Kind: "peer-out", A: 7}, {Kind: "peer-in", A: 7},
							{Kind: "sleep", D: 25 * time.Second}, {Kind: "sleep", D: 29 * time.Minute}}}
					var fail string
					var labels map[string]bool
					leak := sim.Bubble(t, func() { fail, labels, _ = run(c) })
					if fail != "" {
						t.Fatalf("%s", fail)
					}
					if leak != "" {
						t.Fatalf("cell %+v: goroutines left behind: %s", c.init, leak)
					}
					var l []string
					for k := range labels {
						l = append(l, k)
					}
					sort.Strings(l)
					stats.Case(fmt.Sprintf("cube/%v/%v", proxied, c.init), true, append(l, "cube-cell")...)
				}
			}
		}
	}
	stats.Exhaustive("configuration cube (proxy x trackers x webseeds x dht) x triggers")
}
