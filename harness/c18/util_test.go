package c18

import (
	"crypto/sha1"

	"github.com/jech/storrent/hash"
	"github.com/jech/storrent/protocol"
)

func infoHash(info []byte) hash.Hash {
	h := sha1.Sum(info)
	return hash.Hash(h[:])
}

func protocolResult(h hash.Hash, id []byte, a int) protocol.HandshakeResult {
	return protocol.HandshakeResult{Hash: h, Id: hash.Hash(id), Dht: a%2 == 0 || a == 7, Fast: a%3 == 0, Extended: a%5 != 0 || a == 7}
}
