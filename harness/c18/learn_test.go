package c18

// The torrent's half of C15 ("exactly the peers encoded in the reply being
// learnt"): whatever a tracker hands to the callback the torrent gave it must
// end up among the torrent's known peers - also when the torrent's loop is
// busy and its event queue is full at that moment.  (Registered under C15;
// it lives here because it needs the simulated torrent of engine E4.)

import (
	"context"
	"crypto/sha1"
	"fmt"
	"net/netip"
	"sort"
	"sync"
	"testing"
	"time"

	"pgregory.net/rapid"

	"github.com/jech/storrent/config"
	"github.com/jech/storrent/hash"
	"github.com/jech/storrent/peer"
	"github.com/jech/storrent/tor"
	"github.com/jech/storrent/tracker"

	"verif/sim"
	"verif/stats"
)

type peerTracker struct {
	mu       sync.Mutex
	url      string
	peers    []netip.AddrPort
	calls    int
	accepted []netip.AddrPort // callback returned true
	refused  int
	started  chan struct{}
	proceed  chan struct{}
	done     chan error
}

func (f *peerTracker) URL() string { return f.url }

func (f *peerTracker) GetState() (tracker.State, error) {
	f.mu.Lock()
	defer f.mu.Unlock()
	if f.calls > 0 {
		return tracker.Idle, nil
	}
	return tracker.Ready, nil
}

func (f *peerTracker) Announce(ctx context.Context, hash []byte, myid []byte, want int, size int64, port4, port6 int, proxy string, cb func(netip.AddrPort) bool) error {
	f.mu.Lock()
	f.calls++
	first := f.calls == 1
	f.mu.Unlock()
	if !first {
		return tracker.ErrNotReady
	}
	close(f.started)
	select {
	case <-f.proceed:
	case <-ctx.Done():
		f.done <- ctx.Err()
		return ctx.Err()
	}
	for _, a := range f.peers {
		ok := cb(a)
		f.mu.Lock()
		if ok {
			f.accepted = append(f.accepted, a)
		} else {
			f.refused++
		}
		f.mu.Unlock()
	}
	f.done <- nil
	return nil
}

func runLearn(npeers int, busy bool, fillers int, holdFor time.Duration) (fail string, labels []string) {
	config.DefaultUseTrackers = true
	defer func() { config.DefaultUseTrackers = false }()
	g := sim.Geometry{PieceSize: 16384, Length: 16384 * 4, Seed: 23, Name: "learn"}
	_, info, _, _ := sim.Metainfo(g)
	ih := sha1.Sum(info)
	ft := &peerTracker{url: "http://tracker.verif.invalid/announce", started: make(chan struct{}), proceed: make(chan struct{}), done: make(chan error, 1)}
	for i := 0; i < npeers; i++ {
		ft.peers = append(ft.peers, netip.AddrPortFrom(netip.AddrFrom4([4]byte{9, 8, byte(i >> 8), byte(i)}), uint16(1025+i%60000)))
	}
	t, err := tor.New("", hash.Hash(ih[:]), "", info, 0, [][]tracker.Tracker{{ft}}, nil)
	if err != nil {
		return "tor.New: " + err.Error(), nil
	}
	t.Log.SetOutput(nullWriter{})
	if err := t.MetadataComplete(); err != nil {
		return "MetadataComplete: " + err.Error(), nil
	}
	ctx, cancel := context.WithCancel(context.Background())
	defer cancel()
	if _, err := tor.AddTorrent(ctx, t); err != nil {
		return "AddTorrent: " + err.Error(), nil
	}
	sim.Cleanup(func() {
		select {
		case <-ft.proceed:
		default:
			close(ft.proceed)
		}
		k, kc := context.WithTimeout(context.Background(), time.Minute)
		defer kc()
		t.Kill(k)
	})
	describe := fmt.Sprintf(" (%d peers in the tracker's reply, loop busy=%v, %d other events queued, released after %v)", npeers, busy, fillers, holdFor)
	// the torrent announces on its slow ticker
	select {
	case <-ft.started:
	case <-time.After(10 * time.Minute):
		return "trackers are enabled and the tracker is ready, yet no announce was made within 10 minutes" + describe, nil
	}
	var held chan *peer.TorStats
	if busy {
		// the loop is stuck delivering a reply nobody reads yet, and its queue fills up
		held = make(chan *peer.TorStats)
		t.Event <- peer.TorGetStats{Ch: held}
		sim.Settle()
		n := 0
	fill:
		for n < fillers {
			select {
			case t.Event <- peer.TorGetStats{Ch: make(chan *peer.TorStats, 1)}:
				n++
			default:
				break fill
			}
		}
		if len(t.Event) == cap(t.Event) {
			labels = append(labels, "learn:event-queue-full")
		} else if cap(t.Event)-len(t.Event) < npeers {
			labels = append(labels, "learn:event-queue-fills-up-during-the-reply")
		}
	}
	close(ft.proceed)
	sim.Settle()
	if busy {
		time.Sleep(holdFor)
		sim.Settle()
		select {
		case <-held:
		case <-time.After(time.Minute):
			return "the torrent's loop did not deliver the status reply it was asked for" + describe, labels
		}
	}
	select {
	case err := <-ft.done:
		if err != nil {
			return fmt.Sprintf("the announce was cut short: %v", err) + describe, labels
		}
	case <-time.After(5 * time.Minute):
		return "the announce has not finished handing over its peers 5 minutes after the torrent's loop was released" + describe, labels
	}
	sim.Settle()
	kn, err := t.GetKnowns()
	if err != nil {
		return "GetKnowns: " + err.Error() + describe, labels
	}
	have := map[netip.AddrPort]bool{}
	for _, k := range kn {
		have[k.Addr] = true
	}
	ft.mu.Lock()
	defer ft.mu.Unlock()
	var missing []string
	for _, a := range ft.accepted {
		if !have[a] {
			missing = append(missing, a.String())
		}
	}
	if len(missing) > 0 {
		sort.Strings(missing)
		show := missing
		if len(show) > 5 {
			show = show[:5]
		}
		return fmt.Sprintf("the torrent accepted %d peers from the tracker (the announce succeeded) and %d of them are not among its known peers afterwards, e.g. %v", len(ft.accepted), len(missing), show) + describe, labels
	}
	if ft.refused > 0 {
		return fmt.Sprintf("the torrent refused %d peers of a tracker reply although it is alive and the announce was not cancelled", ft.refused) + describe, labels
	}
	for a := range have {
		found := false
		for _, p := range ft.peers {
			if p == a {
				found = true
			}
		}
		if !found {
			return fmt.Sprintf("the torrent knows %v, which no tracker reply contained", a) + describe, labels
		}
	}
	labels = append(labels, "learn:peers-learnt")
	if busy {
		labels = append(labels, "learn:reply-arrives-while-the-loop-is-busy")
	}
	return "", labels
}

func TestC15TorrentLearnsPeers(t *testing.T) {
	sim.Init()
	rapid.Check(t, func(rt *rapid.T) {
		npeers := rapid.SampledFrom([]int{0, 1, 50, 200, 511, 513, 600, 1500}).Draw(rt, "peers")
		busy := rapid.IntRange(0, 3).Draw(rt, "busy") != 0
		fillers := rapid.SampledFrom([]int{0, 10, 400, 505, 510, 511, 512, 600}).Draw(rt, "fillers")
		holdFor := rapid.SampledFrom([]time.Duration{0, time.Millisecond, time.Second, 30 * time.Second}).Draw(rt, "hold")
		var fail string
		var labels []string
		leak := sim.Bubble(t, func() { fail, labels = runLearn(npeers, busy, fillers, holdFor) })
		if fail != "" {
			rt.Fatalf("%s", fail)
		}
		if leak != "" {
			rt.Fatalf("goroutines left behind: %s", leak)
		}
		sort.Strings(labels)
		full := false
		for _, l := range labels {
			full = full || l == "learn:event-queue-full" || l == "learn:event-queue-fills-up-during-the-reply"
		}
		stats.Case(fmt.Sprint(labels, npeers), full && npeers > 0, labels...)
	})
}
