// C04 — wire decoding is total, exactly framed and memory-bounded.
package c04

import (
	"bufio"
	"bytes"
	"encoding/binary"
	"fmt"
	"io"
	"log"
	"reflect"
	"regexp"
	"runtime"
	"runtime/debug"
	"strings"
	"testing"

	"pgregory.net/rapid"

	"github.com/jech/storrent/protocol"

	"verif/conv"
	"verif/gen"
	"verif/ref"
	"verif/stats"
)

func TestMain(m *testing.M) { stats.Main(m) }

const MiB = 1 << 20

// countingSrc hands out the stream and counts what was taken.
type countingSrc struct {
	b   []byte
	pos int
}

func (s *countingSrc) Read(p []byte) (int, error) {
	if s.pos >= len(s.b) {
		return 0, fmt.Errorf("EOF(src)")
	}
	n := copy(p, s.b[s.pos:])
	s.pos += n
	return n, nil
}

var hugeHeader = regexp.MustCompile(`[1-9][0-9]{6,}:`)

type outcome struct {
	frames   int    // frames decoded without error
	lastErr  string // "" or error text of the last call
	excluded bool
}

var knownIDs = map[byte]bool{0: true, 1: true, 2: true, 3: true, 4: true, 5: true, 6: true, 7: true, 8: true,
	9: true, 13: true, 14: true, 15: true, 16: true, 17: true, 20: true}

// checkStream is the oracle; it is a function of the bytes only.
func checkStream(s []byte, allowHuge bool) (out outcome, fail string) {
	out, fail = checkStream1(s, allowHuge)
	if fail == "" {
		fail = checkWithLogger(s)
	}
	return out, fail
}

// checkWithLogger decodes the same stream once more the way storrent does
// with -debug: Read is given a logger (into nothing).  Logging must not
// change what is decoded, and must not crash on what the decoder accepts.
func checkWithLogger(s []byte) string {
	dec := func(l *log.Logger) (kinds []string, pv any) {
		r := bufio.NewReaderSize(&countingSrc{b: s}, 16)
		defer func() { pv = recover() }()
		for k := 0; k < 6; k++ {
			m, err := protocol.Read(r, l)
			kinds = append(kinds, fmt.Sprintf("%T/%v", m, err != nil))
			if err != nil {
				break
			}
		}
		return kinds, nil
	}
	plain, pv := dec(nil)
	if pv != nil {
		return "" // (reported by the main pass)
	}
	logged, pv := dec(log.New(io.Discard, "", 0))
	if pv != nil {
		return fmt.Sprintf("with a debug logger (storrent -debug) Read panics: %v", pv)
	}
	if fmt.Sprint(plain) != fmt.Sprint(logged) {
		return fmt.Sprintf("with a debug logger Read decodes %v, without %v", logged, plain)
	}
	return ""
}

func checkStream1(s []byte, allowHuge bool) (out outcome, fail string) {
	src := &countingSrc{b: s}
	r := bufio.NewReaderSize(src, 16)
	consumed := func() int { return src.pos - r.Buffered() }
	var ms0, ms1 runtime.MemStats
	pos := 0
	for k := 0; k < 6; k++ {
		rem := s[pos:]
		before := consumed()
		if before != pos {
			return out, fmt.Sprintf("frame %d: reader is at %d, frames so far end at %d", k, before, pos)
		}
		runtime.ReadMemStats(&ms0)
		var m protocol.Message
		var err error
		var pv any
		func() {
			defer func() { pv = recover() }()
			m, err = protocol.Read(r, nil)
		}()
		runtime.ReadMemStats(&ms1)
		if pv != nil {
			return out, fmt.Sprintf("frame %d: panic: %v", k, pv)
		}
		c := consumed() - before
		alloc := ms1.TotalAlloc - ms0.TotalAlloc
		if (m == nil) != (err != nil) {
			return out, fmt.Sprintf("frame %d: message=%#v with error=%v (exactly one must be set)", k, m, err)
		}
		if len(rem) < 4 {
			if err == nil {
				return out, fmt.Sprintf("frame %d: message %#v decoded from %d bytes", k, m, len(rem))
			}
			out.lastErr = "eof"
			return out, ""
		}
		L := int64(binary.BigEndian.Uint32(rem))
		if L > MiB {
			if err == nil {
				return out, fmt.Sprintf("frame %d: announced length %d above 1 MiB was accepted", k, L)
			}
			if c > 5 {
				return out, fmt.Sprintf("frame %d: refused oversize frame but consumed %d bytes", k, c)
			}
			if alloc > MiB {
				return out, fmt.Sprintf("frame %d: refused oversize frame (L=%d) but allocated %d bytes", k, L, alloc)
			}
			out.lastErr = "toolong"
			return out, ""
		}
		budget := uint64(MiB + 256*L)
		skipAlloc := false
		if !allowHuge && hugeHeader.Match(rem[4:min(int64(len(rem)), 4+L+24)]) {
			// region of known finding c04-bencode-string-alloc (third-party decoder)
			skipAlloc = true
			out.excluded = true
		}
		if alloc > budget && !skipAlloc {
			return out, fmt.Sprintf("frame %d: L=%d allocated %d bytes (> 1 MiB + 256*L = %d)", k, L, alloc, budget)
		}
		if err != nil {
			if int64(c) > 4+L {
				return out, fmt.Sprintf("frame %d: error %q after consuming %d bytes of a %d-byte frame (read beyond the frame)", k, err, c, 4+L)
			}
			out.lastErr = "err"
			return out, ""
		}
		if int64(c) != 4+L {
			return out, fmt.Sprintf("frame %d: %T decoded, consumed %d bytes, frame is 4+%d", k, m, c, L)
		}
		if int64(len(rem)) < 4+L {
			return out, fmt.Sprintf("frame %d: %T decoded from a truncated frame", k, m)
		}
		if f := wellFormed(m, rem[:4+L]); f != "" {
			return out, fmt.Sprintf("frame %d: %s", k, f)
		}
		out.frames++
		pos += int(4 + L)
	}
	return out, ""
}

// wellFormed relates the decoded message to the frame bytes through the
// reference decoder.
func wellFormed(m protocol.Message, frame []byte) string {
	if len(frame) == 4 {
		if _, ok := m.(protocol.KeepAlive); !ok {
			return fmt.Sprintf("empty frame decoded as %T", m)
		}
		return ""
	}
	id := frame[4]
	if !knownIDs[id] {
		v := reflect.ValueOf(m)
		if v.Type().Name() != "Unknown" || uint8(v.Field(0).Uint()) != id {
			return fmt.Sprintf("unknown id %d decoded as %#v", id, m)
		}
		return ""
	}
	rm, _, rerr := ref.Decode(frame, ref.StorrentRoles)
	if id != 20 {
		if rerr != nil {
			return fmt.Sprintf("id %d: storrent accepted %x… as %#v, reference decoder rejects it (%v)", id, frame[:min(len(frame), 24)], short(m), rerr)
		}
		if want := conv.FromRef(rm); !conv.Equal(m, want) {
			return fmt.Sprintf("id %d: decoded %#v, frame says %#v", id, short(m), short(want))
		}
		return ""
	}
	if len(frame) < 6 {
		return fmt.Sprintf("extended frame of length %d accepted as %#v", len(frame)-4, m)
	}
	sub := frame[5]
	payload := frame[6:]
	// type must match the sub-id
	var wantType string
	switch sub {
	case 0:
		wantType = "Extended0"
	case 1:
		wantType = "ExtendedPex"
	case 2:
		wantType = "ExtendedMetadata"
	case 3:
		wantType = "ExtendedDontHave"
	case 4:
		wantType = "ExtendedUploadOnly"
	default:
		wantType = "ExtendedUnknown"
	}
	if got := reflect.TypeOf(m).Name(); got != wantType {
		return fmt.Sprintf("sub-id %d decoded as %s", sub, got)
	}
	if rerr == nil {
		want := conv.FromRef(rm)
		if !conv.Equal(m, want) {
			return fmt.Sprintf("sub-id %d: decoded %#v, reference decoder says %#v", sub, short(m), short(want))
		}
		return ""
	}
	// Reference decoder is strict (canonical form, known keys only); storrent
	// may be more lenient.  Structural relations that must hold regardless:
	switch x := m.(type) {
	case protocol.ExtendedUnknown:
		if x.Subtype != sub {
			return fmt.Sprintf("ExtendedUnknown{%d} for sub-id %d", x.Subtype, sub)
		}
	case protocol.ExtendedDontHave, protocol.ExtendedUploadOnly:
		return fmt.Sprintf("sub-id %d accepted as %#v, reference decoder rejects it (%v)", sub, m, rerr)
	case protocol.ExtendedMetadata:
		if !bytes.HasSuffix(payload, x.Data) {
			return "metadata block is not a suffix of the frame"
		}
		v, n, err := ref.Bdec(payload)
		if err == nil {
			if n+len(x.Data) != len(payload) {
				return fmt.Sprintf("metadata block has %d bytes, frame carries %d after the dictionary", len(x.Data), len(payload)-n)
			}
			if d, ok := v.(ref.Dict); ok {
				if p, ok := d.Get("piece"); ok {
					if pi, ok := p.(int64); ok && uint32(pi) != x.Piece && pi >= 0 && pi <= 0xFFFFFFFF && countKey(d, "piece") == 1 {
						return fmt.Sprintf("metadata piece %d decoded as %d", pi, x.Piece)
					}
				}
			}
		}
	case protocol.ExtendedPex:
		v, _, err := ref.Bdec(payload)
		if d, ok := v.(ref.Dict); err == nil && ok {
			max := 0
			for _, kv := range d {
				if s, ok := kv.V.([]byte); ok {
					switch kv.K {
					case "added", "dropped":
						max += len(s) / 6
					case "added6", "dropped6":
						max += len(s) / 18
					}
				}
			}
			if len(x.Added)+len(x.Dropped) > max {
				return fmt.Sprintf("pex decoded %d peers from a frame that encodes at most %d", len(x.Added)+len(x.Dropped), max)
			}
		}
	}
	return ""
}

func countKey(d ref.Dict, k string) int {
	n := 0
	for _, kv := range d {
		if kv.K == k {
			n++
		}
	}
	return n
}

func short(m protocol.Message) protocol.Message {
	switch x := m.(type) {
	case protocol.Piece:
		if len(x.Data) > 16 {
			x.Data = x.Data[:16]
		}
		return x
	case protocol.Bitfield:
		if len(x.Bitfield) > 16 {
			x.Bitfield = x.Bitfield[:16]
		}
		return x
	case protocol.ExtendedMetadata:
		if len(x.Data) > 16 {
			x.Data = x.Data[:16]
		}
		return x
	}
	return m
}

// ---------------------------------------------------------------- generator

// exact body length (id byte included) for fixed-size ids.
var exactLen = map[int]int{0: 1, 1: 1, 2: 1, 3: 1, 4: 5, 6: 13, 8: 13, 9: 3, 13: 5, 14: 1, 15: 1, 16: 13, 17: 5}

var hsKeys = []string{"v", "p", "reqq", "ipv4", "ipv6", "metadata_size", "m", "upload_only", "e", "yourip", "zz"}
var pexKeys = []string{"added", "added.f", "added6", "added6.f", "dropped", "dropped6", "zz"}
var metaKeys = []string{"msg_type", "piece", "total_size", "zz"}

// hostileValue emits bencoded bytes (not necessarily well-formed).
func hostileValue(t *rapid.T, depth int, budget int) []byte {
	switch rapid.IntRange(0, 15).Draw(t, "hv") {
	case 0:
		return ref.Benc(int64(rapid.Int64().Draw(t, "int")))
	case 1:
		return []byte(rapid.SampledFrom([]string{"i-0e", "i03e", "ie", "i-e", "i99999999999999999999999999e",
			"i-99999999999999999999e", "i4294967296e", "i4294967295e", "i-1e", "i256e", "i65536e", "i1.5e", "i 1e", "i1"}).Draw(t, "badint"))
	case 2:
		n := gen.Size(t, "strlen", min(budget, 300))
		return ref.Benc(gen.Bytes(t, "str", n))
	case 3:
		// string header that lies about the length
		real := rapid.IntRange(0, 20).Draw(t, "real")
		var decl int64
		if stats.Excl("c04-bencode-string-alloc") {
			stats.Excluded("c04-bencode-string-alloc")
			decl = rapid.Int64Range(int64(real)+1, 999_999).Draw(t, "decl")
		} else {
			decl = rapid.SampledFrom([]int64{int64(real) + 1, 1000, 999_999, 1 << 20, 1 << 24, 1<<31 - 1, 1 << 31, 1<<32 - 1, 1 << 40, 1<<63 - 1}).Draw(t, "decl")
		}
		return append([]byte(fmt.Sprintf("%d:", decl)), gen.Bytes(t, "str", real)...)
	case 4:
		return []byte(rapid.SampledFrom([]string{"-1:", "01:a", ":", "1a:", "0:", "00:", "+1:a"}).Draw(t, "badstr"))
	case 5:
		if depth > 3 {
			return []byte("le")
		}
		n := rapid.IntRange(0, 4).Draw(t, "ln")
		b := []byte("l")
		for i := 0; i < n; i++ {
			b = append(b, hostileValue(t, depth+1, budget/2)...)
		}
		if rapid.IntRange(0, 9).Draw(t, "close") != 0 {
			b = append(b, 'e')
		}
		return b
	case 6:
		// deep nesting
		k := rapid.SampledFrom([]int{1, 10, 100, 1000, 5000}).Draw(t, "nest")
		if k*2 > budget {
			k = max(budget/2, 1)
		}
		open := rapid.SampledFrom([]string{"l", "d1:a"}).Draw(t, "open")
		b := []byte(strings.Repeat(open, k))
		if rapid.Bool().Draw(t, "closed") {
			b = append(b, strings.Repeat("e", k)...)
		}
		return b
	case 7:
		if depth > 3 {
			return []byte("de")
		}
		return hostileDict(t, []string{"a", "b", "m", "ut_pex", "ut_metadata"}, depth+1, budget/2)
	case 8:
		return []byte{}
	case 9:
		return gen.Bytes(t, "junk", rapid.IntRange(1, 12).Draw(t, "junklen"))
	case 10:
		// compact peer blobs of every residue
		n := rapid.IntRange(0, 40).Draw(t, "cn")
		return ref.Benc(gen.Bytes(t, "compact", n))
	default:
		return ref.Benc(int64(gen.U32(t, "u")))
	}
}

func hostileDict(t *rapid.T, keys []string, depth int, budget int) []byte {
	n := rapid.IntRange(0, 6).Draw(t, "dn")
	b := []byte("d")
	for i := 0; i < n; i++ {
		var k string
		if rapid.IntRange(0, 5).Draw(t, "kk") == 0 {
			k = rapid.StringN(0, 8, -1).Draw(t, "key")
		} else {
			k = rapid.SampledFrom(keys).Draw(t, "key")
		}
		if rapid.IntRange(0, 30).Draw(t, "nonstrkey") == 0 {
			b = append(b, "i1e"...)
		} else {
			b = append(b, ref.Benc(k)...)
		}
		if k == "m" && rapid.Bool().Draw(t, "mdict") {
			b = append(b, hostileDict(t, []string{"ut_pex", "ut_metadata", "lt_donthave", "upload_only", "x"}, depth+1, budget/2)...)
		} else {
			b = append(b, hostileValue(t, depth, budget/2)...)
		}
	}
	if rapid.IntRange(0, 9).Draw(t, "dclose") != 0 {
		b = append(b, 'e')
	}
	return b
}

type frameInfo struct {
	id, sub         int
	lclass, mut, bc string
}

func genFrame(t *rapid.T, clean bool) ([]byte, frameInfo) {
	info := frameInfo{sub: -1, mut: "none", lclass: "actual"}
	// id
	var id int
	switch rapid.IntRange(0, 9).Draw(t, "idclass") {
	case 0:
		id = rapid.IntRange(0, 255).Draw(t, "id")
	case 1, 2, 3:
		id = 20
	default:
		id = rapid.SampledFrom(gen.Kinds[1:]).Draw(t, "id")
	}
	info.id = id
	var body []byte // id + payload
	info.bc = "valid"
	switch {
	case id == 20:
		var sub int
		if rapid.IntRange(0, 4).Draw(t, "subclass") == 0 {
			sub = rapid.IntRange(0, 255).Draw(t, "sub")
		} else {
			sub = rapid.IntRange(0, 5).Draw(t, "sub")
		}
		info.sub = sub
		body = []byte{20, byte(sub)}
		extbody := rapid.IntRange(0, 3).Draw(t, "extbody")
		if extbody == 1 && sub != 1 {
			extbody = 2
		}
		switch extbody {
		case 0: // valid message of that role
			role := map[int]int{0: ref.XHandshake, 1: ref.XPex, 2: ref.XMetadata, 3: ref.XDontHave, 4: ref.XUploadOnly}[sub]
			if sub > 4 {
				role = ref.XOpaque
			}
			m := gen.Msg(t, ref.KExtended, role, 40000, false, func(int) uint8 { return uint8(sub) })
			body = ref.Encode(m)[4:]
		case 1:
			// peer exchange with compact lists of every length: whole entries plus a
			// remainder of 0..5 (IPv4) or 0..17 (IPv6) bytes, flags strings shorter,
			// equal and longer than the lists
			{
				info.bc = "pex-compact-lengths"
				d := map[string]any{}
				for _, k := range []string{"added", "dropped"} {
					if rapid.Bool().Draw(t, k) {
						d[k] = gen.Bytes(t, k+".b", 6*rapid.IntRange(0, 3).Draw(t, k+".n")+rapid.IntRange(0, 5).Draw(t, k+".r"))
					}
				}
				for _, k := range []string{"added6", "dropped6"} {
					if rapid.Bool().Draw(t, k) {
						d[k] = gen.Bytes(t, k+".b", 18*rapid.IntRange(0, 2).Draw(t, k+".n")+rapid.SampledFrom([]int{0, 0, 1, 5, 6, 16, 17}).Draw(t, k+".r"))
					}
				}
				for _, k := range []string{"added.f", "added6.f"} {
					if rapid.Bool().Draw(t, k) {
						d[k] = gen.Bytes(t, k+".b", rapid.IntRange(0, 5).Draw(t, k+".n"))
					}
				}
				body = append(body, ref.Benc(d)...)
			}
		default:
			info.bc = "hostile-bencode"
			keys := hsKeys
			if sub == 1 {
				keys = pexKeys
			} else if sub == 2 {
				keys = metaKeys
			}
			if rapid.IntRange(0, 5).Draw(t, "top") == 0 {
				body = append(body, hostileValue(t, 0, 20000)...)
			} else {
				body = append(body, hostileDict(t, keys, 0, 20000)...)
			}
			if rapid.IntRange(0, 3).Draw(t, "trail") == 0 {
				body = append(body, gen.Bytes(t, "trail", rapid.IntRange(1, 40).Draw(t, "trailn"))...)
			}
		}
	case knownIDs[byte(id)]:
		m := gen.Msg(t, id, -1, 40000, false, nil)
		body = ref.Encode(m)[4:]
	default:
		body = append([]byte{byte(id)}, gen.Bytes(t, "unk", rapid.IntRange(0, 50).Draw(t, "unklen"))...)
	}
	if clean {
		if id == 20 && info.bc != "valid" {
			// hostile payloads keep their own announced length
		}
		return append(binary.BigEndian.AppendUint32(nil, uint32(len(body))), body...), info
	}
	// mutate body
	switch rapid.IntRange(0, 7).Draw(t, "mut") {
	case 0:
		if len(body) > 1 {
			body = body[:rapid.IntRange(1, len(body)-1).Draw(t, "trunc")]
			info.mut = "trunc"
		}
	case 1:
		body = append(body, gen.Bytes(t, "ext", rapid.IntRange(1, 20).Draw(t, "extn"))...)
		info.mut = "extend"
	case 2:
		if len(body) > 1 {
			i := rapid.IntRange(1, len(body)-1).Draw(t, "flipat")
			body[i] ^= byte(rapid.IntRange(1, 255).Draw(t, "flip"))
			info.mut = "flip"
		}
	}
	// announced length
	exact, hasExact := exactLen[id]
	L := uint32(len(body))
	info.lclass = "actual"
	switch rapid.IntRange(0, 13).Draw(t, "lclass") {
	case 0:
		L, info.lclass = 1, "1"
	case 1:
		L, info.lclass = 2, "2"
	case 2:
		if hasExact {
			L, info.lclass = uint32(exact-1), "exact-1"
			if L == 0 {
				L, info.lclass = uint32(exact+1), "exact+1"
			}
		}
	case 3:
		if hasExact {
			L, info.lclass = uint32(exact+1), "exact+1"
		}
	case 4:
		L = rapid.SampledFrom([]uint32{MiB - 1, MiB}).Draw(t, "Lbig")
		info.lclass = "1MiB"
	case 5:
		L = rapid.SampledFrom([]uint32{MiB + 1, 1 << 31, 1<<32 - 1, 1<<31 - 1, 1 << 24}).Draw(t, "Lhuge")
		info.lclass = ">1MiB"
	case 6:
		L = uint32(len(body)) + uint32(rapid.IntRange(1, 30).Draw(t, "Lplus"))
		info.lclass = "actual+"
	case 7:
		if len(body) > 1 {
			L = uint32(rapid.IntRange(1, len(body)-1).Draw(t, "Lminus"))
			info.lclass = "actual-"
		}
	}
	return append(binary.BigEndian.AppendUint32(nil, L), body...), info
}

func TestC04Frames(t *testing.T) {
	debug.SetGCPercent(400)
	rapid.Check(t, func(t *rapid.T) {
		n := rapid.IntRange(1, 4).Draw(t, "frames")
		var s []byte
		var infos []frameInfo
		cleanPrefix := rapid.Bool().Draw(t, "cleanPrefix")
		for i := 0; i < n; i++ {
			f, info := genFrame(t, cleanPrefix && i < n-1)
			// a frame announcing ~1 MiB needs the bytes to exist for the
			// interesting paths; pad with filler in half the cases
			if L := binary.BigEndian.Uint32(f); L <= MiB && int(L) > len(f)-4 && rapid.Bool().Draw(t, "pad") {
				f = append(f, gen.Fill(uint64(i)+7, int(L)-(len(f)-4))...)
			}
			s = append(s, f...)
			infos = append(infos, info)
		}
		truncated := false
		if rapid.IntRange(0, 3).Draw(t, "cut?") == 0 && len(s) > 1 {
			s = s[:rapid.IntRange(0, len(s)-1).Draw(t, "cut")]
			truncated = true
		} else if rapid.IntRange(0, 3).Draw(t, "garbage?") == 0 {
			s = append(s, gen.Bytes(t, "garbage", rapid.IntRange(1, 30).Draw(t, "garbagen"))...)
		}
		out, fail := checkStream(s, !stats.Excl("c04-bencode-string-alloc"))
		if out.excluded {
			stats.Excluded("c04-bencode-string-alloc(alloc-bound-skipped)")
		}
		// classification
		labels := []string{}
		nontrivial := n > 1
		fp := fmt.Sprintf("n%d/%v/%d/%s", n, truncated, out.frames, out.lastErr)
		for _, in := range infos {
			fp += fmt.Sprintf("|%d.%d.%s.%s.%s", in.id, in.sub, in.lclass, in.mut, in.bc)
			_, hasExact := exactLen[in.id]
			if hasExact && (in.lclass == "exact-1" || in.lclass == "exact+1") {
				labels = append(labels, fmt.Sprintf("id%d:L=%s", in.id, in.lclass))
				nontrivial = true
			}
			if knownIDs[byte(in.id)] && in.lclass != "actual" {
				nontrivial = true
			}
			if in.id == 20 {
				labels = append(labels, "id20")
				if in.lclass == "1" {
					labels = append(labels, "id20:L=1")
				}
				if in.bc == "hostile-bencode" {
					labels = append(labels, "hostile-bencode")
					nontrivial = true
				}
			}
			if in.lclass == ">1MiB" {
				labels = append(labels, "L>1MiB")
			}
			if in.lclass == "1MiB" {
				labels = append(labels, "L~1MiB")
			}
		}
		if truncated {
			labels = append(labels, "truncated")
		}
		if n > 1 {
			labels = append(labels, "multi-frame")
		}
		if out.frames >= 2 {
			labels = append(labels, "decoded>=2-frames")
		}
		labels = append(labels, "outcome:"+map[string]string{"": "6-frames-decoded", "eof": "decoded-to-end-of-stream", "err": "ended-in-error", "toolong": "refused-oversize"}[out.lastErr])
		stats.Case(fp, nontrivial, labels...)
		if nontrivial && stats.WantSample("stream") {
			stats.Sample("stream", map[string]any{"hex_prefix": fmt.Sprintf("%x", s[:min(len(s), 64)]), "len": len(s), "frames": fmt.Sprint(infos), "decoded": out.frames, "end": out.lastErr})
		}
		if fail != "" {
			t.Fatalf("%s\nstream (%d bytes): %x", fail, len(s), s[:min(len(s), 200)])
		}
	})
}

// Regression inputs of recorded findings -------------------------------------

func mustHold(t *testing.T, s []byte) {
	t.Helper()
	if _, fail := checkStream(s, true); fail != "" {
		t.Fatalf("%s\nstream: %x", fail, s[:min(len(s), 64)])
	}
}

// have-all / have-none with a two-byte body: (nil, nil).
func TestReg_c04_haveall_len2(t *testing.T) {
	mustHold(t, []byte{0, 0, 0, 2, 14, 0})
	mustHold(t, []byte{0, 0, 0, 2, 15, 0, 0, 0, 0, 1, 0})
}

// extended frame of length 1: the sub-id is read from beyond the frame and
// length-2 wraps.
func TestReg_c04_ext_len1(t *testing.T) {
	for sub := 0; sub < 6; sub++ {
		s := []byte{0, 0, 0, 1, 20, byte(sub)}
		s = append(s, ref.Encode(ref.Msg{Kind: ref.KHave, Index: 1})...)
		s = append(s, make([]byte, 64)...)
		mustHold(t, s)
	}
}

// third-party: zeebo/bencode allocates the declared string length up front.
func TestReg_c04_bencode_string_alloc(t *testing.T) {
	p := []byte("d1:v2147483647:abce")
	s := append(binary.BigEndian.AppendUint32(nil, uint32(2+len(p))), 20, 0)
	mustHold(t, append(s, p...))
}

// ---------------------------------------------------------------- native fuzz

func FuzzRead(f *testing.F) {
	// one valid frame per id / sub-id
	for _, k := range gen.Kinds {
		if k == ref.KExtended {
			continue
		}
		f.Add(ref.Encode(ref.Msg{Kind: k, Index: 3, Begin: 16384, Length: 16384, Port: 6881, Data: []byte{0xf0, 1, 2, 3}}))
	}
	v, p, q := "x 1.0", uint16(6881), uint32(250)
	f.Add(ref.Encode(ref.Msg{Kind: 20, X: ref.XHandshake, HS: &ref.ExtHS{V: &v, P: &p, ReqQ: &q, M: map[string]uint8{"ut_pex": 1, "ut_metadata": 2}}}))
	f.Add(ref.Encode(ref.Msg{Kind: 20, Sub: 1, X: ref.XPex, Added: []ref.PexPeer{{}}}))
	f.Add(ref.Encode(ref.Msg{Kind: 20, Sub: 2, X: ref.XMetadata, MetaType: 1, MetaPiece: 0, Data: []byte("abc")}))
	f.Add(ref.Encode(ref.Msg{Kind: 20, Sub: 3, X: ref.XDontHave, Index: 9}))
	f.Add(ref.Encode(ref.Msg{Kind: 20, Sub: 4, X: ref.XUploadOnly, Flag: true}))
	f.Add(ref.Encode(ref.Msg{Kind: 20, Sub: 9, X: ref.XOpaque, Data: []byte("zz")}))
	// hostile constants
	f.Add([]byte{0, 0, 0, 1, 20})
	f.Add([]byte{0, 0, 0, 1, 20, 2, 0, 0, 0, 0})
	f.Add([]byte{0, 0, 0, 2, 14, 0})
	f.Add([]byte{0, 0x10, 0, 0, 5})
	f.Add([]byte{0, 0x10, 0, 1, 5})
	f.Add([]byte{0xff, 0xff, 0xff, 0xff, 7})
	f.Add([]byte("\x00\x00\x00\x0a\x14\x00d1:vlllle"))
	f.Fuzz(func(t *testing.T, s []byte) {
		if len(s) > 1<<16 {
			return
		}
		if stats.Excl("c04-bencode-string-alloc") && hugeHeader.Match(s) {
			// region of the known finding: every execution would allocate the
			// declared length (gigabytes), and sixteen workers at once die of it
			stats.Excluded("c04-bencode-string-alloc")
			return
		}
		out, fail := checkStream(s, false)
		stats.Case(fmt.Sprintf("%d/%s", out.frames, out.lastErr), out.frames > 0)
		if fail != "" {
			t.Fatalf("%s", fail)
		}
	})
}
