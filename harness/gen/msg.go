// Package gen holds rapid generators shared by several checks.
package gen

import (
	"net/netip"

	"pgregory.net/rapid"

	"verif/ref"
)

// U32 draws a 32-bit value with weight on boundaries.
func U32(t *rapid.T, label string) uint32 {
	switch rapid.IntRange(0, 9).Draw(t, label+".class") {
	case 0:
		return 0
	case 1:
		return 1
	case 2:
		return rapid.SampledFrom([]uint32{16383, 16384, 16385, 32768, 65535, 65536, 1 << 20, 1<<20 + 1}).Draw(t, label)
	case 3:
		return rapid.SampledFrom([]uint32{1<<31 - 1, 1 << 31, 1<<31 + 1, 1<<32 - 2, 1<<32 - 1}).Draw(t, label)
	case 4, 5:
		return rapid.Uint32Range(0, 300).Draw(t, label)
	default:
		return rapid.Uint32().Draw(t, label)
	}
}

// Size draws a payload size in [0,max] with weight on 0, 1, block size and
// its neighbours.
func Size(t *rapid.T, label string, max int) int {
	pick := []int{0, 1, 2, 7, 100, 16383, 16384, 16385, max - 1, max}
	var n int
	if rapid.IntRange(0, 3).Draw(t, label+".class") == 0 {
		n = rapid.IntRange(0, max).Draw(t, label)
	} else {
		n = rapid.SampledFrom(pick).Draw(t, label)
	}
	if n < 0 {
		n = 0
	}
	if n > max {
		n = max
	}
	return n
}

// Bytes produces n bytes from a small drawn state (cheap for large n; the
// content only has to be non-constant).
func Bytes(t *rapid.T, label string, n int) []byte {
	if n <= 64 {
		return rapid.SliceOfN(rapid.Byte(), n, n).Draw(t, label)
	}
	return Fill(rapid.Uint64().Draw(t, label+".seed"), n)
}

// Fill is a splitmix-style byte stream: a pure function of (seed, n).
func Fill(seed uint64, n int) []byte {
	b := make([]byte, n)
	x := seed*0x9e3779b97f4a7c15 + 0x632be59bd9b4e019
	for i := 0; i < n; i += 8 {
		x += 0x9e3779b97f4a7c15
		z := x
		z = (z ^ (z >> 30)) * 0xbf58476d1ce4e5b9
		z = (z ^ (z >> 27)) * 0x94d049bb133111eb
		z ^= z >> 31
		for j := 0; j < 8 && i+j < n; j++ {
			b[i+j] = byte(z >> (8 * j))
		}
	}
	return b
}

func Addr4(t *rapid.T, label string) netip.Addr {
	b := rapid.SliceOfN(rapid.Byte(), 4, 4).Draw(t, label)
	a, _ := netip.AddrFromSlice(b)
	return a
}

func Addr6(t *rapid.T, label string) netip.Addr {
	b := rapid.SliceOfN(rapid.Byte(), 16, 16).Draw(t, label)
	if rapid.IntRange(0, 5).Draw(t, label+".mapped") == 0 {
		copy(b, []byte{0, 0, 0, 0, 0, 0, 0, 0, 0, 0, 0xff, 0xff})
	}
	a, _ := netip.AddrFromSlice(b)
	return a
}

func PexPeers(t *rapid.T, label string, max int, flags bool) []ref.PexPeer {
	n := rapid.IntRange(0, max).Draw(t, label+".n")
	if rapid.IntRange(0, 9).Draw(t, label+".many") == 0 {
		// around the most a message may carry (50 per list), and beyond
		n = rapid.SampledFrom([]int{49, 50, 51, 120}).Draw(t, label+".nmany")
	}
	var out []ref.PexPeer
	for i := 0; i < n; i++ {
		var a netip.Addr
		if rapid.Bool().Draw(t, label+".v6") {
			a = Addr6(t, label+".a6")
		} else {
			a = Addr4(t, label+".a4")
		}
		p := ref.PexPeer{Addr: netip.AddrPortFrom(a, rapid.Uint16().Draw(t, label+".port"))}
		if flags {
			p.Flags = rapid.Byte().Draw(t, label+".flags")
		}
		out = append(out, p)
	}
	return out
}

var extNames = []string{"ut_pex", "ut_metadata", "lt_donthave", "upload_only", "ut_holepunch", "x", ""}

// ExtHS draws an extended handshake with every subset of optional fields.
// zeroMeansAbsent: do not generate present-but-zero numeric or empty string
// fields (storrent's message type cannot represent them).
func ExtHS(t *rapid.T, zeroMeansAbsent bool) *ref.ExtHS {
	h := &ref.ExtHS{}
	lo32 := uint32(0)
	lo16 := uint16(0)
	if zeroMeansAbsent {
		lo32, lo16 = 1, 1
	}
	if rapid.Bool().Draw(t, "hs.v?") {
		min := 0
		if zeroMeansAbsent {
			min = 1
		}
		v := rapid.StringN(min, 40, -1).Draw(t, "hs.v")
		h.V = &v
	}
	if rapid.Bool().Draw(t, "hs.p?") {
		v := rapid.Uint16Range(lo16, 65535).Draw(t, "hs.p")
		h.P = &v
	}
	if rapid.Bool().Draw(t, "hs.reqq?") {
		v := U32(t, "hs.reqq")
		if v < lo32 {
			v = lo32
		}
		h.ReqQ = &v
	}
	if rapid.Bool().Draw(t, "hs.ms?") {
		v := U32(t, "hs.ms")
		if v < lo32 {
			v = lo32
		}
		h.MetadataSize = &v
	}
	if rapid.Bool().Draw(t, "hs.ipv4?") {
		h.IPv4 = rapid.SliceOfN(rapid.Byte(), 4, 4).Draw(t, "hs.ipv4")
	}
	if rapid.Bool().Draw(t, "hs.ipv6?") {
		h.IPv6 = Addr6(t, "hs.ipv6").AsSlice()
	}
	if rapid.Bool().Draw(t, "hs.m?") {
		n := rapid.IntRange(0, 6).Draw(t, "hs.m.n")
		if zeroMeansAbsent && n == 0 {
			n = 1
		}
		h.M = map[string]uint8{}
		for i := 0; i < n; i++ {
			var k string
			if rapid.Bool().Draw(t, "hs.m.known") {
				k = rapid.SampledFrom(extNames).Draw(t, "hs.m.k")
			} else {
				k = rapid.StringN(0, 12, -1).Draw(t, "hs.m.k")
			}
			h.M[k] = rapid.Uint8().Draw(t, "hs.m.v")
		}
	}
	if !zeroMeansAbsent {
		if rapid.Bool().Draw(t, "hs.uo?") {
			v := rapid.Bool().Draw(t, "hs.uo")
			h.UploadOnly = &v
		}
		if rapid.Bool().Draw(t, "hs.e?") {
			v := rapid.Bool().Draw(t, "hs.e")
			h.E = &v
		}
	} else {
		v := rapid.Bool().Draw(t, "hs.uo")
		h.UploadOnly = &v
		if rapid.Bool().Draw(t, "hs.e") {
			e := true
			h.E = &e
		}
	}
	return h
}

// Kinds lists every wire id of the formats covered, plus keep-alive.
var Kinds = []int{ref.KKeepAlive, ref.KChoke, ref.KUnchoke, ref.KInterest, ref.KNotInt, ref.KHave,
	ref.KBitfield, ref.KRequest, ref.KPiece, ref.KCancel, ref.KPort, ref.KSuggest, ref.KHaveAll,
	ref.KHaveNone, ref.KReject, ref.KAllowed, ref.KExtended}

var Roles = []int{ref.XHandshake, ref.XPex, ref.XMetadata, ref.XDontHave, ref.XUploadOnly, ref.XOpaque}

// Msg draws one message.  kind/role < -1 / < 0 mean "draw it".  subFor maps a
// role to the sub-id to put on the wire (nil: storrent's receive ids 1-4).
// maxPayload bounds bitfield/piece/metadata payloads.
func Msg(t *rapid.T, kind, role int, maxPayload int, zeroMeansAbsent bool, subFor func(role int) uint8) ref.Msg {
	if kind < -1 {
		kind = rapid.SampledFrom(Kinds).Draw(t, "kind")
	}
	m := ref.Msg{Kind: kind}
	switch kind {
	case ref.KHave, ref.KSuggest, ref.KAllowed:
		m.Index = U32(t, "index")
	case ref.KBitfield:
		m.Data = Bytes(t, "bitfield", Size(t, "bitfield.len", maxPayload))
	case ref.KRequest, ref.KCancel, ref.KReject:
		m.Index, m.Begin, m.Length = U32(t, "index"), U32(t, "begin"), U32(t, "length")
	case ref.KPiece:
		m.Index, m.Begin = U32(t, "index"), U32(t, "begin")
		m.Data = Bytes(t, "block", Size(t, "block.len", maxPayload))
	case ref.KPort:
		m.Port = rapid.Uint16().Draw(t, "port")
	case ref.KExtended:
		if role < 0 {
			role = rapid.SampledFrom(Roles).Draw(t, "role")
		}
		m.X = role
		if subFor != nil {
			m.Sub = subFor(role)
		} else {
			switch role {
			case ref.XHandshake:
				m.Sub = 0
			case ref.XPex:
				m.Sub = 1
			case ref.XMetadata:
				m.Sub = 2
			case ref.XDontHave:
				m.Sub = 3
			case ref.XUploadOnly:
				m.Sub = 4
			default:
				m.Sub = rapid.Uint8Range(5, 255).Draw(t, "sub")
			}
		}
		switch role {
		case ref.XHandshake:
			m.HS = ExtHS(t, zeroMeansAbsent)
		case ref.XPex:
			m.Added = PexPeers(t, "added", 8, true)
			m.Dropped = PexPeers(t, "dropped", 8, false)
		case ref.XMetadata:
			m.MetaType = rapid.Uint8Range(0, 2).Draw(t, "meta.type")
			m.MetaPiece = U32(t, "meta.piece")
			if rapid.Bool().Draw(t, "meta.total?") {
				v := U32(t, "meta.total")
				if zeroMeansAbsent && v == 0 {
					v = 1
				}
				m.MetaTotal = &v
			}
			if m.MetaType == 1 || rapid.IntRange(0, 4).Draw(t, "meta.data?") == 0 {
				m.Data = Bytes(t, "meta.data", Size(t, "meta.len", min(maxPayload, 20000)))
			}
		case ref.XDontHave:
			m.Index = U32(t, "index")
		case ref.XUploadOnly:
			m.Flag = rapid.Bool().Draw(t, "flag")
		case ref.XOpaque:
			m.Data = Bytes(t, "opaque", Size(t, "opaque.len", min(maxPayload, 1000)))
		}
	}
	return m
}
