package c17

// Deletion while a web-seed fetch is in progress.  The torrent has one web
// seed (GetRight or Hoffman style); the HTTP client storrent uses for web
// seeds gets a dial function that hands out in-memory connections served by
// a scripted server inside the bubble: it answers at once, slowly, partly, or
// reads the request and then says nothing at all.  A piece nobody else has is
// wanted, the fetch starts, and after a drawn delay the torrent is deleted.
//
// Oracle: Kill returns and the torrent is deleted; once deletion has been
// reported and everything has settled - no virtual time passing - no request
// of this torrent is still waiting for the server (the fetch was aborted, its
// goroutine has ended), and nothing is left at the end of the bubble.

import (
	"bufio"
	"context"
	"crypto/sha1"
	"fmt"
	"io"
	"net"
	"net/http"
	"sort"
	"strconv"
	"strings"
	"sync"
	"sync/atomic"
	"testing"
	"time"

	"pgregory.net/rapid"

	"github.com/jech/storrent/alloc"
	"github.com/jech/storrent/config"
	"github.com/jech/storrent/hash"
	"github.com/jech/storrent/httpclient"
	"github.com/jech/storrent/tor"
	"github.com/jech/storrent/webseed"

	"verif/sim"
	"verif/stats"
)

type wsConn struct {
	net.Conn
	outstanding atomic.Bool // a request has been read and not yet answered in full
	closed      atomic.Bool // the client has closed its end
}

func (c *wsConn) Close() error {
	c.closed.Store(true)
	return c.Conn.Close()
}

type wsServer struct {
	mode    string
	content []byte
	seen    atomic.Int64
	mu      sync.Mutex
	conns   []net.Conn
	clients []*wsConn
}

// pending: requests read and not yet fully answered, on connections the client still holds open
func (s *wsServer) pending() (n int) {
	s.mu.Lock()
	defer s.mu.Unlock()
	for _, c := range s.clients {
		if c.outstanding.Load() && !c.closed.Load() {
			n++
		}
	}
	return n
}

func (s *wsServer) dial(ctx context.Context, n, a string) (net.Conn, error) {
	if s.mode == "refuse" {
		return nil, fmt.Errorf("connection refused")
	}
	c, srv := net.Pipe()
	cl := &wsConn{Conn: c}
	s.mu.Lock()
	s.conns = append(s.conns, srv)
	s.clients = append(s.clients, cl)
	s.mu.Unlock()
	go s.serve(srv, cl)
	return cl, nil
}

func (s *wsServer) closeAll() {
	s.mu.Lock()
	defer s.mu.Unlock()
	for _, c := range s.conns {
		c.Close()
	}
}

func (s *wsServer) serve(c net.Conn, cl *wsConn) {
	defer c.Close()
	br := bufio.NewReader(c)
	for {
		req, err := http.ReadRequest(br)
		if err != nil {
			return
		}
		s.seen.Add(1)
		cl.outstanding.Store(true)
		done := s.answer(c, req)
		if !done {
			// nothing more will be said: wait for the client to give up
			io.Copy(io.Discard, br)
			return
		}
		cl.outstanding.Store(false)
	}
}

// answer returns true when a complete response has been written.
func (s *wsServer) answer(c net.Conn, req *http.Request) bool {
	if s.mode == "stall-before-headers" {
		return false
	}
	// GetRight: Range header over the single file; Hoffman: ?piece=&ranges=a-b
	var from, to int64 = 0, int64(len(s.content)) - 1
	if r := req.Header.Get("Range"); strings.HasPrefix(r, "bytes=") {
		fmt.Sscanf(r, "bytes=%d-%d", &from, &to)
	} else if q := req.URL.Query(); q.Get("piece") != "" {
		p, _ := strconv.ParseInt(q.Get("piece"), 10, 64)
		var a, b int64
		fmt.Sscanf(q.Get("ranges"), "%d-%d", &a, &b)
		from, to = p*32768+a, p*32768+b
	}
	if from < 0 || to >= int64(len(s.content)) || from > to {
		_, err := fmt.Fprintf(c, "HTTP/1.1 416 Range Not Satisfiable\r\nContent-Length: 0\r\n\r\n")
		return err == nil
	}
	body := s.content[from : to+1]
	hdr := fmt.Sprintf("HTTP/1.1 206 Partial Content\r\nContent-Length: %d\r\nContent-Range: bytes %d-%d/%d\r\n\r\n", len(body), from, to, len(s.content))
	if req.Header.Get("Range") == "" {
		hdr = fmt.Sprintf("HTTP/1.1 200 OK\r\nContent-Length: %d\r\n\r\n", len(body))
	}
	if _, err := io.WriteString(c, hdr); err != nil {
		return true
	}
	switch s.mode {
	case "stall-after-headers":
		return false
	case "stall-mid-body":
		c.Write(body[:len(body)/2])
		return false
	case "slow-body":
		for i := 0; i < len(body); i += 1000 {
			time.Sleep(2 * time.Second)
			if _, err := c.Write(body[i:min(i+1000, len(body))]); err != nil {
				return true
			}
		}
		return true
	}
	_, err := c.Write(body)
	return err == nil
}

type nullW struct{}

func (nullW) Write(p []byte) (int, error) { return len(p), nil }

func runWebseedCase(mode string, getright bool, wait time.Duration, second bool) (fail string, labels []string) {
	config.DefaultUseWebseeds = true
	config.SetIdleRate(0)
	defer func() {
		config.DefaultUseWebseeds = false
		config.SetIdleRate(64 * 1024)
	}()
	g := sim.Geometry{PieceSize: 32768, Length: 32768*5 + 700, Seed: 41, Name: "w"}
	_, info, content, _ := sim.Metainfo(g)
	ih := sha1.Sum(info)
	srv := &wsServer{mode: mode, content: content}
	tr := httpclient.Get("", "").Transport.(*http.Transport)
	old := tr.DialContext
	tr.DialContext = srv.dial
	sim.Cleanup(func() {
		tr.DialContext = old
		srv.closeAll()
		tr.CloseIdleConnections()
	})
	url := "http://webseed.verif.invalid/w"
	if !getright {
		url = "http://webseed.verif.invalid/seed.php"
	}
	t, err := tor.New("", hash.Hash(ih[:]), "", info, 0, nil, []webseed.Webseed{webseed.New(url, getright)})
	if err != nil {
		return "tor.New: " + err.Error(), nil
	}
	t.Log.SetOutput(nullW{})
	if err := t.MetadataComplete(); err != nil {
		return "MetadataComplete: " + err.Error(), nil
	}
	var exits atomic.Int64
	tor.VerifYieldHook = func(point string) {
		if point == "webseedGR.exit" || point == "webseedH.exit" {
			exits.Add(1)
		}
	}
	defer func() { tor.VerifYieldHook = nil }()
	base := alloc.Bytes()
	ctx, cancel := context.WithCancel(context.Background())
	defer cancel()
	if _, err := tor.AddTorrent(ctx, t); err != nil {
		return "AddTorrent: " + err.Error(), nil
	}
	killed := false
	sim.Cleanup(func() {
		if !killed {
			k, kc := context.WithTimeout(context.Background(), time.Minute)
			defer kc()
			t.Kill(k)
		}
	})
	describe := fmt.Sprintf(" (web seed: %s, getright=%v; deleted %v after the piece was wanted)", mode, getright, wait)
	t.Request(1, 1, true, false)
	if second {
		t.Request(4, 1, true, false)
	}
	time.Sleep(wait)
	sim.Settle()
	if srv.pending() > 0 {
		labels = append(labels, "ws:fetch-waiting-for-the-server-at-deletion", "ws:"+mode+"-at-deletion")
	}
	if srv.seen.Load() > 0 {
		labels = append(labels, "ws:fetch-started-before-deletion")
	}
	k, kc := context.WithTimeout(context.Background(), time.Minute)
	err = t.Kill(k)
	kc()
	killed = true
	if err != nil {
		return fmt.Sprintf("Kill returned %v", err) + describe, labels
	}
	select {
	case <-t.Deleted:
	default:
		return "Kill has returned and the torrent is not deleted" + describe, labels
	}
	sim.Settle()
	if n := srv.pending(); n > 0 {
		return fmt.Sprintf("deletion has completed and everything has settled: %d web-seed request(s) of the deleted torrent are still waiting for the server (%d fetch goroutines have ended, %d requests were made)", n, exits.Load(), srv.seen.Load()) + describe, labels
	}
	if left := alloc.Bytes() - base; left != 0 {
		return fmt.Sprintf("deletion has completed, %d bytes of piece memory are still allocated", left) + describe, labels
	}
	if tor.Get(t.Hash) != nil {
		return "deletion has completed, the torrent is still listed" + describe, labels
	}
	before := srv.seen.Load()
	time.Sleep(2 * time.Minute)
	sim.Settle()
	if srv.seen.Load() != before {
		return fmt.Sprintf("%d web-seed request(s) were made for a torrent after its deletion", srv.seen.Load()-before) + describe, labels
	}
	if left := alloc.Bytes() - base; left != 0 {
		return fmt.Sprintf("two minutes after deletion, %d bytes of piece memory are allocated for the deleted torrent", left) + describe, labels
	}
	return "", labels
}

func TestC17WebseedAtDeletion(t *testing.T) {
	sim.Init()
	httpclient.Get("", "") // its expiry goroutine must not belong to a bubble
	rapid.Check(t, func(rt *rapid.T) {
		mode := rapid.SampledFrom([]string{"stall-before-headers", "stall-after-headers", "stall-mid-body", "slow-body", "complete", "refuse"}).Draw(rt, "mode")
		getright := rapid.Bool().Draw(rt, "getright")
		wait := rapid.SampledFrom([]time.Duration{0, time.Millisecond, 100 * time.Millisecond, time.Second, 5 * time.Second, 20 * time.Second, 45 * time.Second, 3 * time.Minute}).Draw(rt, "wait")
		second := rapid.Bool().Draw(rt, "secondPiece")
		var fail string
		var labels []string
		leak := sim.Bubble(t, func() { fail, labels = runWebseedCase(mode, getright, wait, second) })
		if fail != "" {
			rt.Fatalf("%s", fail)
		}
		if leak != "" {
			rt.Fatalf("goroutines left behind%s: %s", fmt.Sprintf(" (web seed: %s, getright=%v, wait %v)", mode, getright, wait), leak)
		}
		sort.Strings(labels)
		nontrivial := false
		for _, l := range labels {
			nontrivial = nontrivial || l == "ws:fetch-waiting-for-the-server-at-deletion"
		}
		stats.Case(fmt.Sprint(labels, getright), nontrivial, labels...)
	})
}
