// C17 — torrent lifecycle: no call hangs, deletion is complete.
package c17

import (
	"context"
	"errors"
	"fmt"
	"io"
	"net"
	"net/netip"
	"testing"
	"time"

	"pgregory.net/rapid"

	"github.com/jech/storrent/alloc"
	"github.com/jech/storrent/crypto"
	"github.com/jech/storrent/hash"
	"github.com/jech/storrent/known"
	"github.com/jech/storrent/peer"
	"github.com/jech/storrent/protocol"
	"github.com/jech/storrent/tor"
	"github.com/jech/storrent/tor/piece"

	"verif/ref"
	"verif/sim"
	"verif/stats"
	"verif/webfix"
)

func TestMain(m *testing.M) {
	webfix.Init() // registers storrent's HTTP handlers (outside any bubble)
	stats.Main(m)
}

var opNames = []string{"GetStats", "GetAvailable", "DropPeer", "GetPeer", "GetPeers", "GetKnown", "GetKnowns",
	"GetConf", "SetConf", "Request(want)", "Request(nowait)", "Request(withdraw)", "AddKnown", "Have", "BadPeer", "NewPeer",
	"Kill", "tor.Server", "tor.Client", "tor.Announce", "Reader.Read", "Reader.ReadBlocked", "Reader.Close", "tor.Expire",
	"HTTP front page", "HTTP ?q=peers", "HTTP ?q=delete", "HTTP ?q=set-torrent", "HTTP file GET"}

var stopNames = []string{"already-dead", "queued-behind-goaway", "ahead-of-goaway", "ctx-cancel", "queue-full", "queue-full-ctx-cancel", "burst", "after-timed-out-kill", "after-abandoned-read"}

type world struct {
	x       *sim.Tor
	remotes []*sim.Remote
	ctx     context.Context
	cancel  context.CancelFunc
	readers []*tor.Reader
}

type opResult struct {
	name string
	err  error
	note string
}

// runOp performs one exported blocking operation and reports how it returned.
func (w *world) runOp(name string, arg int) opResult {
	t := w.x.T
	r := opResult{name: name}
	switch name {
	case "GetStats":
		_, r.err = t.GetStats()
	case "GetAvailable":
		_, r.err = t.GetAvailable()
	case "DropPeer":
		_, r.err = t.DropPeer()
	case "GetPeer":
		_, r.err = t.GetPeer(hash.Hash(make([]byte, 20)))
	case "GetPeers":
		_, r.err = t.GetPeers()
	case "GetKnown":
		_, r.err = t.GetKnown(nil, netip.MustParseAddrPort("9.9.9.9:99"))
	case "GetKnowns":
		_, r.err = t.GetKnowns()
	case "GetConf":
		_, r.err = t.GetConf()
	case "SetConf":
		r.err = t.SetConf(peer.TorConf{})
	case "Request(want)":
		_, _, r.err = t.Request(uint32(arg%w.x.N), 1, true, true)
	case "Request(nowait)":
		_, _, r.err = t.Request(uint32(arg%w.x.N), 0, true, false)
	case "Request(withdraw)":
		_, _, r.err = t.Request(uint32(arg%w.x.N), 1, false, false)
	case "AddKnown":
		r.err = t.AddKnown(netip.MustParseAddrPort("9.9.9.9:99"), nil, "v", known.Seen)
	case "Have":
		r.err = t.Have(0, false)
	case "BadPeer":
		r.err = t.BadPeer(1, true)
	case "NewPeer":
		a, b := net.Pipe()
		go func() { // the remote side just drains until closed
			buf := make([]byte, 4096)
			for {
				if _, err := b.Read(buf); err != nil {
					b.Close()
					return
				}
			}
		}()
		id := make([]byte, 20)
		id[0] = 99
		r.err = t.NewPeer("", a, netip.MustParseAddrPort("9.9.9.10:100"), false,
			protocol.HandshakeResult{Hash: t.Hash, Id: id}, nil)
	case "tor.Server", "tor.Client":
		// a connection being established: handshake, then three queries to the
		// torrent's loop (GetStats, GetPeer; DropPeer only with 50 peers connected) and
		// NewPeer.  The remote side plays its part of the handshake and then reads
		// until the connection is closed: whatever happens to the torrent in
		// between, somebody must close it (a connection nobody closes leaves this
		// goroutine blocked when the case ends).
		a, b := net.Pipe()
		id := make([]byte, 20)
		copy(id, fmt.Sprintf("-VF0001-c17conn%05d", arg))
		hs := append([]byte{19}, []byte("BitTorrent protocol")...)
		hs = append(hs, 0, 0, 0, 0, 0, 0x10, 0, 0x05)
		hs = append(hs, t.Hash...)
		hs = append(hs, id...)
		go func() {
			defer b.Close()
			if name == "tor.Server" {
				if _, err := b.Write(hs); err != nil {
					return
				}
			} else {
				got := make([]byte, 68)
				if _, err := io.ReadFull(b, got); err != nil {
					return
				}
				if _, err := b.Write(hs); err != nil {
					return
				}
			}
			buf := make([]byte, 4096)
			for {
				if _, err := b.Read(buf); err != nil {
					return
				}
			}
		}()
		opts := crypto.DefaultOptions(false, false)
		if name == "tor.Server" {
			r.err = tor.Server(pipeConn{a, &net.TCPAddr{IP: net.IPv4(8, 8, 2, byte(arg)), Port: 40000 + arg%1000}}, opts)
		} else {
			r.err = tor.Client(a, t, netip.MustParseAddrPort("9.9.9.11:101"), "", false, opts)
		}
	case "Kill":
		r.err = t.Kill(context.Background())
		if r.err == nil {
			// Kill reports a completed deletion: observed at that very moment
			select {
			case <-t.Deleted:
			default:
				r.note = "Kill returned nil, but Deleted is not closed yet: deletion is still in progress"
			}
			if r.note == "" && tor.Get(t.Hash) != nil {
				r.note = "Kill returned nil, but the torrent is still listed"
			}
		}
	case "tor.Announce":
		r.err = tor.Announce(t.Hash, arg%2 == 0)
		if errors.Is(r.err, context.Canceled) {
			r.err = nil
		}
	case "Reader.Read", "Reader.ReadBlocked":
		// a piece that is present (returns data) or absent (blocks until the torrent dies)
		i := 0
		if name == "Reader.ReadBlocked" {
			i = w.x.N - 1
		}
		rd := t.NewReader(context.Background(), int64(i)*w.x.PieceSize, w.x.PieceLen(i))
		buf := make([]byte, 100)
		_, r.err = rd.Read(buf)
		for k := 0; k < 1000 && r.err == nil && name == "Reader.ReadBlocked"; k++ {
			time.Sleep(time.Second)
			_, r.err = rd.Read(buf)
		}
		rd.Close()
	case "Reader.Close":
		// a Reader is owned by one goroutine: read (absent piece, context
		// cancelled after a second), then close
		ctx, cancel := context.WithTimeout(context.Background(), time.Second)
		defer cancel()
		rd := t.NewReader(ctx, int64(w.x.N-1)*w.x.PieceSize, w.x.PieceLen(w.x.N-1))
		rd.Read(make([]byte, 1))
		r.err = rd.Close()
	case "tor.Expire":
		tor.Expire()
	case "HTTP front page", "HTTP ?q=peers", "HTTP ?q=delete", "HTTP ?q=set-torrent", "HTTP file GET":
		// the web UI's handlers, in process
		h := t.Hash.String()
		method, target := "GET", "/"
		switch name {
		case "HTTP ?q=peers":
			target = "/?q=peers&hash=" + h
		case "HTTP ?q=delete":
			method, target = "POST", "/?q=delete&hash="+h
		case "HTTP ?q=set-torrent":
			method, target = "POST", "/?q=set-torrent&hash="+h+"&dht-mode=none&use-trackers=1"
		case "HTTP file GET":
			target = "/" + h + "/t"
		}
		resp, err := webfix.Do(method, "localhost:8088", target, nil, nil)
		r.err = err
		if err == nil && resp.Panic != nil {
			r.err = fmt.Errorf("handler panicked: %v", resp.Panic)
		}
	default:
		panic(name)
	}
	return r
}

func acceptable(err error) bool {
	return err == nil || errors.Is(err, tor.ErrTorrentDead) || errors.Is(err, context.Canceled) ||
		errors.Is(err, net.ErrClosed) || err.Error() == "file does not exist" || errors.Is(err, tor.ErrMetadataIncomplete)
}

// oneCase returns "" or the violation.
func oneCase(rt *rapid.T, opName, stop string) (fail string, labels []string) {
	psK := rapid.SampledFrom([]int64{16, 32, 256}).Draw(rt, "pieceKiB")
	n := rapid.IntRange(2, 5).Draw(rt, "pieces")
	g := sim.Geometry{PieceSize: psK * 1024, Length: psK*1024*int64(n) - int64(rapid.SampledFrom([]int{0, 1, 5000}).Draw(rt, "tail")), Seed: rapid.Uint64().Draw(rt, "seed")}
	x, err := sim.Build(g, "")
	if err != nil {
		return "build: " + err.Error(), nil
	}
	base := alloc.Bytes()
	baseUnchoke := peer.NumUnchoking()
	w := &world{x: x}
	w.ctx, w.cancel = context.WithCancel(context.Background())
	defer w.cancel()
	if err := x.Start(w.ctx); err != nil {
		return "start: " + err.Error(), nil
	}
	t := x.T
	// some verified data, one piece left absent (the last)
	for i := 0; i < x.N-1; i++ {
		if rapid.Bool().Draw(rt, "fill") || i == 0 {
			x.Fill(i)
		}
	}
	// a partially filled piece, so that deletion has something unverified to free
	t.Pieces.AddData(uint32(x.N-1), 0, x.Data(x.N-1, 0, 16384), ^uint32(0))
	np := rapid.IntRange(0, 3).Draw(rt, "peers")
	for i := 0; i < np; i++ {
		r, err := x.Connect(sim.Caps{Fast: rapid.Bool().Draw(rt, "fast"), Extended: true}, i+1, false)
		if err != nil {
			return "connect: " + err.Error(), nil
		}
		w.remotes = append(w.remotes, r)
		r.SendExt(nil, nil, nil, "x")
		if rapid.Bool().Draw(rt, "interested") {
			r.Send(ref.Msg{Kind: ref.KInterest})
		}
	}
	// remotes that go away while storrent is still writing its first messages
	for i, nf := 0, rapid.IntRange(0, 2).Draw(rt, "flashPeers"); i < nf; i++ {
		if r, err := x.Connect(sim.Caps{Fast: i == 0, Extended: true, DHT: i == 1}, 50+i, false); err == nil {
			r.Close()
		}
	}
	// background readers: one blocked on the absent piece, one idle
	nr := rapid.IntRange(0, 2).Draw(rt, "readers")
	type rres struct {
		err error
	}
	var blocked []chan rres
	for i := 0; i < nr; i++ {
		rd := t.NewReader(context.Background(), int64(x.N-1)*x.PieceSize, x.PieceLen(x.N-1))
		w.readers = append(w.readers, rd)
		ch := make(chan rres, 1)
		blocked = append(blocked, ch)
		go func() {
			buf := make([]byte, 10)
			for {
				n, err := rd.Read(buf)
				if err != nil {
					ch <- rres{err}
					return
				}
				if n == 0 {
					time.Sleep(time.Second)
				}
			}
		}()
	}
	sim.Settle()

	// optionally a piece is being hashed while the torrent stops: deletion then
	// has to wait for the hasher before it can give the memory back
	hashing := -1
	hashRelease := make(chan struct{})
	if rapid.Bool().Draw(rt, "hashInFlight") && stop != "already-dead" { // (that stop point waits for deletion synchronously)
		for i := 1; i < x.N-1; i++ {
			if !t.Pieces.Complete(uint32(i)) {
				hashing = i
				break
			}
		}
	}
	hashFails := false
	if hashing >= 0 {
		// ... and the piece may turn out corrupt: the hasher then discards it
		// itself, while the deletion is waiting to do the same
		hashFails = rapid.Bool().Draw(rt, "hashFails")
		for c := 0; c < x.Blocks(hashing); c++ {
			d := append([]byte(nil), x.Data(hashing, int64(c)*16384, 16384)...)
			if hashFails && c == 0 {
				d[0] ^= 1
			}
			t.Pieces.AddData(uint32(hashing), uint32(c*16384), d, ^uint32(0))
		}
		ps := &t.Pieces
		_ = ps
		piece.VerifYieldHook = func(point string, idx int) {
			if point == "Finalise.beforeHash" && idx == hashing {
				<-hashRelease
			}
		}
		go t.Pieces.Finalise(uint32(hashing), hash.Hash(x.Hashes[hashing]))
		sim.Settle()
		piece.VerifYieldHook = nil
		sim.Cleanup(func() {
			select {
			case <-hashRelease:
			default:
				close(hashRelease)
			}
		})
	}
	// what is allocated at the very moment deletion is reported complete
	atDeleted := make(chan int64, 1)
	go func() {
		<-t.Deleted
		atDeleted <- alloc.Bytes() - base
	}()

	arg := rapid.IntRange(0, 1000).Draw(rt, "arg")
	fillers := rapid.SampledFrom([]int{0, 0, 3, 100}).Draw(rt, "fillers")
	done := make(chan opResult, 2)
	start := func() { go func() { done <- w.runOp(opName, arg) }() }
	hold := func() chan *peer.TorStats {
		ch := make(chan *peer.TorStats)
		t.Event <- peer.TorGetStats{Ch: ch}
		sim.Settle()
		return ch
	}
	// chatty remotes: a burst of messages is on its way to every peer at the
	// moment the torrent stops (each peer's reader has a queue of 32 towards the
	// peer's loop; the loop may notice the torrent's death before it has emptied it)
	chatty := rapid.Bool().Draw(rt, "chattyRemotes")
	chatter := func() {
		if !chatty {
			return
		}
		var burst []byte
		for k := 0; k < 300; k++ {
			burst = append(burst, 0, 0, 0, 0)
		}
		for _, r := range w.remotes {
			r := r
			go r.SendRaw(burst)
		}
	}
	release := func(ch chan *peer.TorStats) {
		chatter()
		select {
		case <-ch:
		case <-t.Done:
		}
	}
	killed := make(chan error, 1)
	switch stop {
	case "already-dead":
		if err := t.Kill(context.Background()); err != nil {
			return "Kill: " + err.Error(), nil
		}
		sim.Settle()
		start()
	case "queued-behind-goaway":
		ch := hold()
		for i := 0; i < fillers; i++ {
			t.Event <- peer.TorAnnounce{IPv6: i%2 == 0}
		}
		t.Event <- peer.TorGoAway{}
		start()
		sim.Settle()
		release(ch)
	case "ahead-of-goaway":
		ch := hold()
		for i := 0; i < fillers; i++ {
			t.Event <- peer.TorAnnounce{IPv6: i%2 == 0}
		}
		start()
		sim.Settle()
		t.Event <- peer.TorGoAway{}
		release(ch)
	case "ctx-cancel":
		ch := hold()
		start()
		sim.Settle()
		w.cancel()
		release(ch)
	case "queue-full":
		ch := hold()
		for len(t.Event) < cap(t.Event) {
			t.Event <- peer.TorAnnounce{}
		}
		start()
		sim.Settle()
		go func() { killed <- t.Kill(context.Background()) }()
		sim.Settle()
		release(ch)
	case "queue-full-ctx-cancel":
		// the loop stops while the queue is still (nearly) full: a sender
		// blocked on the queue must notice Done
		ch := hold()
		for len(t.Event) < cap(t.Event) {
			t.Event <- peer.TorAnnounce{}
		}
		// senders ahead of the operation in the channel's FIFO, so that the
		// few events the loop still consumes do not unblock the operation
		for i := 0; i < 20; i++ {
			go tor.Announce(t.Hash, false)
		}
		sim.Settle()
		start()
		sim.Settle()
		w.cancel()
		release(ch)
	case "burst":
		chatter()
		start()
		go func() { killed <- t.Kill(context.Background()) }()
	case "after-abandoned-read":
		// a client went away (its context ended) while its reader's request was
		// queued behind a busy loop; the loop goes on, answers a request nobody
		// waits for any more, and everything after that must still work
		ch := hold()
		rctx, rcancel := context.WithCancel(context.Background())
		at := int64(0)
		for i := 0; i < x.N; i++ {
			// (a reader of a piece that is there does not have to ask the loop)
			if !t.Pieces.Complete(uint32(i)) && i != hashing {
				at = int64(i) * x.PieceSize
				labels = append(labels, "abandoned-read-had-a-request-queued")
				break
			}
		}
		ard := t.NewReader(rctx, at, min(int64(1000), x.Length-at))
		ares := make(chan error, 1)
		go func() {
			_, err := ard.Read(make([]byte, 100))
			ares <- err
			ard.Close()
		}()
		sim.Settle()
		rcancel()
		sim.Settle()
		release(ch)
		sim.Settle()
		start()
		sim.Settle()
		go func() { killed <- t.Kill(context.Background()) }()
	case "after-timed-out-kill":
		// somebody gave up on a deletion that could not even be queued (the
		// queue was full for longer than they were prepared to wait); the next
		// request to delete the torrent must work all the same
		ch := hold()
		for len(t.Event) < cap(t.Event) {
			t.Event <- peer.TorAnnounce{}
		}
		kctx, kc := context.WithTimeout(context.Background(), time.Second)
		err := t.Kill(kctx)
		kc()
		if err == nil {
			return "Kill returned nil although the torrent's loop was stalled with a full queue and the caller gave up after 1 s", nil
		}
		start()
		sim.Settle()
		go func() { killed <- t.Kill(context.Background()) }()
		sim.Settle()
		release(ch)
	}
	if chatty && len(w.remotes) > 0 && stop != "already-dead" {
		labels = append(labels, "messages-in-flight-to-peers-at-stop")
	}
	// deletion closes peer connections itself, not the peers' five-minute
	// idle time-out: look after 30 s
	time.Sleep(15 * time.Second)
	sim.Settle()
	if hashing >= 0 {
		select {
		case left := <-atDeleted:
			atDeleted <- left
			if left != 0 {
				return fmt.Sprintf("operation %s, stop point %s: deletion was reported complete while a piece was still being hashed and %d bytes of the torrent's memory were still allocated", opName, stop, left), nil
			}
		default:
		}
		// a peer that has not noticed the torrent's death yet delivers blocks, for
		// pieces before and after the one being hashed, while the deletion waits
		if rapid.Bool().Draw(rt, "lateData") {
			for i := 0; i < x.N; i++ {
				if i != hashing {
					t.Pieces.AddData(uint32(i), 0, x.Data(i, 0, 16384), 7)
				}
			}
			labels = append(labels, "data-arrives-while-deletion-waits-for-the-hasher")
		}
		close(hashRelease)
		labels = append(labels, "hash-in-flight-during-deletion")
		if hashFails {
			labels = append(labels, "hash-fails-during-deletion")
		}
	}
	time.Sleep(15 * time.Second)
	sim.Settle()
	select {
	case <-t.Deleted:
		for i, r := range w.remotes {
			if !r.Closed() {
				return fmt.Sprintf("operation %s, stop point %s: connection of peer %d is still open 30 s after deletion completed", opName, stop, i), nil
			}
		}
	default:
	}
	// let everything that is going to happen, happen
	time.Sleep(10 * time.Minute)
	sim.Settle()

	describe := fmt.Sprintf("operation %s, stop point %s (peers=%d readers=%d fillers=%d)", opName, stop, np, nr, fillers)
	select {
	case r := <-done:
		if r.name == "Kill" && r.note != "" {
			return fmt.Sprintf("%s: %s", describe, r.note), nil
		}
		if !acceptable(r.err) && r.name != "tor.Server" && r.name != "tor.Client" {
			// (establishing a connection may fail in many legitimate ways: unknown
			// torrent once it is unlisted, a reset pipe; what counts there is that
			// the call returns and the connection ends up closed)
			return fmt.Sprintf("%s: returned unexpected error %v", describe, r.err), nil
		}
		if r.err != nil {
			labels = append(labels, "returned-dead-error")
		} else {
			labels = append(labels, "returned-result")
		}
	default:
		return fmt.Sprintf("%s: the call has not returned 10 virtual minutes after the torrent stopped; nothing can wake it any more", describe), nil
	}
	// deletion must be complete
	select {
	case <-t.Done:
	default:
		return describe + ": Done is not closed", nil
	}
	select {
	case <-t.Deleted:
	default:
		return describe + ": Deleted is not closed", nil
	}
	if tor.Get(t.Hash) != nil {
		return describe + ": torrent is still listed after deletion", nil
	}
	for i, r := range w.remotes {
		if !r.Closed() {
			return fmt.Sprintf("%s: connection of peer %d is still open after deletion", describe, i), nil
		}
	}
	for i, ch := range blocked {
		select {
		case r := <-ch:
			if !errors.Is(r.err, tor.ErrTorrentDead) {
				return fmt.Sprintf("%s: blocked reader %d ended with %v, want ErrTorrentDead", describe, i, r.err), nil
			}
		default:
			return fmt.Sprintf("%s: reader %d is still blocked after deletion", describe, i), nil
		}
	}
	for _, rd := range w.readers {
		if n, err := rd.Read(make([]byte, 1)); err == nil {
			n2, err2 := rd.Read(make([]byte, 1))
			a1, a2, a3 := t.Request(uint32(x.N-1), 1, true, true)
			describe += fmt.Sprintf(" [Request(N-1)=(%v,%v,%v) complete=%v infoComplete=%v N=%d]", a1, a2, a3, t.Pieces.Complete(uint32(x.N-1)), t.InfoComplete(), x.N)
			return fmt.Sprintf("%s: a reader still reads after deletion: Read returned (%d, nil), then (%d, %v)", describe, n, n2, err2), nil
		}
		rd.Close()
	}
	select {
	case left := <-atDeleted:
		if left != 0 {
			return fmt.Sprintf("%s: %d bytes of piece memory were still allocated at the moment deletion was reported complete", describe, left), nil
		}
	default:
		return describe + ": deletion never completed", nil
	}
	if got := alloc.Bytes(); got != base {
		return fmt.Sprintf("%s: %d bytes of piece memory remain allocated after deletion", describe, got-base), nil
	}
	if got := peer.NumUnchoking(); got != baseUnchoke {
		return fmt.Sprintf("%s: unchoke counter is %d after deletion (was %d)", describe, got, baseUnchoke), nil
	}
	for _, r := range w.remotes {
		r.Close()
	}
	return "", labels
}

func runCell(t *testing.T, rt *rapid.T, opName, stop string) {
	var fail string
	var labels []string
	leak := sim.Bubble(t, func() { fail, labels = oneCase(rt, opName, stop) })
	if fail != "" {
		// (a torrent that could not be deleted stays behind and spoils the re-runs
		// rapid makes to shrink the case: the first failure goes to the output too)
		fmt.Printf("TestC17Cells: %s\n", fail)
		rt.Fatalf("%s", fail)
	}
	if leak != "" {
		fmt.Printf("TestC17Cells: operation %s, stop point %s: goroutines still blocked after deletion (%.300s)\n", opName, stop, leak)
		rt.Fatalf("operation %s, stop point %s: goroutines started by the torrent are still blocked after deletion (%s)", opName, stop, leak)
	}
	nontrivial := stop != "already-dead"
	stats.Case(opName+"/"+stop+"/"+fmt.Sprint(labels), nontrivial, append(labels, "op:"+opName, "stop:"+stop, "cell:"+opName+"@"+stop)...)
	if stats.WantSample("cell") {
		stats.Sample("cell", map[string]any{"op": opName, "stop": stop, "outcome": labels})
	}
}

// Every operation x stop-point cell, several parameter draws each.
func TestC17Cells(t *testing.T) {
	rapid.Check(t, func(rt *rapid.T) {
		for _, op := range opNames {
			for _, stop := range stopNames {
				runCell(t, rt, op, stop)
			}
		}
		stats.Exhaustive("operation x stop-point cells")
	})
}

// Regression: TorRequest queued behind TorGoAway — Torrent.Request waited for
// its reply without watching Done.
func TestReg_c17_request_behind_goaway(t *testing.T) {
	rapid.Check(t, func(rt *rapid.T) {
		runCell(t, rt, "Request(want)", "queued-behind-goaway")
		runCell(t, rt, "Reader.ReadBlocked", "queued-behind-goaway")
	})
}

// Regression: NewPeer on a dead torrent reported success and leaked the connection.
func TestReg_c17_newpeer_dead(t *testing.T) {
	rapid.Check(t, func(rt *rapid.T) {
		for i := 0; i < 8; i++ {
			runCell(t, rt, "NewPeer", "already-dead")
			runCell(t, rt, "NewPeer", "queued-behind-goaway")
		}
	})
}

// Regression: Reads on a deleted torrent alternated between ErrTorrentDead and (0, nil).
func TestReg_c17_reader_after_death(t *testing.T) {
	rapid.Check(t, func(rt *rapid.T) {
		for i := 0; i < 4; i++ {
			runCell(t, rt, "Request(withdraw)", "ctx-cancel")
		}
	})
}

type pipeConn struct {
	net.Conn
	remote net.Addr
}

func (p pipeConn) RemoteAddr() net.Addr { return p.remote }
