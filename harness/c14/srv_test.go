package c14

// A scripted loopback HTTP/1.1 server with complete control over the bytes
// of the response (status line, headers, framing, body, where the connection
// is cut).  One server per test process; each case installs its own handler.

import (
	"bufio"
	"bytes"
	"fmt"
	"net"
	"net/http"
	"sync"
	"time"
)

type reqRec struct {
	method   string
	uri      string // request target as sent
	path     string // decoded path
	rawQuery string
	rng      string // Range header
	hasRange bool
}

func (r reqRec) String() string {
	return fmt.Sprintf("%s %s (decoded path %q) Range=%q", r.method, r.uri, r.path, r.rng)
}

// answer is what the server writes for one request.
type answer struct {
	status  int
	reason  string
	headers []string // complete "Name: value" lines
	framing string   // "cl" (Content-Length = clValue), "chunked", "close" (delimited by closing)
	clValue int64
	body    []byte // bytes put on the wire as body (before chunk framing)
	chunks  []int  // chunk sizes for "chunked" (cycled; default 4096)
	cut     bool   // close the connection abruptly after the body bytes (no chunk terminator)
	close   bool   // close the connection after the response
}

func (a *answer) selfDelimiting() bool {
	switch a.framing {
	case "cl":
		return a.clValue == int64(len(a.body))
	case "chunked":
		return !a.cut
	}
	return false
}

func (a *answer) raw() []byte {
	var b bytes.Buffer
	reason := a.reason
	if reason == "" {
		reason = http.StatusText(a.status)
	}
	fmt.Fprintf(&b, "HTTP/1.1 %d %s\r\n", a.status, reason)
	for _, h := range a.headers {
		b.WriteString(h + "\r\n")
	}
	switch a.framing {
	case "cl":
		fmt.Fprintf(&b, "Content-Length: %d\r\n", a.clValue)
	case "chunked":
		b.WriteString("Transfer-Encoding: chunked\r\n")
	}
	if !a.selfDelimiting() || a.close {
		b.WriteString("Connection: close\r\n")
	}
	b.WriteString("\r\n")
	if a.framing == "chunked" {
		body := a.body
		for k := 0; len(body) > 0; k++ {
			n := 4096
			if len(a.chunks) > 0 {
				n = a.chunks[k%len(a.chunks)]
			}
			n = max(1, min(n, len(body)))
			fmt.Fprintf(&b, "%x\r\n", n)
			b.Write(body[:n])
			b.WriteString("\r\n")
			body = body[n:]
		}
		if !a.cut {
			b.WriteString("0\r\n\r\n")
		}
	} else {
		b.Write(a.body)
	}
	return b.Bytes()
}

type server struct {
	ln      net.Listener
	base    string // http://127.0.0.1:port
	mu      sync.Mutex
	handler func(r reqRec, nth int) *answer
	reqs    []reqRec
	conns   map[net.Conn]struct{}
}

var theServer *server
var serverOnce sync.Once

func getServer() *server {
	serverOnce.Do(func() {
		ln, err := net.Listen("tcp4", "127.0.0.1:0")
		if err != nil {
			panic(err)
		}
		s := &server{ln: ln, base: "http://" + ln.Addr().String(), conns: map[net.Conn]struct{}{}}
		go s.accept()
		theServer = s
	})
	return theServer
}

func (s *server) accept() {
	for {
		c, err := s.ln.Accept()
		if err != nil {
			return
		}
		s.mu.Lock()
		s.conns[c] = struct{}{}
		s.mu.Unlock()
		go s.serve(c)
	}
}

func (s *server) serve(c net.Conn) {
	defer func() {
		c.Close()
		s.mu.Lock()
		delete(s.conns, c)
		s.mu.Unlock()
	}()
	br := bufio.NewReader(c)
	for {
		req, err := http.ReadRequest(br)
		if err != nil {
			return
		}
		rec := reqRec{method: req.Method, uri: req.RequestURI, path: req.URL.Path, rawQuery: req.URL.RawQuery}
		if v, ok := req.Header["Range"]; ok && len(v) > 0 {
			rec.rng, rec.hasRange = v[0], true
		}
		s.mu.Lock()
		h := s.handler
		nth := len(s.reqs)
		s.reqs = append(s.reqs, rec)
		s.mu.Unlock()
		var a *answer
		if h != nil {
			a = h(rec, nth)
		}
		if a == nil {
			a = &answer{status: 500, framing: "cl", close: true}
		}
		c.SetWriteDeadline(time.Now().Add(30 * time.Second))
		if _, err := c.Write(a.raw()); err != nil {
			return
		}
		if !a.selfDelimiting() || a.close || req.Close {
			return
		}
	}
}

// script installs the handler of the current case and forgets old requests.
func (s *server) script(h func(r reqRec, nth int) *answer) {
	s.mu.Lock()
	s.handler = h
	s.reqs = nil
	s.mu.Unlock()
}

func (s *server) requests() []reqRec {
	s.mu.Lock()
	defer s.mu.Unlock()
	return append([]reqRec(nil), s.reqs...)
}
