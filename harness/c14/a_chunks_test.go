package c14

// Layer (a): fileChunks (through the forwarder tor.VerifFileChunks) maps a
// range of a piece to the right byte ranges of the right files, covering it
// exactly once.

import (
	"fmt"
	"testing"

	"pgregory.net/rapid"

	"github.com/jech/storrent/tor"

	"verif/stats"
)

// checkChunks is the oracle of layer (a): a validity predicate over the
// chunk list, evaluated against the independent ownership map.
func checkChunks(l *layout, index int, offset, length int64, got []tor.VerifFileChunk) string {
	p := int64(index)*l.ps + offset
	end := p + length
	for k, c := range got {
		if c.Length <= 0 {
			return fmt.Sprintf("chunk %d is empty (length %d): it would be fetched as a bogus range", k, c.Length)
		}
		if p >= end {
			return fmt.Sprintf("chunk %d starts at torrent offset %d, beyond the end %d of the range (range covered more than once)", k, p, end)
		}
		fi, fo := l.owner(p)
		if fi == -2 {
			return fmt.Sprintf("chunk %d: torrent offset %d belongs to no file", k, p)
		}
		var wantPath []string
		wantLen := l.total
		wantPad := false
		if fi >= 0 {
			wantPath, wantLen, wantPad = l.files[fi].path, l.files[fi].length, l.files[fi].pad
		}
		if !pathEq(c.Path, wantPath) {
			return fmt.Sprintf("chunk %d: torrent offset %d is in file %d %q, chunk names %q", k, p, fi, wantPath, []string(c.Path))
		}
		if c.FileLength != wantLen {
			return fmt.Sprintf("chunk %d: file length %d, file table says %d", k, c.FileLength, wantLen)
		}
		if c.Pad != wantPad {
			return fmt.Sprintf("chunk %d: padding flag %v, file table says %v", k, c.Pad, wantPad)
		}
		if c.Offset != fo {
			return fmt.Sprintf("chunk %d: torrent offset %d is byte %d of file %d, chunk says byte %d", k, p, fo, fi, c.Offset)
		}
		if c.Offset+c.Length > wantLen {
			return fmt.Sprintf("chunk %d: [%d,%d) runs past the end %d of its file", k, c.Offset, c.Offset+c.Length, wantLen)
		}
		if p+c.Length > end {
			return fmt.Sprintf("chunk %d: ends at torrent offset %d, beyond the end %d of the range", k, p+c.Length, end)
		}
		// every byte of the chunk maps back to consecutive torrent offsets:
		// holds because the chunk lies inside one file and starts at p.
		p += c.Length
	}
	if p != end {
		return fmt.Sprintf("chunks cover [%d,%d) of the range [%d,%d): %d bytes not covered", int64(index)*l.ps+offset, p, int64(index)*l.ps+offset, end, end-p)
	}
	return ""
}

// genRange draws (index, offset, length) with offset block-aligned and the
// range inside the piece.  blockEnd: length is a whole number of blocks or
// reaches the piece end (what maybeWebseed produces).
func genRange(t *rapid.T, l *layout, blockEnd bool) (index int, offset, length int64) {
	index = rapid.IntRange(0, l.npieces()-1).Draw(t, "index")
	if rapid.IntRange(0, 3).Draw(t, "lastpiece") == 0 {
		index = l.npieces() - 1
	}
	return genRangeAt(t, l, index, blockEnd)
}

func genRangeIn(t *rapid.T, l *layout, index int) (int, int64, int64) {
	return genRangeAt(t, l, index, false)
}

func genRangeAt(t *rapid.T, l *layout, index int, blockEnd bool) (_ int, offset, length int64) {
	nb := l.nblocks(index)
	b0 := rapid.IntRange(0, nb-1).Draw(t, "firstblock")
	if rapid.Bool().Draw(t, "fromstart") {
		b0 = 0
	}
	offset = int64(b0) * blk
	pl := l.pieceLen(index)
	if blockEnd || rapid.Bool().Draw(t, "wholeblocks") {
		b1 := rapid.IntRange(b0+1, nb).Draw(t, "endblock")
		if rapid.IntRange(0, 2).Draw(t, "toend") == 0 {
			b1 = nb
		}
		length = min(int64(b1)*blk, pl) - offset
	} else {
		length = rapid.Int64Range(1, pl-offset).Draw(t, "length")
	}
	return index, offset, length
}

func TestC14aFileChunks(t *testing.T) {
	rapid.Check(t, func(t *rapid.T) {
		l := genLayout(t, layoutOpts{maxPieces: 6, giant: true})
		tr := l.parse(t, nil, nil, nil)
		index, offset, length := genRange(t, l, false)
		if l.giant && rapid.Bool().Draw(t, "beyond") {
			// aim beyond the 4 GiB line
			first := int((1 << 32) / l.ps)
			index = rapid.IntRange(max(first-1, 0), l.npieces()-1).Draw(t, "giantIndex")
			_, offset, length = genRangeIn(t, l, index)
		}
		got := tor.VerifFileChunks(tr, uint32(index), uint32(offset), uint32(length))
		if f := checkChunks(l, index, offset, length, got); f != "" {
			t.Fatalf("C14(a) range→file mapping: %s\nlayout: %v\nrange: piece %d offset %d length %d\nchunks: %+v", f, l, index, offset, length, got)
		}
		labels := l.labels()
		model := l.chunksOf(int64(index)*l.ps+offset, length)
		pads, small := 0, 0
		for _, c := range model {
			if c.pad {
				pads++
			}
			if c.flength < blk && c.file >= 0 {
				small++
			}
		}
		if pads > 0 {
			labels = append(labels, "padding-file-in-range")
		}
		if small > 0 {
			labels = append(labels, "file-shorter-than-block")
		}
		if len(model) >= 2 {
			labels = append(labels, "range-spans-files")
		}
		if len(model) >= 4 {
			labels = append(labels, "range-spans-4+-files")
		}
		if length%blk != 0 {
			labels = append(labels, "length-not-block-multiple")
		}
		if int64(index)*l.ps+offset+length > 1<<32 {
			labels = append(labels, "range-beyond-4GiB")
			if int64(index)*l.ps+offset < 1<<32 {
				labels = append(labels, "range-across-4GiB")
			}
		}
		if int64(index)*l.ps+offset+length == l.total && l.total%blk != 0 {
			labels = append(labels, "range-to-short-last-block")
		}
		stats.Case(fmt.Sprintf("a|%d|%d|%d|%d|%d|%d", l.ps/blk, len(l.files), len(model), pads, small, length%blk), len(model) >= 2, labels...)
		if stats.WantSample("range-spans-files") && len(model) >= 2 {
			stats.Sample("range-spans-files", fmt.Sprintf("%v range=(%d,%d,%d) chunks=%+v", l, index, offset, length, got))
		}
	})
}
