// C14 — web-seed data lands exactly where it belongs.
//
// Shared part: generated file layouts, metainfo built with the independent
// bencoder, the independent byte → (file, offset) map, storrent globals.
package c14

import (
	"bytes"
	"crypto/sha1"
	"fmt"
	"io"
	"strings"
	"sync"
	"testing"
	"time"

	"pgregory.net/rapid"

	"github.com/jech/storrent/config"
	"github.com/jech/storrent/httpclient"
	"github.com/jech/storrent/peer"
	"github.com/jech/storrent/tor"

	"verif/gen"
	"verif/ref"
	"verif/stats"
)

func TestMain(m *testing.M) { stats.Main(m) }

// tb is what the case bodies need from *rapid.T or *testing.T, so that the
// regression tests can replay a fixed history without rapid.
type tb interface {
	Fatalf(format string, args ...any)
	Skip(args ...any)
}

const blk = 16384

var initOnce sync.Once

// initGlobals sets storrent's globals the way main() does.
func initGlobals() {
	initOnce.Do(func() {
		config.SetDefaultProxy("")
		config.MemoryMark = 1 << 30
		config.PrefetchRate = 768 * 1024
		config.DefaultDhtMode = config.DhtNone
		config.DefaultUseTrackers = false
		peer.UploadEstimator.Init(3 * time.Second)
		peer.DownloadEstimator.Init(3 * time.Second)
		httpclient.Get("", "")
	})
	// reset per case: the only global the web-seed path reads at torrent creation
	config.DefaultUseWebseeds = true
}

// ------------------------------------------------------------------ layout

type fspec struct {
	path   []string
	length int64
	pad    bool
}

type layout struct {
	name     string
	ps       int64   // piece size
	files    []fspec // nil: single-file torrent
	total    int64
	seed     uint64
	escaping bool // some name needs URL escaping
	huge     bool // pieces of 1 MiB and more
	giant    bool // more than 4 GiB
}

func (l *layout) String() string {
	var b strings.Builder
	fmt.Fprintf(&b, "name=%q piece=%d total=%d", l.name, l.ps, l.total)
	if l.files == nil {
		b.WriteString(" single-file")
	}
	for i, f := range l.files {
		fmt.Fprintf(&b, " [%d:%q len=%d", i, strings.Join(f.path, "/"), f.length)
		if f.pad {
			b.WriteString(" pad")
		}
		b.WriteString("]")
	}
	return b.String()
}

func (l *layout) npieces() int { return int((l.total + l.ps - 1) / l.ps) }

func (l *layout) pieceLen(i int) int64 {
	return min(l.ps, l.total-int64(i)*l.ps)
}

func (l *layout) nblocks(i int) int { return int((l.pieceLen(i) + blk - 1) / blk) }

func (l *layout) blockLen(i, b int) int64 { return min(blk, l.pieceLen(i)-int64(b)*blk) }

// content is a pure function of the layout: pseudo-random bytes, zeros in
// padding files (that is what storrent synthesises for them).
func (l *layout) content() []byte {
	c := gen.Fill(l.seed, int(l.total))
	if l.files != nil {
		var off int64
		for _, f := range l.files {
			if f.pad {
				clear(c[off : off+f.length])
			}
			off += f.length
		}
	}
	return c
}

var safeNames = rapid.StringMatching(`[a-zA-Z0-9._-]{1,8}`)
var oddNames = []string{"x y", "é", "日本", "a+b", "a&b=c", "a,b", "a:b", "~t", "(1)", "a'b"}
var escNames = []string{"a?b", "a#b", "%41", "100%", "a%zzb", "q?", "#", "a;b?c=d"}

func genComponent(t *rapid.T, label string, l *layout, allowEsc bool) string {
	switch k := rapid.IntRange(0, 9).Draw(t, label+".class"); {
	case k == 0:
		return rapid.SampledFrom(oddNames).Draw(t, label)
	case k == 1 && allowEsc:
		l.escaping = true
		return rapid.SampledFrom(escNames).Draw(t, label)
	default:
		s := safeNames.Draw(t, label)
		if s == "." || s == ".." {
			s = "dot"
		}
		return s
	}
}

type layoutOpts struct {
	maxPieces int  // cap on the number of pieces (cost)
	noEsc     bool // never draw names that need escaping
	grow      bool // usually make the torrent at least a few blocks long
	big       bool // prefer pieces of several blocks
	huge      bool // now and then pieces of 1-4 MiB (storrent fetches at most 1 MiB, or 5 s worth, at a time)
	giant     bool // now and then a torrent of more than 4 GiB (geometry only: no content is built)
}

// genLayout draws a valid geometry: 1–10 files (or single-file), padding
// files, 1-byte files, empty files, files spanning pieces, piece size
// 16–128 KiB, last block short or not.
func genLayout(t *rapid.T, o layoutOpts) *layout {
	l := &layout{seed: rapid.Uint64().Draw(t, "seed")}
	allowEsc := !o.noEsc
	l.name = genComponent(t, "name", l, allowEsc)
	l.ps = blk * rapid.SampledFrom([]int64{1, 1, 2, 2, 2, 3, 4, 4, 5, 8}).Draw(t, "blocksPerPiece")
	if o.big && l.ps == blk && rapid.IntRange(0, 3).Draw(t, "bigger") != 0 {
		l.ps = blk * rapid.SampledFrom([]int64{2, 3, 4, 8}).Draw(t, "blocksPerPiece2")
	}
	if o.huge && rapid.IntRange(0, 7).Draw(t, "huge") == 0 {
		l.ps = blk * rapid.SampledFrom([]int64{64, 65, 66, 96, 128, 129, 160, 256, 256, 512}).Draw(t, "blocksPerHugePiece")
		o.maxPieces = 2
		l.huge = true
	}
	var giantTotal int64
	if o.giant && rapid.IntRange(0, 7).Draw(t, "giant") == 0 {
		// more than 4 GiB: torrent offsets no longer fit 32 bits
		l.ps = blk * rapid.SampledFrom([]int64{16, 64, 256}).Draw(t, "blocksPerGiantPiece")
		l.giant = true
		giantTotal = 1<<32 + rapid.SampledFrom([]int64{1, blk, l.ps, 3*l.ps + 1, 1 << 29}).Draw(t, "beyond4GiB")
		o.maxPieces = int((giantTotal+1<<28)/l.ps) + 1
	}
	if o.maxPieces == 0 {
		o.maxPieces = 5
	}
	budget := l.ps * int64(o.maxPieces)
	if rapid.IntRange(0, 3).Draw(t, "single") == 0 {
		l.total = genLen(t, "length", l.ps, budget)
		if o.grow {
			l.total = max(l.total, rapid.SampledFrom([]int64{0, 2 * blk, 3 * blk, l.ps, l.ps + blk, 2 * l.ps}).Draw(t, "mintotal"))
		}
		if l.huge {
			l.total = max(l.total, rapid.SampledFrom([]int64{l.ps - blk, l.ps, l.ps, l.ps + 1, 2*l.ps - 1, 2 * l.ps}).Draw(t, "hugetotal"))
		}
		l.total = max(l.total, giantTotal)
		l.total = fixTail(t, l.total, budget)
		return l
	}
	n := rapid.IntRange(1, 10).Draw(t, "nfiles")
	var total int64
	for i := 0; i < n; i++ {
		var f fspec
		left := budget - total
		switch k := rapid.IntRange(0, 11).Draw(t, "fclass"); {
		case left <= 0 || k == 0:
			f.length = 0
		case k == 1 || k == 2:
			f.length = 1
		case k == 3:
			// padding file up to the next block / piece boundary
			unit := rapid.SampledFrom([]int64{blk, l.ps}).Draw(t, "padunit")
			f.length = (unit - total%unit) % unit
			f.pad = true
		case k == 4:
			f.pad = true
			f.length = min(left, rapid.Int64Range(1, 40000).Draw(t, "padlen"))
		case k == 5 || k == 6:
			f.length = min(left, rapid.Int64Range(1, 2*blk).Draw(t, "smallflen"))
		default:
			f.length = min(left, genLen(t, "flen", l.ps, left))
		}
		if f.pad {
			f.path = []string{".pad", fmt.Sprint(f.length)}
			if rapid.Bool().Draw(t, "padname") {
				f.path = []string{fmt.Sprintf("_____padding_file_%d_", i)}
			}
		} else {
			if rapid.IntRange(0, 2).Draw(t, "subdir") == 0 {
				f.path = append(f.path, genComponent(t, "dir", l, allowEsc))
			}
			// the index keeps URLs unique, so a scripted server can tell files apart
			f.path = append(f.path, fmt.Sprintf("%d-", i)+genComponent(t, "fname", l, allowEsc))
		}
		total += f.length
		l.files = append(l.files, f)
	}
	// the last real file absorbs the tail adjustment; make sure the torrent is not empty
	if o.grow {
		total0 := total
		total = max(total, rapid.SampledFrom([]int64{0, 2 * blk, 3 * blk, l.ps, l.ps + blk, 2 * l.ps}).Draw(t, "mintotal"))
		if l.huge {
			total = max(total, rapid.SampledFrom([]int64{l.ps - blk, l.ps, l.ps, l.ps + 1, 2*l.ps - 1, 2 * l.ps}).Draw(t, "hugetotal"))
		}
		if total != total0 {
			k := len(l.files) - 1
			for k > 0 && l.files[k].pad {
				k--
			}
			l.files[k].length += total - total0
		}
	}
	if total < giantTotal {
		// one of the real files is very long (it may lie before, across or
		// after the 4 GiB line, depending on which)
		var real []int
		for k, f := range l.files {
			if !f.pad {
				real = append(real, k)
			}
		}
		if len(real) == 0 {
			l.files = append(l.files, fspec{path: []string{"big"}})
			real = []int{len(l.files) - 1}
		}
		l.files[rapid.SampledFrom(real).Draw(t, "giantFile")].length += giantTotal - total
		total = giantTotal
	}
	want := fixTail(t, max(total, 1), budget)
	if want != total {
		k := len(l.files) - 1
		for k > 0 && l.files[k].pad {
			k--
		}
		if want > total {
			l.files[k].length += want - total
			if l.files[k].pad {
				l.files[k].path = []string{".pad", fmt.Sprint(l.files[k].length)}
			}
		} else {
			// shrink from the end
			d := total - want
			for j := len(l.files) - 1; j >= 0 && d > 0; j-- {
				c := min(d, l.files[j].length)
				l.files[j].length -= c
				d -= c
			}
		}
	}
	l.total = 0
	for _, f := range l.files {
		l.total += f.length
	}
	return l
}

func genLen(t *rapid.T, label string, ps, cap int64) int64 {
	var n int64
	switch rapid.IntRange(0, 7).Draw(t, label+".class") {
	case 0:
		n = rapid.Int64Range(1, 100).Draw(t, label)
	case 1:
		n = rapid.Int64Range(1, blk-1).Draw(t, label)
	case 2:
		n = rapid.SampledFrom([]int64{blk - 1, blk, blk + 1, 2 * blk, 2*blk + 1}).Draw(t, label)
	case 3:
		n = ps + rapid.Int64Range(-2, 2).Draw(t, label)
	case 4:
		n = rapid.Int64Range(ps, 3*ps).Draw(t, label)
	default:
		n = rapid.Int64Range(1, max(1, cap)).Draw(t, label)
	}
	return max(1, min(n, max(1, cap)))
}

// fixTail steers total%16384 towards the interesting residues.
func fixTail(t *rapid.T, total, budget int64) int64 {
	base := total - total%blk
	var n int64
	switch rapid.IntRange(0, 7).Draw(t, "tailclass") {
	case 0:
		n = base // last block full (or one block less)
	case 1:
		n = base + 1
	case 2:
		n = base + blk - 1
	case 3:
		n = base + blk
	default:
		n = total
	}
	if n < 1 {
		n = total
	}
	return n
}

// metainfo serialises the layout with the independent bencoder.  hashes: true
// piece hashes of content (nil content → filler hashes).
func (l *layout) metainfo(content []byte, urlList, httpseeds []string) []byte {
	np := l.npieces()
	pieces := make([]byte, 0, np*20)
	for i := 0; i < np; i++ {
		if content == nil {
			pieces = append(pieces, gen.Fill(uint64(i)+7, 20)...)
			continue
		}
		off := int64(i) * l.ps
		h := sha1.Sum(content[off : off+l.pieceLen(i)])
		pieces = append(pieces, h[:]...)
	}
	id := map[string]any{"name": l.name, "piece length": l.ps, "pieces": pieces}
	if l.files == nil {
		id["length"] = l.total
	} else {
		var fl []any
		for _, f := range l.files {
			p := make([]any, len(f.path))
			for i, s := range f.path {
				p[i] = s
			}
			fd := map[string]any{"length": f.length, "path": p}
			if f.pad {
				fd["attr"] = "p"
			}
			fl = append(fl, fd)
		}
		id["files"] = fl
	}
	td := map[string]any{"info": id}
	if len(urlList) > 0 {
		var u []any
		for _, s := range urlList {
			u = append(u, s)
		}
		td["url-list"] = u
	}
	if len(httpseeds) > 0 {
		var u []any
		for _, s := range httpseeds {
			u = append(u, s)
		}
		td["httpseeds"] = u
	}
	return ref.Benc(td)
}

// parse runs the real parser on the layout's metainfo and checks that the
// geometry storrent derived is the layout's (trusted base of every layer).
func (l *layout) parse(t tb, content []byte, urlList, httpseeds []string) *tor.Torrent {
	initGlobals()
	tr, err := tor.ReadTorrent("", bytes.NewReader(l.metainfo(content, urlList, httpseeds)))
	if err != nil {
		t.Fatalf("harness: ReadTorrent refused a valid layout (%v): %v", l, err)
	}
	tr.Log.SetOutput(io.Discard)
	if int64(tr.Pieces.PieceSize()) != l.ps || tr.Pieces.Length() != l.total || len(tr.Files) != len(l.files) || tr.Name != l.name {
		t.Fatalf("harness: parsed geometry differs from the layout %v", l)
	}
	return tr
}

// ------------------------------------------------------------------ byte map

// owner is the independent map from a torrent offset to the file holding it:
// the unique file with Offset <= p < Offset+Length (empty files own nothing).
// For a single-file torrent it returns index -1 and the offset itself.
func (l *layout) owner(p int64) (file int, fileOff int64) {
	if l.files == nil {
		return -1, p
	}
	var off int64
	for i, f := range l.files {
		if p >= off && p < off+f.length {
			return i, p - off
		}
		off += f.length
	}
	return -2, 0
}

// mchunk is one maximal run of a torrent range inside one file.
type mchunk struct {
	file    int // -1 single-file
	path    []string
	flength int64
	off     int64
	length  int64
	pad     bool
}

// chunksOf partitions the torrent range [o, o+n) by file, independently of
// storrent's fileChunks (walks byte ownership run by run).
func (l *layout) chunksOf(o, n int64) []mchunk {
	var out []mchunk
	for n > 0 {
		fi, fo := l.owner(o)
		var c mchunk
		if fi == -1 {
			c = mchunk{file: -1, flength: l.total, off: fo, length: n}
		} else {
			f := l.files[fi]
			c = mchunk{file: fi, path: f.path, flength: f.length, off: fo, length: min(n, f.length-fo), pad: f.pad}
		}
		out = append(out, c)
		o += c.length
		n -= c.length
	}
	return out
}

// fileBytes returns the content of file fi (-1: the single file).
func (l *layout) fileBytes(content []byte, fi int) []byte {
	if fi == -1 {
		return content
	}
	var off int64
	for i, f := range l.files {
		if i == fi {
			return content[off : off+f.length]
		}
		off += f.length
	}
	return nil
}

func pathEq(a, b []string) bool {
	if len(a) != len(b) {
		return false
	}
	for i := range a {
		if a[i] != b[i] {
			return false
		}
	}
	return true
}

// layoutLabels are the geometry classes shared by all layers.
func (l *layout) labels() []string {
	var ls []string
	if l.files == nil {
		ls = append(ls, "single-file")
	} else {
		ls = append(ls, "multi-file")
	}
	if l.total%blk != 0 {
		ls = append(ls, "short-last-block")
	} else {
		ls = append(ls, "full-last-block")
	}
	if l.escaping {
		ls = append(ls, "names-needing-escaping")
	}
	for _, f := range l.files {
		if f.length == 0 {
			ls = append(ls, "empty-file")
			break
		}
	}
	return ls
}

var _ = testing.Short
