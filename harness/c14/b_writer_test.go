package c14

// Layer (b): tor.NewWriter used black-box.  A byte stream (short, exact or
// over-long) is cut into drawn Write and ReadFrom calls; the oracle is a
// byte-exact placement model of the piece plus accounting of the events the
// writer puts on t.Event.

import (
	"bytes"
	"crypto/sha1"
	"errors"
	"fmt"
	"io"
	"strings"
	"testing"

	"pgregory.net/rapid"

	"github.com/jech/storrent/hash"
	"github.com/jech/storrent/peer"
	"github.com/jech/storrent/tor"

	"verif/gen"
	"verif/stats"
)

// the method set of the unexported *tor.writer
type wr interface {
	io.Writer
	io.ReaderFrom
	io.Closer
}

var errScripted = errors.New("scripted read error")

// read script: one entry per Read call
type readStep struct {
	n    int  // bytes to hand out (clipped to len(p) and to what the call may still deliver)
	fail bool // return errScripted with these bytes
	eof  bool // return io.EOF with these bytes
}

type scriptedReader struct {
	data     []byte // what this call may deliver
	pos      int
	steps    []readStep
	k        int
	reads    int
	failed   bool
	together bool // report EOF together with the last bytes
}

func (r *scriptedReader) Read(p []byte) (int, error) {
	r.reads++
	if len(p) == 0 {
		return 0, nil
	}
	if r.pos >= len(r.data) {
		return 0, io.EOF
	}
	s := readStep{n: len(r.data)}
	if r.k < len(r.steps) {
		s = r.steps[r.k]
		r.k++
	}
	n := min(s.n, len(p), len(r.data)-r.pos)
	copy(p, r.data[r.pos:r.pos+n])
	r.pos += n
	switch {
	case s.fail:
		r.failed = true
		return n, errScripted
	case s.eof:
		// the source ends early; what it did not deliver stays in the stream
		r.data = r.data[:r.pos]
		return n, io.EOF
	case r.pos >= len(r.data) && r.together:
		return n, io.EOF
	}
	return n, nil
}

type wcall struct {
	kind     string // write | readfrom | close | peerblock | complete
	n        int    // write: len(p); readfrom: bytes the reader may deliver
	steps    []readStep
	together bool
	block    int // peerblock: block of the piece that "a peer" delivers meanwhile
}

func (c wcall) String() string {
	switch c.kind {
	case "write":
		return fmt.Sprintf("Write(%d)", c.n)
	case "readfrom":
		var s []string
		for _, st := range c.steps {
			x := fmt.Sprint(st.n)
			if st.fail {
				x += "!err"
			}
			if st.eof {
				x += "!eof"
			}
			s = append(s, x)
		}
		return fmt.Sprintf("ReadFrom(%d bytes as %s)", c.n, strings.Join(s, ","))
	case "peerblock":
		return fmt.Sprintf("peer-delivers-block(%d)", c.block)
	}
	return c.kind
}

func genSize(t *rapid.T, label string) int {
	switch rapid.IntRange(0, 7).Draw(t, label+".class") {
	case 0:
		return rapid.IntRange(0, 3).Draw(t, label)
	case 1:
		return rapid.IntRange(1, 200).Draw(t, label)
	case 2:
		return rapid.SampledFrom([]int{blk - 1, blk, blk + 1, 2 * blk, 32767, 32768, 32769, 65536}).Draw(t, label)
	case 3:
		return rapid.IntRange(blk, 65536).Draw(t, label)
	default:
		return rapid.IntRange(1, blk+100).Draw(t, label)
	}
}

func genCalls(t *rapid.T, nb int) []wcall {
	n := rapid.IntRange(1, 12).Draw(t, "ncalls")
	var calls []wcall
	closed := false
	for i := 0; i < n; i++ {
		var c wcall
		switch k := rapid.IntRange(0, 24).Draw(t, "callkind"); {
		case k >= 20:
			// mostly ReadFrom with plain big reads, so that streams get somewhere
			c = wcall{kind: "readfrom", n: rapid.IntRange(1, 3*blk).Draw(t, "rlenplain"), together: rapid.Bool().Draw(t, "eofTogether")}
		case k < 7:
			c = wcall{kind: "write", n: genSize(t, "wlen")}
		case k < 16:
			c = wcall{kind: "readfrom", n: genSize(t, "rlen")}
			if rapid.IntRange(0, 3).Draw(t, "bigread") == 0 {
				c.n = rapid.IntRange(blk, 9*blk).Draw(t, "rlenbig")
			}
			c.together = rapid.Bool().Draw(t, "eofTogether")
			ns := rapid.IntRange(0, 6).Draw(t, "nsteps")
			for j := 0; j < ns; j++ {
				st := readStep{n: genSize(t, "step")}
				switch rapid.IntRange(0, 11).Draw(t, "stepkind") {
				case 0:
					st.fail = true
				case 1:
					st.eof = true
				case 2:
					st.n = 0
				}
				c.steps = append(c.steps, st)
				if st.fail || st.eof {
					break
				}
			}
		case k == 16:
			c = wcall{kind: "peerblock", block: rapid.IntRange(0, nb-1).Draw(t, "peerblock")}
		case k == 17:
			c = wcall{kind: "complete"}
		default:
			if closed && rapid.Bool().Draw(t, "skipclose") {
				continue
			}
			c = wcall{kind: "close"}
			closed = true
		}
		calls = append(calls, c)
	}
	return calls
}

type wevent struct {
	data          bool
	begin, length int64
	complete      bool
}

func drainEvents(t tb, tr *tor.Torrent, index int) []wevent {
	var out []wevent
	for {
		select {
		case e := <-tr.Event:
			switch e := e.(type) {
			case peer.TorData:
				if e.Peer != nil || int(e.Index) != index {
					t.Fatalf("C14(b): TorData for peer %v piece %d, writer is on piece %d", e.Peer, e.Index, index)
				}
				out = append(out, wevent{true, int64(e.Begin), int64(e.Length), e.Complete})
			case peer.TorDrop:
				if int(e.Index) != index {
					t.Fatalf("C14(b): TorDrop for piece %d, writer is on piece %d", e.Index, index)
				}
				out = append(out, wevent{false, int64(e.Begin), int64(e.Length), false})
			default:
				t.Fatalf("C14(b): unexpected event %#v from a writer", e)
			}
		default:
			return out
		}
	}
}

func TestC14bWriter(t *testing.T) {
	rapid.Check(t, func(t *rapid.T) { writerCase(t, t, nil) })
}

// writerCase runs one case; fixed != nil replays a hand-written history.
type fixedWriterCase struct {
	l              *layout
	index          int
	offset, length int64
	prefilled      []int
	streamLen      int
	calls          []wcall
}

func writerCase(t tb, rt *rapid.T, fixed *fixedWriterCase) {
	var l *layout
	var index int
	var offset, length int64
	var calls []wcall
	var streamLen int
	pre := map[int]bool{}
	if fixed != nil {
		l, index, offset, length, calls, streamLen = fixed.l, fixed.index, fixed.offset, fixed.length, fixed.calls, fixed.streamLen
		for _, b := range fixed.prefilled {
			pre[b] = true
		}
	} else {
		l = genLayout(rt, layoutOpts{maxPieces: 3, noEsc: true, grow: true, big: true})
		index, offset, length = genRange(rt, l, true)
	}
	tr := l.parse(t, nil, nil, nil)
	tor.VerifInit(tr)
	nb := l.nblocks(index)
	pl := l.pieceLen(index)
	b0 := int(offset / blk)
	bEnd := int((offset + length + blk - 1) / blk) // one past the last block of the range

	if fixed == nil {
		if rapid.IntRange(0, 2).Draw(rt, "prefill") == 0 {
			for b := 0; b < nb; b++ {
				if rapid.IntRange(0, 2).Draw(rt, "pre") == 0 {
					pre[b] = true
				}
			}
		}
		switch rapid.IntRange(0, 5).Draw(rt, "streamclass") {
		case 0, 1:
			streamLen = int(length)
		case 2:
			streamLen = rapid.IntRange(0, int(length)).Draw(rt, "short")
		case 3:
			streamLen = int(length) + rapid.SampledFrom([]int{1, 2, blk - 1, blk, blk + 1, 65536}).Draw(rt, "over")
		case 4:
			streamLen = int(length) + rapid.IntRange(1, 65536).Draw(rt, "over")
		default:
			streamLen = max(0, int(length)-rapid.IntRange(1, blk).Draw(rt, "short"))
		}
		calls = genCalls(rt, nb)
	}

	// image[b] = expected bytes of block b when present; present[b] per the model
	image := make([][]byte, nb)
	present := make([]bool, nb)
	peerData := func(b int) []byte { return gen.Fill(l.seed^uint64(0x1000+b), int(l.blockLen(index, b))) }
	for b := range pre {
		if b >= nb {
			continue
		}
		d := peerData(b)
		n, _, err := tr.Pieces.AddData(uint32(index), uint32(b*blk), d, 1)
		if err != nil || int(n) != len(d) {
			t.Fatalf("harness: pre-filling block %d: n=%d err=%v", b, n, err)
		}
		image[b], present[b] = d, true
	}
	stream := gen.Fill(l.seed^0x5eed, streamLen)

	w := wr(tor.NewWriter(tr, uint32(index), uint32(offset), uint32(length)))
	pos := 0      // stream bytes the writer has taken so far
	done := false // piece hash-verified ("complete") by the harness mid-way
	closed := false
	var events []wevent
	var hist []string
	labels := l.labels()
	lab := map[string]bool{}
	callsAfterClose, unalignedCuts := 0, 0
	fail := func(format string, a ...any) {
		t.Fatalf("C14(b) %s\nlayout: %v\nwriter: piece %d offset %d length %d (blocks %d..%d of %d, piece length %d), pre-filled %v, stream of %d bytes\nhistory:\n  %s",
			fmt.Sprintf(format, a...), l, index, offset, length, b0, bEnd-1, nb, pl, keys(pre), streamLen, strings.Join(hist, "\n  "))
	}
	// commit applies the model: every block of the range completely covered
	// by stream[0:pos] is stored unless it was already present.
	commit := func() {
		if closed || done {
			return
		}
		for b := b0; b < bEnd; b++ {
			lo := int64(b)*blk - offset
			hi := lo + l.blockLen(index, b)
			if int64(pos) >= hi && !present[b] {
				present[b] = true
				image[b] = stream[lo:hi]
			}
		}
	}
	committedTo := func() int64 { // stream position up to which whole blocks are covered
		var c int64
		for b := b0; b < bEnd; b++ {
			hi := int64(b)*blk - offset + l.blockLen(index, b)
			if int64(pos) >= hi {
				c = hi
			}
		}
		return c
	}
	checkBitmap := func(when string) {
		n, bm := tr.Pieces.PieceBitmap(uint32(index))
		if done {
			return
		}
		if n != nb {
			fail("harness: %d blocks, expected %d", n, nb)
		}
		for b := 0; b < nb; b++ {
			if bm.Get(b) != present[b] {
				what := "is missing although the delivered prefix covers it"
				if bm.Get(b) {
					what = "was stored although the delivered prefix does not cover it"
					if b < b0 || b >= bEnd {
						what = "was stored although it lies outside the writer's range"
					}
				}
				fail("%s: block %d %s (stream position %d)", when, b, what, pos)
			}
		}
	}

	for ci, c := range calls {
		tailBefore := int64(pos) - committedTo()
		switch c.kind {
		case "write":
			p := stream[pos:min(len(stream), pos+c.n)]
			n, err := w.Write(p)
			hist = append(hist, fmt.Sprintf("%v with %d bytes at stream position %d -> (%d, %v)", c, len(p), pos, n, err))
			if n < 0 || n > len(p) {
				fail("call %d: Write returned n=%d for %d bytes", ci, n, len(p))
			}
			if closed {
				callsAfterClose++ // must have no effect: checked through bitmap and events below
				break
			}
			if n > 0 && tailBefore > 0 && !done {
				lab["tail-carried-across-calls"] = true
			}
			pos += n
			if int64(pos) > length {
				fail("call %d: the writer took %d stream bytes, its range is %d bytes", ci, pos, length)
			}
		case "readfrom":
			r := &scriptedReader{data: stream[pos:min(len(stream), pos+c.n)], steps: c.steps, together: c.together}
			var n int64
			var err error
			n, err = w.ReadFrom(r)
			hist = append(hist, fmt.Sprintf("%v at stream position %d -> (%d, %v) after %d reads delivering %d bytes", c, pos, n, err, r.reads, r.pos))
			if closed {
				callsAfterClose++
				break
			}
			if n != int64(r.pos) {
				fail("call %d: ReadFrom reports %d bytes, the reader handed out %d (bytes lost or invented)", ci, n, r.pos)
			}
			if r.failed && err == nil {
				fail("call %d: the reader failed and ReadFrom returned a nil error", ci)
			}
			if r.pos > 0 && tailBefore > 0 && !done {
				lab["tail-carried-across-calls"] = true
			}
			pos += r.pos
			if int64(pos) > length {
				fail("call %d: the writer took %d stream bytes, its range is %d bytes", ci, pos, length)
			}
			if r.failed && (int64(pos)+offset)%blk != 0 && int64(pos) < length {
				lab["error-mid-block"] = true
			}
		case "peerblock":
			if done || present[c.block] {
				hist = append(hist, fmt.Sprintf("%v (no-op)", c))
				break
			}
			commit()
			d := peerData(c.block)
			n, _, err := tr.Pieces.AddData(uint32(index), uint32(c.block*blk), d, 1)
			hist = append(hist, fmt.Sprintf("%v -> (%d, %v)", c, n, err))
			if err != nil || int(n) != len(d) {
				fail("harness: peer block: n=%d err=%v", n, err)
			}
			present[c.block], image[c.block] = true, d
			if c.block >= b0 && c.block < bEnd {
				lab["block-arrives-from-peer-meanwhile"] = true
			}
		case "complete":
			// a peer delivers everything that is missing and the piece is verified
			if done {
				break
			}
			commit()
			for b := 0; b < nb; b++ {
				if !present[b] {
					d := peerData(b)
					tr.Pieces.AddData(uint32(index), uint32(b*blk), d, 1)
					present[b], image[b] = true, d
				}
			}
			h := sha1.Sum(bytes.Join(image, nil))
			ok, _, err := tr.Pieces.Finalise(uint32(index), hash.Hash(h[:]))
			hist = append(hist, fmt.Sprintf("piece completed and verified by the harness -> (%v, %v)", ok, err))
			if !ok {
				fail("call %d: the piece image differs from the model when all blocks are present (Finalise: %v): bytes were stored at a wrong place or changed", ci, err)
			}
			done = true
			if !closed {
				lab["piece-completes-meanwhile"] = true
			}
		case "close":
			err := w.Close()
			hist = append(hist, fmt.Sprintf("Close -> %v", err))
			if closed {
				callsAfterClose++
			} else {
				commit()
				closed = true
			}
		}
		commit()
		if !closed && int64(pos) < length && (int64(pos)+offset)%blk != 0 {
			unalignedCuts++
		}
		ev := drainEvents(t, tr, index)
		if len(ev) > 0 && closed && c.kind != "close" {
			fail("call %d: events %+v after Close", ci, ev)
		}
		events = append(events, ev...)
		checkBitmap(fmt.Sprintf("after call %d", ci))
	}
	if !closed {
		err := w.Close()
		hist = append(hist, fmt.Sprintf("Close -> %v", err))
		commit()
		closed = true
		events = append(events, drainEvents(t, tr, index)...)
		checkBitmap("after Close")
	}

	// ---- event accounting
	at := offset
	sawDrop := false
	for k, e := range events {
		if sawDrop {
			fail("event %d %+v follows the TorDrop (events: %+v)", k, e, events)
		}
		if e.begin != at {
			fail("event %d %+v does not start where the previous one ended (%d) (events: %+v)", k, e, at, events)
		}
		if e.length <= 0 {
			fail("event %d %+v has no length (events: %+v)", k, e, events)
		}
		if e.begin%blk != 0 {
			fail("event %d %+v is not block-aligned", k, e)
		}
		end := e.begin + e.length
		if end > offset+length {
			fail("event %d %+v runs past the writer's range (events: %+v)", k, e, events)
		}
		if e.data && end%blk != 0 && end != pl {
			fail("event %d %+v: a TorData must cover whole blocks", k, e)
		}
		if e.data {
			// TorData must only report blocks the delivered prefix covers
			for b := int(e.begin / blk); b < int((end+blk-1)/blk); b++ {
				if !present[b] {
					fail("event %d %+v reports block %d as received, the model says it is not stored", k, e, b)
				}
			}
		} else {
			sawDrop = true
		}
		at = end
	}
	if at != offset+length {
		fail("the events account for [%d,%d), the writer's range is [%d,%d): %d bytes (blocks %d..%d) stay reserved for ever\nevents: %+v",
			offset, at, offset, offset+length, offset+length-at, at/blk, bEnd-1, events)
	}

	// ---- content: fill what is missing and verify against the expected image
	if !done {
		for b := 0; b < nb; b++ {
			if !present[b] {
				d := peerData(b)
				tr.Pieces.AddData(uint32(index), uint32(b*blk), d, 1)
				image[b] = d
			}
		}
		h := sha1.Sum(bytes.Join(image, nil))
		ok, _, err := tr.Pieces.Finalise(uint32(index), hash.Hash(h[:]))
		if !ok {
			fail("the piece image differs from the model (Finalise against the expected image: %v): stream bytes were stored at a wrong offset, or a block outside the range / already present was changed", err)
		}
	}
	got := make([]byte, pl)
	n, err := tr.Pieces.ReadAt(got, int64(index)*l.ps)
	if err != nil || int64(n) != pl || !bytes.Equal(got, bytes.Join(image, nil)) {
		fail("harness: reading the verified piece back: n=%d err=%v", n, err)
	}
	tr.Pieces.Del()

	// ---- coverage
	if streamLen > int(length) {
		lab["overlong-stream"] = true
	}
	if streamLen < int(length) {
		lab["short-stream"] = true
	}
	if offset+length == pl && pl%blk != 0 {
		if int64(pos) == length {
			lab["range-to-short-last-block"] = true
		} else {
			lab["range-to-short-last-block-not-reached"] = true
		}
	}
	if callsAfterClose > 0 {
		lab["calls-after-close"] = true
	}
	if len(pre) > 0 {
		lab["pre-filled-blocks"] = true
	}
	if sawDrop {
		lab["ends-with-drop"] = true
	}
	for k := range lab {
		labels = append(labels, k)
	}
	nontrivial := unalignedCuts > 0 && pos > blk
	stats.Case(fmt.Sprintf("b|%d|%d|%d|%d|%v|%d|%v", l.ps/blk, b0, bEnd-b0, pl%blk, cmp3(streamLen, int(length)), min(unalignedCuts, 4), sortedKeys(lab)), nontrivial, labels...)
	if nontrivial && stats.WantSample("b-nontrivial") {
		stats.Sample("b-nontrivial", hist)
	}
}

func cmp3(a, b int) int {
	switch {
	case a < b:
		return -1
	case a > b:
		return 1
	}
	return 0
}

func keys(m map[int]bool) []int {
	var out []int
	for k := range m {
		out = append(out, k)
	}
	sortInts(out)
	return out
}

func sortInts(a []int) {
	for i := 1; i < len(a); i++ {
		for j := i; j > 0 && a[j-1] > a[j]; j-- {
			a[j-1], a[j] = a[j], a[j-1]
		}
	}
}

func sortedKeys(m map[string]bool) []string {
	var out []string
	for k := range m {
		out = append(out, k)
	}
	for i := 1; i < len(out); i++ {
		for j := i; j > 0 && out[j-1] > out[j]; j-- {
			out[j-1], out[j] = out[j], out[j-1]
		}
	}
	return out
}
