package c14

// Deterministic regression tests: each asserts the property on the minimal
// input that violated it before the corresponding fix.

import (
	"bytes"
	"context"
	"fmt"
	"testing"
	"time"

	"github.com/jech/storrent/webseed"
)

// AF-C09-1: the handlers of TorData and TorDrop released Length/16384 blocks,
// rounding down, so the short last block of a torrent stayed "in flight" for
// ever after any fetch that included it.
func TestReg_AF_C09_1_ShortLastBlockReleased(t *testing.T) {
	for _, tc := range []struct {
		name  string
		total int64
		fault map[int]fault
	}{
		{"stored (TorData)", blk + 100, nil},
		{"one-byte torrent", 1, nil},
		{"dropped (TorDrop)", blk + 100, map[int]fault{0: {kind: "status", code: 404}}},
	} {
		t.Run(tc.name, func(t *testing.T) {
			l := &layout{name: "f", ps: 2 * blk, total: tc.total, seed: 1}
			fetchCase(t, &fetchPlan{l: l, index: 0, framing: "cl", faults: tc.fault})
		})
	}
}

// AF-C14-1: an answer with an honest Content-Range but a longer body was
// copied until the writer's range was full, so bytes served for one file were
// stored in the region of the next file.
func TestReg_AF_C14_1_OverlongBodyStaysInItsFile(t *testing.T) {
	l := &layout{name: "d", ps: 2 * blk, seed: 2, files: []fspec{
		{path: []string{"A"}, length: 100},
		{path: []string{"B"}, length: 2*blk - 100},
	}, total: 2 * blk}
	for _, kind := range []string{"cl-overlong", "overlong"} {
		t.Run(kind, func(t *testing.T) {
			fetchCase(t, &fetchPlan{l: l, index: 0, framing: "cl", faults: map[int]fault{0: {kind: kind, n: blk}}})
		})
	}
}

func regGet(t *testing.T, name string, file []string, flength, offset, length int64, ans *answer) (got []byte, reqs []reqRec, err error) {
	initGlobals()
	srv := getServer()
	srv.script(func(r reqRec, nth int) *answer { return ans })
	ws := webseed.New(srv.base+"/pub/", true).(*webseed.GetRight)
	ctx, cancel := context.WithTimeout(context.Background(), 30*time.Second)
	defer cancel()
	var sk sink
	_, err = ws.Get(ctx, "", name, file, flength, offset, length, &sk)
	if ctx.Err() != nil {
		t.Skip("inconclusive: loopback I/O took more than 30 s")
	}
	return sk.buf.Bytes(), srv.requests(), err
}

func TestReg_AF_C14_1_GetNeverExceedsLength(t *testing.T) {
	file := []byte("0123456789")
	ans := &answer{status: 206, headers: []string{"Content-Range: bytes 2-4/10"}, framing: "cl", clValue: 8, body: file[2:]}
	got, _, _ := regGet(t, "n", []string{"f"}, 10, 2, 3, ans)
	if len(got) > 3 || !bytes.Equal(got, file[2:2+len(got)]) {
		t.Fatalf("C14: a request for 3 bytes handed %d bytes (%q) to the sink", len(got), got)
	}
}

// AF-C14-2: names were pasted into the URL unescaped, so "a?b" was requested
// as "a", "a#b" as "a" and "%41" as "A": the wrong file.
func TestReg_AF_C14_2_NamesAreEscaped(t *testing.T) {
	for _, n := range []string{"a?b", "a#b", "%41", "100%", "a%zzb", "x y", "é"} {
		ans := &answer{status: 206, headers: []string{"Content-Range: bytes 0-0/1"}, framing: "cl", clValue: 1, body: []byte("x")}
		_, reqs, err := regGet(t, n, []string{n, "f-" + n}, 1, 0, 1, ans)
		want := fmt.Sprintf("/pub/%s/%s/f-%s", n, n, n)
		if len(reqs) != 1 || reqs[0].path != want {
			t.Errorf("C14: file %q is requested as %v (error %v); its path on the seed is %q", n, reqs, err, want)
		}
	}
}

// C14-readfrom-bounds: after Write had buffered more than 32 KiB (possible
// when the piece was completed by peers meanwhile, so that nothing is
// committed), ReadFrom sliced its buffer with inverted bounds and panicked.
func TestReg_C14_ReadFromAfterLargeBufferedWrite(t *testing.T) {
	l := &layout{name: "f", ps: 8 * blk, total: 8 * blk, seed: 3}
	defer func() {
		if r := recover(); r != nil {
			t.Fatalf("C14: panic in the writer: %v", r)
		}
	}()
	writerCase(t, nil, &fixedWriterCase{l: l, index: 0, offset: 0, length: 8 * blk, streamLen: 8 * blk, calls: []wcall{
		{kind: "complete"},
		{kind: "write", n: 40000},
		{kind: "readfrom", n: 1000},
		{kind: "close"},
	}})
}
