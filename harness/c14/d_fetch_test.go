package c14

// Layer (d): the real maybeWebseed (through tor.VerifMaybeWebseed) picks a
// hole of a piece, reserves its blocks and starts the real webseedGR /
// webseedH goroutine against a loopback server holding every file.  The
// harness plays the torrent's event loop: every event the fetch emits is
// handed to the real handleEvent (tor.VerifHandleEvent).  When the fetch has
// ended: every reserved block is released, the server saw the right files
// with the right ranges, and every block present holds the right bytes.

import (
	"bytes"
	"context"
	"fmt"
	nurl "net/url"
	"slices"
	"sort"
	"strconv"
	"strings"
	"sync"
	"testing"
	"time"

	"pgregory.net/rapid"

	"github.com/jech/storrent/hash"
	"github.com/jech/storrent/peer"
	"github.com/jech/storrent/tor"
	"github.com/jech/storrent/webseed"

	"verif/gen"
	"verif/stats"
)

type fault struct {
	kind string // "", status, ignore-range, shifted, short, overlong, cut, total-wrong, cl-overlong
	n    int64
	code int
}

type fetchPlan struct {
	l          *layout
	hoffman    bool
	hInclusive bool // Hoffman server reads "ranges=a-b" as inclusive (BEP 17) instead of the way storrent means it
	index      int
	pre        []int
	idle       bool
	faults     map[int]fault // by request number
	framing    string
	chunks     []int
	rounds     int // how many times maybeWebseed is called for the piece (each fetch must have ended before the next)
	busy       bool // the torrent's event queue is full when the fetch starts, and stays full for a moment
}

func (p *fetchPlan) String() string {
	kind := "GetRight"
	if p.hoffman {
		kind = fmt.Sprintf("Hoffman(inclusive=%v)", p.hInclusive)
	}
	return fmt.Sprintf("%s seed, piece %d, pre-filled blocks %v, framing %s, faults %v, %d round(s)\nlayout: %v", kind, p.index, p.pre, p.framing, p.faults, p.rounds, p.l)
}

func genFetchPlan(t *rapid.T) *fetchPlan {
	p := &fetchPlan{faults: map[int]fault{}}
	p.l = genLayout(t, layoutOpts{maxPieces: 4, grow: true, big: true, huge: true})
	l := p.l
	p.busy = rapid.IntRange(0, 3).Draw(t, "busyTorrent") == 0
	p.rounds = 1
	if l.huge {
		p.rounds = rapid.IntRange(1, 7).Draw(t, "rounds")
	} else if rapid.IntRange(0, 3).Draw(t, "again") == 0 {
		p.rounds = rapid.IntRange(2, 3).Draw(t, "rounds")
	}
	p.hoffman = rapid.IntRange(0, 4).Draw(t, "hoffman") == 0
	if p.hoffman {
		p.hInclusive = rapid.IntRange(0, 3).Draw(t, "hInclusive") == 0
	}
	p.index = rapid.IntRange(0, l.npieces()-1).Draw(t, "index")
	if rapid.IntRange(0, 2).Draw(t, "lastpiece") == 0 {
		p.index = l.npieces() - 1
	}
	nb := l.nblocks(p.index)
	switch rapid.IntRange(0, 5).Draw(t, "preclass") {
	case 0, 1:
		for b := 0; b < nb; b++ {
			if rapid.IntRange(0, 2).Draw(t, "pre") == 0 {
				p.pre = append(p.pre, b)
			}
		}
	case 2:
		if rapid.IntRange(0, 3).Draw(t, "allpre") == 0 {
			for b := 0; b < nb; b++ {
				p.pre = append(p.pre, b)
			}
		}
	}
	p.idle = rapid.Bool().Draw(t, "idle")
	p.framing = rapid.SampledFrom([]string{"cl", "cl", "chunked", "close"}).Draw(t, "framing")
	if p.framing == "chunked" {
		p.chunks = rapid.SliceOfN(rapid.SampledFrom([]int{1, 100, 4096, blk - 1, blk + 1, 65536}), 0, 3).Draw(t, "chunks")
	}
	if rapid.IntRange(0, 9).Draw(t, "faulty") < 4 {
		nf := rapid.IntRange(1, 2).Draw(t, "nfaults")
		for i := 0; i < nf; i++ {
			at := rapid.IntRange(0, 4).Draw(t, "faultAt")
			f := fault{kind: rapid.SampledFrom([]string{"status", "ignore-range", "shifted", "short", "overlong", "overlong", "cut", "total-wrong", "cl-overlong"}).Draw(t, "fault")}
			switch f.kind {
			case "status":
				f.code = rapid.SampledFrom([]int{404, 416, 500, 503}).Draw(t, "code")
			case "short", "cut":
				f.n = rapid.Int64Range(0, 70000).Draw(t, "shortBy")
			case "overlong", "cl-overlong":
				f.n = genOver(t)
			case "shifted":
				f.n = rapid.SampledFrom([]int64{-1, 1}).Draw(t, "shift")
			}
			if p.hoffman && (f.kind == "shifted" || f.kind == "ignore-range" || f.kind == "total-wrong") {
				// a Hoffman answer carries no range: these lies cannot be told from data
				f = fault{kind: "status", code: 503}
			}
			p.faults[at] = f
		}
	}
	return p
}

func parseRangeHeader(s string) (a, b int64, ok bool) {
	rest, found := strings.CutPrefix(s, "bytes=")
	if !found {
		return 0, 0, false
	}
	x, y, found := strings.Cut(rest, "-")
	if !found {
		return 0, 0, false
	}
	a, e1 := strconv.ParseInt(x, 10, 64)
	b, e2 := strconv.ParseInt(y, 10, 64)
	return a, b, e1 == nil && e2 == nil && a >= 0 && b >= a
}

func TestC14dFetch(t *testing.T) {
	initGlobals()
	getServer()
	rapid.Check(t, func(t *rapid.T) { fetchCase(t, genFetchPlan(t)) })
}

func fetchCase(t tb, p *fetchPlan) {
	initGlobals()
	srv := getServer()
	l := p.l
	content := l.content()
	index := p.index
	nb := l.nblocks(index)
	pl := l.pieceLen(index)
	pieceStart := int64(index) * l.ps
	junk := gen.Fill(l.seed^0xbadbad, 70000)

	// ---- the seed
	var urlList, httpseeds []string
	paths := map[string]int{} // decoded request path → file
	if p.hoffman {
		httpseeds = []string{srv.base + "/seed.php"}
	} else {
		urlList = []string{srv.base + "/pub/"}
		if l.files == nil {
			paths["/pub/"+l.name] = -1
		}
		for i, f := range l.files {
			paths["/pub/"+l.name+"/"+strings.Join(f.path, "/")] = i
		}
	}
	tr := l.parse(t, content, urlList, httpseeds)
	tor.VerifInit(tr)
	defer tr.Pieces.Del()
	if len(tr.Webseeds()) != 1 {
		t.Fatalf("harness: %d web seeds parsed", len(tr.Webseeds()))
	}
	ws := tr.Webseeds()[0]

	// ---- the server: holds every file, misbehaves where the plan says
	var srvNotes []string
	var notesMu sync.Mutex
	note := func(s string) { notesMu.Lock(); srvNotes = append(srvNotes, s); notesMu.Unlock() }
	srv.script(func(r reqRec, nth int) *answer {
		f := p.faults[nth]
		var file []byte
		var a, b int64
		if p.hoffman {
			q, _ := nurl.ParseQuery(r.rawQuery)
			pi, e1 := strconv.Atoi(q.Get("piece"))
			x, y, _ := strings.Cut(q.Get("ranges"), "-")
			a0, e2 := strconv.ParseInt(x, 10, 64)
			b0, e3 := strconv.ParseInt(y, 10, 64)
			if e1 != nil || e2 != nil || e3 != nil || pi < 0 || pi >= l.npieces() || q.Get("info_hash") != string(tr.Hash) {
				return &answer{status: 400, framing: "cl"}
			}
			file = content[int64(pi)*l.ps : int64(pi)*l.ps+l.pieceLen(pi)]
			a, b = a0, b0
			if !p.hInclusive {
				b-- // storrent sends an exclusive end
			}
			b = min(b, int64(len(file))-1)
			if a > b {
				return &answer{status: 400, framing: "cl"}
			}
		} else {
			fi, ok := paths[r.path]
			if !ok {
				note("404 for " + r.path)
				return &answer{status: 404, framing: "cl", body: []byte("no such file")}
			}
			file = l.fileBytes(content, fi)
			var okr bool
			a, b, okr = parseRangeHeader(r.rng)
			if !okr || b >= int64(len(file)) {
				note("416 for " + r.String())
				return &answer{status: 416, framing: "cl", headers: []string{fmt.Sprintf("Content-Range: bytes */%d", len(file))}}
			}
		}
		ans := &answer{status: 206, framing: p.framing, chunks: p.chunks}
		if p.hoffman {
			ans.status = 200
		}
		total := int64(len(file))
		body := file[a : b+1]
		switch f.kind {
		case "status":
			return &answer{status: f.code, framing: "cl", body: []byte("error")}
		case "ignore-range":
			ans.status = 200
			a, b = 0, total-1
			body = file
		case "shifted":
			if a+f.n >= 0 && b+f.n < total {
				a, b = a+f.n, b+f.n
				body = file[a : b+1]
			}
		case "short":
			body = body[:max(0, int64(len(body))-1-f.n)]
		case "cut":
			body = body[:max(0, int64(len(body))-1-f.n)]
			ans.cut = true
			if ans.framing == "cl" {
				ans.clValue = b - a + 1
			}
		case "overlong":
			body = append(append([]byte{}, body...), junk[:f.n]...)
			if ans.framing == "cl" {
				ans.framing = "chunked"
			}
		case "cl-overlong":
			// honest Content-Range, but Content-Length and body longer
			body = append(append([]byte{}, body...), junk[:f.n]...)
			ans.framing = "cl"
		case "total-wrong":
			total++
		}
		ans.body = body
		if ans.framing == "cl" && !ans.cut {
			ans.clValue = int64(len(body))
		}
		if ans.status == 206 {
			ans.headers = []string{fmt.Sprintf("Content-Range: bytes %d-%d/%d", a, b, total)}
		}
		return ans
	})

	ctx, cancel := context.WithCancel(context.Background())
	defer cancel()
	exited := make(chan string, 4)
	tor.VerifYieldHook = func(point string) {
		if strings.HasPrefix(point, "webseed") {
			exited <- point
		}
	}
	defer func() { tor.VerifYieldHook = nil }()
	blocksPerPiece := int(l.ps / blk)
	for _, b := range p.pre {
		d := content[pieceStart+int64(b)*blk : pieceStart+int64(b)*blk+l.blockLen(index, b)]
		if n, _, err := tr.Pieces.AddData(uint32(index), uint32(b*blk), d, 1); err != nil || int(n) != len(d) {
			t.Fatalf("harness: pre-fill: %d %v", n, err)
		}
	}

	var hist []string
	var ho, hl int64
	var want []mchunk
	fail := func(format string, a ...any) {
		notesMu.Lock()
		defer notesMu.Unlock()
		t.Fatalf("C14(d) %s\nplan: %v\nrange of the last fetch (model): offset %d length %d = %d file runs\nhistory:\n  %s\nrequests seen: %v\nserver notes: %v",
			fmt.Sprintf(format, a...), p, ho, hl, len(want), strings.Join(hist, "\n  "), srv.requests(), srvNotes)
	}
	lab := l.labels()
	sig := ""
	nontrivial := false
	reqBase := 0
	complete := false
	for round := 0; round < max(p.rounds, 1) && !complete; round++ {
		if round > 0 {
			hist = append(hist, fmt.Sprintf("---- round %d", round+1))
			lab = append(lab, "fetch-after-fetch")
		}
		// the model's hole: first absent block, up to the next present one
		present := make([]bool, nb)
		_, bm0 := tr.Pieces.PieceBitmap(uint32(index))
		for b := 0; b < nb; b++ {
			present[b] = bm0.Get(b)
		}
		first := -1
		for b := 0; b < nb; b++ {
			if !present[b] {
				first = b
				break
			}
		}
		end := first
		if first >= 0 {
			for end = first + 1; end < nb && !present[end]; end++ {
			}
		}
		ho, hl, want = 0, 0, nil
		if first >= 0 {
			ho = int64(first) * blk
			hl = min(int64(end)*blk, pl) - ho
		}
		holeLen := hl

		// ---- the call
		ready := ws.Ready(p.idle)
		if round == 0 && !ready {
			t.Fatalf("harness: a fresh web seed is not ready")
		}
		if !ready {
			lab = append(lab, "seed-backs-off")
		}
		if p.busy && round == 0 {
			// the torrent is busy: its queue is full, whatever the fetch reports has to wait
			for len(tr.Event) < cap(tr.Event) {
				tr.Event <- peer.TorAnnounce{}
			}
			lab = append(lab, "torrent-queue-full-during-fetch")
		}
		started := tor.VerifMaybeWebseed(ctx, tr, uint32(index), p.idle)
		if p.busy && round == 0 && started {
			time.Sleep(4 * time.Millisecond)
		}
		if started != (first >= 0 && ready) {
			fail("maybeWebseed returned %v, the piece has %d absent blocks, the seed is ready: %v", started, nb-bm0.Count(), ready)
		}
		if !started {
			for k, v := range tor.VerifInFlight(tr) {
				if v != 0 {
					fail("no fetch was started but block %d is marked in flight", k)
				}
			}
			if round == 0 {
				stats.Case("d|nofetch", false, append(l.labels(), "no-hole")...)
				return
			}
			break
		}
		// reservation: the blocks of the hole; of a hole of more than 1 MiB, a
		// part of at least 1 MiB that starts where the hole starts (how much
		// more depends on the seed's measured rate)
		fl := tor.VerifInFlight(tr)
		nres := 0
		for k, v := range fl {
			b := k - index*blocksPerPiece
			if v > 1 || (v == 1 && (b < first || b >= end)) {
				fail("after maybeWebseed block %d (block %d of piece %d) has in-flight count %d (hole is blocks %d..%d)", k, b, index, v, first, end-1)
			}
			if v == 1 {
				nres++
			}
		}
		for b := first; b < first+nres; b++ {
			if fl[index*blocksPerPiece+b] != 1 {
				fail("after maybeWebseed the %d reserved blocks are not the first blocks of the hole %d..%d: block %d is not reserved", nres, first, end-1, b)
			}
		}
		if holeLen <= 1<<20 && nres != end-first {
			fail("after maybeWebseed %d blocks are reserved, the hole is blocks %d..%d", nres, first, end-1)
		}
		if holeLen > 1<<20 {
			lab = append(lab, "hole-over-1MiB")
			if nres < 64 {
				fail("after maybeWebseed %d blocks are reserved of a hole of %d blocks", nres, end-first)
			}
			if nres < end-first {
				lab = append(lab, "fetch-shorter-than-hole")
			}
			if nres > 64 && nres < end-first {
				lab = append(lab, "fetch-sized-by-rate")
			}
		}
		// from here on the range is what was reserved: that is what the fetch must
		// account for, byte for byte
		end = first + nres
		hl = min(int64(end)*blk, pl) - ho
		want = l.chunksOf(pieceStart+ho, hl)

		// ---- play the event loop until the fetch goroutine has ended
		at := ho
		sawDrop, sawComplete := false, false
		handle := func(e peer.TorEvent) {
			switch e := e.(type) {
			case peer.TorData:
				hist = append(hist, fmt.Sprintf("TorData{piece %d begin %d length %d complete %v}", e.Index, e.Begin, e.Length, e.Complete))
				if sawDrop || int(e.Index) != index || int64(e.Begin) != at || e.Length == 0 || int64(e.Begin)+int64(e.Length) > ho+hl {
					fail("the event does not continue the range at %d (range [%d,%d))", at, ho, ho+hl)
				}
				at += int64(e.Length)
				sawComplete = sawComplete || e.Complete
			case peer.TorDrop:
				hist = append(hist, fmt.Sprintf("TorDrop{piece %d begin %d length %d}", e.Index, e.Begin, e.Length))
				if sawDrop || int(e.Index) != index || int64(e.Begin) != at || e.Length == 0 || int64(e.Begin)+int64(e.Length) != ho+hl {
					fail("the drop does not cover the rest [%d,%d) of the range", at, ho+hl)
				}
				at += int64(e.Length)
				sawDrop = true
			case peer.TorHave:
				hist = append(hist, fmt.Sprintf("TorHave{%d %v}", e.Index, e.Have))
			case peer.TorAnnounce:
				// (the filler of a busy torrent's queue)
			default:
				hist = append(hist, fmt.Sprintf("%T%+v", e, e))
			}
			if err := tor.VerifHandleEvent(ctx, tr, e); err != nil {
				fail("handleEvent: %v", err)
			}
		}
		deadline := time.NewTimer(120 * time.Second)
		for ended := false; !ended; {
			select {
			case e := <-tr.Event:
				handle(e)
			case point := <-exited:
				hist = append(hist, "fetch goroutine ended ("+point+")")
				ended = true
			case <-deadline.C:
				t.Skip("inconclusive: the fetch did not end within 120 s")
			}
		}
		deadline.Stop()
		for drained := false; !drained; {
			select {
			case e := <-tr.Event:
				handle(e)
			default:
				drained = true
			}
		}
		if at != ho+hl {
			fail("the fetch has ended; its events account for [%d,%d) of the reserved range [%d,%d): blocks %d..%d stay reserved for ever", ho, at, ho, ho+hl, at/blk, end-1)
		}
		if ws.Count() != 0 {
			fail("the fetch has ended and the seed's Count() is %d", ws.Count())
		}
		// a completed piece is verified by the real finalisePiece goroutine
		if sawComplete {
			for i := 0; !tr.Pieces.Complete(uint32(index)) && !tr.Pieces.PieceEmpty(uint32(index)); i++ {
				if i > 60000 {
					t.Skip("inconclusive: piece verification did not end within 60 s")
				}
				time.Sleep(time.Millisecond)
			}
		}
		// late events (TorHave) are handled too
		for drained := false; !drained; {
			select {
			case e := <-tr.Event:
				hist = append(hist, fmt.Sprintf("%T%+v", e, e))
				switch e.(type) {
				case peer.TorData, peer.TorDrop:
					fail("event after the range was accounted for")
				}
				tor.VerifHandleEvent(ctx, tr, e)
			default:
				drained = true
			}
		}

		// ---- every reserved block is released
		for k, v := range tor.VerifInFlight(tr) {
			if v != 0 {
				b := k - index*blocksPerPiece
				fail("the fetch has ended and its events were handled, but block %d (block %d of piece %d, %d bytes long) still has in-flight count %d: it is never requested again",
					k, b, index, l.blockLen(index, b), v)
			}
		}

		// ---- the server saw the right files with the right ranges
		all := srv.requests()
		reqs := all[reqBase:]
		faulty := false
		for i := range reqs {
			if _, ok := p.faults[reqBase+i]; ok {
				faulty = true
			}
		}
		if p.hoffman {
			if len(reqs) < 1 {
				fail("no request reached the Hoffman seed")
			}
			q, _ := nurl.ParseQuery(reqs[0].rawQuery)
			wantR1, wantR2 := fmt.Sprintf("%d-%d", ho, ho+hl-1), fmt.Sprintf("%d-%d", ho, ho+hl)
			if q.Get("piece") != strconv.Itoa(index) || q.Get("info_hash") != string(tr.Hash) || (q.Get("ranges") != wantR1 && q.Get("ranges") != wantR2) {
				fail("Hoffman request %q, want piece=%d ranges=%s", reqs[0].rawQuery, index, wantR1)
			}
		} else {
			var wantReqs []mchunk
			for _, c := range want {
				if !c.pad {
					wantReqs = append(wantReqs, c)
				}
			}
			k := 0
			for i, r := range reqs {
				if i > 0 && r == reqs[i-1] && faulty {
					continue // the HTTP transport retried on a fresh connection
				}
				if k >= len(wantReqs) {
					fail("request %d (%v) is beyond the %d file runs of the range", reqBase+i, r, len(wantReqs))
				}
				c := wantReqs[k]
				wp := "/pub/" + l.name
				if c.file >= 0 {
					wp += "/" + strings.Join(c.path, "/")
				}
				wr := fmt.Sprintf("bytes=%d-%d", c.off, c.off+c.length-1)
				if r.path != wp || r.rng != wr {
					fail("request %d is %v; run %d of the range is file %q bytes %d-%d", reqBase+i, r, k, wp, c.off, c.off+c.length-1)
				}
				k++
			}
			if !faulty && k != len(wantReqs) {
				fail("the server answered every request correctly, yet only %d of the %d file runs were requested", k, len(wantReqs))
			}
		}

		// ---- what an honest answer delivers is stored
		honestFull := !faulty && !(p.hoffman && p.hInclusive && p.framing == "cl")
		complete = tr.Pieces.Complete(uint32(index))
		if sawComplete && !complete {
			fail("all blocks of the piece arrived but it failed verification: bytes were stored at a wrong place")
		}
		if !complete {
			_, bm := tr.Pieces.PieceBitmap(uint32(index))
			for b := first; b < end; b++ {
				if honestFull && !bm.Get(b) {
					fail("the server answered every request correctly, yet block %d of the range was not stored", b)
				}
			}
		}

		// ---- coverage
		pads, small := 0, 0
		for _, c := range want {
			if c.pad {
				pads++
			}
			if c.file >= 0 && c.flength < blk {
				small++
			}
		}
		if pads > 0 {
			lab = append(lab, "padding-file-in-range")
		}
		if small > 0 {
			lab = append(lab, "file-shorter-than-block")
		}
		if len(want) >= 2 {
			lab = append(lab, "range-spans-files")
			nontrivial = true
		}
		if pieceStart+ho+hl == l.total && l.total%blk != 0 {
			lab = append(lab, "range-to-short-last-block")
		}
		if sawDrop {
			lab = append(lab, "ends-with-drop")
		}
		if sawComplete {
			lab = append(lab, "piece-completed-by-fetch")
		}
		var fk []string
		for i := range reqs {
			if f, ok := p.faults[reqBase+i]; ok {
				lab = append(lab, "fault-"+f.kind)
				fk = append(fk, f.kind)
				if (f.kind == "overlong" || f.kind == "cl-overlong") && len(want) >= 2 {
					lab = append(lab, "chunked-overlong")
				}
			}
		}
		if round < 2 {
			sig += fmt.Sprintf("|%d|%d|%d|%d|%v|%v", min(len(want), 5), pads, min(first, 9), min(end-first, 9), fk, sawDrop)
		}
		reqBase = len(all)
	}

	// ---- every block present holds the right bytes
	if !tr.Pieces.Complete(uint32(index)) {
		_, bm := tr.Pieces.PieceBitmap(uint32(index))
		for b := 0; b < nb; b++ {
			if !bm.Get(b) {
				d := content[pieceStart+int64(b)*blk : pieceStart+int64(b)*blk+l.blockLen(index, b)]
				tr.Pieces.AddData(uint32(index), uint32(b*blk), d, 1)
			}
		}
		ok, _, err := tr.Pieces.Finalise(uint32(index), hash.Hash(tr.PieceHashes[index]))
		if !ok {
			fail("a block stored by the fetch does not hold the torrent's bytes (verification after filling the absent blocks: %v): data landed at a wrong place", err)
		}
	}
	got := make([]byte, pl)
	if n, err := tr.Pieces.ReadAt(got, pieceStart); err != nil || int64(n) != pl || !bytes.Equal(got, content[pieceStart:pieceStart+pl]) {
		fail("harness: verified piece differs from the content (n=%d err=%v)", n, err)
	}

	if p.hoffman {
		lab = append(lab, "hoffman-seed")
	} else {
		lab = append(lab, "getright-seed")
	}
	if len(p.pre) > 0 {
		lab = append(lab, "pre-filled-blocks")
	}
	if l.huge {
		lab = append(lab, "piece-of-1MiB-or-more")
	}
	sort.Strings(lab)
	lab = slices.Compact(lab)
	stats.Case(fmt.Sprintf("d|%v|%d%s", p.hoffman, l.ps/blk, sig), nontrivial, lab...)
	if nontrivial && stats.WantSample("d-multi-file-range") {
		stats.Sample("d-multi-file-range", append([]string{p.String()}, hist[:min(len(hist), 40)]...))
	}
}
var _ = webseed.New
