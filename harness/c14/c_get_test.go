package c14

// Layer (c): webseed.GetRight.Get and webseed.Hoffman.Get against the
// scripted loopback server.  Whatever the server answers, the bytes handed to
// the sink are a prefix of the body it sent, never more than the requested
// length, and nothing at all unless the answer is one that proves the bytes
// are the requested ones (200 for a request starting at 0, or 206 with the
// requested start and the right total).

import (
	"bytes"
	"context"
	"fmt"
	"io"
	nurl "net/url"
	"strconv"
	"strings"
	"testing"
	"time"

	"pgregory.net/rapid"

	"github.com/jech/storrent/webseed"

	"verif/gen"
	"verif/stats"
)

// sink records what Get hands over.  With rf set it also offers ReadFrom, so
// that both branches of io.Copy are exercised.
type sink struct {
	buf    bytes.Buffer
	writes int
}

func (s *sink) Write(p []byte) (int, error) { s.writes++; return s.buf.Write(p) }

type sinkRF struct{ sink }

func (s *sinkRF) ReadFrom(r io.Reader) (int64, error) { return s.buf.ReadFrom(r) }

// strictContentRange parses an RFC 7233 Content-Range for the bytes unit.
// kind: "range" (start-end/total or start-end/*; total -1 when unknown),
// "unsatisfied" (*/total), "" (malformed).
func strictContentRange(s string) (kind string, start, end, total int64) {
	rest, ok := strings.CutPrefix(s, "bytes ")
	if !ok {
		return "", 0, 0, 0
	}
	rng, tot, ok := strings.Cut(rest, "/")
	if !ok {
		return "", 0, 0, 0
	}
	dec := func(x string) (int64, bool) {
		if x == "" || len(x) > 18 {
			return 0, false
		}
		for _, c := range x {
			if c < '0' || c > '9' {
				return 0, false
			}
		}
		n, err := strconv.ParseInt(x, 10, 64)
		return n, err == nil
	}
	total = -1
	if tot != "*" {
		n, ok := dec(tot)
		if !ok {
			return "", 0, 0, 0
		}
		total = n
	}
	if rng == "*" {
		if total < 0 {
			return "", 0, 0, 0
		}
		return "unsatisfied", 0, 0, total
	}
	a, b, ok := strings.Cut(rng, "-")
	if !ok {
		return "", 0, 0, 0
	}
	start, ok1 := dec(a)
	end, ok2 := dec(b)
	if !ok1 || !ok2 || end < start || (total >= 0 && end >= total) {
		return "", 0, 0, 0
	}
	return "range", start, end, total
}

var malformedCR = []string{"", "bytes", "bytes ", "bytes 0-", "bytes -/", "bytes x-y/z", "items 0-9/10", "octets 0-1/2",
	"bytes 0-9", "bytes=0-9/10", "0-9/10", "bytes */*", "bytes 9-5/100", "bytes 5/10", "bytes a", "bytes 0-9/-1", "bytes -5-9/100"}

type getPlan struct {
	// request
	name     string
	file     []string
	flength  int64
	offset   int64
	length   int64
	baseURL  string
	wantPath string
	// answer
	status    int
	cr        string // Content-Range header value ("" = absent when !hasCR)
	hasCR     bool
	crClass   string
	bodyStart int64
	bodyLen   int64 // bytes of body put on the wire
	nominal   int64
	framing   string // cl-honest | cl-nominal | chunked | close
	chunks    []int
	cut       bool
	redirect  int // 0 or the 30x status of a preliminary redirect
	rfSink    bool
}

func (p *getPlan) String() string {
	return fmt.Sprintf("Get(name=%q file=%q flength=%d offset=%d length=%d) url=%s -> status %d Content-Range=%q(present=%v) framing=%s body=file[%d:+%d] (nominal %d) cut=%v redirect=%d",
		p.name, p.file, p.flength, p.offset, p.length, p.baseURL, p.status, p.cr, p.hasCR, p.framing, p.bodyStart, p.bodyLen, p.nominal, p.cut, p.redirect)
}

// pickFileRange draws the request a real caller could make: a non-padding
// run of a range of a piece, or an arbitrary range of a file.
func pickFileRange(t *rapid.T, l *layout) (fi int, off, n int64, ok bool) {
	if rapid.IntRange(0, 3).Draw(t, "natural") != 0 {
		index, o, ln := genRange(t, l, true)
		var cands []mchunk
		for _, c := range l.chunksOf(int64(index)*l.ps+o, ln) {
			if !c.pad {
				cands = append(cands, c)
			}
		}
		if len(cands) > 0 {
			c := rapid.SampledFrom(cands).Draw(t, "chunk")
			return c.file, c.off, c.length, true
		}
	}
	var files []int
	if l.files == nil {
		files = []int{-1}
	}
	for i, f := range l.files {
		if !f.pad && f.length > 0 {
			files = append(files, i)
		}
	}
	if len(files) == 0 {
		return 0, 0, 0, false
	}
	fi = rapid.SampledFrom(files).Draw(t, "file")
	fl := l.total
	if fi >= 0 {
		fl = l.files[fi].length
	}
	if rapid.IntRange(0, 2).Draw(t, "fromzero") != 0 {
		off = rapid.Int64Range(0, fl-1).Draw(t, "foff")
	}
	n = rapid.Int64Range(1, fl-off).Draw(t, "flen")
	if rapid.IntRange(0, 3).Draw(t, "whole") == 0 {
		n = fl - off
	}
	return fi, off, n, true
}

func genBaseURL(t *rapid.T, base string, name string, file []string, single bool) (url, wantPath string) {
	prefix := rapid.SampledFrom([]string{"seed", "pub/mirror", "s", ""}).Draw(t, "prefix")
	slash := rapid.Bool().Draw(t, "slash")
	if prefix == "" {
		slash = true
	}
	url = base + "/" + prefix
	root := "/" + prefix
	if slash && prefix != "" {
		url += "/"
	}
	if prefix == "" {
		root = ""
	}
	switch {
	case single && !slash:
		wantPath = root
	case single:
		wantPath = root + "/" + name
	default:
		wantPath = root + "/" + name + "/" + strings.Join(file, "/")
	}
	return
}

func TestC14cGetRight(t *testing.T) {
	initGlobals()
	srv := getServer()
	rapid.Check(t, func(t *rapid.T) {
		initGlobals()
		l := genLayout(t, layoutOpts{maxPieces: 3})
		content := l.content()
		fi, off, n, ok := pickFileRange(t, l)
		if !ok {
			t.Skip("no fetchable file")
		}
		p := &getPlan{name: l.name, offset: off, length: n, flength: l.total}
		if fi >= 0 {
			p.file, p.flength = l.files[fi].path, l.files[fi].length
		}
		fbytes := l.fileBytes(content, fi)
		p.baseURL, p.wantPath = genBaseURL(t, srv.base, l.name, p.file, fi < 0)
		genAnswerGR(t, p)
		body := bodyBytes(fbytes, p.bodyStart, p.bodyLen, l.seed)
		labels := l.labels()

		ans := &answer{status: p.status, body: body, chunks: p.chunks, cut: p.cut}
		if p.hasCR {
			ans.headers = append(ans.headers, "Content-Range: "+p.cr)
		}
		switch p.framing {
		case "cl-honest":
			ans.framing, ans.clValue = "cl", int64(len(body))
		case "cl-nominal":
			ans.framing, ans.clValue = "cl", p.nominal
		default:
			ans.framing = p.framing
		}
		srv.script(func(r reqRec, nth int) *answer {
			if p.redirect != 0 && !strings.HasPrefix(r.path, "/redirected") {
				return &answer{status: p.redirect, framing: "cl", headers: []string{"Location: /redirected" + r.uri}}
			}
			return ans
		})

		ws, _ := webseed.New(p.baseURL, true).(*webseed.GetRight)
		if ws == nil {
			t.Fatalf("harness: webseed.New(%q) did not return a GetRight seed", p.baseURL)
		}
		var w io.Writer
		var sk *sink
		if p.rfSink {
			s := &sinkRF{}
			w, sk = s, &s.sink
		} else {
			sk = &sink{}
			w = sk
		}
		ctx, cancel := context.WithTimeout(context.Background(), 30*time.Second)
		var nret int64
		var err error
		var pv any
		func() {
			defer func() { pv = recover() }()
			nret, err = ws.Get(ctx, "", p.name, p.file, p.flength, p.offset, p.length, w)
		}()
		expired := ctx.Err() != nil
		cancel()
		if expired {
			t.Skip("inconclusive: loopback I/O took more than 30 s")
		}
		reqs := srv.requests()
		got := sk.buf.Bytes()
		fail := func(format string, a ...any) {
			t.Fatalf("C14(c) GetRight: %s\nplan: %v\nGet returned (%d, %v); sink holds %d bytes\nrequests seen: %v", fmt.Sprintf(format, a...), p, nret, err, len(got), reqs)
		}
		if pv != nil {
			fail("panic: %v", pv)
		}
		if ws.Count() != 0 {
			fail("the seed's Count() is %d after Get returned", ws.Count())
		}

		// ---- what the server saw
		if len(reqs) == 0 {
			// only legitimate if the URL could not be built
			fail("no request reached the server")
		}
		r0 := reqs[0]
		wantRange := fmt.Sprintf("bytes=%d-%d", p.offset, p.offset+p.length-1)
		if r0.method != "GET" {
			fail("method %q", r0.method)
		}
		if r0.path != p.wantPath {
			fail("the request is for path %q; the file is at %q (the wrong file is fetched)", r0.path, p.wantPath)
		}
		if r0.rng != wantRange {
			fail("Range header %q, want %q", r0.rng, wantRange)
		}

		// ---- what reached the sink
		if int64(len(got)) != nret {
			fail("Get reports %d bytes, the sink received %d", nret, len(got))
		}
		sent := body
		if ans.framing == "cl" && ans.clValue < int64(len(sent)) {
			sent = sent[:ans.clValue]
		}
		if len(got) > len(sent) || !bytes.Equal(got, sent[:len(got)]) {
			fail("the sink received bytes that are not a prefix of the body the server sent (%d body bytes)", len(sent))
		}
		if int64(len(got)) > p.length {
			fail("%d bytes were handed to the sink for a request of %d bytes: bytes beyond the requested range are stored", len(got), p.length)
		}
		must, why := mustRejectGR(p)
		if must && len(got) > 0 {
			fail("%d bytes were accepted although %s", len(got), why)
		}
		conforming := !must && !p.cut && p.bodyStart == p.offset && p.bodyLen >= p.length &&
			(p.status == 206 && p.crClass == "honest" && p.bodyLen == p.length || p.status == 200 && p.bodyLen == p.flength) &&
			(p.framing != "cl-nominal" || p.nominal == p.bodyLen)
		if conforming {
			if !bytes.Equal(got, fbytes[p.offset:p.offset+p.length]) {
				fail("a conforming answer delivered %d bytes, want exactly file[%d:%d]", len(got), p.offset, p.offset+p.length)
			}
		}

		// ---- coverage
		lab := []string{"status-" + strconv.Itoa(p.status), "cr-" + p.crClass, "framing-" + p.framing}
		if p.status == 206 && (p.crClass == "start+1" || p.crClass == "start-1") {
			lab = append(lab, "206-shifted")
		}
		if p.status == 200 && p.offset != 0 {
			lab = append(lab, "200-at-nonzero")
		}
		if !must && p.framing != "cl-honest" && p.framing != "cl-nominal" && p.bodyLen > p.length {
			lab = append(lab, "chunked-overlong")
		}
		if p.bodyLen > p.nominal {
			lab = append(lab, "body-overlong")
		} else if p.bodyLen < p.nominal {
			lab = append(lab, "body-short")
		}
		if p.cut {
			lab = append(lab, "connection-cut")
		}
		if p.redirect != 0 {
			lab = append(lab, "redirect")
		}
		if must {
			lab = append(lab, "must-reject")
		}
		if conforming {
			lab = append(lab, "conforming-answer")
		}
		if p.flength < blk {
			lab = append(lab, "file-shorter-than-block")
		}
		if len(reqs) > 1 && p.redirect == 0 {
			lab = append(lab, "request-retried")
		}
		labels = append(labels, lab...)
		stats.Case(fmt.Sprintf("cGR|%d|%s|%s|%v|%d|%v|%v|%v", p.status, p.crClass, p.framing, p.cut, cmp3(int(p.bodyLen), int(p.nominal)), p.offset == 0, p.length == p.flength-p.offset, p.redirect != 0), !conforming, labels...)
		if !conforming && stats.WantSample("c-nonconforming") {
			stats.Sample("c-nonconforming", p.String())
		}
	})
}

// bodyBytes: file[start:start+n], continued with junk beyond the end of the file.
func bodyBytes(file []byte, start, n int64, seed uint64) []byte {
	out := make([]byte, 0, n)
	if start < int64(len(file)) {
		out = append(out, file[start:min(int64(len(file)), start+n)]...)
	}
	if int64(len(out)) < n {
		out = append(out, gen.Fill(seed^0xbad, int(n)-len(out))...)
	}
	return out
}

func mustRejectGR(p *getPlan) (bool, string) {
	switch p.status {
	case 200:
		if p.offset != 0 {
			return true, "the server ignored the range (200) and the request does not start at 0"
		}
		if (p.framing == "cl-honest" && p.bodyLen != p.flength) || (p.framing == "cl-nominal" && p.nominal != p.flength) {
			return true, "the server's file has a different length (Content-Length of a 200)"
		}
		return false, ""
	case 206:
		if !p.hasCR {
			return true, "the 206 has no Content-Range"
		}
		kind, start, _, total := strictContentRange(p.cr)
		switch {
		case kind != "range":
			return true, fmt.Sprintf("the Content-Range %q of the 206 names no byte range", p.cr)
		case start != p.offset:
			return true, fmt.Sprintf("the 206 starts at %d, the request at %d", start, p.offset)
		case total >= 0 && total != p.flength:
			return true, fmt.Sprintf("the server's file has length %d, the torrent's %d", total, p.flength)
		}
		return false, ""
	}
	return true, fmt.Sprintf("the status is %d", p.status)
}

func genOver(t *rapid.T) int64 {
	return rapid.SampledFrom([]int64{1, 2, 100, blk - 1, blk, blk + 1, 2 * blk, 40000, 65536}).Draw(t, "over")
}

func genFraming(t *rapid.T, p *getPlan) {
	p.framing = rapid.SampledFrom([]string{"cl-honest", "cl-honest", "cl-nominal", "chunked", "chunked", "close"}).Draw(t, "framing")
	if p.framing == "chunked" {
		p.chunks = rapid.SliceOfN(rapid.SampledFrom([]int{1, 7, 100, 4096, blk - 1, blk, blk + 1, 65536}), 0, 3).Draw(t, "chunks")
	}
	if rapid.IntRange(0, 7).Draw(t, "cut") == 0 {
		p.cut = true
	}
	p.rfSink = rapid.Bool().Draw(t, "rfSink")
}

func genAnswerGR(t *rapid.T, p *getPlan) {
	reqEnd := p.offset + p.length - 1
	switch k := rapid.IntRange(0, 19).Draw(t, "statusclass"); {
	case k < 11:
		p.status = 206
	case k < 16:
		p.status = 200
	default:
		p.status = rapid.SampledFrom([]int{416, 416, 404, 500, 503, 204, 403, 201, 202, 203, 226, 207}).Draw(t, "status")
	}
	if rapid.IntRange(0, 9).Draw(t, "redirect") == 0 {
		p.redirect = rapid.SampledFrom([]int{301, 302, 307}).Draw(t, "redirectStatus")
	}
	switch p.status {
	case 206:
		p.hasCR = true
		p.bodyStart, p.nominal = p.offset, p.length
		cls := rapid.SampledFrom([]string{"honest", "honest", "honest", "honest", "honest", "start+1", "start-1", "end-short", "end-long",
			"total-wrong", "total-star", "unsatisfied-form", "absent", "malformed"}).Draw(t, "crclass")
		p.crClass = cls
		switch cls {
		case "honest":
			p.cr = fmt.Sprintf("bytes %d-%d/%d", p.offset, reqEnd, p.flength)
		case "start+1", "start-1":
			d := int64(1)
			if cls == "start-1" {
				d = -1
			}
			s := p.offset + d
			e := reqEnd + d
			if rapid.Bool().Draw(t, "sameEnd") {
				e = reqEnd
			}
			if s < 0 || e < s || e >= p.flength {
				// not expressible for this request: fall back to an honest answer
				p.crClass = "honest"
				p.cr = fmt.Sprintf("bytes %d-%d/%d", p.offset, reqEnd, p.flength)
				break
			}
			p.cr = fmt.Sprintf("bytes %d-%d/%d", s, e, p.flength)
			p.nominal = e - s + 1
			// the body really starts where the header says, or where the request did
			if rapid.Bool().Draw(t, "bodyAtDeclared") {
				p.bodyStart = s
			}
		case "end-short":
			if p.length < 2 {
				p.crClass = "honest"
				p.cr = fmt.Sprintf("bytes %d-%d/%d", p.offset, reqEnd, p.flength)
				break
			}
			e := rapid.Int64Range(p.offset, reqEnd-1).Draw(t, "end")
			p.cr = fmt.Sprintf("bytes %d-%d/%d", p.offset, e, p.flength)
			p.nominal = e - p.offset + 1
		case "end-long":
			if reqEnd+1 >= p.flength {
				p.crClass = "honest"
				p.cr = fmt.Sprintf("bytes %d-%d/%d", p.offset, reqEnd, p.flength)
				break
			}
			e := rapid.Int64Range(reqEnd+1, p.flength-1).Draw(t, "end")
			p.cr = fmt.Sprintf("bytes %d-%d/%d", p.offset, e, p.flength)
			p.nominal = e - p.offset + 1
		case "total-wrong":
			tot := p.flength + rapid.SampledFrom([]int64{1, 2, 1000, 1 << 40}).Draw(t, "totalDelta")
			if rapid.Bool().Draw(t, "smaller") && reqEnd < p.flength-1 {
				tot = p.flength - 1
			}
			p.cr = fmt.Sprintf("bytes %d-%d/%d", p.offset, reqEnd, tot)
		case "total-star":
			p.cr = fmt.Sprintf("bytes %d-%d/*", p.offset, reqEnd)
		case "unsatisfied-form":
			p.cr = fmt.Sprintf("bytes */%d", p.flength)
		case "absent":
			p.hasCR = false
		case "malformed":
			p.cr = rapid.SampledFrom(malformedCR).Draw(t, "malformedCR")
		}
	case 200:
		p.crClass = "none"
		p.bodyStart, p.nominal = 0, p.flength
		if rapid.IntRange(0, 5).Draw(t, "wrongTotal200") == 0 {
			p.nominal = max(0, p.flength+rapid.SampledFrom([]int64{-1, 1, 1000}).Draw(t, "d200"))
		}
	case 416:
		p.crClass = "none"
		p.nominal = rapid.Int64Range(0, 40).Draw(t, "errbody")
		if rapid.Bool().Draw(t, "cr416") {
			p.hasCR = true
			p.crClass = "416-total"
			tot := p.flength
			if rapid.Bool().Draw(t, "wrong416") {
				tot += rapid.SampledFrom([]int64{-1, 1, 100}).Draw(t, "d416")
			}
			p.cr = fmt.Sprintf("bytes */%d", max(0, tot))
		}
	default:
		p.crClass = "none"
		p.nominal = rapid.Int64Range(0, 40).Draw(t, "errbody")
		if p.status == 204 {
			p.nominal = 0
		} else if rapid.Bool().Draw(t, "looksPartial") {
			// everything of a good partial answer except the status
			p.hasCR, p.crClass = true, "honest"
			p.cr = fmt.Sprintf("bytes %d-%d/%d", p.offset, reqEnd, p.flength)
			p.bodyStart, p.nominal = p.offset, p.length
		}
	}
	// body length on the wire: exact, short or over-long
	p.bodyLen = p.nominal
	switch rapid.IntRange(0, 9).Draw(t, "bodyclass") {
	case 0, 1:
		if p.nominal > 0 {
			p.bodyLen = rapid.Int64Range(0, p.nominal-1).Draw(t, "shortBody")
		}
	case 2, 3, 4:
		p.bodyLen = p.nominal + genOver(t)
	}
	if p.status == 204 {
		p.bodyLen = 0
	}
	genFraming(t, p)
	if p.status == 204 {
		p.framing, p.cut = "cl-honest", false
	}
}

// ------------------------------------------------------------------ Hoffman

type hPlan struct {
	index, offset, length int64
	status                int
	bodyLen, nominal      int64
	framing               string
	chunks                []int
	cut                   bool
	rfSink                bool
}

func TestC14cHoffman(t *testing.T) {
	initGlobals()
	srv := getServer()
	rapid.Check(t, func(t *rapid.T) {
		initGlobals()
		l := genLayout(t, layoutOpts{maxPieces: 3, noEsc: true})
		content := l.content()
		index, off, n := genRange(t, l, true)
		infoHash := gen.Fill(l.seed^0x1234, 20)
		gp := &getPlan{}
		p := &hPlan{index: int64(index), offset: off, length: n, nominal: n}
		p.status = rapid.SampledFrom([]int{200, 200, 200, 200, 200, 200, 206, 404, 500, 503}).Draw(t, "status")
		p.bodyLen = n
		switch rapid.IntRange(0, 9).Draw(t, "bodyclass") {
		case 0, 1:
			p.bodyLen = rapid.Int64Range(0, n-1).Draw(t, "shortBody")
		case 2, 3, 4:
			p.bodyLen = n + genOver(t)
		}
		if rapid.IntRange(0, 5).Draw(t, "wrongNominal") == 0 {
			p.nominal = max(0, n+rapid.SampledFrom([]int64{-1, 1, blk}).Draw(t, "dn"))
		}
		genFraming(t, gp)
		p.framing, p.chunks, p.cut, p.rfSink = gp.framing, gp.chunks, gp.cut, gp.rfSink
		pieceStart := int64(index) * l.ps
		body := bodyBytes(content[pieceStart:pieceStart+l.pieceLen(index)], off, p.bodyLen, l.seed)
		ans := &answer{status: p.status, body: body, chunks: p.chunks, cut: p.cut}
		switch p.framing {
		case "cl-honest":
			ans.framing, ans.clValue = "cl", int64(len(body))
		case "cl-nominal":
			ans.framing, ans.clValue = "cl", p.nominal
		default:
			ans.framing = p.framing
		}
		srv.script(func(r reqRec, nth int) *answer { return ans })
		url := srv.base + "/" + rapid.SampledFrom([]string{"seed.php", "cgi/seed", "s?x=1"}).Draw(t, "hpath")
		ws, _ := webseed.New(url, false).(*webseed.Hoffman)
		if ws == nil {
			t.Fatalf("harness: webseed.New(%q) did not return a Hoffman seed", url)
		}
		var w io.Writer
		var sk *sink
		if p.rfSink {
			s := &sinkRF{}
			w, sk = s, &s.sink
		} else {
			sk = &sink{}
			w = sk
		}
		ctx, cancel := context.WithTimeout(context.Background(), 30*time.Second)
		var nret int64
		var err error
		var pv any
		func() {
			defer func() { pv = recover() }()
			nret, err = ws.Get(ctx, "", infoHash, uint32(index), uint32(off), uint32(n), w)
		}()
		expired := ctx.Err() != nil
		cancel()
		if expired {
			t.Skip("inconclusive: loopback I/O took more than 30 s")
		}
		reqs := srv.requests()
		got := sk.buf.Bytes()
		fail := func(format string, a ...any) {
			t.Fatalf("C14(c) Hoffman: %s\nplan: %+v url=%s\nGet returned (%d, %v); sink holds %d bytes\nrequests seen: %v", fmt.Sprintf(format, a...), *p, url, nret, err, len(got), reqs)
		}
		if pv != nil {
			fail("panic: %v", pv)
		}
		if len(reqs) == 0 {
			fail("no request reached the server")
		}
		q, qerr := nurl.ParseQuery(reqs[0].rawQuery)
		if qerr != nil {
			fail("unparsable query: %v", qerr)
		}
		if q.Get("info_hash") != string(infoHash) {
			fail("info_hash %x, want %x", q.Get("info_hash"), infoHash)
		}
		if q.Get("piece") != strconv.Itoa(index) {
			fail("piece=%q, want %d", q.Get("piece"), index)
		}
		lab := []string{"hoffman", "status-" + strconv.Itoa(p.status), "framing-" + p.framing}
		switch q.Get("ranges") {
		case fmt.Sprintf("%d-%d", off, off+n-1):
			lab = append(lab, "hoffman-range-end-inclusive")
		case fmt.Sprintf("%d-%d", off, off+n):
			// observation (DESIGN C14): BEP 17 gives an inclusive end; not part of the property
			lab = append(lab, "hoffman-range-end-exclusive")
		default:
			fail("ranges=%q, want %d-%d", q.Get("ranges"), off, off+n-1)
		}
		if int64(len(got)) != nret {
			fail("Get reports %d bytes, the sink received %d", nret, len(got))
		}
		sent := body
		if ans.framing == "cl" && ans.clValue < int64(len(sent)) {
			sent = sent[:ans.clValue]
		}
		if len(got) > len(sent) || !bytes.Equal(got, sent[:len(got)]) {
			fail("the sink received bytes that are not a prefix of the body the server sent")
		}
		if int64(len(got)) > n {
			fail("%d bytes were handed to the sink for a request of %d bytes", len(got), n)
		}
		must := p.status != 200 || (ans.framing == "cl" && ans.clValue != n)
		if must && len(got) > 0 {
			fail("%d bytes were accepted although the answer (status %d, Content-Length %d for a request of %d) does not carry the requested range", len(got), p.status, ans.clValue, n)
		}
		conforming := !must && !p.cut && p.bodyLen == n
		if conforming && !bytes.Equal(got, content[pieceStart+off:pieceStart+off+n]) {
			fail("a conforming answer delivered %d bytes, want exactly the %d requested", len(got), n)
		}
		if must {
			lab = append(lab, "must-reject")
		}
		if conforming {
			lab = append(lab, "conforming-answer")
		}
		if !must && ans.framing != "cl" && p.bodyLen > n {
			lab = append(lab, "chunked-overlong")
		}
		if p.cut {
			lab = append(lab, "connection-cut")
		}
		if off+n == l.pieceLen(index) && l.pieceLen(index)%blk != 0 {
			lab = append(lab, "range-to-short-last-block")
		}
		stats.Case(fmt.Sprintf("cH|%d|%s|%v|%d|%d", p.status, p.framing, p.cut, cmp3(int(p.bodyLen), int(n)), cmp3(int(p.nominal), int(n))), !conforming, append(l.labels(), lab...)...)
	})
}
