// C08 — encryption policy is honoured and the encrypted stream is transparent.
package c08

import (
	"bytes"
	"errors"
	"fmt"
	"io"
	"math/big"
	"net"
	"sync"
	"testing"
	"time"

	"pgregory.net/rapid"

	"github.com/jech/storrent/crypto"
	"github.com/jech/storrent/hash"
	"github.com/jech/storrent/protocol"

	"verif/gen"
	"verif/ref"
	"verif/segconn"
	"verif/sim"
	"verif/stats"
)

func TestMain(m *testing.M) { stats.Main(m) }

func opts(bits int) crypto.Options {
	return crypto.Options{AllowCryptoHandshake: bits&1 != 0, PreferCryptoHandshake: bits&2 != 0, ForceCryptoHandshake: bits&4 != 0,
		AllowEncryption: bits&8 != 0, PreferEncryption: bits&16 != 0, ForceEncryption: bits&32 != 0}
}

// the reference policy, written from the option names
type policy struct{ mse, plainHS, rc4, clear bool }

func pol(o crypto.Options) policy {
	return policy{mse: o.AllowCryptoHandshake, plainHS: !o.ForceCryptoHandshake, rc4: o.AllowEncryption, clear: !o.ForceEncryption}
}

func coherent(o crypto.Options) bool {
	if o.ForceEncryption && !o.ForceCryptoHandshake {
		return false
	}
	if (o.ForceCryptoHandshake && !o.AllowCryptoHandshake) || (o.ForceEncryption && !o.AllowEncryption) {
		return false
	}
	return true
}

var markerC = []byte("CLIENT-MARKER-0123456789abcdefghijklmnopqrstuvwxyzABCDEFGHIJKLMN")
var markerS = []byte("SERVER-MARKER-0123456789abcdefghijklmnopqrstuvwxyzABCDEFGHIJKLMN")

type cell struct {
	okC, okS     bool
	encC, encS   bool
	errC, errS   error
	wireC, wireS []byte
	rxC, rxS     []byte
}

// runSt runs storrent against storrent.
func runSt(kindMSE bool, oc, os crypto.Options) cell {
	var r cell
	a, b := segconn.Pair(segconn.Plan{}, segconn.Plan{})
	h := gen.Fill(1, 20)
	pairs := []hash.HashPair{{First: h, Second: gen.Fill(2, 20)}}
	var wg sync.WaitGroup
	wg.Add(2)
	go func() {
		defer wg.Done()
		conn, _, init, err := protocol.ClientHandshake(a, kindMSE, hash.Hash(h), hash.Hash(gen.Fill(3, 20)), &oc)
		r.errC = err
		if err != nil {
			a.Close()
			return
		}
		r.okC = true
		_, r.encC = conn.(*crypto.Conn)
		conn.SetDeadline(time.Now().Add(10 * time.Second))
		go conn.Write(markerC)
		r.rxC = append([]byte(nil), init...)
		buf := make([]byte, 256)
		for len(r.rxC) < len(markerS) {
			n, err := conn.Read(buf)
			r.rxC = append(r.rxC, buf[:n]...)
			if err != nil {
				break
			}
		}
	}()
	go func() {
		defer wg.Done()
		conn, _, init, err := protocol.ServerHandshake(b, pairs, &os)
		r.errS = err
		if err != nil {
			b.Close()
			return
		}
		r.okS = true
		_, r.encS = conn.(*crypto.Conn)
		conn.SetDeadline(time.Now().Add(10 * time.Second))
		go conn.Write(markerS)
		r.rxS = append([]byte(nil), init...)
		buf := make([]byte, 256)
		for len(r.rxS) < len(markerC) {
			n, err := conn.Read(buf)
			r.rxS = append(r.rxS, buf[:n]...)
			if err != nil {
				break
			}
		}
	}()
	wg.Wait()
	r.wireC, r.wireS = a.Wire(), b.Wire()
	a.Close()
	b.Close()
	return r
}

// (a) the complete 64 x 64 x {plain, MSE} table, storrent on both ends.
func TestC08PolicyTable(t *testing.T) {
	established, conflicts, incoherent := 0, 0, 0
	for kind := 0; kind < 2; kind++ {
		for cb := 0; cb < 64; cb++ {
			for sb := 0; sb < 64; sb++ {
				oc, os := opts(cb), opts(sb)
				pc, ps := pol(oc), pol(os)
				var r cell
				if leak := sim.Bubble(t, func() { r = runSt(kind == 1, oc, os) }); leak != "" {
					t.Fatalf("leak: %s", leak)
				}
				where := fmt.Sprintf("kind mse=%v, client %+v, server %+v: client ok=%v enc=%v (%v), server ok=%v enc=%v (%v)", kind == 1, oc, os, r.okC, r.encC, r.errC, r.okS, r.encS, r.errS)
				est := r.okC && r.okS
				labels := []string{fmt.Sprintf("table:mse=%v", kind == 1)}
				if r.okC != r.okS {
					// one end believes the connection is up, the other refused: only
					// acceptable when the refusing end closes (the other then fails at
					// the first read), which is what happened if the survivor got no marker
					if r.okC && bytes.Equal(r.rxC, markerS) || r.okS && bytes.Equal(r.rxS, markerC) {
						t.Fatalf("the two ends disagree on whether the connection was established, and data flowed\n%s", where)
					}
				}
				if kind == 1 {
					if est && !(pc.mse && ps.mse) {
						t.Fatalf("an encrypted handshake was completed although an end forbids it\n%s", where)
					}
					if est && r.encC != r.encS {
						t.Fatalf("the ends disagree on the cipher mode\n%s", where)
					}
					if est && r.encC && !(pc.rc4 && ps.rc4) {
						t.Fatalf("RC4 mode although an end does not allow encryption\n%s", where)
					}
					if est && !r.encC && !(pc.clear && ps.clear) {
						t.Fatalf("clear mode although an end forces encryption\n%s", where)
					}
					common := (pc.rc4 && ps.rc4) || (pc.clear && ps.clear)
					if pc.mse && ps.mse && common && !est {
						t.Fatalf("the two policies have a common mode and both allow the encrypted handshake, yet it failed\n%s", where)
					}
					if est && pc.rc4 && ps.rc4 && pc.clear && ps.clear && r.encS != os.PreferEncryption {
						t.Fatalf("both modes are permitted by both ends; the server's preference (PreferEncryption=%v) decides, but mode RC4=%v\n%s", os.PreferEncryption, r.encS, where)
					}
					if !common || !pc.mse || !ps.mse {
						conflicts++
						labels = append(labels, "policy-conflict")
					}
				} else {
					if est && !ps.plainHS {
						t.Fatalf("a server that forces the encrypted handshake accepted a plain one\n%s", where)
					}
					if !est && ps.plainHS {
						t.Fatalf("a plain handshake that the server's policy allows failed\n%s", where)
					}
					if est && (r.encC || r.encS) {
						t.Fatalf("plain handshake ended in an encrypted connection\n%s", where)
					}
					if est && coherent(os) && os.ForceEncryption {
						t.Fatalf("a coherent server that forces encryption ended up on a plain connection\n%s", where)
					}
					if !coherent(os) || !coherent(oc) {
						incoherent++
						labels = append(labels, "cell-incoherent")
					}
				}
				if est {
					established++
					labels = append(labels, "established")
					if !bytes.Equal(r.rxC, markerS) || !bytes.Equal(r.rxS, markerC) {
						t.Fatalf("the first payload did not arrive intact\n%s", where)
					}
					enc := r.encC
					inC, inS := bytes.Contains(r.wireC, markerC), bytes.Contains(r.wireS, markerS)
					if enc && (inC || inS) {
						t.Fatalf("mode RC4, but the payload appears in clear on the wire\n%s", where)
					}
					if !enc && !(inC && inS) {
						t.Fatalf("mode clear, but the payload does not appear verbatim on the wire\n%s", where)
					}
					if enc {
						labels = append(labels, "established-rc4")
					} else {
						labels = append(labels, "established-clear")
					}
				}
				stats.Case(fmt.Sprintf("table/%d/%d/%d", kind, cb, sb), est || len(labels) > 1, labels...)
			}
		}
	}
	stats.Exhaustive("64 x 64 option pairs x {plain, MSE}, storrent on both ends")
	stats.Note("policy table: %d cells established, %d MSE cells with conflicting policies, %d plain cells with an incoherent option set", established, conflicts, incoherent)
}

// (b) crypto_provide / crypto_select values a foreign peer may send.
func TestC08ForeignSelections(t *testing.T) {
	values := []uint32{0, 1, 2, 3, 4, 5, 6, 7, 8, 0x80000002, 0xFFFFFFFF, 0xFFFFFFFC}
	h := gen.Fill(1, 20)
	pairs := []hash.HashPair{{First: h, Second: gen.Fill(2, 20)}}
	for sb := 0; sb < 64; sb++ {
		os := opts(sb)
		ps := pol(os)
		for _, provide := range values {
			// reference client -> storrent server
			var res *ref.MSEResult
			var cerr, serr error
			var senc bool
			leak := sim.Bubble(t, func() {
				a, b := segconn.Pair(segconn.Plan{}, segconn.Plan{})
				done := make(chan struct{})
				go func() {
					defer close(done)
					conn, _, _, err := protocol.ServerHandshake(b, pairs, &os)
					serr = err
					if err == nil {
						_, senc = conn.(*crypto.Conn)
					}
					if err != nil {
						b.Close()
					}
				}()
				a.SetDeadline(time.Now().Add(20 * time.Second))
				res, cerr = ref.MSEClient(a, h, ref.MSEClientParams{X: big.NewInt(0x123456789), Provide: provide, IA: ref.BTHandshake([8]byte{}, h, gen.Fill(3, 20))})
				if cerr == nil && (res.Select == 1 || res.Select == 2) {
					// complete the BitTorrent handshake so that the server returns
					buf := make([]byte, 68)
					io.ReadFull(a, buf)
				}
				<-done
				a.Close()
				b.Close()
			})
			if leak != "" {
				t.Fatalf("leak: %s", leak)
			}
			where := fmt.Sprintf("crypto_provide %#x to a storrent server with %+v: client err %v, select %v; server err %v, rc4 %v", provide, os, cerr, sel(res), serr, senc)
			est := serr == nil
			if est {
				s := res.Select
				if s != 1 && s != 2 {
					t.Fatalf("server selected a value that is not a single known method\n%s", where)
				}
				if provide&s == 0 {
					t.Fatalf("server selected a method the client did not offer\n%s", where)
				}
				if (s == 2) != senc {
					t.Fatalf("server's connection mode differs from what it selected\n%s", where)
				}
				if s == 2 && !ps.rc4 || s == 1 && !ps.clear || !ps.mse {
					t.Fatalf("server selected a mode its own policy forbids\n%s", where)
				}
			} else if ps.mse && ((provide&2 != 0 && ps.rc4) || (provide&1 != 0 && ps.clear)) {
				t.Fatalf("an offer containing a method the server allows was refused\n%s", where)
			}
			stats.Case(fmt.Sprintf("provide/%d/%x/%v", sb, provide, est), true, "foreign-provide", fmt.Sprintf("provide-established:%v", est))
		}
		oc := opts(sb)
		pc := pol(oc)
		for _, selv := range values {
			// storrent client -> reference server answering selv
			var cerr error
			var cenc bool
			var provide uint32
			leak := sim.Bubble(t, func() {
				a, b := segconn.Pair(segconn.Plan{}, segconn.Plan{})
				done := make(chan struct{})
				go func() {
					defer close(done)
					b.SetDeadline(time.Now().Add(20 * time.Second))
					res, err := ref.MSEServer(b, [][]byte{h}, ref.MSEServerParams{X: big.NewInt(0x987654321), Select: func(p uint32) uint32 { provide = p; return selv }})
					if err != nil {
						b.Close()
						return
					}
					// send the BitTorrent handshake in the selected mode
					hs := ref.BTHandshake([8]byte{}, h, gen.Fill(2, 20))
					if selv == 2 {
						res.Enc.XORKeyStream(hs, hs)
					}
					b.Write(hs)
				}()
				conn, _, _, err := protocol.ClientHandshake(a, true, hash.Hash(h), hash.Hash(gen.Fill(3, 20)), &oc)
				cerr = err
				if err == nil {
					_, cenc = conn.(*crypto.Conn)
				}
				a.Close()
				<-done
				b.Close()
			})
			if leak != "" {
				t.Fatalf("leak: %s", leak)
			}
			where := fmt.Sprintf("crypto_select %#x answered to a storrent client with %+v (it offered %#x): err %v, rc4 %v", selv, oc, provide, cerr, cenc)
			if cerr == nil {
				if selv != 1 && selv != 2 {
					t.Fatalf("client accepted a crypto_select that is not a single known method\n%s", where)
				}
				if provide&selv == 0 {
					t.Fatalf("client accepted a method it had not offered\n%s", where)
				}
				if selv == 2 && !pc.rc4 || selv == 1 && !pc.clear {
					t.Fatalf("client accepted a mode its policy forbids\n%s", where)
				}
				if (selv == 2) != cenc {
					t.Fatalf("client's connection mode differs from the selection\n%s", where)
				}
			} else if pc.mse && (selv == 1 && pc.clear || selv == 2 && pc.rc4) {
				t.Fatalf("client refused a selection its policy allows\n%s", where)
			}
			if provide != 0 {
				if (provide&1 != 0) != pc.clear || (provide&2 != 0) != pc.rc4 || provide&^3 != 0 {
					t.Fatalf("client offered crypto_provide %#x, its policy is clear=%v rc4=%v\n%s", provide, pc.clear, pc.rc4, where)
				}
			}
			stats.Case(fmt.Sprintf("select/%d/%x/%v", sb, selv, cerr == nil), true, "foreign-select", fmt.Sprintf("select-accepted:%v", cerr == nil))
		}
	}
	stats.Exhaustive("crypto_provide / crypto_select value lists x 64 option sets")
}

func sel(r *ref.MSEResult) any {
	if r == nil {
		return "-"
	}
	return r.Select
}

// (d)/(e) transparency of the RC4 stream, key derivation checked by decrypting the wire.

type faultSpec struct {
	at        int
	short     bool
	transient bool
}

func TestC08Transparency(t *testing.T) {
	rapid.Check(t, func(rt *rapid.T) {
		sizes := []int{0, 1, 100, 32*1024 - 1, 32 * 1024, 32*1024 + 1, 100 * 1024, 1 << 20}
		nw := rapid.IntRange(1, 6).Draw(rt, "writes")
		var writes []int
		total := 0
		for i := 0; i < nw; i++ {
			w := rapid.SampledFrom(sizes).Draw(rt, "wsize")
			if total+w > 3<<20 {
				w = 100
			}
			writes = append(writes, w)
			total += w
		}
		rbuf := rapid.SampledFrom([]int{1, 7, 4096, 65536}).Draw(rt, "rbuf")
		if rbuf == 1 && total > 200000 {
			rbuf = 7
		}
		var fault *faultSpec
		if rapid.Bool().Draw(rt, "fault") && total > 0 {
			fault = &faultSpec{at: rapid.IntRange(0, total).Draw(rt, "faultAt"), short: rapid.Bool().Draw(rt, "short"), transient: rapid.Bool().Draw(rt, "transient")}
		}
		refServer := rapid.Bool().Draw(rt, "refServer")
		// the independent responder's own padding (storrent's server never sends any PadD)
		var padB, padD []byte
		if refServer {
			padB = gen.Fill(31, rapid.SampledFrom([]int{0, 0, 1, 100, 512}).Draw(rt, "padB"))
			padD = gen.Fill(32, rapid.SampledFrom([]int{0, 1, 37, 511, 512}).Draw(rt, "padD"))
		}
		eofWithData := rapid.Bool().Draw(rt, "eofWithData")
		seed := rapid.Uint64().Draw(rt, "seed")
		plain := gen.Fill(seed, total)
		back := gen.Fill(seed+1, min(total, 70000))
		h := gen.Fill(9, 20)
		force := *crypto.DefaultOptions(true, true)
		var fail string
		labels := []string{fmt.Sprintf("ref-server:%v", refServer)}
		if len(padD) > 0 {
			labels = append(labels, "ref-server-sends-padD")
		}
		if eofWithData && !refServer {
			labels = append(labels, "last-bytes-with-eof")
		}
		leak := sim.Bubble(t, func() {
			a, b := segconn.Pair(segconn.Plan{Sizes: []int{rbuf * 3}, Cycle: true}, segconn.Plan{Sizes: []int{4096}, Cycle: true, EOFWithData: eofWithData})
			type srv struct {
				conn net.Conn
				res  *ref.MSEResult
				err  error
			}
			sch := make(chan srv, 1)
			go func() {
				b.SetDeadline(time.Now().Add(time.Minute))
				if refServer {
					res, err := ref.MSEServer(b, [][]byte{h}, ref.MSEServerParams{X: big.NewInt(0x5555555), PadB: padB, PadD: padD, Select: func(uint32) uint32 { return 2 }})
					sch <- srv{nil, res, err}
					return
				}
				conn, _, _, err := crypto.ServerHandshake(b, nil, [][]byte{h}, &force)
				sch <- srv{conn, nil, err}
			}()
			cconn, _, err := crypto.ClientHandshake(a, h, nil, &force)
			s := <-sch
			if err != nil || s.err != nil {
				fail = fmt.Sprintf("handshake failed: %v / %v", err, s.err)
				return
			}
			if _, ok := cconn.(*crypto.Conn); !ok {
				fail = "forced encryption, but the client connection is not encrypted"
				return
			}
			wireStart := len(a.Wire())
			if fault != nil {
				a.FailAt, a.Short, a.Transient = wireStart+fault.at, fault.short, fault.transient
			}
			cconn.SetDeadline(time.Time{})
			b.SetDeadline(time.Time{})
			// writer: the drawn write pattern; records what Write reported
			type wres struct {
				n   int
				err error
			}
			var wlog []wres
			wdone := make(chan struct{})
			go func() {
				defer close(wdone)
				off := 0
				for _, w := range writes {
					n, err := cconn.Write(plain[off : off+w])
					wlog = append(wlog, wres{n, err})
					off += w
				}
			}()
			// concurrently the other direction
			bdone := make(chan struct{})
			var gotBack []byte
			go func() {
				defer close(bdone)
				buf := make([]byte, rbuf)
				for len(gotBack) < len(back) {
					n, err := cconn.Read(buf)
					gotBack = append(gotBack, buf[:n]...)
					if err != nil {
						return
					}
				}
			}()
			var sink io.Reader
			var sendBack func([]byte)
			if refServer {
				sink = readerFunc(func(p []byte) (int, error) {
					n, err := b.Read(p)
					s.res.Dec.XORKeyStream(p[:n], p[:n])
					return n, err
				})
				sendBack = func(p []byte) {
					q := append([]byte(nil), p...)
					s.res.Enc.XORKeyStream(q, q)
					b.Write(q)
				}
			} else {
				sink = s.conn
				sendBack = func(p []byte) { s.conn.Write(p) }
			}
			go sendBack(back)
			<-wdone
			// what reached the wire
			sent := len(a.Wire()) - wireStart
			got := make([]byte, 0, sent)
			buf := make([]byte, rbuf)
			if eofWithData {
				// the sender closes; the last bytes arrive together with io.EOF
				a.CloseWrite()
				for {
					n, err := sink.Read(buf)
					got = append(got, buf[:n]...)
					if err != nil {
						break
					}
				}
			}
			for len(got) < sent {
				n, err := sink.Read(buf)
				got = append(got, buf[:n]...)
				if err != nil {
					break
				}
			}
			<-bdone
			a.Close()
			b.Close()
			if !bytes.Equal(gotBack, back) {
				fail = fmt.Sprintf("reverse direction: received %d bytes, sent %d, contents equal=%v", len(gotBack), len(back), bytes.Equal(gotBack, back[:min(len(back), len(gotBack))]))
				return
			}
			if fault == nil {
				off := 0
				for i, w := range wlog {
					if w.err != nil || w.n != writes[i] {
						fail = fmt.Sprintf("write %d of %d bytes returned (%d, %v)", i, writes[i], w.n, w.err)
						return
					}
					off += w.n
				}
				if !bytes.Equal(got, plain) {
					fail = fmt.Sprintf("the receiver obtained %d bytes, the sender wrote %d; equal prefix: %v", len(got), len(plain), bytes.Equal(got, plain[:min(len(got), len(plain))]))
				}
				if len(writes) > 0 && total > 32*1024 {
					labels = append(labels, "write-above-32KiB")
				}
				return
			}
			// with a fault: what reached the wire decrypts to a prefix of the plaintext
			if sent > len(plain) || !bytes.Equal(got, plain[:sent]) {
				fail = fmt.Sprintf("after a write fault at byte %d (short=%v) the %d bytes on the wire do not decrypt to a prefix of the plaintext (keystream ahead of the wire?)", fault.at, fault.short, sent)
				return
			}
			failed := false
			off := 0
			for i, w := range wlog {
				if failed {
					if w.err == nil && writes[i] > 0 {
						fail = fmt.Sprintf("write %d succeeded (%d bytes) after an earlier write had failed: the stream is corrupt from there on", i, w.n)
						return
					}
					if w.n != 0 {
						fail = fmt.Sprintf("write %d after a failure reported %d bytes", i, w.n)
						return
					}
					continue
				}
				if w.err != nil {
					failed = true
					if off+w.n != sent {
						fail = fmt.Sprintf("failed write %d reported %d bytes (total %d), but %d bytes reached the wire", i, w.n, off+w.n, sent)
						return
					}
					labels = append(labels, "fault-inside-write")
				} else if w.n != writes[i] {
					fail = fmt.Sprintf("write %d of %d bytes returned (%d, nil)", i, writes[i], w.n)
					return
				}
				off += w.n
			}
			if failed {
				if fault.transient {
					labels = append(labels, "transient-fault")
				}
				if fault.short {
					labels = append(labels, "short-write-fault")
				} else {
					labels = append(labels, "error-fault")
				}
			}
		})
		if leak != "" {
			rt.Fatalf("goroutines left behind: %s", leak)
		}
		if fail != "" {
			rt.Fatalf("%s\nwrites %v, read buffer %d, fault %+v, reference server %v", fail, writes, rbuf, fault, refServer)
		}
		stats.Case(fmt.Sprintf("transp/%v/%d/%v/%v", writes, rbuf, fault != nil, refServer), total > 32*1024 || fault != nil, labels...)
		if stats.WantSample("transparency") {
			stats.Sample("transparency", map[string]any{"writes": writes, "rbuf": rbuf, "fault": fmt.Sprintf("%+v", fault), "refServer": refServer})
		}
	})
}

type readerFunc func([]byte) (int, error)

func (f readerFunc) Read(p []byte) (int, error) { return f(p) }

var _ = errors.New
