package c08

import (
	"bytes"
	"context"
	"errors"
	"fmt"
	"io"
	"math/big"
	"net"
	"net/netip"
	"sync"
	"testing"
	"time"

	"github.com/jech/storrent/crypto"
	"github.com/jech/storrent/tor"

	"verif/gen"
	"verif/ref"
	"verif/sim"
	"verif/stats"
)

// (c) the dial / fallback logic of tor.DialClient, reached through a SOCKS5
// proxy on loopback that "connects" any global address to a scripted peer.

type attempt struct {
	kind string // "plain" | "mse"
}

type socksPeer struct {
	ln      net.Listener
	mu      sync.Mutex
	script  []string // behaviour of successive connections
	seen    []attempt
	hash    []byte
	wg      sync.WaitGroup
}

func readN(c net.Conn, n int) ([]byte, error) {
	b := make([]byte, n)
	_, err := io.ReadFull(c, b)
	return b, err
}

func (s *socksPeer) serve() {
	for {
		c, err := s.ln.Accept()
		if err != nil {
			return
		}
		s.wg.Add(1)
		go func() {
			defer s.wg.Done()
			defer c.Close()
			c.SetDeadline(time.Now().Add(10 * time.Second))
			// SOCKS5: greeting, CONNECT
			h, err := readN(c, 2)
			if err != nil || h[0] != 5 {
				return
			}
			if _, err := readN(c, int(h[1])); err != nil {
				return
			}
			c.Write([]byte{5, 0})
			rq, err := readN(c, 4)
			if err != nil {
				return
			}
			alen := map[byte]int{1: 4, 4: 16}[rq[3]]
			if rq[3] == 3 {
				l, _ := readN(c, 1)
				alen = int(l[0])
			}
			if _, err := readN(c, alen+2); err != nil {
				return
			}
			c.Write([]byte{5, 0, 0, 1, 0, 0, 0, 0, 0, 0})
			s.mu.Lock()
			beh := "close"
			if len(s.script) > 0 {
				beh, s.script = s.script[0], s.script[1:]
			}
			s.mu.Unlock()
			// what does the client open with?
			first, err := readN(c, 20)
			if err != nil {
				return
			}
			kind := "mse"
			if first[0] == 19 && string(first[1:20]) == "BitTorrent protocol" {
				kind = "plain"
			}
			s.mu.Lock()
			s.seen = append(s.seen, attempt{kind})
			s.mu.Unlock()
			conn := &prefixConn{Conn: c, pre: first}
			switch beh {
			case "close":
				return
			case "junk":
				if kind == "plain" {
					conn.Write(gen.Fill(77, 68))
					time.Sleep(50 * time.Millisecond)
					return
				}
				// complete the encrypted handshake, then answer with something that is not a BitTorrent handshake
				res, err := ref.MSEServer(conn, [][]byte{s.hash}, ref.MSEServerParams{X: big.NewInt(0x1234567), Select: func(p uint32) uint32 {
					if p&2 != 0 {
						return 2
					}
					return 1
				}})
				if err != nil {
					return
				}
				junk := gen.Fill(78, 68)
				if res.Select == 2 {
					res.Enc.XORKeyStream(junk, junk)
				}
				conn.Write(junk)
				time.Sleep(50 * time.Millisecond)
			case "accept":
				var layer io.ReadWriter = conn
				var got []byte
				if kind == "mse" {
					res, err := ref.MSEServer(conn, [][]byte{s.hash}, ref.MSEServerParams{X: big.NewInt(0x7654321), Select: func(p uint32) uint32 {
						if p&2 != 0 {
							return 2
						}
						return 1
					}})
					if err != nil {
						return
					}
					pre := res.Rest
					if res.Select == 2 {
						res.Dec.XORKeyStream(pre, pre)
					}
					got = append(res.IA, pre...)
					layer = &cipherRW{conn, res}
				}
				buf := make([]byte, 256)
				for len(got) < 68 {
					n, err := layer.Read(buf)
					got = append(got, buf[:n]...)
					if err != nil {
						return
					}
				}
				layer.Write(ref.BTHandshake([8]byte{}, s.hash, gen.Fill(79, 20)))
				// stay connected until the client is done with us
				c.SetDeadline(time.Now().Add(500 * time.Millisecond))
				io.Copy(io.Discard, conn)
			}
		}()
	}
}

type prefixConn struct {
	net.Conn
	pre []byte
}

func (p *prefixConn) Read(b []byte) (int, error) {
	if len(p.pre) > 0 {
		n := copy(b, p.pre)
		p.pre = p.pre[n:]
		return n, nil
	}
	return p.Conn.Read(b)
}

type cipherRW struct {
	c   io.ReadWriter
	res *ref.MSEResult
}

func (r *cipherRW) Read(p []byte) (int, error) {
	n, err := r.c.Read(p)
	if r.res.Select == 2 {
		r.res.Dec.XORKeyStream(p[:n], p[:n])
	}
	return n, err
}

func (r *cipherRW) Write(p []byte) (int, error) {
	q := append([]byte(nil), p...)
	if r.res.Select == 2 {
		r.res.Enc.XORKeyStream(q, q)
	}
	return r.c.Write(q)
}

func TestC08DialFallback(t *testing.T) {
	sim.Init()
	ln, err := net.Listen("tcp", "127.0.0.1:0")
	if err != nil {
		t.Skip("no loopback: ", err)
	}
	defer ln.Close()
	sp := &socksPeer{ln: ln}
	go sp.serve()
	scripts := [][]string{{"accept"}, {"junk", "accept"}, {"junk", "junk", "accept"}, {"close"}}
	ncell := 0
	// 64 raw option sets, then the four the command line can produce
	// (-prefer-encryption, -force-encryption through crypto.DefaultOptions):
	// for those the user's words are the policy
	for bits := 0; bits < 68; bits++ {
		var o crypto.Options
		userForce, user := false, false
		if bits < 64 {
			o = opts(bits)
		} else {
			user = true
			userForce = bits&2 != 0
			o = *crypto.DefaultOptions(bits&1 != 0, userForce)
		}
		for si, script := range scripts {
			x, err := sim.Build(sim.Geometry{PieceSize: 16384, Length: 32768, Seed: uint64(1000 + bits*8 + si)}, "socks5://"+ln.Addr().String())
			if err != nil {
				t.Fatal(err)
			}
			ctx, cancel := context.WithCancel(context.Background())
			if _, err := tor.AddTorrent(ctx, x.T); err != nil {
				t.Fatal(err)
			}
			sp.mu.Lock()
			sp.script, sp.seen, sp.hash = append([]string(nil), script...), nil, x.T.Hash
			sp.mu.Unlock()
			dctx, dcancel := context.WithTimeout(ctx, 8*time.Second)
			derr := tor.DialClient(dctx, x.T, netip.MustParseAddrPort("8.8.8.8:6881"), &o)
			dcancel()
			peers, _ := x.T.GetPeers()
			x.T.Kill(context.Background())
			cancel()
			sp.wg.Wait()
			sp.mu.Lock()
			seen := append([]attempt(nil), sp.seen...)
			sp.mu.Unlock()
			where := fmt.Sprintf("options %+v, peer script %v: DialClient returned %v after attempts %v, %d peer(s) attached", o, script, derr, seen, len(peers))
			if errors.Is(derr, context.DeadlineExceeded) {
				t.Skipf("inconclusive (loopback too slow): %s", where)
			}
			for _, a := range seen {
				if a.kind == "mse" && !o.AllowCryptoHandshake {
					t.Fatalf("an encrypted handshake was attempted although the options forbid it\n%s", where)
				}
				if a.kind == "plain" && o.ForceCryptoHandshake && coherent(o) && o.PreferCryptoHandshake {
					t.Fatalf("a plain handshake was attempted although the options force the encrypted one\n%s", where)
				}
			}
			if user && userForce {
				for _, a := range seen {
					if a.kind == "plain" {
						t.Fatalf("force-encryption is set (DefaultOptions(prefer=%v, force=true)), yet a plain handshake was attempted\n%s", bits&1 != 0, where)
					}
				}
				if len(peers) > 0 && !peers[0].Encrypted() {
					t.Fatalf("force-encryption is set, yet a peer was attached over an unencrypted connection\n%s", where)
				}
			}
			if len(seen) > 2 {
				t.Fatalf("more than two attempts\n%s", where)
			}
			if len(seen) == 2 && seen[0].kind == seen[1].kind {
				t.Fatalf("the fallback repeated the same kind of handshake\n%s", where)
			}
			if len(peers) > 0 {
				// the connection that was established must be one the policy permits
				last := seen[len(seen)-1]
				if last.kind == "plain" && (o.ForceCryptoHandshake && coherent(o) && o.PreferCryptoHandshake) {
					t.Fatalf("a peer was attached over a plain handshake although the options force encryption\n%s", where)
				}
				if enc := peers[0].Encrypted(); enc && !o.AllowEncryption || !enc && last.kind == "mse" && o.ForceEncryption {
					t.Fatalf("peer attached with RC4=%v against the options\n%s", enc, where)
				}
			}
			labels := []string{"dial-cell", fmt.Sprintf("dial-attempts:%d", len(seen))}
			if user {
				labels = append(labels, "dial-user-level-options")
			}
			if len(seen) == 2 {
				labels = append(labels, "dial-fallback:"+seen[0].kind+"->"+seen[1].kind)
			}
			if len(peers) > 0 {
				labels = append(labels, "dial-attached")
			}
			stats.Case(fmt.Sprintf("dial/%d/%d/%v/%d", bits, si, seen, len(peers)), true, labels...)
			ncell++
		}
	}
	stats.Exhaustive("DialClient: (64 raw option sets + the 4 command-line policies) x 4 peer scripts")
	_ = bytes.Equal
	_ = crypto.DefaultOptions
}
