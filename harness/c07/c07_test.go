// C07 — handshakes agree and do not depend on TCP segmentation.
package c07

import (
	"bytes"
	"fmt"
	"io"
	"math/big"
	"net"
	"testing"
	"time"

	"pgregory.net/rapid"

	"github.com/jech/storrent/crypto"
	"github.com/jech/storrent/hash"
	"github.com/jech/storrent/protocol"

	"verif/gen"
	"verif/ref"
	"verif/segconn"
	"verif/sim"
	"verif/stats"
)

func TestMain(m *testing.M) { stats.Main(m) }

type refParams struct {
	X        uint64
	PadLen   int // PadA or PadB
	Pad2Len  int // PadC or PadD
	Provide  uint32
	PreferRC4 bool
	IALen    int // client: how much of (handshake ++ early data) travels inside IA; -1: none
	Mismatch bool // reference client: SKEY of one offered torrent, BitTorrent handshake for another
	Reserved [8]byte
}

type caseSpec struct {
	mse            bool
	client, server string // "st" | "ref"
	optC, optS     crypto.Options
	nHashes, which int
	txC, txS       int // message-layer bytes each end sends right after its handshake
	refP           refParams
	seed           uint64
}

type outcome struct {
	okC, okS     bool
	errC, errS   string
	hashC, hashS string
	idC, idS     string // id each end learnt
	capsC, capsS string
	encC, encS   bool
	rxC, rxS     string // "exact" | description of the difference
}

func (o outcome) String() string {
	return fmt.Sprintf("{client ok=%v(%s) hash=%s id=%s caps=%s enc=%v rx=%s | server ok=%v(%s) hash=%s id=%s caps=%s enc=%v rx=%s}",
		o.okC, o.errC, o.hashC, o.idC, o.capsC, o.encC, o.rxC, o.okS, o.errS, o.hashS, o.idS, o.capsS, o.encS, o.rxS)
}

// key leaves out error texts (they may legitimately differ between plans:
// a refusal can surface as EOF or as a named error).
func (o outcome) key() string {
	return fmt.Sprintf("%v %s %s %s %v %s | %v %s %s %s %v %s", o.okC, o.hashC, o.idC, o.capsC, o.encC, o.rxC, o.okS, o.hashS, o.idS, o.capsS, o.encS, o.rxS)
}

func caps(dht, fast, ext bool) string { return fmt.Sprintf("dht=%v,fast=%v,ext=%v", dht, fast, ext) }

func capsOf(r [8]byte) string { return caps(r[7]&1 != 0, r[7]&4 != 0, r[5]&0x10 != 0) }

var stReserved = [8]byte{0, 0, 0, 0, 0, 0x10, 0, 0x05}

type endResult struct {
	err     error
	hash    []byte
	id      []byte
	caps    string
	enc     bool
	rx      []byte
	rxErr   error
}

func hashesFor(c caseSpec) (pairs []hash.HashPair, keys [][]byte) {
	for i := 0; i < c.nHashes; i++ {
		h := gen.Fill(c.seed+uint64(i)*7+1, 20)
		my := gen.Fill(c.seed+uint64(i)*7+2, 20)
		pairs = append(pairs, hash.HashPair{First: h, Second: my})
		keys = append(keys, h)
	}
	return
}

// readN reads n message-layer bytes given what the handshake already returned.
func readN(conn io.Reader, init []byte, n int) ([]byte, error) {
	out := append([]byte(nil), init...)
	buf := make([]byte, 4096)
	for len(out) < n {
		k, err := conn.Read(buf)
		out = append(out, buf[:k]...)
		if err != nil {
			return out, err
		}
	}
	return out, nil
}

// rc4Conn applies the reference peer's payload ciphers.
type rc4Conn struct {
	c   net.Conn
	res *ref.MSEResult
}

func (r *rc4Conn) Read(p []byte) (int, error) {
	n, err := r.c.Read(p)
	if r.res != nil && r.res.Select == 2 {
		r.res.Dec.XORKeyStream(p[:n], p[:n])
	}
	return n, err
}

func (r *rc4Conn) Write(p []byte) (int, error) {
	q := append([]byte(nil), p...)
	if r.res != nil && r.res.Select == 2 {
		r.res.Enc.XORKeyStream(q, q)
	}
	return r.c.Write(q)
}

func runOnce(c caseSpec, planC, planS segconn.Plan) outcome {
	a, b := segconn.Pair(planC, planS) // a: client end, b: server end
	pairs, keys := hashesFor(c)
	offered := keys[c.which]
	idClient := gen.Fill(c.seed+100, 20)
	idServerRef := gen.Fill(c.seed+101, 20)
	txC := gen.Fill(c.seed+200, c.txC)
	txS := gen.Fill(c.seed+201, c.txS)
	var rc, rs endResult
	done := make(chan struct{}, 2)
	// ---- client
	go func() {
		defer func() { done <- struct{}{} }()
		if c.client == "st" {
			conn, res, init, err := protocol.ClientHandshake(a, c.mse, hash.Hash(offered), hash.Hash(idClient), &c.optC)
			rc.err = err
			if err != nil {
				a.Close()
				return
			}
			rc.hash, rc.id, rc.caps = res.Hash, res.Id, caps(res.Dht, res.Fast, res.Extended)
			_, rc.enc = conn.(*crypto.Conn)
			conn.SetDeadline(time.Now().Add(20 * time.Second))
			go conn.Write(txC)
			rc.rx, rc.rxErr = readN(conn, init, len(txS))
			return
		}
		// reference client
		hsHash := offered
		if c.refP.Mismatch && c.mse && len(keys) > 1 {
			hsHash = keys[(c.which+1)%len(keys)]
		}
		hs := ref.BTHandshake(c.refP.Reserved, hsHash, idClient)
		stream := append(append([]byte(nil), hs...), txC...)
		var layer io.ReadWriter = a
		var pre []byte
		if c.mse {
			ia := []byte{}
			if c.refP.IALen >= 0 {
				ia = stream[:min(c.refP.IALen, len(stream))]
			}
			res, err := ref.MSEClient(a, offered, ref.MSEClientParams{X: new(big.Int).SetUint64(c.refP.X | 1<<40), PadA: gen.Fill(c.seed+300, c.refP.PadLen),
				PadC: gen.Fill(c.seed+301, c.refP.Pad2Len), Provide: c.refP.Provide, IA: ia})
			if err != nil {
				rc.err = err
				a.Close()
				return
			}
			if res.Select != 1 && res.Select != 2 || res.Select&c.refP.Provide == 0 {
				rc.err = fmt.Errorf("server selected %d, offered %d", res.Select, c.refP.Provide)
				a.Close()
				return
			}
			rc.enc = res.Select == 2
			stream = stream[len(ia):]
			pre = res.Rest
			if res.Select == 2 {
				res.Dec.XORKeyStream(pre, pre)
			}
			layer = &rc4Conn{a, res}
		}
		a.SetDeadline(time.Now().Add(40 * time.Second))
		go layer.Write(stream)
		got, err := readN(layer, pre, 68)
		if err != nil {
			rc.err = fmt.Errorf("reading the server's handshake: %w", err)
			a.Close()
			return
		}
		resv, ih, pid, err := ref.ParseBTHandshake(got)
		if err != nil {
			rc.err = err
			a.Close()
			return
		}
		rc.hash, rc.id, rc.caps = ih, pid, capsOf(resv)
		rc.rx, rc.rxErr = readN(layer, got[68:], len(txS))
	}()
	// ---- server
	go func() {
		defer func() { done <- struct{}{} }()
		if c.server == "st" {
			conn, res, init, err := protocol.ServerHandshake(b, pairs, &c.optS)
			rs.err = err
			if err != nil {
				b.Close()
				return
			}
			rs.hash, rs.id, rs.caps = res.Hash, res.Id, caps(res.Dht, res.Fast, res.Extended)
			_, rs.enc = conn.(*crypto.Conn)
			conn.SetDeadline(time.Now().Add(20 * time.Second))
			go conn.Write(txS)
			rs.rx, rs.rxErr = readN(conn, init, len(txC))
			return
		}
		// reference server
		var layer io.ReadWriter = b
		var pre []byte
		b.SetDeadline(time.Now().Add(40 * time.Second))
		var got []byte
		if c.mse {
			res, err := ref.MSEServer(b, keys, ref.MSEServerParams{X: new(big.Int).SetUint64(c.refP.X | 1<<41), PadB: gen.Fill(c.seed+302, c.refP.PadLen),
				PadD: gen.Fill(c.seed+303, c.refP.Pad2Len), Select: func(p uint32) uint32 {
					if p&2 != 0 && (c.refP.PreferRC4 || p&1 == 0) {
						return 2
					}
					if p&1 != 0 {
						return 1
					}
					return 0
				}})
			if err != nil {
				rs.err = err
				b.Close()
				return
			}
			if res.Select == 0 {
				rs.err = fmt.Errorf("nothing acceptable in crypto_provide %d", res.Provide)
				b.Close()
				return
			}
			rs.enc = res.Select == 2
			pre = res.Rest
			if res.Select == 2 {
				res.Dec.XORKeyStream(pre, pre)
			}
			layer = &rc4Conn{b, res}
			got = append(res.IA, pre...)
		}
		got, err := readN(layer, got, 68)
		if err != nil {
			rs.err = fmt.Errorf("reading the client's handshake: %w", err)
			b.Close()
			return
		}
		resv, ih, pid, err := ref.ParseBTHandshake(got)
		if err != nil {
			rs.err = err
			b.Close()
			return
		}
		known := false
		for _, k := range keys {
			known = known || bytes.Equal(k, ih)
		}
		if !known {
			rs.err = fmt.Errorf("unknown info-hash")
			b.Close()
			return
		}
		rs.hash, rs.id, rs.caps = ih, pid, capsOf(resv)
		// handshake reply and early data glued together
		go layer.Write(append(ref.BTHandshake(c.refP.Reserved, ih, idServerRef), txS...))
		rs.rx, rs.rxErr = readN(layer, got[68:], len(txC))
	}()
	<-done
	<-done
	a.Close()
	b.Close()
	o := outcome{okC: rc.err == nil, okS: rs.err == nil, hashC: fmt.Sprintf("%x", rc.hash), hashS: fmt.Sprintf("%x", rs.hash),
		idC: fmt.Sprintf("%x", rc.id), idS: fmt.Sprintf("%x", rs.id), capsC: rc.caps, capsS: rs.caps, encC: rc.enc, encS: rs.enc}
	if rc.err != nil {
		o.errC = rc.err.Error()
	}
	if rs.err != nil {
		o.errS = rs.err.Error()
	}
	cmp := func(got []byte, err error, want []byte) string {
		if bytes.Equal(got, want) {
			return "exact"
		}
		i := 0
		for i < len(got) && i < len(want) && got[i] == want[i] {
			i++
		}
		return fmt.Sprintf("got %d bytes (err %v), want %d, first difference at %d", len(got), err, len(want), i)
	}
	if o.okC {
		o.rxC = cmp(rc.rx, rc.rxErr, txS)
	}
	if o.okS {
		o.rxS = cmp(rs.rx, rs.rxErr, txC)
	}
	return o
}

// the policy reference: can this configuration succeed?
func canSucceed(c caseSpec) bool {
	cRC4, cClear, cMSE := c.optC.AllowEncryption, !c.optC.ForceEncryption, c.optC.AllowCryptoHandshake
	sRC4, sClear, sMSE, sPlain := c.optS.AllowEncryption, !c.optS.ForceEncryption, c.optS.AllowCryptoHandshake, !c.optS.ForceCryptoHandshake
	if c.client == "ref" {
		cRC4, cClear, cMSE = c.refP.Provide&2 != 0, c.refP.Provide&1 != 0, true
	}
	if c.server == "ref" {
		sRC4, sClear, sMSE, sPlain = true, true, true, true
	}
	if !c.mse {
		return sPlain
	}
	if c.client == "ref" && c.refP.Mismatch && c.nHashes > 1 {
		return false // the stream key names one torrent, the handshake another
	}
	return cMSE && sMSE && ((cRC4 && sRC4) || (cClear && sClear))
}

func genOptions(rt *rapid.T, label string) crypto.Options {
	if rapid.IntRange(0, 2).Draw(rt, label+".default") > 0 {
		return *crypto.DefaultOptions(rapid.Bool().Draw(rt, label+".prefer"), rapid.Bool().Draw(rt, label+".force"))
	}
	bits := rapid.IntRange(0, 63).Draw(rt, label+".bits")
	return crypto.Options{AllowCryptoHandshake: bits&1 != 0, PreferCryptoHandshake: bits&2 != 0, ForceCryptoHandshake: bits&4 != 0,
		AllowEncryption: bits&8 != 0, PreferEncryption: bits&16 != 0, ForceEncryption: bits&32 != 0}
}

func genPlan(rt *rapid.T, label string) (segconn.Plan, string) {
	switch rapid.IntRange(0, 4).Draw(rt, label+".kind") {
	case 0:
		return segconn.Plan{Sizes: []int{1}, Cycle: true}, "bytewise"
	case 1:
		k := rapid.IntRange(1, 1300).Draw(rt, label+".cut")
		return segconn.Plan{Sizes: []int{k}}, fmt.Sprintf("cut@%d", k)
	case 2:
		return segconn.Plan{Sizes: rapid.SliceOfN(rapid.IntRange(1, 700), 1, 30).Draw(rt, label+".sizes"), Cycle: true}, "random"
	case 3:
		return segconn.Plan{Coalesce: true}, "coalesced"
	default:
		return segconn.Plan{Sizes: []int{rapid.IntRange(1, 20).Draw(rt, label+".small")}, Cycle: true}, "small"
	}
}

func TestC07Handshakes(t *testing.T) {
	rapid.Check(t, func(rt *rapid.T) {
		c := caseSpec{mse: rapid.IntRange(0, 3).Draw(rt, "mse") > 0, seed: rapid.Uint64().Draw(rt, "seed")}
		switch rapid.IntRange(0, 2).Draw(rt, "pair") {
		case 0:
			c.client, c.server = "st", "st"
		case 1:
			c.client, c.server = "st", "ref"
		default:
			c.client, c.server = "ref", "st"
		}
		c.optC, c.optS = genOptions(rt, "optC"), genOptions(rt, "optS")
		c.nHashes = rapid.IntRange(1, 4).Draw(rt, "hashes")
		c.which = rapid.IntRange(0, c.nHashes-1).Draw(rt, "which")
		c.txC = rapid.SampledFrom([]int{0, 1, 5, 100, 1500, 3000}).Draw(rt, "txC")
		c.txS = rapid.SampledFrom([]int{0, 1, 5, 100, 1500, 3000}).Draw(rt, "txS")
		c.refP = refParams{X: rapid.Uint64().Draw(rt, "x"), PadLen: rapid.SampledFrom([]int{0, 1, 2, 255, 511, 512}).Draw(rt, "pad"),
			Pad2Len: rapid.SampledFrom([]int{0, 0, 1, 17, 511, 512}).Draw(rt, "pad2"), Provide: uint32(rapid.IntRange(1, 3).Draw(rt, "provide")),
			PreferRC4: rapid.Bool().Draw(rt, "preferRC4"), IALen: rapid.SampledFrom([]int{-1, 0, 1, 67, 68, 69, 200, 1000}).Draw(rt, "ia")}
		c.refP.Mismatch = rapid.IntRange(0, 9).Draw(rt, "mismatch") == 0
		c.refP.Reserved = [8]byte{0, 0, 0, 0, 0, byte(rapid.SampledFrom([]int{0, 0x10}).Draw(rt, "resExt")), 0, byte(rapid.SampledFrom([]int{0, 1, 4, 5}).Draw(rt, "resLow"))}
		if !canSucceed(c) && rapid.IntRange(0, 3).Draw(rt, "keepFailing") > 0 {
			// mostly study configurations that allow success
			c.optC, c.optS = *crypto.DefaultOptions(false, false), *crypto.DefaultOptions(false, false)
		}
		want := canSucceed(c)
		type planned struct {
			pc, ps segconn.Plan
			name   string
		}
		var plans []planned
		// always: unlimited and byte-at-a-time; plus two drawn plans
		plans = append(plans, planned{segconn.Plan{}, segconn.Plan{}, "whole/whole"}, planned{segconn.Plan{Sizes: []int{1}, Cycle: true}, segconn.Plan{Sizes: []int{1}, Cycle: true}, "bytewise/bytewise"})
		for i := 0; i < 2; i++ {
			pc, nc := genPlan(rt, fmt.Sprintf("planC%d", i))
			ps, ns := genPlan(rt, fmt.Sprintf("planS%d", i))
			plans = append(plans, planned{pc, ps, nc + "/" + ns})
		}
		var first outcome
		labels := map[string]bool{}
		for i, p := range plans {
			var o outcome
			leak := sim.Bubble(t, func() { o = runOnce(c, p.pc, p.ps) })
			if leak != "" {
				rt.Fatalf("goroutines left behind under plan %s: %s", p.name, leak)
			}
			desc := func() string {
				return fmt.Sprintf("\nkind mse=%v, client=%s, server=%s, client options %+v, server options %+v, %d hashes (offered #%d), ref params %+v, early data client %d / server %d bytes\nplan %s: %v",
					c.mse, c.client, c.server, c.optC, c.optS, c.nHashes, c.which, c.refP, c.txC, c.txS, p.name, o)
			}
			if i == 0 {
				first = o
			} else if o.key() != first.key() {
				rt.Fatalf("the outcome depends on how the streams are cut into reads:\nplan %s: %v%s", plans[0].name, first, desc())
			}
			if want {
				if !o.okC || !o.okS {
					rt.Fatalf("a configuration both policies allow failed%s", desc())
				}
				_, keys := hashesFor(c)
				wantHash := fmt.Sprintf("%x", keys[c.which])
				if o.hashC != wantHash || o.hashS != wantHash {
					rt.Fatalf("info-hash disagreement (offered %s)%s", wantHash, desc())
				}
				if o.idS != fmt.Sprintf("%x", gen.Fill(c.seed+100, 20)) {
					rt.Fatalf("the server learnt the wrong peer id%s", desc())
				}
				if c.server == "ref" && o.idC != fmt.Sprintf("%x", gen.Fill(c.seed+101, 20)) {
					rt.Fatalf("the client learnt the wrong peer id%s", desc())
				}
				if c.server == "st" && o.idC != fmt.Sprintf("%x", gen.Fill(c.seed+uint64(c.which)*7+2, 20)) {
					rt.Fatalf("the client learnt the wrong peer id (the server's id for that torrent)%s", desc())
				}
				if o.encC != o.encS {
					rt.Fatalf("the two ends disagree on the cipher mode%s", desc())
				}
				wantCapsFromClient, wantCapsFromServer := capsOf(stReserved), capsOf(stReserved)
				if c.client == "ref" {
					wantCapsFromClient = capsOf(c.refP.Reserved)
				}
				if c.server == "ref" {
					wantCapsFromServer = capsOf(c.refP.Reserved)
				}
				if o.capsS != wantCapsFromClient || o.capsC != wantCapsFromServer {
					rt.Fatalf("capability bits differ from the reserved bits sent%s", desc())
				}
				if o.rxC != "exact" || o.rxS != "exact" {
					rt.Fatalf("bytes following the handshake did not reach the message layer exactly once and in order%s", desc())
				}
			} else if o.okC && o.okS {
				rt.Fatalf("a configuration the policies forbid was established%s", desc())
			}
			labels["plan:"+p.name] = true
		}
		l := []string{fmt.Sprintf("pair:%s-%s", c.client, c.server), fmt.Sprintf("mse:%v", c.mse), fmt.Sprintf("succeeds:%v", want)}
		if c.mse && (c.client == "ref" || c.server == "ref") {
			if c.refP.PadLen == 511 || c.refP.Pad2Len == 511 {
				l = append(l, "pad-511")
			}
			if c.refP.PadLen == 512 || c.refP.Pad2Len == 512 {
				l = append(l, "pad-512")
			}
			if c.client == "ref" && c.refP.IALen >= 0 && c.refP.IALen < 68 {
				l = append(l, "ia-shorter-than-68")
			}
			if c.client == "ref" && c.refP.IALen > 68 {
				l = append(l, "ia-longer-than-68")
			}
		}
		if c.client == "ref" && c.mse && c.refP.Mismatch && c.nHashes > 1 {
			l = append(l, "skey-handshake-hash-mismatch")
		}
		if c.txC > 0 || c.txS > 0 {
			l = append(l, "early-data")
			if labels["plan:coalesced/coalesced"] {
				l = append(l, "coalesced-with-early-data")
			}
		}
		for _, role := range []string{"st-st", "st-ref", "ref-st"} {
			if fmt.Sprintf("%s-%s", c.client, c.server) == role {
				l = append(l, fmt.Sprintf("byte-at-a-time:%s:mse=%v", role, c.mse))
			}
		}
		for k := range labels {
			l = append(l, k)
		}
		stats.Case(fmt.Sprintf("%s-%s/%v/%v/ia%d/pad%d.%d/tx%d.%d/%v", c.client, c.server, c.mse, want, c.refP.IALen, c.refP.PadLen, c.refP.Pad2Len, c.txC, c.txS, first.encC), c.mse || c.txC > 0 || c.txS > 0, l...)
		if stats.WantSample(l[0] + l[1]) {
			stats.Sample(l[0]+l[1], map[string]any{"case": fmt.Sprintf("%+v", c), "outcome": first.String()})
		}
	})
}

// Regression: storrent MSE client <-> storrent MSE server with reads of one byte.
func TestReg_c07_mse_bytewise(t *testing.T) {
	c := caseSpec{mse: true, client: "st", server: "st", optC: *crypto.DefaultOptions(false, false), optS: *crypto.DefaultOptions(false, false), nHashes: 1, seed: 5}
	for _, n := range []int{1, 7, 20} {
		var o outcome
		p := segconn.Plan{Sizes: []int{n}, Cycle: true}
		leak := sim.Bubble(t, func() { o = runOnce(c, p, p) })
		if leak != "" {
			t.Fatalf("leak: %s", leak)
		}
		if !o.okC || !o.okS {
			t.Fatalf("reads of at most %d bytes: %v", n, o)
		}
	}
}
