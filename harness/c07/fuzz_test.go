package c07

// Native fuzzing of the accepting side: arbitrary bytes arrive, cut into reads
// in a fuzzer-chosen way, and the connection ends.  The oracle is an
// independent reading of the 68-byte BitTorrent handshake; for byte strings
// that are not a plaintext handshake (so storrent tries Message Stream
// Encryption on them) the oracle is only that the attempt ends with an error,
// without a panic, and without answering with a BitTorrent handshake.

import (
	"bytes"
	"fmt"
	"io"
	"testing"
	"time"

	"github.com/jech/storrent/crypto"
	"github.com/jech/storrent/hash"
	"github.com/jech/storrent/protocol"

	"verif/gen"
	"verif/segconn"
	"verif/sim"
	"verif/stats"
)

var btHeader = append([]byte{19}, []byte("BitTorrent protocol")...)

type srvOutcome struct {
	err   error
	panic any
	res   protocol.HandshakeResult
	enc   bool
	rest  []byte // init ++ everything readable afterwards
	wrote []byte
}

func (o srvOutcome) key() string {
	return fmt.Sprintf("ok=%v panic=%v hash=%x id=%x caps=%v/%v/%v enc=%v rest=%x wroteBT=%v", o.err == nil, o.panic != nil, []byte(o.res.Hash), []byte(o.res.Id),
		o.res.Dht, o.res.Fast, o.res.Extended, o.enc, o.rest, bytes.HasPrefix(o.wrote, btHeader))
}

func serveBytes(data []byte, plan segconn.Plan, pairs []hash.HashPair, opt crypto.Options) (o srvOutcome) {
	a, b := segconn.Pair(segconn.Plan{}, plan)
	go func() {
		a.Write(data)
		a.CloseWrite()
	}()
	func() {
		defer func() { o.panic = recover() }()
		conn, res, init, err := protocol.ServerHandshake(b, pairs, &opt)
		o.err, o.res = err, res
		if err == nil {
			_, o.enc = conn.(*crypto.Conn)
			conn.SetDeadline(time.Now().Add(20 * time.Second))
			rest, _ := io.ReadAll(conn)
			o.rest = append(append([]byte(nil), init...), rest...)
		}
	}()
	o.wrote = b.Wire()
	b.Close()
	a.Close()
	return o
}

func FuzzServerHandshake(f *testing.F) {
	h1, my1 := gen.Fill(11, 20), gen.Fill(12, 20)
	h2, my2 := gen.Fill(13, 20), gen.Fill(14, 20)
	pairs := []hash.HashPair{{First: h1, Second: my1}, {First: h2, Second: my2}}
	id := gen.Fill(15, 20)
	valid := func(h []byte, resv [8]byte) []byte {
		return append(append(append(append([]byte(nil), btHeader...), resv[:]...), h...), id...)
	}
	f.Add(valid(h1, stReserved), uint16(0), uint8(0))
	f.Add(append(valid(h2, [8]byte{}), []byte("\x00\x00\x00\x01\x02rest")...), uint16(3), uint8(0))
	f.Add(valid(gen.Fill(16, 20), stReserved), uint16(1), uint8(0))
	f.Add(valid(h1, stReserved)[:47], uint16(7), uint8(0))
	f.Add(valid(h1, stReserved)[:67], uint16(20), uint8(1))
	f.Add(valid(h1, stReserved), uint16(5), uint8(2))
	f.Add(gen.Fill(17, 96), uint16(0), uint8(0))
	f.Add(gen.Fill(18, 700), uint16(13), uint8(1))
	f.Add([]byte{}, uint16(0), uint8(0))
	f.Add([]byte{19}, uint16(0), uint8(0))
	f.Fuzz(func(t *testing.T, data []byte, planBits uint16, optBits uint8) {
		if len(data) > 4096 {
			return
		}
		var opt crypto.Options
		switch optBits % 4 {
		case 0:
			opt = *crypto.DefaultOptions(false, false)
		case 1:
			opt = *crypto.DefaultOptions(true, false)
		case 2:
			opt = *crypto.DefaultOptions(true, true)
		case 3:
			opt = crypto.Options{} // no MSE at all
		}
		var plan segconn.Plan
		switch k := int(planBits); {
		case k == 0:
		case k%4 == 1:
			plan = segconn.Plan{Sizes: []int{1 + k/4%97}, Cycle: true}
		case k%4 == 2:
			plan = segconn.Plan{Sizes: []int{1 + k/4%97}}
		case k%4 == 3:
			plan = segconn.Plan{Sizes: []int{1 + k/4%5, 1 + k/20%61, 1 + k/1220%13}, Cycle: true, EOFWithData: true}
		default:
			plan = segconn.Plan{Coalesce: true}
		}
		var whole, cut srvOutcome
		leak := sim.Bubble(t, func() {
			whole = serveBytes(data, segconn.Plan{}, pairs, opt)
			cut = serveBytes(data, plan, pairs, opt)
		})
		if leak != "" {
			t.Fatalf("goroutines left behind: %s", leak)
		}
		for _, o := range []srvOutcome{whole, cut} {
			if o.panic != nil {
				t.Fatalf("ServerHandshake panicked on %x: %v", data, o.panic)
			}
		}
		// ---- independent reading
		isBT := len(data) >= 20 && bytes.Equal(data[:20], btHeader)
		var wantOK bool
		var wantReply []byte
		class := "not-bt"
		if isBT {
			class = "bt-forbidden"
			if !opt.ForceCryptoHandshake {
				class = "bt-short"
				if len(data) >= 48 {
					class = "bt-unknown-hash"
					for _, p := range pairs {
						if bytes.Equal(data[28:48], p.First) {
							wantReply = append(append(append(append([]byte(nil), btHeader...), stReserved[:]...), p.First...), p.Second...)
							wantOK = len(data) >= 68
							class = "bt-known-hash-short-id"
							if wantOK {
								class = "bt-ok"
							}
						}
					}
				}
			}
		}
		o := whole
		if isBT || !opt.AllowCryptoHandshake {
			if (o.err == nil) != wantOK {
				t.Fatalf("ServerHandshake on %x (%s): err=%v, the reference reading says ok=%v", data, class, o.err, wantOK)
			}
			if !bytes.Equal(o.wrote, wantReply) {
				t.Fatalf("ServerHandshake on %x (%s): answered %x, want %x", data, class, o.wrote, wantReply)
			}
			if wantOK {
				r := data[20:28]
				if !bytes.Equal(o.res.Hash, data[28:48]) || !bytes.Equal(o.res.Id, data[48:68]) || o.res.Dht != (r[7]&1 != 0) || o.res.Fast != (r[7]&4 != 0) || o.res.Extended != (r[5]&0x10 != 0) || o.enc {
					t.Fatalf("ServerHandshake on %x: result %+v enc=%v differs from the bytes", data, o.res, o.enc)
				}
				if !bytes.Equal(o.rest, data[68:]) {
					t.Fatalf("ServerHandshake on %x: the bytes after the handshake read as %x, sent %x", data, o.rest, data[68:])
				}
			}
		} else {
			// an MSE attempt on bytes that nobody derived from the server's key
			if o.err == nil {
				t.Fatalf("ServerHandshake accepted %x as an encrypted handshake (result %+v)", data, o.res)
			}
			if bytes.Contains(o.wrote, btHeader) {
				t.Fatalf("ServerHandshake on %x: answered a failed encrypted handshake with a BitTorrent handshake", data)
			}
		}
		// ---- segmentation must not matter
		if whole.key() != cut.key() {
			t.Fatalf("ServerHandshake on %x: outcome depends on how the bytes are cut into reads (%+v)\nwhole: %s\ncut:   %s", data, plan, whole.key(), cut.key())
		}
		stats.Case("fuzz-server/"+class, isBT)
	})
}
