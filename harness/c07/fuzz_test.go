package c07

// Native fuzzing of the accepting side: arbitrary bytes arrive, cut into reads
// in a fuzzer-chosen way, and the connection ends.  The oracle is an
// independent reading of the 68-byte BitTorrent handshake; for byte strings
// that are not a plaintext handshake (so storrent tries Message Stream
// Encryption on them) the oracle is only that the attempt ends with an error,
// without a panic, and without answering with a BitTorrent handshake.

import (
	"bytes"
	"fmt"
	"io"
	"testing"
	"time"

	"github.com/jech/storrent/crypto"
	"github.com/jech/storrent/hash"
	"github.com/jech/storrent/protocol"

	"verif/gen"
	"verif/segconn"
	"verif/sim"
	"verif/stats"
)

var btHeader = append([]byte{19}, []byte("BitTorrent protocol")...)

type srvOutcome struct {
	err   error
	panic any
	res   protocol.HandshakeResult
	enc   bool
	rest  []byte // init ++ everything readable afterwards
	wrote []byte
}

func (o srvOutcome) key() string {
	return fmt.Sprintf("ok=%v panic=%v hash=%x id=%x caps=%v/%v/%v enc=%v rest=%x wroteBT=%v", o.err == nil, o.panic != nil, []byte(o.res.Hash), []byte(o.res.Id),
		o.res.Dht, o.res.Fast, o.res.Extended, o.enc, o.rest, bytes.HasPrefix(o.wrote, btHeader))
}

func serveBytes(data []byte, plan segconn.Plan, pairs []hash.HashPair, opt crypto.Options) (o srvOutcome) {
	a, b := segconn.Pair(segconn.Plan{}, plan)
	go func() {
		a.Write(data)
		a.CloseWrite()
	}()
	func() {
		defer func() { o.panic = recover() }()
		conn, res, init, err := protocol.ServerHandshake(b, pairs, &opt)
		o.err, o.res = err, res
		if err == nil {
			_, o.enc = conn.(*crypto.Conn)
			conn.SetDeadline(time.Now().Add(20 * time.Second))
			rest, _ := io.ReadAll(conn)
			o.rest = append(append([]byte(nil), init...), rest...)
		}
	}()
	o.wrote = b.Wire()
	b.Close()
	a.Close()
	return o
}

func FuzzServerHandshake(f *testing.F) {
	h1, my1 := gen.Fill(11, 20), gen.Fill(12, 20)
	h2, my2 := gen.Fill(13, 20), gen.Fill(14, 20)
	pairs := []hash.HashPair{{First: h1, Second: my1}, {First: h2, Second: my2}}
	id := gen.Fill(15, 20)
	valid := func(h []byte, resv [8]byte) []byte {
		return append(append(append(append([]byte(nil), btHeader...), resv[:]...), h...), id...)
	}
	f.Add(valid(h1, stReserved), uint16(0), uint8(0))
	f.Add(append(valid(h2, [8]byte{}), []byte("\x00\x00\x00\x01\x02rest")...), uint16(3), uint8(0))
	f.Add(valid(gen.Fill(16, 20), stReserved), uint16(1), uint8(0))
	f.Add(valid(h1, stReserved)[:47], uint16(7), uint8(0))
	f.Add(valid(h1, stReserved)[:67], uint16(20), uint8(1))
	f.Add(valid(h1, stReserved), uint16(5), uint8(2))
	f.Add(gen.Fill(17, 96), uint16(0), uint8(0))
	f.Add(gen.Fill(18, 700), uint16(13), uint8(1))
	f.Add([]byte{}, uint16(0), uint8(0))
	f.Add([]byte{19}, uint16(0), uint8(0))
	f.Fuzz(func(t *testing.T, data []byte, planBits uint16, optBits uint8) {
		if len(data) > 4096 {
			return
		}
		var opt crypto.Options
		switch optBits % 4 {
		case 0:
			opt = *crypto.DefaultOptions(false, false)
		case 1:
			opt = *crypto.DefaultOptions(true, false)
		case 2:
			opt = *crypto.DefaultOptions(true, true)
		case 3:
			opt = crypto.Options{} // no MSE at all
		}
		var plan segconn.Plan
		switch k := int(planBits); {
		case k == 0:
		case k%4 == 1:
			plan = segconn.Plan{Sizes: []int{1 + k/4%97}, Cycle: true}
		case k%4 == 2:
			plan = segconn.Plan{Sizes: []int{1 + k/4%97}}
		case k%4 == 3:
			plan = segconn.Plan{Sizes: []int{1 + k/4%5, 1 + k/20%61, 1 + k/1220%13}, Cycle: true, EOFWithData: true}
		default:
			plan = segconn.Plan{Coalesce: true}
		}
		var whole, cut srvOutcome
		leak := sim.Bubble(t, func() {
			whole = serveBytes(data, segconn.Plan{}, pairs, opt)
			cut = serveBytes(data, plan, pairs, opt)
		})
		if leak != "" {
			t.Fatalf("goroutines left behind: %s", leak)
		}
		for _, o := range []srvOutcome{whole, cut} {
			if o.panic != nil {
				t.Fatalf("ServerHandshake panicked on %x: %v", data, o.panic)
			}
		}
		// ---- independent reading
		isBT := len(data) >= 20 && bytes.Equal(data[:20], btHeader)
		var wantOK bool
		var wantReply []byte
		class := "not-bt"
		if isBT {
			class = "bt-forbidden"
			if !opt.ForceCryptoHandshake {
				class = "bt-short"
				if len(data) >= 48 {
					class = "bt-unknown-hash"
					for _, p := range pairs {
						if bytes.Equal(data[28:48], p.First) {
							wantReply = append(append(append(append([]byte(nil), btHeader...), stReserved[:]...), p.First...), p.Second...)
							wantOK = len(data) >= 68
							class = "bt-known-hash-short-id"
							if wantOK {
								class = "bt-ok"
							}
						}
					}
				}
			}
		}
		o := whole
		if isBT || !opt.AllowCryptoHandshake {
			if (o.err == nil) != wantOK {
				t.Fatalf("ServerHandshake on %x (%s): err=%v, the reference reading says ok=%v", data, class, o.err, wantOK)
			}
			if !bytes.Equal(o.wrote, wantReply) {
				t.Fatalf("ServerHandshake on %x (%s): answered %x, want %x", data, class, o.wrote, wantReply)
			}
			if wantOK {
				r := data[20:28]
				if !bytes.Equal(o.res.Hash, data[28:48]) || !bytes.Equal(o.res.Id, data[48:68]) || o.res.Dht != (r[7]&1 != 0) || o.res.Fast != (r[7]&4 != 0) || o.res.Extended != (r[5]&0x10 != 0) || o.enc {
					t.Fatalf("ServerHandshake on %x: result %+v enc=%v differs from the bytes", data, o.res, o.enc)
				}
				if !bytes.Equal(o.rest, data[68:]) {
					t.Fatalf("ServerHandshake on %x: the bytes after the handshake read as %x, sent %x", data, o.rest, data[68:])
				}
			}
		} else {
			// an MSE attempt on bytes that nobody derived from the server's key
			if o.err == nil {
				t.Fatalf("ServerHandshake accepted %x as an encrypted handshake (result %+v)", data, o.res)
			}
			if bytes.Contains(o.wrote, btHeader) {
				t.Fatalf("ServerHandshake on %x: answered a failed encrypted handshake with a BitTorrent handshake", data)
			}
		}
		// ---- segmentation must not matter
		if whole.key() != cut.key() {
			t.Fatalf("ServerHandshake on %x: outcome depends on how the bytes are cut into reads (%+v)\nwhole: %s\ncut:   %s", data, plan, whole.key(), cut.key())
		}
		stats.Case("fuzz-server/"+class, isBT)
	})
}

// ---------------------------------------------------------------------------
// The connecting side: storrent's ClientHandshake reads arbitrary bytes as the
// other end's answer.

type cliOutcome struct {
	err   error
	panic any
	res   protocol.HandshakeResult
	enc   bool
	rest  []byte
	wrote []byte
}

func (o cliOutcome) key(mse bool) string {
	w := fmt.Sprintf("%x", o.wrote)
	if mse {
		w = "-" // the encrypted client's own bytes are random (key, pads)
	}
	return fmt.Sprintf("ok=%v panic=%v hash=%x id=%x caps=%v/%v/%v enc=%v rest=%x wrote=%s", o.err == nil, o.panic != nil, []byte(o.res.Hash), []byte(o.res.Id),
		o.res.Dht, o.res.Fast, o.res.Extended, o.enc, o.rest, w)
}

func answerBytes(data []byte, plan segconn.Plan, mse bool, h, my hash.Hash, opt crypto.Options) (o cliOutcome) {
	a, b := segconn.Pair(segconn.Plan{}, plan)
	go func() {
		a.Write(data)
		a.CloseWrite()
	}()
	go io.Copy(io.Discard, a)
	func() {
		defer func() { o.panic = recover() }()
		conn, res, init, err := protocol.ClientHandshake(b, mse, h, my, &opt)
		o.err, o.res = err, res
		if err == nil {
			_, o.enc = conn.(*crypto.Conn)
			conn.SetDeadline(time.Now().Add(20 * time.Second))
			rest, _ := io.ReadAll(conn)
			o.rest = append(append([]byte(nil), init...), rest...)
		}
	}()
	o.wrote = b.Wire()
	b.Close()
	a.Close()
	return o
}

func FuzzClientHandshake(f *testing.F) {
	h, my := hash.Hash(gen.Fill(21, 20)), hash.Hash(gen.Fill(22, 20))
	id := gen.Fill(23, 20)
	valid := func(h []byte, resv [8]byte) []byte {
		return append(append(append(append([]byte(nil), btHeader...), resv[:]...), h...), id...)
	}
	f.Add(valid(h, stReserved), uint16(0), uint8(0))
	f.Add(append(valid(h, [8]byte{0xff, 0xff, 0xff, 0xff, 0xff, 0xff, 0xff, 0xff}), []byte("\x00\x00\x00\x01\x02rest")...), uint16(3), uint8(0))
	f.Add(valid(gen.Fill(24, 20), stReserved), uint16(1), uint8(0))
	f.Add(valid(h, stReserved)[:47], uint16(7), uint8(0))
	f.Add(valid(h, stReserved)[:67], uint16(20), uint8(0))
	f.Add(valid(h, stReserved), uint16(5), uint8(1))
	f.Add(gen.Fill(25, 96), uint16(0), uint8(1))
	f.Add(gen.Fill(26, 700), uint16(13), uint8(1))
	f.Add(gen.Fill(27, 96+512+14), uint16(13), uint8(3))
	f.Add([]byte{}, uint16(0), uint8(0))
	f.Add([]byte{19}, uint16(0), uint8(1))
	f.Fuzz(func(t *testing.T, data []byte, planBits uint16, optBits uint8) {
		if len(data) > 4096 {
			return
		}
		mse := optBits&1 != 0
		opt := *crypto.DefaultOptions(true, optBits&2 != 0)
		var plan segconn.Plan
		switch k := int(planBits); {
		case k == 0:
		case k%4 == 1:
			plan = segconn.Plan{Sizes: []int{1 + k/4%97}, Cycle: true}
		case k%4 == 2:
			plan = segconn.Plan{Sizes: []int{1 + k/4%97}}
		case k%4 == 3:
			plan = segconn.Plan{Sizes: []int{1 + k/4%5, 1 + k/20%61, 1 + k/1220%13}, Cycle: true, EOFWithData: true}
		default:
			plan = segconn.Plan{Coalesce: true}
		}
		var whole, cut cliOutcome
		leak := sim.Bubble(t, func() {
			whole = answerBytes(data, segconn.Plan{}, mse, h, my, opt)
			cut = answerBytes(data, plan, mse, h, my, opt)
		})
		if leak != "" {
			t.Fatalf("goroutines left behind: %s", leak)
		}
		for _, o := range []cliOutcome{whole, cut} {
			if o.panic != nil {
				t.Fatalf("ClientHandshake panicked on %x: %v", data, o.panic)
			}
		}
		o := whole
		class := "mse-garbage"
		if !mse {
			// ---- independent reading of a plaintext answer
			mine := append(append(append(append([]byte(nil), btHeader...), stReserved[:]...), h...), my...)
			if !bytes.Equal(o.wrote, mine) {
				t.Fatalf("ClientHandshake (plain) wrote %x, want exactly its 68-byte handshake %x", o.wrote, mine)
			}
			class = "short"
			wantOK := false
			if len(data) >= 68 {
				switch {
				case !bytes.Equal(data[:20], btHeader):
					class = "not-bt"
				case !bytes.Equal(data[28:48], h):
					class = "other-hash"
				default:
					class, wantOK = "ok", true
				}
			}
			if (o.err == nil) != wantOK {
				t.Fatalf("ClientHandshake on the answer %x (%s): err=%v, the reference reading says ok=%v", data, class, o.err, wantOK)
			}
			if wantOK {
				r := data[20:28]
				if !bytes.Equal(o.res.Hash, h) || !bytes.Equal(o.res.Id, data[48:68]) || o.res.Dht != (r[7]&1 != 0) || o.res.Fast != (r[7]&4 != 0) || o.res.Extended != (r[5]&0x10 != 0) || o.enc {
					t.Fatalf("ClientHandshake on the answer %x: result %+v enc=%v differs from the bytes", data, o.res, o.enc)
				}
				if !bytes.Equal(o.rest, data[68:]) {
					t.Fatalf("ClientHandshake on the answer %x: the bytes after the handshake read as %x, sent %x", data, o.rest, data[68:])
				}
			}
		} else {
			// nobody derived these bytes from the client's fresh key
			if o.err == nil {
				t.Fatalf("ClientHandshake (encrypted) accepted the answer %x (result %+v)", data, o.res)
			}
			if bytes.Contains(o.wrote, btHeader) {
				t.Fatalf("ClientHandshake (encrypted) sent a BitTorrent handshake in clear")
			}
		}
		if whole.key(mse) != cut.key(mse) {
			t.Fatalf("ClientHandshake on the answer %x: outcome depends on how the bytes are cut into reads (%+v)\nwhole: %s\ncut:   %s", data, plan, whole.key(mse), cut.key(mse))
		}
		stats.Case("fuzz-client/"+class, class == "ok" || len(data) >= 96)
	})
}
