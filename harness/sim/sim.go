// Package sim is engine E4: real storrent torrents, peers and readers running
// inside a testing/synctest bubble (fake clock, quiescence detection), with
// scripted remote peers that speak through the independent codec in
// verif/ref over net.Pipe.
package sim

import (
	"bytes"
	"context"
	"crypto/sha1"
	"errors"
	"fmt"
	"net"
	"net/netip"
	"os"
	"strings"
	"sync"
	"testing"
	"testing/synctest"
	"time"

	"github.com/jech/storrent/bitmap"
	"github.com/jech/storrent/config"
	"github.com/jech/storrent/hash"
	"github.com/jech/storrent/httpclient"
	"github.com/jech/storrent/mono"
	"github.com/jech/storrent/peer"
	"github.com/jech/storrent/protocol"
	"github.com/jech/storrent/tor"
	"github.com/jech/storrent/tor/piece"

	"verif/gen"
	"verif/ref"
)

var initOnce sync.Once

// realStderr keeps the original *os.File of descriptor 2 reachable: if it were
// garbage collected its finalizer would close the descriptor, and the
// runtime's own crash reports (which go to fd 2) would be lost.
var realStderr = os.Stderr

// Init sets storrent's globals the way main() does and silences its logging.
func Init() {
	initOnce.Do(func() {
		if os.Getenv("VERIF_DEBUG") == "" {
			if f, err := os.OpenFile(os.DevNull, os.O_WRONLY, 0); err == nil {
				os.Stderr = f
			}
		}
		config.SetDefaultProxy("")
		config.MemoryMark = 1 << 30
		config.PrefetchRate = 768 * 1024
		config.DefaultDhtMode = config.DhtNone
		config.DefaultUseTrackers = false
		config.DefaultUseWebseeds = false
		peer.UploadEstimator.Init(3 * time.Second)
		peer.DownloadEstimator.Init(3 * time.Second)
		// starts its never-ending expiry goroutine outside any bubble
		httpclient.Get("", "")
	})
}

// Bubble runs f inside a synctest bubble.  It returns the text of the panic
// synctest raises when f has returned but goroutines started inside the
// bubble are still blocked (a leak), or "" when the bubble drained.  A panic
// raised by f itself (rapid uses panics for t.Fatalf and for shrinking) is
// re-raised in the caller's goroutine after the bubble has been torn down by
// the functions registered with Cleanup.
func Bubble(t *testing.T, f func()) (leak string) {
	Init()
	var caught any
	cleanups = nil
	func() {
		defer func() {
			if r := recover(); r != nil {
				s := fmt.Sprint(r)
				if strings.Contains(s, "deadlock") || strings.Contains(s, "blocked goroutines") {
					leak = s
					return
				}
				panic(r)
			}
		}()
		synctest.Test(t, func(*testing.T) {
			mono.VerifResetOrigin()
			func() {
				defer func() { caught = recover() }()
				f()
			}()
			for i := len(cleanups) - 1; i >= 0; i-- {
				cleanups[i]()
			}
			cleanups = nil
			time.Sleep(20 * time.Minute)
			synctest.Wait()
		})
	}()
	if caught != nil {
		panic(caught)
	}
	return leak
}

var cleanups []func()

// Cleanup registers a function that Bubble runs (inside the bubble, last
// registered first) after the case body has returned or panicked.
func Cleanup(f func()) { cleanups = append(cleanups, f) }

// Settle waits until every goroutine in the bubble is durably blocked, lets
// 1 ms of virtual time pass so that zero-delay hand-offs complete, and waits
// again.
func Settle() {
	synctest.Wait()
	time.Sleep(time.Millisecond)
	synctest.Wait()
}

// ------------------------------------------------------------------ torrents

type FileSpec struct {
	Path   []string
	Length int64
	Pad    bool
}

type Geometry struct {
	Name      string
	PieceSize int64
	Length    int64      // single-file when Files == nil
	Files     []FileSpec // multi-file; Length is then the sum
	Seed      uint64
	Announce  [][]string
	URLList   []string
	HTTPSeeds []string
}

type Tor struct {
	T         *tor.Torrent
	G         Geometry
	Content   []byte
	Hashes    [][]byte
	Meta      []byte // the .torrent file
	Info      []byte
	PieceSize int64
	Length    int64
	N         int
	// Lazy, when Content is nil, gives the true content of one piece (torrents
	// too large to hold in memory: BuildHuge)
	Lazy func(i int) []byte
}

// BuildHuge prepares a single-file torrent too large to materialise: the
// content of piece i is a pure function of (seed, i), generated on demand;
// the metainfo carries the true SHA-1 only for the pieces listed in real (the
// ones a case is going to transfer) and arbitrary bytes for all others.
func BuildHuge(pieceSize, length int64, seed uint64, real []int) (*Tor, error) {
	Init()
	n := int((length + pieceSize - 1) / pieceSize)
	x := &Tor{PieceSize: pieceSize, Length: length, N: n}
	cache := map[int][]byte{}
	x.Lazy = func(i int) []byte {
		if d, ok := cache[i]; ok {
			return d
		}
		d := gen.Fill(seed+uint64(i)*0x9e3779b97f4a7c15, int(x.PieceLen(i)))
		cache[i] = d
		return d
	}
	pieces := gen.Fill(seed^0x5555, 20*n)
	x.Hashes = make([][]byte, n)
	for i := range x.Hashes {
		x.Hashes[i] = pieces[20*i : 20*i+20]
	}
	for _, i := range real {
		h := sha1.Sum(x.Lazy(i))
		copy(pieces[20*i:], h[:])
	}
	x.Info = ref.Benc(map[string]any{"name": "huge", "piece length": pieceSize, "length": length, "pieces": pieces})
	x.Meta = ref.Benc(map[string]any{"info": ref.Raw(x.Info)})
	t, err := tor.ReadTorrent("", bytes.NewReader(x.Meta))
	if err != nil {
		return nil, err
	}
	t.Log.SetOutput(discard{})
	x.T = t
	return x, nil
}

func (g *Geometry) total() int64 {
	if g.Files == nil {
		return g.Length
	}
	var n int64
	for _, f := range g.Files {
		n += f.Length
	}
	return n
}

// Metainfo serialises g; content is a pure function of g.Seed.
func Metainfo(g Geometry) (meta, info, content []byte, hashes [][]byte) {
	total := g.total()
	content = gen.Fill(g.Seed, int(total))
	var pieces []byte
	for off := int64(0); off < total; off += g.PieceSize {
		end := min(off+g.PieceSize, total)
		h := sha1.Sum(content[off:end])
		hashes = append(hashes, h[:])
		pieces = append(pieces, h[:]...)
	}
	if pieces == nil {
		pieces = []byte{}
	}
	name := g.Name
	if name == "" {
		name = "t"
	}
	id := map[string]any{"name": name, "piece length": g.PieceSize, "pieces": pieces}
	if g.Files == nil {
		id["length"] = g.Length
	} else {
		var fl []any
		for _, f := range g.Files {
			p := make([]any, len(f.Path))
			for i, s := range f.Path {
				p[i] = s
			}
			fd := map[string]any{"length": f.Length, "path": p}
			if f.Pad {
				fd["attr"] = "p"
			}
			fl = append(fl, fd)
		}
		id["files"] = fl
	}
	info = ref.Benc(id)
	td := map[string]any{"info": ref.Raw(info)}
	if len(g.Announce) > 0 {
		var al []any
		for _, tier := range g.Announce {
			var l []any
			for _, u := range tier {
				l = append(l, u)
			}
			al = append(al, l)
		}
		td["announce-list"] = al
	}
	if len(g.URLList) > 0 {
		var l []any
		for _, u := range g.URLList {
			l = append(l, u)
		}
		td["url-list"] = l
	}
	if len(g.HTTPSeeds) > 0 {
		var l []any
		for _, u := range g.HTTPSeeds {
			l = append(l, u)
		}
		td["httpseeds"] = l
	}
	meta = ref.Benc(td)
	return
}

// Build parses the metainfo of g with the real tor.ReadTorrent.
func Build(g Geometry, proxy string) (*Tor, error) {
	Init()
	meta, info, content, hashes := Metainfo(g)
	t, err := tor.ReadTorrent(proxy, bytes.NewReader(meta))
	if err != nil {
		return nil, err
	}
	t.Log.SetOutput(discard{})
	x := &Tor{T: t, G: g, Content: content, Hashes: hashes, Meta: meta, Info: info,
		PieceSize: g.PieceSize, Length: g.total()}
	x.N = int((x.Length + x.PieceSize - 1) / x.PieceSize)
	return x, nil
}

// BuildMagnet prepares the same torrent as Build, but added by info-hash
// only: its metadata is incomplete until some peer delivers x.Info.
func BuildMagnet(g Geometry, proxy string) (*Tor, error) {
	meta, info, content, hashes := Metainfo(g)
	h := sha1.Sum(info)
	t, err := tor.New(proxy, hash.Hash(h[:]), "", nil, 0, nil, nil)
	if err != nil {
		return nil, err
	}
	t.Log.SetOutput(discard{})
	x := &Tor{T: t, G: g, Content: content, Hashes: hashes, Meta: meta, Info: info,
		PieceSize: g.PieceSize, Length: g.total()}
	x.N = int((x.Length + x.PieceSize - 1) / x.PieceSize)
	return x, nil
}

type discard struct{}

func (discard) Write(p []byte) (int, error) { return len(p), nil }

func (x *Tor) PieceLen(i int) int64 {
	if i == x.N-1 {
		return x.Length - int64(i)*x.PieceSize
	}
	return x.PieceSize
}

func (x *Tor) Blocks(i int) int { return int((x.PieceLen(i) + 16383) / 16384) }

func (x *Tor) BlockLen(i, c int) int64 {
	return min(16384, x.PieceLen(i)-int64(c)*16384)
}

// Data returns the true content of (piece, begin, length), clipped to the piece.
func (x *Tor) Data(i int, begin, length int64) []byte {
	off := int64(i)*x.PieceSize + begin
	end := min(off+length, int64(i)*x.PieceSize+x.PieceLen(i))
	if off >= end {
		return nil
	}
	if x.Content == nil && x.Lazy != nil {
		base := int64(i) * x.PieceSize
		return x.Lazy(i)[off-base : end-base]
	}
	return x.Content[off:end]
}

// Start registers the torrent and starts its event loop.
func (x *Tor) Start(ctx context.Context) error {
	_, err := tor.AddTorrent(ctx, x.T)
	if err == nil {
		t := x.T
		Cleanup(func() {
			kctx, cancel := context.WithTimeout(context.Background(), time.Minute)
			defer cancel()
			t.Kill(kctx)
		})
	}
	return err
}

// Fill stores and verifies piece i directly in the store and tells the loop.
func (x *Tor) Fill(i int) error {
	for c := 0; c < x.Blocks(i); c++ {
		_, _, err := x.T.Pieces.AddData(uint32(i), uint32(c*16384), x.Data(i, int64(c)*16384, 16384), ^uint32(0))
		if err != nil {
			return err
		}
	}
	done, _, err := x.T.Pieces.Finalise(uint32(i), hash.Hash(x.Hashes[i]))
	if err != nil {
		return err
	}
	if done && x.T.Event != nil {
		x.T.Have(uint32(i), true)
	}
	return nil
}

// ------------------------------------------------------------------ remotes

type Caps struct {
	Fast, Extended, DHT bool
}

var DefaultExt = map[string]uint8{"ut_pex": 11, "ut_metadata": 12, "lt_donthave": 13, "upload_only": 14}

type Remote struct {
	Caps    Caps
	Id      []byte
	Addr    netip.AddrPort
	conn    net.Conn
	Ext     map[string]uint8 // what this remote told storrent to use (nil until SendExt)
	mu      sync.Mutex
	inbox   []ref.Msg
	all     []ref.Msg
	raw     []byte
	rerr    error
	bad     string // first undecodable frame
	paused  bool
	unpause chan struct{}
	done    chan struct{}
	auto    func(ref.Msg) []ref.Msg
	outbox  chan ref.Msg
}

// Auto installs a responder: f is called (from the remote's reader goroutine)
// for every message received and the messages it returns are sent, in order,
// by a separate sender goroutine.
func (r *Remote) Auto(f func(ref.Msg) []ref.Msg) {
	r.mu.Lock()
	r.auto = f
	if r.outbox == nil {
		r.outbox = make(chan ref.Msg, 4096)
		go func() {
			for {
				select {
				case m := <-r.outbox:
					if r.Send(m) != nil {
						return
					}
				case <-r.done:
					return
				}
			}
		}()
	}
	r.mu.Unlock()
}

func (r *Remote) roles() ref.Roles {
	ro := ref.Roles{}
	for k, v := range r.Ext {
		switch k {
		case "ut_pex":
			ro[v] = ref.XPex
		case "ut_metadata":
			ro[v] = ref.XMetadata
		case "lt_donthave":
			ro[v] = ref.XDontHave
		case "upload_only":
			ro[v] = ref.XUploadOnly
		}
	}
	return ro
}

// Connect attaches a scripted remote peer through the real Torrent.NewPeer.
func (x *Tor) Connect(caps Caps, n int, incoming bool) (*Remote, error) {
	a, b := net.Pipe()
	id := make([]byte, 20)
	copy(id, fmt.Sprintf("-VF0001-remote%06d", n))
	addr := netip.AddrPortFrom(netip.AddrFrom4([4]byte{8, 8, byte(n >> 8), byte(n)}), uint16(10000+n))
	r := &Remote{Caps: caps, Id: id, Addr: addr, conn: b, unpause: make(chan struct{}, 1), done: make(chan struct{})}
	res := protocol.HandshakeResult{Hash: x.T.Hash, Id: hash.Hash(id), Dht: caps.DHT, Fast: caps.Fast, Extended: caps.Extended}
	err := x.T.NewPeer("", a, addr, incoming, res, nil)
	if err != nil {
		b.Close()
		return nil, err
	}
	go r.reader()
	Cleanup(r.Close)
	return r, nil
}

// Attach wraps an existing pipe end (for harnesses that call peer.Run themselves).
func Attach(conn net.Conn, caps Caps) *Remote {
	r := &Remote{Caps: caps, conn: conn, unpause: make(chan struct{}, 1), done: make(chan struct{})}
	go r.reader()
	return r
}

func (r *Remote) reader() {
	defer close(r.done)
	buf := make([]byte, 65536)
	for {
		r.mu.Lock()
		p := r.paused
		r.mu.Unlock()
		if p {
			<-r.unpause
			continue
		}
		n, err := r.conn.Read(buf)
		r.mu.Lock()
		r.raw = append(r.raw, buf[:n]...)
		for r.bad == "" {
			m, k, derr := ref.Decode(r.raw, r.roles())
			if derr == ref.ErrShort {
				break
			}
			if derr != nil {
				r.bad = fmt.Sprintf("undecodable frame %x: %v", r.raw[:min(len(r.raw), 64)], derr)
				break
			}
			r.raw = r.raw[k:]
			r.inbox = append(r.inbox, m)
			r.all = append(r.all, m)
			if r.auto != nil {
				for _, reply := range r.auto(m) {
					select {
					case r.outbox <- reply:
					default:
					}
				}
			}
		}
		if err != nil && errors.Is(err, os.ErrDeadlineExceeded) {
			r.mu.Unlock()
			continue
		}
		if err != nil {
			r.rerr = err
			r.mu.Unlock()
			return
		}
		r.mu.Unlock()
	}
}

// Pause makes the remote stop reading (write congestion on storrent's side).
func (r *Remote) Pause(p bool) {
	r.mu.Lock()
	was := r.paused
	r.paused = p
	r.mu.Unlock()
	if was && !p {
		r.conn.SetReadDeadline(time.Time{})
		select {
		case r.unpause <- struct{}{}:
		default:
		}
	}
	if !was && p {
		// kick the reader out of a blocked Read; it then parks on unpause
		r.conn.SetReadDeadline(time.Now())
	}
}

// Len returns the number of messages received and not yet taken.
func (r *Remote) Len() int {
	r.mu.Lock()
	defer r.mu.Unlock()
	return len(r.inbox)
}

// All returns every message received so far.
func (r *Remote) All() []ref.Msg {
	r.mu.Lock()
	defer r.mu.Unlock()
	return append([]ref.Msg(nil), r.all...)
}

// Take returns the messages received since the last call, in stream order.
func (r *Remote) Take() []ref.Msg {
	r.mu.Lock()
	defer r.mu.Unlock()
	m := r.inbox
	r.inbox = nil
	return m
}

// Bad reports a frame the strict reference decoder could not decode.
func (r *Remote) Bad() string {
	r.mu.Lock()
	defer r.mu.Unlock()
	return r.bad
}

// Closed reports whether storrent's end closed the connection.
func (r *Remote) Closed() bool {
	r.mu.Lock()
	defer r.mu.Unlock()
	return r.rerr != nil
}

// Send writes one message; the error tells whether storrent's end is gone.
func (r *Remote) Send(m ref.Msg) error {
	return r.SendRaw(ref.Encode(m))
}

func (r *Remote) SendRaw(b []byte) error {
	r.conn.SetWriteDeadline(time.Now().Add(30 * time.Second))
	_, err := r.conn.Write(b)
	return err
}

// SendExt sends the extended handshake announcing ext (nil = DefaultExt).
func (r *Remote) SendExt(ext map[string]uint8, reqq *uint32, metadataSize *uint32, version string) error {
	if ext == nil {
		ext = DefaultExt
	}
	r.mu.Lock()
	r.Ext = ext
	r.mu.Unlock()
	hs := &ref.ExtHS{M: ext, ReqQ: reqq, MetadataSize: metadataSize}
	if version != "" {
		hs.V = &version
	}
	return r.Send(ref.Msg{Kind: ref.KExtended, Sub: 0, X: ref.XHandshake, HS: hs})
}

func (r *Remote) Close() {
	r.mu.Lock()
	r.paused = false
	r.mu.Unlock()
	r.conn.Close()
	select {
	case r.unpause <- struct{}{}:
	default:
	}
}

// WaitClosed blocks until the remote's reader has seen the end of the stream.
func (r *Remote) WaitClosed() { <-r.done }

// ------------------------------------------------------------------ peer actor

// Actor is one real peer.Run over a pipe, with the harness playing both the
// remote peer (R) and the torrent (TorEvent, commands through P.Event).
type Actor struct {
	P        *peer.Peer
	PS       *piece.Pieces
	R        *Remote
	TorEvent chan peer.TorEvent
	TorDone  chan struct{}
	Exited   chan struct{}
}

// NewActor starts peer.Run.  info == nil means "metadata not known yet".
// ActorEventCap is the capacity of the channel on which an Actor's peer
// reports to the (absent) torrent.  A harness may lower it to play a torrent
// that is not listening: the peer's notifications then queue up on its side.
var ActorEventCap = 1 << 16

func NewActor(ps *piece.Pieces, local bitmap.Bitmap, caps Caps, info []byte, proxy string, incoming bool) *Actor {
	Init()
	a, b := net.Pipe()
	id := make([]byte, 20)
	copy(id, "-VF0001-actor-remote")
	addr := netip.AddrPortFrom(netip.AddrFrom4([4]byte{8, 8, 4, 4}), 20000)
	res := protocol.HandshakeResult{Hash: hash.Hash(make([]byte, 20)), Id: hash.Hash(id), Dht: caps.DHT, Fast: caps.Fast, Extended: caps.Extended}
	p := peer.New(proxy, a, addr, incoming, res)
	p.Pieces = ps
	p.Log.SetOutput(discard{})
	ac := &Actor{P: p, PS: ps, TorEvent: make(chan peer.TorEvent, ActorEventCap), TorDone: make(chan struct{}), Exited: make(chan struct{})}
	ac.R = Attach(b, caps)
	go func() {
		defer close(ac.Exited)
		peer.Run(p, ac.TorEvent, ac.TorDone, info, local, nil)
	}()
	Cleanup(func() {
		select {
		case <-ac.TorDone:
		default:
			close(ac.TorDone)
		}
		ac.R.Close()
	})
	return ac
}

// Events drains what the peer told the torrent.
func (a *Actor) Events() []peer.TorEvent {
	var l []peer.TorEvent
	for {
		select {
		case e := <-a.TorEvent:
			l = append(l, e)
		default:
			return l
		}
	}
}

// Cmd delivers a torrent command the way tor.writePeer does.
func (a *Actor) Cmd(e peer.PeerEvent) bool {
	select {
	case a.P.Event <- e:
		return true
	case <-a.P.Done:
		return false
	}
}

func (a *Actor) Alive() bool {
	select {
	case <-a.Exited:
		return false
	default:
		return true
	}
}

// PoolDuplicate takes 64 block buffers from storrent's shared pool and
// reports whether the same buffer came out twice (a buffer that was released
// twice has two owners from then on).  The buffers are not given back.
func PoolDuplicate() string {
	seen := map[*byte]bool{}
	var held [][]byte
	for i := 0; i < 64; i++ {
		b := protocol.GetBuffer(16384)
		if len(b) == 0 {
			continue
		}
		if seen[&b[0]] {
			return "the pool of 16 KiB block buffers handed out the same buffer twice: it was released twice, and two users now share it"
		}
		seen[&b[0]] = true
		held = append(held, b)
	}
	_ = held
	return ""
}
