// C11 — everything storrent sends to a peer is protocol-conformant.
package c11

import (
	"fmt"
	"net/netip"
	"os"
	"sort"
	"testing"
	"time"

	"pgregory.net/rapid"

	"github.com/jech/storrent/bitmap"
	"github.com/jech/storrent/peer"
	"github.com/jech/storrent/pex"
	"github.com/jech/storrent/tor/piece"

	"verif/gen"
	"verif/ref"
	"verif/sim"
	"verif/stats"
)

func TestMain(m *testing.M) { stats.Main(m) }

const blk = 16384

type geom struct {
	ps, length int64
	n          int
}

func (g geom) plen(i int) int64 {
	if i == g.n-1 {
		return g.length - int64(i)*g.ps
	}
	return g.ps
}
func (g geom) cpp() int64 { return g.ps / blk }

type key struct{ i, b uint32 }

type step struct {
	Kind string
	I    int
	A    int
	L    []int
	D    time.Duration
}

func (s step) String() string {
	if s.Kind == "sleep" {
		return fmt.Sprintf("sleep(%v)", s.D)
	}
	if s.L != nil {
		return fmt.Sprintf("%s%v", s.Kind, s.L)
	}
	return fmt.Sprintf("%s(%d,%d)", s.Kind, s.I, s.A)
}

type caseSpec struct {
	g       geom
	local   string // none all sparse dense
	seed    uint64
	caps    sim.Caps
	reqq    int64 // -1 absent
	ext     map[string]uint8
	steps   []step
	noInfo  bool
	content []byte
}

var kinds = []string{"r.choke-lazy", "t.request", "t.request", "t.request", "t.cancel", "t.cancelpiece", "t.have", "t.donthave", "t.interested", "t.pexadd", "t.pexdel",
	"r.choke", "r.unchoke", "r.unchoke", "r.have", "r.bitfield", "r.haveall", "r.havenone", "r.donthave", "r.allowedfast", "r.reject", "r.piece", "r.piece", "r.piece",
	"sleep", "sleep", "sleep", "r.pause", "r.unpause", "t.storm", "t.rerequest", "t.rerequest"}

func genCase(rt *rapid.T) caseSpec {
	var c caseSpec
	k := rapid.SampledFrom([]int64{1, 1, 2, 3, 4, 5}).Draw(rt, "pieceBlocks")
	c.g.ps = k * blk
	switch rapid.IntRange(0, 9).Draw(rt, "nclass") {
	case 0, 1, 2:
		c.g.n = 8 * rapid.IntRange(1, 12).Draw(rt, "n8")
	case 3:
		c.g.n = 8*rapid.IntRange(1, 12).Draw(rt, "n8") + rapid.SampledFrom([]int{-1, 1}).Draw(rt, "pm")
	case 4:
		// above 4 GiB
		c.g.ps = rapid.SampledFrom([]int64{3, 5, 192}).Draw(rt, "bigPieceBlocks") * blk
		c.g.n = int((int64(4)<<30)/c.g.ps) + rapid.IntRange(2, 200).Draw(rt, "over4g")
	default:
		c.g.n = rapid.IntRange(1, 200).Draw(rt, "n")
	}
	c.g.length = c.g.ps * int64(c.g.n)
	switch rapid.IntRange(0, 2).Draw(rt, "tail") {
	case 1:
		c.g.length -= rapid.SampledFrom([]int64{1, 100, 8192, 16383}).Draw(rt, "tailbytes")
	case 2:
		if kb := c.g.ps / blk; kb > 1 {
			c.g.length -= blk * rapid.Int64Range(1, kb-1).Draw(rt, "tailblocks")
		}
	}
	c.g.n = int((c.g.length + c.g.ps - 1) / c.g.ps)
	c.local = rapid.SampledFrom([]string{"none", "all", "sparse", "dense", "dense"}).Draw(rt, "local")
	c.seed = rapid.Uint64().Draw(rt, "seed")
	c.caps = sim.Caps{Fast: rapid.Bool().Draw(rt, "fast"), Extended: rapid.IntRange(0, 4).Draw(rt, "ext") != 0, DHT: rapid.Bool().Draw(rt, "dht")}
	c.reqq = rapid.SampledFrom([]int64{-1, -1, 0, 1, 2, 3, 250, 1<<32 - 1}).Draw(rt, "reqq")
	c.ext = map[string]uint8{"ut_pex": rapid.Uint8Range(1, 255).Draw(rt, "pexid")}
	c.ext["lt_donthave"] = c.ext["ut_pex"]%255 + 1
	c.ext["ut_metadata"] = c.ext["lt_donthave"]%255 + 1
	n := rapid.IntRange(3, 50).Draw(rt, "nsteps")
	for i := 0; i < n; i++ {
		s := step{Kind: rapid.SampledFrom(kinds).Draw(rt, "kind"), I: rapid.IntRange(0, 1<<20).Draw(rt, "i"), A: rapid.IntRange(0, 1<<20).Draw(rt, "a")}
		switch s.Kind {
		case "sleep":
			s.D = rapid.SampledFrom([]time.Duration{time.Second, 3 * time.Second, 8 * time.Second, 31 * time.Second, 61 * time.Second, 3 * time.Minute}).Draw(rt, "d")
		case "t.request":
			s.L = rapid.SliceOfN(rapid.IntRange(0, 1<<20), 1, 5).Draw(rt, "chunks")
		}
		c.steps = append(c.steps, s)
	}
	return c
}

type model struct {
	g             geom
	localHas      map[int]bool
	adv           map[int]bool
	advAll        bool
	unchoked      bool
	fastSet       map[int]bool
	outstanding   map[key]uint32
	commanded     map[uint32]int // chunks commanded by the torrent and not yet resolved (multiset)
	reqq          int64
	pexTold       map[netip.AddrPort]bool
	trace         []string
	dropped       []uint32 // blocks the peer gave back most recently
	labels        map[string]bool
	nreq          int
	exitAccounted bool
	lastQueue     int
	stale         bool // the messages being checked were written while the remote was not reading
}

func (m *model) chunkOf(i, b uint32) uint32 { return uint32(int64(i)*m.g.cpp() + int64(b)/blk) }

func (m *model) advertised(i int) bool { return m.advAll || m.adv[i] }

// onMsg checks one message received from storrent against the model.
func (m *model) onMsg(msg ref.Msg, ext map[string]uint8) string {
	n := m.g.n
	switch msg.Kind {
	case ref.KRequest:
		i, b, l := int(msg.Index), int64(msg.Begin), int64(msg.Length)
		if i >= n {
			return fmt.Sprintf("Request for piece %d of %d", i, n)
		}
		if b%blk != 0 || b >= m.g.plen(i) {
			return fmt.Sprintf("Request(%d,%d,%d): offset not a block boundary inside the piece (piece length %d)", i, b, l, m.g.plen(i))
		}
		if want := min(blk, m.g.plen(i)-b); l != want {
			return fmt.Sprintf("Request(%d,%d,%d): block length should be %d", i, b, l, want)
		}
		if !m.advertised(i) {
			return fmt.Sprintf("Request(%d,%d,%d) for a piece the peer has not advertised", i, b, l)
		}
		if !m.unchoked && !m.fastSet[i] {
			return fmt.Sprintf("Request(%d,%d,%d) sent while choked (piece not allowed-fast)", i, b, l)
		}
		if !m.unchoked {
			m.labels["allowed-fast-request-while-choked"] = true
		}
		k := key{msg.Index, msg.Begin}
		if _, dup := m.outstanding[k]; dup {
			return fmt.Sprintf("Request(%d,%d,%d) duplicated while outstanding", i, b, l)
		}
		c := m.chunkOf(msg.Index, msg.Begin)
		if m.commanded[c] <= 0 && !m.stale {
			return fmt.Sprintf("Request(%d,%d,%d) for block %d, which the scheduler has not (or no longer) asked this peer to fetch", i, b, l, c)
		}
		m.outstanding[k] = msg.Length
		limit := int64(250)
		if m.reqq > 0 {
			limit = max(2, m.reqq)
		}
		if int64(len(m.outstanding)) > limit {
			return fmt.Sprintf("%d requests outstanding, the peer's queue depth is %d (minimum two)", len(m.outstanding), limit)
		}
		m.nreq++
		if l < blk {
			m.labels["final-short-block-requested"] = true
		}
		if int64(i)*m.g.ps+b >= 1<<32 {
			m.labels["request-above-4GiB"] = true
		}
		if m.reqq > 0 && m.reqq <= 2 {
			m.labels["reqq<=2"] = true
		}
	case ref.KCancel:
		k := key{msg.Index, msg.Begin}
		l, ok := m.outstanding[k]
		if !ok || l != msg.Length {
			return fmt.Sprintf("Cancel(%d,%d,%d) does not refer to an outstanding request", msg.Index, msg.Begin, msg.Length)
		}
		delete(m.outstanding, k)
		m.labels["cancel"] = true
	case ref.KHave:
		if int(msg.Index) >= n {
			return fmt.Sprintf("Have(%d) with %d pieces", msg.Index, n)
		}
	case ref.KBitfield:
		return "Bitfield after the start of the connection"
	case ref.KHaveAll, ref.KHaveNone:
		return "have-all/have-none after the start of the connection"
	case ref.KExtended:
		switch msg.X {
		case ref.XDontHave:
			if int(msg.Index) >= n {
				return fmt.Sprintf("don't-have(%d) with %d pieces", msg.Index, n)
			}
			if msg.Sub != ext["lt_donthave"] {
				return "don't-have sent with the wrong sub-id"
			}
		case ref.XPex:
			if msg.Sub != ext["ut_pex"] {
				return "PEX sent with the wrong sub-id"
			}
			if len(msg.Added) > 50 || len(msg.Dropped) > 50 {
				return fmt.Sprintf("PEX message with %d added / %d dropped (limit 50)", len(msg.Added), len(msg.Dropped))
			}
			for _, p := range msg.Added {
				if m.pexTold[p.Addr] {
					return fmt.Sprintf("PEX announces %v twice", p.Addr)
				}
				m.pexTold[p.Addr] = true
			}
			for _, p := range msg.Dropped {
				if !m.pexTold[p.Addr] {
					return fmt.Sprintf("PEX drops %v, which was not announced", p.Addr)
				}
				delete(m.pexTold, p.Addr)
			}
			m.labels["pex-sent"] = true
			m.trace = append(m.trace, fmt.Sprintf("@%ds PEX +%d -%d", time.Now().Unix()%100000, len(msg.Added), len(msg.Dropped)))
		case ref.XHandshake:
			return "second extended handshake"
		case ref.XOpaque:
			return fmt.Sprintf("extended message with sub-id %d, which the peer never announced", msg.Sub)
		}
	case ref.KPiece:
		return "Piece sent although we never requested anything"
	}
	return ""
}

func run(c caseSpec) (fail string, m *model, hist []string) {
	g := c.g
	ps := new(piece.Pieces)
	ps.MetadataComplete(uint32(g.ps), g.length)
	local := bitmap.New(g.n)
	m = &model{g: g, localHas: map[int]bool{}, adv: map[int]bool{}, fastSet: map[int]bool{}, outstanding: map[key]uint32{},
		commanded: map[uint32]int{}, reqq: -1, pexTold: map[netip.AddrPort]bool{}, labels: map[string]bool{}}
	for i := 0; i < g.n; i++ {
		has := false
		switch c.local {
		case "all":
			has = true
		case "sparse":
			has = i == int(c.seed%uint64(g.n)) && g.n > 72
		case "dense":
			has = (c.seed>>(uint(i)%60))&1 == 1 || i == 0
		}
		if has {
			local.Set(i)
			m.localHas[i] = true
		}
	}
	info := []byte("d4:name1:xe")
	a := sim.NewActor(ps, local.Copy(), c.caps, info, "", false)
	a.R.Ext = c.ext // decode roles for what storrent will send us
	sim.Settle()
	describe := func() string {
		return fmt.Sprintf("\ngeometry: %d pieces of %d bytes, length %d; local set %s; caps %+v; reqq %d; history: %v", g.n, g.ps, g.length, c.local, c.caps, c.reqq, hist)
	}
	// ---- start of connection
	first := a.R.Take()
	if bad := a.R.Bad(); bad != "" {
		return "undecodable frame at start: " + bad + describe(), m, hist
	}
	idx := 0
	if c.caps.DHT {
		if idx >= len(first) || first[idx].Kind != ref.KPort {
			return "DHT-capable peer, no proxy: the first message should be Port" + describe(), m, hist
		}
		idx++
	}
	if c.caps.Extended {
		if idx >= len(first) || first[idx].Kind != ref.KExtended || first[idx].X != ref.XHandshake {
			return "extension-capable peer: expected the extended handshake" + describe(), m, hist
		}
		hs := first[idx].HS
		if hs.ReqQ == nil || hs.M == nil {
			return "extended handshake lacks reqq or m" + describe(), m, hist
		}
		idx++
	}
	rest := first[idx:]
	nlocal := len(m.localHas)
	expectBits := func() string {
		if len(rest) != 1 || rest[0].Kind != ref.KBitfield {
			return fmt.Sprintf("expected exactly one Bitfield, got %d messages (first kind %v)", len(rest), kindsOf(rest))
		}
		bf := rest[0].Data
		if len(bf) != (g.n+7)/8 {
			return fmt.Sprintf("Bitfield has %d bytes for %d pieces (should be %d)", len(bf), g.n, (g.n+7)/8)
		}
		for i := 0; i < len(bf)*8; i++ {
			bit := bf[i/8]&(0x80>>(i%8)) != 0
			if i >= g.n && bit {
				return "Bitfield has spare bits set"
			}
			if i < g.n && bit != m.localHas[i] {
				return fmt.Sprintf("Bitfield bit %d is %v, local set says %v", i, bit, m.localHas[i])
			}
		}
		if g.n%8 == 0 {
			m.labels["bitfield-with-pieces-multiple-of-8"] = true
		}
		m.labels["bitfield-sent"] = true
		return ""
	}
	var f string
	switch {
	case nlocal == 0:
		if c.caps.Fast {
			if len(rest) != 1 || rest[0].Kind != ref.KHaveNone {
				f = "holding nothing, fast peer: expected have-none"
			}
		} else if len(rest) != 0 && !(len(rest) == 1 && rest[0].Kind == ref.KBitfield && allZero(rest[0].Data) && len(rest[0].Data) == (g.n+7)/8) {
			f = fmt.Sprintf("holding nothing: expected no advertisement, got %v", kindsOf(rest))
		}
	case nlocal == g.n && c.caps.Fast:
		if len(rest) != 1 || rest[0].Kind != ref.KHaveAll {
			f = "holding everything, fast peer: expected have-all"
		}
	default:
		// bitfield, or (have-none +) haves
		if len(rest) > 0 && rest[0].Kind == ref.KBitfield {
			f = expectBits()
		} else {
			l := rest
			if c.caps.Fast {
				if len(l) == 0 || l[0].Kind != ref.KHaveNone {
					f = "fast peer: haves must be preceded by have-none"
				} else {
					l = l[1:]
				}
			}
			got := map[int]bool{}
			for _, x := range l {
				if x.Kind != ref.KHave || int(x.Index) >= g.n || got[int(x.Index)] {
					f = fmt.Sprintf("unexpected message in the initial have list: %v", kindsOf(l))
					break
				}
				got[int(x.Index)] = true
			}
			if f == "" && len(got) != nlocal {
				f = fmt.Sprintf("initial haves cover %d pieces, local set has %d", len(got), nlocal)
			}
			for i := range got {
				if !m.localHas[i] {
					f = fmt.Sprintf("initial Have(%d) for a piece not held", i)
				}
			}
			m.labels["initial-haves"] = true
		}
	}
	if f != "" {
		return "start of connection: " + f + describe(), m, hist
	}
	// the remote introduces itself
	if c.caps.Extended {
		var rq *uint32
		if c.reqq >= 0 {
			v := uint32(c.reqq)
			rq = &v
			m.reqq = c.reqq
		}
		a.R.SendExt(c.ext, rq, nil, "ref/1.0")
		sim.Settle()
	}
	pool := make([]pex.Peer, 6)
	for i := range pool {
		pool[i] = pex.Peer{Addr: netip.AddrPortFrom(netip.AddrFrom4([4]byte{7, 7, 7, byte(i + 1)}), uint16(7000+i)), Flags: byte(i)}
	}
	pexWant := map[netip.AddrPort]bool{} // what the torrent currently says
	lastPexChange := time.Now()
	paused := false
	pick := func(s step) int { return s.I % g.n }
	sendAdv := func(msgs ...ref.Msg) {
		for _, x := range msgs {
			a.R.Send(x)
		}
	}
	// process settles, then checks what storrent sent (stream order) and
	// accounts for what the peer told the torrent
	process := func() string {
		sim.Settle()
		if bad := a.R.Bad(); bad != "" {
			return "storrent sent a frame the strict decoder rejects: " + bad + describe()
		}
		for _, msg := range a.R.Take() {
			if f := m.onMsg(msg, c.ext); f != "" {
				return f + describe()
			}
		}
		for _, e := range a.Events() {
			switch e := e.(type) {
			case peer.TorDrop:
				m.commanded[m.chunkOf(e.Index, e.Begin)]--
				// what a scheduler does with a block it gets back: ask again
				m.dropped = append(m.dropped, m.chunkOf(e.Index, e.Begin))
				if len(m.dropped) > 64 {
					m.dropped = m.dropped[len(m.dropped)-64:]
				}
			case peer.TorData:
				m.commanded[m.chunkOf(e.Index, e.Begin)]--
			}
		}
		// conservation (C09 at the level of one peer): the harness plays the
		// torrent, so "in flight" is what it commanded and has not been told
		// is dropped or delivered; at quiescence that must be exactly what the
		// peer still holds in its queue or has sent out
		if a.Alive() && len(a.P.Event) > 0 {
			// commands are still waiting in the peer's mailbox (it is busy timing
			// out on a congested connection): they are events in transit
			m.labels["commands-in-transit"] = true
		} else if a.Alive() {
			q, r := peer.VerifRequests(a.P)
			held := map[uint32]int{}
			for _, c := range append(q, r...) {
				held[c]++
			}
			for c, n := range m.commanded {
				if n != held[c] {
					return fmt.Sprintf("block %d: the scheduler counts %d request(s) in flight at this peer, the peer holds %d (queued %v, sent %v): the block stays busy for ever or is released twice", c, n, held[c], q, r) + describe()
				}
			}
			for c, n := range held {
				if m.commanded[c] != n {
					return fmt.Sprintf("block %d: the peer holds %d request(s) the scheduler does not count", c, n) + describe()
				}
			}
			m.lastQueue = len(q)
			if len(q) > 0 {
				m.labels["local-queue-nonempty"] = true
				if !m.unchoked && c.caps.Fast {
					m.labels["fast-choked-with-local-queue"] = true
				}
			}
		} else if !m.exitAccounted {
			// after the peer has gone every block must have been dropped
			m.exitAccounted = true
			// commands the peer never got to see are still in its mailbox: the
			// torrent releases those blocks itself when it removes the peer
		drain:
			for {
				select {
				case e := <-a.P.Event:
					if rq, ok := e.(peer.PeerRequest); ok {
						for _, ch := range rq.Chunks {
							m.commanded[ch]--
						}
						m.labels["exit-with-unseen-commands"] = true
					}
				default:
					break drain
				}
			}
			for c, n := range m.commanded {
				if n != 0 {
					return fmt.Sprintf("the peer has exited, block %d is still counted %d time(s) in flight", c, n) + describe()
				}
			}
		}
		return ""
	}
	for _, s := range c.steps {
		if !a.Alive() {
			break
		}
		if paused && len(s.Kind) > 2 && s.Kind[:2] == "r." && s.Kind != "r.unpause" {
			// a remote that does not read does not talk either: messages
			// crossing in flight would make the remote's-eye model ambiguous
			continue
		}
		hist = append(hist, s.String())
		m.trace = append(m.trace, fmt.Sprintf("@%ds %s alive=%v rx=%d", time.Now().Unix()%100000, s.String(), a.Alive(), len(a.R.All())))
		i := pick(s)
		switch s.Kind {
		case "t.request":
			var chunks []uint32
			total := int((g.length + blk - 1) / blk)
			for _, v := range s.L {
				var ch int
				if v < 0 {
					v = -v
					chunks = append(chunks, uint32(v))
					m.commanded[uint32(v)]++
					continue
				}
				switch v % 4 {
				case 0:
					ch = v % total
				case 1: // last blocks of the torrent
					ch = total - 1 - (v/4)%min(total, 3)
				default: // a block of an advertised piece when there is one
					ch = v % total
					if adv := m.sortedAdv(); len(adv) > 0 {
						p := adv[(v/16)%len(adv)]
						ch = int(int64(p)*g.cpp()) + (v/4)%int((g.plen(p)+blk-1)/blk)
					}
				}
				chunks = append(chunks, uint32(ch))
				m.commanded[uint32(ch)]++
			}
			if !a.Cmd(peer.PeerRequest{Chunks: chunks}) {
				// the peer has gone: the command was not delivered
				for _, ch := range chunks {
					m.commanded[ch]--
				}
			}
		case "t.rerequest":
			// the blocks the peer has just given back (choked away, timed out,
			// rejected) are asked for again, as the scheduler does at its next pass
			if len(m.dropped) == 0 {
				continue
			}
			chunks := append([]uint32(nil), m.dropped[max(0, len(m.dropped)-1-s.A%8):]...)
			m.dropped = nil
			for _, ch := range chunks {
				m.commanded[ch]++
			}
			m.labels["blocks-given-back-are-asked-for-again"] = true
			if !a.Cmd(peer.PeerRequest{Chunks: chunks}) {
				for _, ch := range chunks {
					m.commanded[ch]--
				}
			}
		case "t.cancel":
			var ch uint32
			if ks := m.sortedKeys(); len(ks) > 0 {
				k := ks[s.A%len(ks)]
				ch = m.chunkOf(k.i, k.b)
			}
			a.Cmd(peer.PeerCancel{Chunk: ch})
		case "t.cancelpiece":
			a.Cmd(peer.PeerCancelPiece{Index: uint32(i)})
		case "t.have":
			m.localHas[i] = true
			a.Cmd(peer.PeerHave{Index: uint32(i), Have: true})
		case "t.donthave":
			delete(m.localHas, i)
			a.Cmd(peer.PeerHave{Index: uint32(i), Have: false})
		case "t.storm":
			// the torrent gains and loses a piece many times in a row: each change
			// is a message to the peer; with the remote not reading, the outgoing
			// queue fills up completely
			// (how many: 20..94; the queue takes 64, and one message more fails and
			// ends the connection)
			for k := 0; k < 20+s.A%75; k++ {
				have := k%2 == 0 || !c.caps.Extended
				a.Cmd(peer.PeerHave{Index: uint32(i), Have: have})
				if have {
					m.localHas[i] = true
				} else {
					delete(m.localHas, i)
				}
			}
			if paused {
				m.labels["outgoing-queue-filled-while-remote-not-reading"] = true
			}
		case "t.interested":
			a.Cmd(peer.PeerInterested{Interested: s.A%2 == 0})
		case "t.pexadd":
			p := pool[s.A%len(pool)]
			if !pexWant[p.Addr] {
				lastPexChange = time.Now()
			}
			pexWant[p.Addr] = true
			// the flags of a known peer change when its extended handshake arrives
			// (encryption, upload-only): the same address is announced again
			if s.I%3 == 1 {
				p.Flags ^= 1 << uint(s.I/3%5)
				m.labels["pex-readd-with-other-flags"] = true
			}
			a.Cmd(peer.PeerPex{Peers: []pex.Peer{p}, Add: true})
		case "t.pexdel":
			p := pool[s.A%len(pool)]
			if pexWant[p.Addr] {
				lastPexChange = time.Now()
				if m.pexTold[p.Addr] {
					m.labels["pex-del-of-announced"] = true
				}
			}
			delete(pexWant, p.Addr)
			if s.I%2 == 1 {
				p.Flags = 0 // tor.delPeer reports a departure by address only
			}
			a.Cmd(peer.PeerPex{Peers: []pex.Peer{p}, Add: false})
		case "r.choke":
			if m.lastQueue > 0 && c.caps.Fast {
				m.labels["fast-choke-with-local-queue"] = true
			}
			if m.lastQueue > 0 && !c.caps.Fast {
				m.labels["nonfast-choke-with-local-queue"] = true
			}
			m.unchoked = false
			if len(m.outstanding) > 0 {
				m.labels["choke-with-outstanding"] = true
			}
			a.R.Send(ref.Msg{Kind: ref.KChoke})
			if !c.caps.Fast {
				m.outstanding = map[key]uint32{}
			} else {
				// BEP 6: reject what we will not serve
				for _, k := range m.sortedKeys() {
					if !m.fastSet[int(k.i)] {
						a.R.Send(ref.Msg{Kind: ref.KReject, Index: k.i, Begin: k.b, Length: m.outstanding[k]})
						delete(m.outstanding, k)
					}
				}
			}
		case "r.choke-lazy":
			// a fast peer whose rejects lag behind its Choke (they arrive with later
			// r.reject steps, or the blocks still arrive): until then the requests
			// are outstanding, and must not be sent a second time
			if !c.caps.Fast {
				continue
			}
			m.unchoked = false
			if len(m.outstanding) > 0 {
				m.labels["fast-choke-rejects-lag-behind"] = true
			}
			a.R.Send(ref.Msg{Kind: ref.KChoke})
		case "r.unchoke":
			if !m.unchoked && m.nreq > 0 {
				m.labels["choke-unchoke-alternation"] = true
			}
			m.unchoked = true
			a.R.Send(ref.Msg{Kind: ref.KUnchoke})
		case "r.have":
			sendAdv(ref.Msg{Kind: ref.KHave, Index: uint32(i)})
			m.adv[i] = true
		case "r.bitfield":
			bf := make([]byte, (g.n+7)/8)
			na := map[int]bool{}
			for k := 0; k < g.n; k++ {
				if (uint64(s.A)*2654435761>>(uint(k)%24))&1 == 1 || k == i {
					bf[k/8] |= 0x80 >> (k % 8)
					na[k] = true
				}
			}
			sendAdv(ref.Msg{Kind: ref.KBitfield, Data: bf})
			m.adv, m.advAll = na, false
		case "r.haveall":
			if !c.caps.Fast {
				continue
			}
			sendAdv(ref.Msg{Kind: ref.KHaveAll})
			m.adv, m.advAll = map[int]bool{}, true
		case "r.havenone":
			if !c.caps.Fast {
				continue
			}
			sendAdv(ref.Msg{Kind: ref.KHaveNone})
			m.adv, m.advAll = map[int]bool{}, false
		case "r.donthave":
			if !c.caps.Extended {
				continue
			}
			a.R.Send(ref.Msg{Kind: ref.KExtended, Sub: 3, X: ref.XDontHave, Index: uint32(i)})
			if m.advAll {
				m.advAll = false
				for k := 0; k < g.n; k++ {
					m.adv[k] = true
				}
			}
			delete(m.adv, i)
		case "r.allowedfast":
			if !c.caps.Fast {
				continue
			}
			a.R.Send(ref.Msg{Kind: ref.KAllowed, Index: uint32(i)})
			m.fastSet[i] = true
		case "r.reject":
			if !c.caps.Fast {
				continue
			}
			if ks := m.sortedKeys(); len(ks) > 0 {
				k := ks[s.A%len(ks)]
				a.R.Send(ref.Msg{Kind: ref.KReject, Index: k.i, Begin: k.b, Length: m.outstanding[k]})
				delete(m.outstanding, k)
				m.labels["reject"] = true
			}
		case "r.piece":
			if ks := m.sortedKeys(); len(ks) > 0 {
				k := ks[s.A%len(ks)]
				a.R.Send(ref.Msg{Kind: ref.KPiece, Index: k.i, Begin: k.b, Data: gen.Fill(uint64(k.i)<<20|uint64(k.b), int(m.outstanding[k]))})
				delete(m.outstanding, k)
				m.labels["piece-delivered"] = true
			}
		case "sleep":
			if len(m.outstanding) > 0 && s.D > 30*time.Second {
				m.labels["timeout-with-outstanding"] = true
			}
			// in slices of one second, so that a request and its later
			// expiry are never accounted for in the wrong order
			for d := time.Duration(0); d < s.D; d += time.Second {
				time.Sleep(time.Second)
				if f := process(); f != "" {
					return f, m, hist
				}
			}
		case "r.pause":
			a.R.Pause(true)
			paused = true
			m.labels["congestion"] = true
		case "r.unpause":
			a.R.Pause(false)
			// what arrives now was written at unknown times during the pause; the
			// scheduler may have withdrawn those blocks since
			m.stale = paused
			paused = false
		}
		if f := process(); f != "" {
			return f, m, hist
		}
		m.stale = false
		// PEX convergence: two periods after the last change, with the peer
		// reading, what the remote was told equals what the torrent says
		if c.caps.Extended && !paused && a.Alive() && time.Since(lastPexChange) > 125*time.Second {
			for p := range pexWant {
				if !m.pexTold[p] {
					return fmt.Sprintf("PEX: %v was added %v ago and has still not been announced", p, time.Since(lastPexChange)) + describe(), m, hist
				}
			}
			for p := range m.pexTold {
				if !pexWant[p] {
					return fmt.Sprintf("PEX: the departure of %v, %v ago, has still not been reported", p, time.Since(lastPexChange)) + describe(), m, hist
				}
			}
			if len(pexWant) > 0 {
				m.labels["pex-converged"] = true
			}
		}
	}
	if os.Getenv("VERIF_C11_WIRE") != "" {
		var ks []string
		for _, x := range a.R.All() {
			ks = append(ks, fmt.Sprintf("%d/%d(%d,%d)", x.Kind, x.X, x.Index, x.Begin))
		}
		fmt.Println("WIRE:", ks)
	}
	return "", m, hist
}

// sortedKeys returns the outstanding requests in a fixed order.
func (m *model) sortedKeys() []key {
	var l []key
	for k := range m.outstanding {
		l = append(l, k)
	}
	sort.Slice(l, func(a, b int) bool {
		if l[a].i != l[b].i {
			return l[a].i < l[b].i
		}
		return l[a].b < l[b].b
	})
	return l
}

func (m *model) sortedAdv() []int {
	var l []int
	for p := range m.adv {
		l = append(l, p)
	}
	sort.Ints(l)
	return l
}

func allZero(b []byte) bool {
	for _, x := range b {
		if x != 0 {
			return false
		}
	}
	return true
}

func kindsOf(l []ref.Msg) []int {
	var k []int
	for _, m := range l {
		k = append(k, m.Kind)
	}
	return k
}

func TestC11Conformance(t *testing.T) {
	rapid.Check(t, func(rt *rapid.T) {
		c := genCase(rt)
		if stats.Excl("c11-bitfield-multiple-of-8") && c.g.n%8 == 0 {
			stats.Excluded("c11-bitfield-multiple-of-8")
			c.g.n++
			c.g.length += c.g.ps
		}
		var fail string
		var m *model
		leak := sim.Bubble(t, func() { fail, m, _ = run(c) })
		if fail != "" {
			rt.Fatalf("%s", fail)
		}
		if leak != "" {
			rt.Fatalf("goroutines left behind: %s", leak)
		}
		var l []string
		for k := range m.labels {
			l = append(l, k)
		}
		sort.Strings(l)
		nontrivial := m.nreq > 0 && len(l) > 1
		stats.Case(fmt.Sprintf("%v|%s|f%v|x%v|n8:%v", l, c.local, c.caps.Fast, c.caps.Extended, c.g.n%8 == 0), nontrivial, append(l, "local:"+c.local)...)
		if nontrivial && stats.WantSample("c11") {
			stats.Sample("c11", map[string]any{"pieces": c.g.n, "pieceBytes": c.g.ps, "length": c.g.length, "caps": fmt.Sprintf("%+v", c.caps), "reqq": c.reqq, "steps": fmt.Sprint(c.steps), "labels": l})
		}
	})
}

func fixed(t *testing.T, c caseSpec) {
	t.Helper()
	var fail string
	leak := sim.Bubble(t, func() { fail, _, _ = run(c) })
	if fail != "" {
		t.Fatalf("%s", fail)
	}
	if leak != "" {
		t.Fatalf("leak: %s", leak)
	}
}

// piece count multiple of 8: bitfield one byte too long
func TestReg_c11_bitfield_multiple_of_8(t *testing.T) {
	fixed(t, caseSpec{g: geom{ps: blk, length: 16 * blk, n: 16}, local: "dense", seed: 0x5555, caps: sim.Caps{Extended: true}, reqq: -1,
		ext: map[string]uint8{"ut_pex": 1, "lt_donthave": 2, "ut_metadata": 3}})
}

// PEX: add, announce, del (pending), add again, del: the departure is never reported
func TestReg_c11_pex_readd(t *testing.T) {
	fixed(t, caseSpec{g: geom{ps: blk, length: 9 * blk, n: 9}, local: "none", caps: sim.Caps{Extended: true}, reqq: -1,
		ext: map[string]uint8{"ut_pex": 1, "lt_donthave": 2, "ut_metadata": 3},
		steps: []step{{Kind: "t.pexadd", A: 0}, {Kind: "sleep", D: 61 * time.Second}, {Kind: "r.have", I: 0}, {Kind: "t.pexdel", A: 0}, {Kind: "t.pexadd", A: 0}, {Kind: "t.pexdel", A: 0},
			{Kind: "sleep", D: 61 * time.Second}, {Kind: "r.have", I: 1}, {Kind: "sleep", D: 61 * time.Second}, {Kind: "r.have", I: 2}, {Kind: "sleep", D: 10 * time.Second}}})
}

// > 4 GiB with a piece size that does not divide 2^32: block offsets wrap
func TestReg_c11_offset_above_4g(t *testing.T) {
	ps := int64(3 * blk)
	n := int((int64(4)<<30)/ps) + 10
	// chunk 262144 = piece 87381, block 1
	fixed(t, caseSpec{g: geom{ps: ps, length: ps * int64(n), n: n}, local: "none", caps: sim.Caps{Fast: true, Extended: true}, reqq: -1,
		ext:   map[string]uint8{"ut_pex": 1, "lt_donthave": 2, "ut_metadata": 3},
		steps: []step{{Kind: "r.haveall"}, {Kind: "r.unchoke"}, {Kind: "t.request", L: []int{-262144, -262145}}, {Kind: "sleep", D: time.Second}}})
}

// PEX over a connection whose outgoing queue is completely full at the
// moment of the periodic PEX message; then the announced peers leave, rejoin
// and leave again.
func TestC11PexCongested(t *testing.T) {
	for variant := 0; variant < 4; variant++ {
		// PEX messages go out once a minute.  Two peers are added, and the remote
		// stops reading for 30 s (a connection blocked for a whole minute is closed
		// by the writer's deadline) somewhere in the following minute: in one of
		// the variants the periodic message falls into that window
		steps := []step{{Kind: "t.pexadd", A: 0}, {Kind: "sleep", D: 64 * time.Second}, {Kind: "t.pexadd", A: 1}, {Kind: "t.pexadd", A: 2},
			{Kind: "sleep", D: time.Duration(2+15*variant) * time.Second}, {Kind: "r.pause"}, {Kind: "t.have", I: 2}, {Kind: "t.storm", I: 1, A: 44}}
		// (one message makes the writer block on the connection; 64 more fill the
		// queue to the brim without overflowing it)
		if variant%2 == 1 {
			steps = append(steps, step{Kind: "t.pexdel", A: 0})
		}
		steps = append(steps, step{Kind: "sleep", D: 30 * time.Second}, step{Kind: "r.unpause"}, step{Kind: "sleep", D: 3 * time.Second},
			step{Kind: "t.pexdel", A: 1}, step{Kind: "t.pexadd", A: 1}, step{Kind: "t.pexdel", A: 1})
		if variant >= 2 {
			steps = append(steps, step{Kind: "t.pexdel", A: 2}, step{Kind: "t.pexadd", A: 2})
		}
		steps = append(steps, step{Kind: "sleep", D: 61 * time.Second}, step{Kind: "sleep", D: 61 * time.Second}, step{Kind: "sleep", D: 61 * time.Second}, step{Kind: "sleep", D: 10 * time.Second})
		c := caseSpec{g: geom{ps: blk, length: 9 * blk, n: 9}, local: "none", caps: sim.Caps{Extended: true, Fast: variant%2 == 0}, reqq: -1,
			ext: map[string]uint8{"ut_pex": 1, "lt_donthave": 2, "ut_metadata": 3}, steps: steps}
		var fail string
		var m *model
		leak := sim.Bubble(t, func() { fail, m, _ = run(c) })
		if fail != "" {
			t.Fatalf("variant %d: %s", variant, fail)
		}
		if leak != "" {
			t.Fatalf("leak: %s", leak)
		}
		var l []string
		for k := range m.labels {
			l = append(l, k)
		}
		sort.Strings(l)
		if os.Getenv("VERIF_C11_TRACE") != "" {
			t.Logf("variant %d: labels %v; PEX told %v; trace %v", variant, l, m.pexTold, m.trace)
		}
		stats.Case(fmt.Sprintf("pex-congested/%d", variant), true, append(l, "pex-over-congested-connection")...)
	}
}

// A Cancel issued while the outgoing queue is more than half full (the remote
// is not reading), the cancelled request then expiring, and the same block
// being asked for again once the remote reads again: what the remote sees must
// still be Request, Cancel, Request - never the same Request twice with
// nothing in between.
func TestC11CancelCongested(t *testing.T) {
	cancelCongested(t, 0, 5)
	stats.Case("cancel-congested", true, "cancel-over-congested-connection")
}

// Regression for c11-cancel-lost-when-queue-full (fixed): with the outgoing
// queue full to the brim (64 messages) the Cancel cannot be written (write
// gives up after 200 ms); the error used to be ignored, the request was
// nevertheless marked cancelled, forgotten a few seconds later and asked for
// again: the remote saw the same Request twice with nothing in between.  The
// connection is now closed instead.
func TestReg_c11_cancel_lost_when_queue_full(t *testing.T) {
	cancelCongested(t, 5, 6)
}

func cancelCongested(t *testing.T, from, to int) {
	for variant := from; variant < to; variant++ {
		steps := []step{{Kind: "r.haveall"}, {Kind: "r.unchoke"}, {Kind: "t.request", L: []int{0, 4}}, {Kind: "sleep", D: time.Second},
			// (one message makes the writer flush and block on the connection; what
			// follows stays in the queue: 34, 40, .. 64 messages)
			{Kind: "r.pause"}, {Kind: "t.have", I: 2}, {Kind: "t.storm", I: 1, A: 14 + 6*variant},
			{Kind: "t.cancel", A: variant % 2}, {Kind: "sleep", D: time.Duration(8+variant) * time.Second}, {Kind: "r.unpause"}, {Kind: "sleep", D: 2 * time.Second},
			{Kind: "t.rerequest", A: 7}, {Kind: "sleep", D: 5 * time.Second}, {Kind: "t.request", L: []int{0, 4}}, {Kind: "sleep", D: 5 * time.Second}}
		c := caseSpec{g: geom{ps: blk, length: 9 * blk, n: 9}, local: "none", caps: sim.Caps{Extended: true, Fast: true}, reqq: -1,
			ext: map[string]uint8{"ut_pex": 1, "lt_donthave": 2, "ut_metadata": 3}, steps: steps}
		var fail string
		var m *model
		leak := sim.Bubble(t, func() { fail, m, _ = run(c) })
		if fail != "" {
			t.Fatalf("variant %d: %s", variant, fail)
		}
		if leak != "" {
			t.Fatalf("leak: %s", leak)
		}
		var l []string
		for k := range m.labels {
			l = append(l, k)
		}
		sort.Strings(l)
		if os.Getenv("VERIF_C11_TRACE") != "" {
			t.Logf("variant %d: labels %v; trace %v", variant, l, m.trace)
		}
	}
}
