package c11

// Peer exchange seen from the remotes of a whole swarm: the real torrent-side
// handlers (tor.handleEvent: peers joining, extended handshakes, peers leaving)
// feed the real per-peer PEX state, and each remote reads the ut_pex messages
// addressed to it.
//
// The remote's-eye model: told[P] = addresses P has been told and not been
// told to forget.  Every ut_pex message must only add addresses that are not
// in told[P] (never announce one twice), only drop addresses that are (never
// drop a peer that was not announced), and only mention addresses of peers
// that were connected at some time, never P's own.  At the end, after every
// peer has had three more PEX ticks, told[P] must not contain the address of
// a peer that has left and not come back (every departure is eventually
// reported).
//
// The schedule is the harness's (engine E3): a peer's goroutine may be left
// unscheduled while the torrent goes on sending it commands, until its
// mailbox is full, and another peer leaves exactly then.

import (
	"bytes"
	"fmt"
	"net/netip"
	"sort"
	"testing"
	"time"

	"pgregory.net/rapid"

	"github.com/jech/storrent/peer"
	"github.com/jech/storrent/protocol"
	"github.com/jech/storrent/tor"

	"verif/gen"
	"verif/pump"
	"verif/ref"
	"verif/sim"
	"verif/stats"
)

type swStep struct {
	Kind string // join | leave | rejoin | tick | tick-all | saturate-leave | rehandshake
	P, Q int
	Caps pump.Caps
	In   bool
	Pex  bool
}

func (s swStep) String() string {
	switch s.Kind {
	case "join":
		return fmt.Sprintf("join(%+v,incoming=%v,pex=%v)", s.Caps, s.In, s.Pex)
	case "saturate-leave":
		return fmt.Sprintf("saturate(p%d)+leave(p%d)", s.P, s.Q)
	}
	return fmt.Sprintf("%s(p%d)", s.Kind, s.P)
}

type swPeer struct {
	pp     *pump.PP
	addr   netip.AddrPort // what other peers may be told about it
	pex    bool
	told   map[netip.AddrPort]bool
	gone   bool
	nticks int
}

func runSwarm(steps []swStep) (fail string, labels map[string]bool, hist []string) {
	labels = map[string]bool{}
	info := ref.Benc(map[string]any{"name": "swarm", "piece length": 16384, "length": int64(400) * 16384, "pieces": gen.Fill(2, 20*400)})
	t, err := tor.ReadTorrent("", bytes.NewReader(ref.Benc(map[string]any{"info": ref.Raw(info)})))
	if err != nil {
		return err.Error(), labels, nil
	}
	t.Log.SetOutput(nullW{})
	w := pump.NewWorld(t)
	defer w.Close()
	var ps []*swPeer
	everAddr := map[netip.AddrPort]bool{}
	describe := func() string { return fmt.Sprintf("\nhistory: %v", hist) }
	live := func() []*swPeer {
		var l []*swPeer
		for _, p := range ps {
			if !p.gone && p.pp.Alive {
				l = append(l, p)
			}
		}
		return l
	}
	present := func(a netip.AddrPort, except *swPeer) bool {
		for _, p := range live() {
			if p != except && p.addr == a {
				return true
			}
		}
		return false
	}
	// read what each remote has received
	observe := func(when string) string {
		for i, p := range ps {
			for _, m := range p.pp.TakeSent() {
				x, ok := m.(protocol.ExtendedPex)
				if !ok {
					continue
				}
				if !p.pex {
					return fmt.Sprintf("%s: peer %d never offered ut_pex and was sent a peer-exchange message", when, i) + describe()
				}
				if x.Subtype != 9 {
					return fmt.Sprintf("%s: peer-exchange message to peer %d carries sub-id %d, the peer asked for 9", when, i, x.Subtype) + describe()
				}
				if len(x.Added) > 50 || len(x.Dropped) > 50 {
					labels["pex-message-above-50"] = true
				}
				for _, a := range x.Added {
					switch {
					case p.told[a.Addr]:
						return fmt.Sprintf("%s: peer %d is told about %v a second time without a drop in between", when, i, a.Addr) + describe()
					case a.Addr == p.addr:
						return fmt.Sprintf("%s: peer %d is told its own address %v", when, i, a.Addr) + describe()
					case !everAddr[a.Addr]:
						return fmt.Sprintf("%s: peer %d is told about %v, which was never the address of a connected peer", when, i, a.Addr) + describe()
					}
					p.told[a.Addr] = true
					labels["pex-added"] = true
				}
				for _, d := range x.Dropped {
					if !p.told[d.Addr] {
						return fmt.Sprintf("%s: peer %d is told to drop %v, which it was never told about (or was already told to drop)", when, i, d.Addr) + describe()
					}
					delete(p.told, d.Addr)
					labels["pex-dropped"] = true
				}
			}
		}
		return ""
	}
	drain := func() string {
		if p := w.Drain(); p != "" {
			return p + describe()
		}
		return ""
	}
	join := func(s swStep, addr netip.AddrPort) string {
		w.NextAddr = addr
		if s.In && !addr.IsValid() {
			// tor.Server creates the peer of an accepted connection with port 0
			k := len(ps) + 1
			w.NextAddr = netip.AddrPortFrom(netip.AddrFrom4([4]byte{8, 10, byte(k >> 8), byte(k)}), 0)
		}
		pp := w.AddPeer(s.Caps, s.In)
		p := &swPeer{pp: pp, told: map[netip.AddrPort]bool{}, pex: s.Caps.Extended && s.Pex}
		a := w.LastAddr
		ps = append(ps, p)
		if s.Caps.Extended {
			m := map[string]uint8{"ut_metadata": 3}
			if s.Pex {
				m["ut_pex"] = 9
			}
			hs := protocol.Extended0{Version: "swarm", Messages: m}
			if !s.In && s.Q%4 == 1 {
				// an outgoing connection whose peer names another listening port than
				// the one that was dialled: the peer stays who it was (a peer whose
				// port is not known yet takes the one it names)
				hs.Port = uint16(50000 + len(ps))
				if a.Port() == 0 {
					a = netip.AddrPortFrom(a.Addr(), hs.Port)
				} else {
					labels["outgoing-peer-names-another-port"] = true
				}
			}
			if s.In {
				// an incoming connection's source port says nothing; the handshake may carry the listening port
				if s.Q%3 != 0 {
					hs.Port = uint16(40000 + len(ps))
					a = netip.AddrPortFrom(a.Addr(), hs.Port)
				} else {
					a = netip.AddrPortFrom(a.Addr(), 0)
				}
			}
			if _, pv := pp.Msg(hs); pv != "" {
				return pv + describe()
			}
		} else if s.In {
			a = netip.AddrPortFrom(a.Addr(), 0)
		}
		p.addr = a
		if a.Port() != 0 {
			everAddr[a] = true
		}
		return drain()
	}
	leave := func(p *swPeer) {
		p.pp.Disconnect()
		p.gone = true
	}
	for _, s := range steps {
		hist = append(hist, s.String())
		l := live()
		switch s.Kind {
		case "join":
			if len(l) >= 12 {
				continue
			}
			if f := join(s, netip.AddrPort{}); f != "" {
				return f, labels, hist
			}
		case "rejoin":
			// somebody who left comes back from the same address
			var back *swPeer
			for _, p := range ps {
				if p.gone && !p.pp.P.Incoming && !present(p.addr, nil) {
					back = p
				}
			}
			if back == nil || len(l) >= 12 {
				continue
			}
			if f := join(swStep{Caps: pump.Caps{Extended: true, Fast: true}, Pex: true}, back.addr); f != "" {
				return f, labels, hist
			}
			labels["rejoin-from-the-same-address"] = true
		case "leave":
			if len(l) == 0 {
				continue
			}
			leave(l[s.P%len(l)])
			if f := drain(); f != "" {
				return f, labels, hist
			}
		case "rehandshake":
			if len(l) == 0 {
				continue
			}
			p := l[s.P%len(l)]
			if !p.pex {
				continue
			}
			if _, pv := p.pp.Msg(protocol.Extended0{Version: "again", Messages: map[string]uint8{"ut_pex": 9}}); pv != "" {
				return pv + describe(), labels, hist
			}
			if f := drain(); f != "" {
				return f, labels, hist
			}
			labels["second-extended-handshake"] = true
		case "tick", "tick-all":
			for i, p := range l {
				if s.Kind == "tick" && i != s.P%len(l) {
					continue
				}
				if pv := p.pp.PeerTick("pex"); pv != "" {
					return pv + describe(), labels, hist
				}
				p.nticks++
			}
			if f := drain(); f != "" {
				return f, labels, hist
			}
		case "saturate-leave":
			// peer A's goroutine is not scheduled while the torrent sends it
			// commands until its mailbox is full; peer B leaves just then; A is
			// scheduled again a moment later
			if len(l) < 2 {
				continue
			}
			a, b := l[s.P%len(l)], l[s.Q%len(l)]
			if a == b {
				b = l[(s.Q+1)%len(l)]
			}
			a.pp.PauseMailbox()
			n := 0
		fill:
			for {
				select {
				case a.pp.P.Event <- peer.PeerHave{Index: uint32(n % 400), Have: true}:
					n++
				default:
					break fill
				}
			}
			wasTold := a.told[b.addr]
			leave(b)
			done := make(chan string, 1)
			go func() { done <- w.Drain() }()
			// the torrent either gets through B's departure without waiting for A,
			// or it blocks on A's full mailbox: give it a moment to do one or the
			// other before A runs again (so that the outcome does not depend on a race)
			finished := false
			select {
			case p := <-done:
				finished = true
				if p != "" {
					return p + describe(), labels, hist
				}
				labels["torrent-did-not-wait-for-the-full-mailbox"] = true
			case <-time.After(5 * time.Millisecond):
				labels["torrent-waited-for-the-full-mailbox"] = true
			}
			a.pp.ResumeMailbox()
			if !finished {
				select {
				case p := <-done:
					if p != "" {
						return p + describe(), labels, hist
					}
				case <-time.After(60 * time.Second):
					return "inconclusive: event processing did not finish within 60 s of real time", labels, hist
				}
			}
			if f := drain(); f != "" {
				return f, labels, hist
			}
			labels["peer-leaves-while-another-mailbox-is-full"] = true
			if wasTold && a.pp.Alive {
				labels["departure-of-an-announced-peer-while-the-mailbox-is-full"] = true
			}
		}
		if f := observe("after " + s.String()); f != "" {
			return f, labels, hist
		}
	}
	// every departure is eventually reported: three more PEX rounds for everybody
	for round := 0; round < 3; round++ {
		for _, p := range live() {
			if pv := p.pp.PeerTick("pex"); pv != "" {
				return pv + describe(), labels, hist
			}
		}
		if f := drain(); f != "" {
			return f, labels, hist
		}
		if f := observe(fmt.Sprintf("final PEX round %d", round+1)); f != "" {
			return f, labels, hist
		}
	}
	for i, p := range ps {
		if p.gone || !p.pp.Alive {
			continue
		}
		var stale []string
		for a := range p.told {
			if !present(a, p) {
				stale = append(stale, a.String())
			}
		}
		sort.Strings(stale)
		if len(stale) > 0 {
			return fmt.Sprintf("peer %d was told about %v; those peers have left, and three PEX messages later their departure has still not been reported", i, stale) + describe(), labels, hist
		}
		if len(p.told) > 0 {
			labels["remote-knows-present-peers-at-end"] = true
		}
	}
	return "", labels, hist
}

func TestC11PexSwarm(t *testing.T) {
	sim.Init()
	rapid.Check(t, func(rt *rapid.T) {
		var steps []swStep
		for i, n := 0, rapid.IntRange(2, 4).Draw(rt, "initial"); i < n; i++ {
			steps = append(steps, swStep{Kind: "join", Caps: pump.Caps{Extended: true, Fast: true}, Pex: true})
		}
		steps = append(steps, swStep{Kind: "tick-all"})
		for i, n := 0, rapid.IntRange(1, 40).Draw(rt, "nsteps"); i < n; i++ {
			s := swStep{Kind: rapid.SampledFrom([]string{"join", "join", "leave", "leave", "rejoin", "tick", "tick-all", "tick-all", "saturate-leave", "rehandshake"}).Draw(rt, "kind"),
				P: rapid.IntRange(0, 11).Draw(rt, "p"), Q: rapid.IntRange(0, 11).Draw(rt, "q")}
			if s.Kind == "join" {
				s.Caps = pump.Caps{Extended: rapid.IntRange(0, 4).Draw(rt, "ext") != 0, Fast: rapid.Bool().Draw(rt, "fast"),
					AddrClass: rapid.SampledFrom([]string{"", "", "", "v6", "port-0", "private", "loopback"}).Draw(rt, "addr")}
				s.In = rapid.IntRange(0, 3).Draw(rt, "incoming") == 0
				s.Pex = rapid.IntRange(0, 4).Draw(rt, "pex") != 0
			}
			steps = append(steps, s)
		}
		fail, labels, _ := runSwarm(steps)
		if fail != "" {
			if len(fail) > 13 && fail[:13] == "inconclusive:" {
				rt.Skip(fail)
			}
			rt.Fatalf("%s", fail)
		}
		var l []string
		for k := range labels {
			l = append(l, "swarm:"+k)
		}
		sort.Strings(l)
		stats.Case(fmt.Sprint(l), labels["pex-dropped"], l...)
	})
}

type nullW struct{}

func (nullW) Write(p []byte) (int, error) { return len(p), nil }
