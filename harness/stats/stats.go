// Package stats collects what a generative run actually covered: counters
// per label, the set of distinct non-trivial case fingerprints, a few
// verbatim samples per label, and what was excluded by construction.  The
// driver (../../check) merges the per-process dumps into evidence/<id>.json.
package stats

import (
	"encoding/json"
	"fmt"
	"hash/fnv"
	"os"
	"sort"
	"strings"
	"sync"
	"testing"
)

type collector struct {
	mu          sync.Mutex
	Evaluations int64            `json:"evaluations"`
	Nontrivial  int64            `json:"nontrivial"`
	Labels      map[string]int64 `json:"labels"`
	Excluded    map[string]int64 `json:"excluded"`
	Samples     map[string][]any `json:"samples"`
	Distinct    []uint64         `json:"distinct"`
	Exhaustive  map[string]bool  `json:"exhaustive"`
	Notes       []string         `json:"notes"`
	distinct    map[uint64]struct{}
}

var c = &collector{
	Labels:     map[string]int64{},
	Excluded:   map[string]int64{},
	Samples:    map[string][]any{},
	Exhaustive: map[string]bool{},
	distinct:   map[uint64]struct{}{},
}

const samplesPerLabel = 3
const maxDistinctKept = 300_000

// Case records one generated case.  fp is a fingerprint of what makes the
// case distinct (by the rule stated for the property); it only counts
// towards distinct_nontrivial when nontrivial is true.
func Case(fp string, nontrivial bool, labels ...string) {
	c.mu.Lock()
	defer c.mu.Unlock()
	c.Evaluations++
	if nontrivial {
		c.Nontrivial++
		if len(c.distinct) < maxDistinctKept {
			h := fnv.New64a()
			h.Write([]byte(fp))
			c.distinct[h.Sum64()] = struct{}{}
		}
	}
	for _, l := range labels {
		c.Labels[l]++
	}
}

// Label bumps counters without counting a case.
func Label(labels ...string) {
	c.mu.Lock()
	defer c.mu.Unlock()
	for _, l := range labels {
		c.Labels[l]++
	}
}

// LabelN adds n to a counter.
func LabelN(label string, n int64) {
	c.mu.Lock()
	defer c.mu.Unlock()
	c.Labels[label] += n
}

// Sample keeps the first few values seen under a label, verbatim.
func Sample(label string, v any) {
	c.mu.Lock()
	defer c.mu.Unlock()
	if len(c.Samples[label]) < samplesPerLabel {
		c.Samples[label] = append(c.Samples[label], v)
	}
}

// WantSample says whether Sample(label, …) would still keep a value, so that
// callers can avoid building expensive descriptions.
func WantSample(label string) bool {
	c.mu.Lock()
	defer c.mu.Unlock()
	return len(c.Samples[label]) < samplesPerLabel
}

// Excluded counts a case (or part of one) removed from generation by
// construction because it falls in the region of a recorded known finding.
func Excluded(flag string) {
	c.mu.Lock()
	defer c.mu.Unlock()
	c.Excluded[flag]++
}

// Exhaustive marks a finite table as completely enumerated by this run.
func Exhaustive(table string) {
	c.mu.Lock()
	defer c.mu.Unlock()
	c.Exhaustive[table] = true
}

func Note(format string, a ...any) {
	c.mu.Lock()
	defer c.mu.Unlock()
	if len(c.Notes) < 50 {
		c.Notes = append(c.Notes, fmt.Sprintf(format, a...))
	}
}

// Excl reports whether the generator region named flag is switched off for
// this run (VERIF_EXCLUDE is a comma-separated list set by the driver from
// known_findings.json; never set for fixed entries).
func Excl(flag string) bool {
	for _, f := range strings.Split(os.Getenv("VERIF_EXCLUDE"), ",") {
		if f == flag {
			return true
		}
	}
	return false
}

func dump() {
	path := os.Getenv("VERIF_STATS_OUT")
	if path == "" {
		return
	}
	c.mu.Lock()
	defer c.mu.Unlock()
	c.Distinct = c.Distinct[:0]
	for h := range c.distinct {
		c.Distinct = append(c.Distinct, h)
	}
	sort.Slice(c.Distinct, func(i, j int) bool { return c.Distinct[i] < c.Distinct[j] })
	b, err := json.Marshal(c)
	if err != nil {
		fmt.Fprintln(os.Stderr, "stats: marshal:", err)
		return
	}
	tmp := path + ".tmp"
	if err := os.WriteFile(tmp, b, 0o644); err != nil {
		fmt.Fprintln(os.Stderr, "stats: write:", err)
		return
	}
	os.Rename(tmp, path)
}

// Main is the body of every package's TestMain.
func Main(m *testing.M) {
	code := m.Run()
	dump()
	os.Exit(code)
}
