// Package segconn is an in-memory duplex connection whose reads are cut
// according to a plan owned by the harness: it can produce every TCP
// segmentation of both directions (byte at a time, a cut at any position,
// random sizes, everything coalesced), records the bytes on the wire, and can
// inject write faults.
package segconn

import (
	"errors"
	"io"
	"net"
	"os"
	"sync"
	"time"
)

// Plan says how much each successive Read may return.
type Plan struct {
	Sizes    []int // consumed in order
	Cycle    bool  // repeat Sizes when exhausted (otherwise unlimited afterwards)
	Coalesce bool  // before returning data, let 1 ms of (virtual) time pass so that everything the writer can write has been written
	// EOFWithData: when the writer has closed and a Read drains the rest, return
	// the bytes together with io.EOF in one call (as io.Reader permits and
	// wrapping connections - TLS, proxies, pipes - do)
	EOFWithData bool
}

type queue struct {
	mu     sync.Mutex
	buf    []byte
	closed bool
	wake   chan struct{}
	wire   []byte // everything ever written in this direction
}

func (q *queue) signal() {
	select {
	case q.wake <- struct{}{}:
	default:
	}
}

type End struct {
	in, out  *queue
	plan     Plan
	pi       int
	mu       sync.Mutex
	rdl, wdl time.Time
	// write faults: after FailAt bytes in total have been accepted, the write
	// that crosses the boundary accepts only up to it and fails (Short: returns
	// a short count with a nil error instead)
	FailAt   int
	Transient bool // only the write that crosses FailAt fails; later ones succeed again (e.g. a write deadline that expired once)
	Short    bool
	FailErr  error
	written  int
	name     string
}

// Pair returns the two ends; planA governs reads of end A, planB of end B.
func Pair(planA, planB Plan) (*End, *End) {
	ab := &queue{wake: make(chan struct{}, 1)}
	ba := &queue{wake: make(chan struct{}, 1)}
	a := &End{in: ba, out: ab, plan: planA, FailAt: -1, name: "a"}
	b := &End{in: ab, out: ba, plan: planB, FailAt: -1, name: "b"}
	return a, b
}

func (e *End) next() int {
	if e.pi < len(e.plan.Sizes) {
		n := e.plan.Sizes[e.pi]
		e.pi++
		return n
	}
	if e.plan.Cycle && len(e.plan.Sizes) > 0 {
		e.pi = 1
		return e.plan.Sizes[0]
	}
	return 1 << 30
}

func (e *End) Read(p []byte) (int, error) {
	if len(p) == 0 {
		return 0, nil
	}
	for {
		e.in.mu.Lock()
		have := len(e.in.buf)
		closed := e.in.closed
		e.in.mu.Unlock()
		if have > 0 {
			if e.plan.Coalesce {
				time.Sleep(time.Millisecond)
			}
			e.in.mu.Lock()
			n := min(len(p), e.next(), len(e.in.buf))
			if n < 1 {
				n = 1
			}
			copy(p, e.in.buf[:n])
			e.in.buf = e.in.buf[n:]
			last := e.in.closed && len(e.in.buf) == 0
			e.in.mu.Unlock()
			if last && e.plan.EOFWithData {
				return n, io.EOF
			}
			return n, nil
		}
		if closed {
			return 0, io.EOF
		}
		e.mu.Lock()
		dl := e.rdl
		e.mu.Unlock()
		if dl.IsZero() {
			<-e.in.wake
			continue
		}
		d := time.Until(dl)
		if d <= 0 {
			return 0, os.ErrDeadlineExceeded
		}
		t := time.NewTimer(d)
		select {
		case <-e.in.wake:
			t.Stop()
		case <-t.C:
			return 0, os.ErrDeadlineExceeded
		}
	}
}

func (e *End) Write(p []byte) (int, error) {
	e.out.mu.Lock()
	defer e.out.mu.Unlock()
	if e.out.closed {
		return 0, io.ErrClosedPipe
	}
	n := len(p)
	var err error
	if e.FailAt >= 0 && e.written+n > e.FailAt {
		n = max(e.FailAt-e.written, 0)
		if e.Transient {
			defer func() { e.FailAt = -1 }()
		}
		if !e.Short {
			err = e.FailErr
			if err == nil {
				err = errors.New("injected write error")
			}
		}
	}
	e.out.buf = append(e.out.buf, p[:n]...)
	e.out.wire = append(e.out.wire, p[:n]...)
	e.written += n
	e.out.signal()
	return n, err
}

// Close closes both directions as seen from this end.
func (e *End) Close() error {
	for _, q := range []*queue{e.in, e.out} {
		q.mu.Lock()
		q.closed = true
		q.mu.Unlock()
		q.signal()
	}
	return nil
}

// CloseWrite closes only the direction this end writes to.
func (e *End) CloseWrite() {
	e.out.mu.Lock()
	e.out.closed = true
	e.out.mu.Unlock()
	e.out.signal()
}

// Wire returns everything this end has put on the wire so far.
func (e *End) Wire() []byte {
	e.out.mu.Lock()
	defer e.out.mu.Unlock()
	return append([]byte(nil), e.out.wire...)
}

// SetPlan replaces the read plan (e.g. after the handshake).
func (e *End) SetPlan(p Plan) { e.plan, e.pi = p, 0 }

type addr string

func (a addr) Network() string { return "seg" }
func (a addr) String() string  { return string(a) }

func (e *End) LocalAddr() net.Addr  { return addr(e.name) }
func (e *End) RemoteAddr() net.Addr { return addr(e.name + "-peer") }
func (e *End) SetDeadline(t time.Time) error {
	e.mu.Lock()
	e.rdl, e.wdl = t, t
	e.mu.Unlock()
	return nil
}
func (e *End) SetReadDeadline(t time.Time) error {
	e.mu.Lock()
	e.rdl = t
	e.mu.Unlock()
	return nil
}
func (e *End) SetWriteDeadline(t time.Time) error {
	e.mu.Lock()
	e.wdl = t
	e.mu.Unlock()
	return nil
}
