// C16 — upload and choking discipline.
package c16

import (
	"bytes"
	"crypto/sha1"
	"fmt"
	"sort"
	"testing"
	"time"

	"pgregory.net/rapid"

	"github.com/jech/storrent/hash"
	"github.com/jech/storrent/peer"
	"github.com/jech/storrent/tor/piece"

	"verif/gen"
	"verif/ref"
	"verif/sim"
	"verif/stats"
)

func TestMain(m *testing.M) { stats.Main(m) }

const blk = 16384

type req struct {
	i, b, l    uint32
	afterChoke bool // sent while we were choked, or choked away since: must not be served
	uncertain  bool // sent while not reading: its order relative to choke-state messages is unknown
}

type rmodel struct {
	a        *sim.Actor
	fast     bool
	unchoked bool // last choke-state message received from storrent
	pending  []req
	open     bool
	served   int
	paused   bool
	grace    map[int]bool // pieces evicted while this remote was not reading
	// a request cancelled (no fast extension: no acknowledgement) in the step
	// being processed: storrent's upload tick and its reading of the Cancel may
	// fall at the same instant, in either order, so a Piece may cross the Cancel
	crossing []req
}

type step struct {
	Kind string
	P    int
	I, A int
	D    time.Duration
}

func (s step) String() string {
	if s.Kind == "sleep" {
		return fmt.Sprintf("sleep(%v)", s.D)
	}
	return fmt.Sprintf("p%d.%s(%d,%d)", s.P, s.Kind, s.I, s.A)
}

var kinds = []string{"interested", "interested", "notinterested", "request", "request", "request", "request", "request-odd", "request-dup",
	"flood", "cancel", "cancel-unknown", "t.unchoke", "t.unchoke", "t.unchoke", "t.choke", "evict", "verify", "pause", "unpause", "close", "sleep", "sleep", "sleep",
	"t.interested", "congested-choke", "congested-unchoke"}

type store struct {
	ps       *piece.Pieces
	psize    int64
	length   int64
	n        int
	seed     uint64
	pieces   map[int][]byte // content, piece by piece, generated when first needed
	verified map[int]bool
	hashes   map[int][]byte
}

func (s *store) plen(i int) int64 {
	if i == s.n-1 {
		return s.length - int64(i)*s.psize
	}
	return s.psize
}

// piece returns the true content of piece i (a pure function of the seed).
func (s *store) piece(i int) []byte {
	if s.pieces == nil {
		s.pieces = map[int][]byte{}
	}
	if d, ok := s.pieces[i]; ok {
		return d
	}
	d := gen.Fill(s.seed+uint64(i)*0x9e3779b97f4a7c15, int(s.plen(i)))
	s.pieces[i] = d
	return d
}

func (s *store) hashOf(i int) []byte {
	if s.hashes == nil {
		s.hashes = map[int][]byte{}
	}
	if h, ok := s.hashes[i]; ok {
		return h
	}
	h := sha1.Sum(s.piece(i))
	s.hashes[i] = h[:]
	return h[:]
}

func (s *store) verify(i int) {
	if s.verified[i] {
		return
	}
	d := s.piece(i)
	for b := int64(0); b < s.plen(i); b += blk {
		s.ps.AddData(uint32(i), uint32(b), d[b:min(b+blk, s.plen(i))], ^uint32(0))
	}
	done, _, _ := s.ps.Finalise(uint32(i), hash.Hash(s.hashOf(i)))
	if done {
		s.verified[i] = true
	}
}

type caseSpec struct {
	psK     int64
	n       int
	tail    int64
	seed    uint64
	npeers  int
	fast    []bool
	initial []int // verified pieces
	partial []int
	steps   []step
	big     bool // more than 4 GiB
	reqq    []int64 // per peer: reqq of the remote's extended handshake (-1: none sent)
	end     string  // how the case ends: the remotes close, or the torrent goes away
	deaf    bool    // the torrent does not take the peers' notifications
}

func genCase(rt *rapid.T) caseSpec {
	c := caseSpec{psK: rapid.SampledFrom([]int64{16, 32, 64}).Draw(rt, "pieceKiB"), n: rapid.IntRange(1, 8).Draw(rt, "pieces"),
		tail: rapid.SampledFrom([]int64{0, 1, 100, 16383}).Draw(rt, "tail"), seed: rapid.Uint64().Draw(rt, "seed"), npeers: rapid.IntRange(1, 3).Draw(rt, "peers")}
	for i := 0; i < c.npeers; i++ {
		c.fast = append(c.fast, rapid.Bool().Draw(rt, "fast"))
	}
	for i := 0; i < c.n; i++ {
		switch rapid.IntRange(0, 3).Draw(rt, "pstate") {
		case 0, 1:
			c.initial = append(c.initial, i)
		case 2:
			c.partial = append(c.partial, i)
		}
	}
	if rapid.IntRange(0, 11).Draw(rt, "beyond4GiB") == 0 {
		// a torrent of more than 4 GiB: offsets no longer fit 32 bits.  Verified:
		// a piece beyond 4 GiB and the piece exactly 2^32 bytes before it.
		c.psK, c.n, c.big = 1024, 4096+rapid.IntRange(1, 4).Draw(rt, "extraPieces"), true
		hi := rapid.IntRange(4096, c.n-1).Draw(rt, "hi")
		c.initial, c.partial = []int{hi - 4096, hi}, nil
		if rapid.Bool().Draw(rt, "onlyHigh") {
			c.initial = []int{hi}
		}
	}
	for i := 0; i < c.npeers; i++ {
		c.reqq = append(c.reqq, rapid.SampledFrom([]int64{-1, -1, 1, 250, 100000, 1<<32 - 1}).Draw(rt, "reqq"))
	}
	c.end = rapid.SampledFrom([]string{"remotes-close", "remotes-close", "torrent-goes-away"}).Draw(rt, "end")
	c.deaf = rapid.IntRange(0, 3).Draw(rt, "deaf") == 0
	if rapid.Bool().Draw(rt, "warm") {
		// start with peer 0 interested and unchoked: more of the history is spent uploading
		c.steps = append(c.steps, step{Kind: "interested", P: 0}, step{Kind: "t.unchoke", P: 0})
	}
	ns := rapid.IntRange(3, 60).Draw(rt, "nsteps")
	for i := 0; i < ns; i++ {
		s := step{Kind: rapid.SampledFrom(kinds).Draw(rt, "kind"), P: rapid.IntRange(0, c.npeers-1).Draw(rt, "p"), I: rapid.IntRange(0, 1<<16).Draw(rt, "i"), A: rapid.IntRange(0, 1<<16).Draw(rt, "a")}
		if s.Kind == "sleep" {
			s.D = rapid.SampledFrom([]time.Duration{100 * time.Millisecond, time.Second, 3 * time.Second, 10 * time.Second, 25 * time.Second}).Draw(rt, "d")
		}
		c.steps = append(c.steps, s)
	}
	return c
}

func run(c caseSpec) (fail string, labels map[string]bool, hist []string) {
	labels = map[string]bool{}
	if n := peer.NumUnchoking(); n != 0 {
		return fmt.Sprintf("harness: unchoke counter is %d at the start of the case", n), labels, nil
	}
	st := &store{ps: new(piece.Pieces), psize: c.psK * 1024, n: c.n, verified: map[int]bool{}}
	st.length = st.psize*int64(c.n) - c.tail
	st.seed = c.seed
	st.ps.MetadataComplete(uint32(st.psize), st.length)
	for _, i := range c.initial {
		st.verify(i)
	}
	for _, i := range c.partial {
		st.ps.AddData(uint32(i), 0, st.piece(i)[:min(blk, st.plen(i))], ^uint32(0))
	}
	sim.Cleanup(func() { st.ps.Del() })
	local := st.ps.Bitmap()
	var rs []*rmodel
	sim.ActorEventCap = 1 << 16
	if c.deaf {
		// the torrent is not listening: what the peers report queues up at the peers
		sim.ActorEventCap = 2
		labels["torrent-not-listening"] = true
	}
	defer func() { sim.ActorEventCap = 1 << 16 }()
	for i := 0; i < c.npeers; i++ {
		a := sim.NewActor(st.ps, local.Copy(), sim.Caps{Fast: c.fast[i], Extended: true}, []byte("d4:name1:xe"), "", true)
		rs = append(rs, &rmodel{a: a, fast: c.fast[i], open: true})
		// the remote's extended handshake: the queue depth it advertises is a
		// limit on what we ask of it, not on what it may ask of us
		if i < len(c.reqq) && c.reqq[i] >= 0 {
			v := uint32(c.reqq[i])
			a.R.SendExt(nil, &v, nil, "")
			if v > 250 {
				labels["remote-advertises-huge-reqq"] = true
			}
		}
	}
	sim.Settle()
	for _, m := range rs {
		m.a.R.Take()
	}
	var evLog []string
	describe := func() string {
		return fmt.Sprintf("\nstore: %d pieces of %d KiB, length %d, verified %v; peers fast=%v; history: %v", c.n, c.psK, st.length, keys(st.verified), c.fast, hist)
	}
	var process func() string
	process = func() string {
		sim.Settle()
		for pi, m := range rs {
			if bad := m.a.R.Bad(); bad != "" {
				return fmt.Sprintf("peer %d: undecodable frame: %s", pi, bad) + describe()
			}
			for _, msg := range m.a.R.Take() {
				switch msg.Kind {
				case ref.KUnchoke:
					m.unchoked = true
				case ref.KChoke:
					m.unchoked = false
					if len(m.pending) > 0 {
						labels["choke-with-requests-pending"] = true
					}
					var keep []req
					for _, r := range m.pending {
						if r.uncertain {
							keep = append(keep, r)
						} else if m.fast {
							r.afterChoke = true
							keep = append(keep, r)
						}
					}
					m.pending = keep
				case ref.KPiece:
					if !m.unchoked {
						return fmt.Sprintf("peer %d: Piece(%d,%d,%d bytes) received while choked", pi, msg.Index, msg.Begin, len(msg.Data)) + describe()
					}
					found := -1
					for k, r := range m.pending {
						if r.i == msg.Index && r.b == msg.Begin && int(r.l) == len(msg.Data) && (found < 0 || !r.afterChoke) {
							found = k
							if !r.afterChoke {
								break
							}
						}
					}
					if found < 0 {
						for k, r := range m.crossing {
							if r.i == msg.Index && r.b == msg.Begin && int(r.l) == len(msg.Data) {
								m.crossing = append(m.crossing[:k], m.crossing[k+1:]...)
								m.pending = append(m.pending, r)
								found = len(m.pending) - 1
								labels["piece-crossed-cancel"] = true
								break
							}
						}
					}
					if found < 0 {
						return fmt.Sprintf("peer %d: Piece(%d,%d,%d bytes) does not answer any pending request (pending %v)", pi, msg.Index, msg.Begin, len(msg.Data), m.pending) + describe()
					}
					if m.pending[found].afterChoke {
						return fmt.Sprintf("peer %d: Piece(%d,%d,%d bytes) answers a request that was made while choked or was choked away", pi, msg.Index, msg.Begin, len(msg.Data)) + describe()
					}
					m.pending = append(m.pending[:found], m.pending[found+1:]...)
					i := int(msg.Index)
					if len(msg.Data) == 0 {
						// the empty answer to a zero-length request carries no data
						labels["zero-length-answer"] = true
						continue
					}
					if i >= st.n || int64(msg.Begin)+int64(len(msg.Data)) > st.plen(i) {
						return fmt.Sprintf("peer %d: Piece(%d,%d,%d bytes) lies outside the piece", pi, msg.Index, msg.Begin, len(msg.Data)) + describe()
					}
					if !st.verified[i] && !m.grace[i] {
						return fmt.Sprintf("peer %d: Piece(%d,%d,%d bytes) served from a piece that is not verified (incomplete or evicted) [store says complete=%v, payload right=%v, evictions so far %v]", pi, msg.Index, msg.Begin, len(msg.Data),
							st.ps.Complete(msg.Index), bytes.Equal(msg.Data, st.piece(i)[msg.Begin:int64(msg.Begin)+int64(len(msg.Data))]), evLog) + describe()
					}
					if !bytes.Equal(msg.Data, st.piece(i)[msg.Begin:int64(msg.Begin)+int64(len(msg.Data))]) {
						return fmt.Sprintf("peer %d: Piece(%d,%d,%d bytes) payload differs from the torrent's content", pi, msg.Index, msg.Begin, len(msg.Data)) + describe()
					}
					m.served++
					labels["piece-served"] = true
					if int64(i)*st.psize >= 1<<32 {
						labels["served-from-beyond-4GiB"] = true
					}
				case ref.KReject:
					if !m.fast {
						return fmt.Sprintf("peer %d: Reject sent to a peer without the fast extension", pi) + describe()
					}
					found := -1
					for k, r := range m.pending {
						if r.i == msg.Index && r.b == msg.Begin && r.l == msg.Length && (found < 0 || r.afterChoke) {
							found = k
							if r.afterChoke {
								break
							}
						}
					}
					if found < 0 {
						return fmt.Sprintf("peer %d: Reject(%d,%d,%d) does not refer to a pending request (model pending %v; storrent's upload queue %v)", pi, msg.Index, msg.Begin, msg.Length, m.pending, peer.VerifUploadQueue(m.a.P)) + describe()
					}
					m.pending = append(m.pending[:found], m.pending[found+1:]...)
					labels["reject"] = true
				}
			}
			if m.open && m.a.R.Closed() {
				m.open = false
			}
			m.crossing = nil
		}
		// accounting (only when every remote is reading: a choke-state message
		// still sitting in a congested pipe is not yet visible to the remote)
		want, leaving := 0, 0
		anyPaused := false
		for _, m := range rs {
			exiting := false
			select {
			case <-m.a.P.Done:
				exiting = true // Run is in its exit path (an error, a time-out)
			default:
			}
			if m.a.Alive() && (!m.open || exiting) {
				// its connection is closed and it is on its way out (it may have to
				// wait for a torrent that is not listening): counted or not, and
				// what it was last told may never have reached the remote
				leaving++
			} else if m.a.Alive() && m.unchoked {
				want++
			}
			anyPaused = anyPaused || (m.paused && m.a.Alive())
		}
		if got := int(peer.NumUnchoking()); (got < want || got > want+leaving) && !anyPaused {
			return fmt.Sprintf("unchoke counter is %d, but %d live peers were last told Unchoke (and %d more are leaving)", got, want, leaving) + describe()
		}
		for pi, m := range rs {
			if m.a.Alive() {
				// (read directly: a synchronous GetStats would wait, in virtual time, for a
				// peer that is busy timing out on a congested connection, and messages
				// would arrive at the other remotes behind the model's back)
				if n := len(peer.VerifUploadQueue(m.a.P)); n > 250 {
					return fmt.Sprintf("peer %d: %d upload requests queued (limit 250)", pi, n) + describe()
				}
			}
		}
		for _, m := range rs {
			if m.a.R.Len() > 0 {
				// something arrived meanwhile: the model must see it before the next step
				return process()
			}
		}
		return ""
	}
	sendReq := func(m *rmodel, i, b, l uint32) {
		m.a.R.Send(ref.Msg{Kind: ref.KRequest, Index: i, Begin: b, Length: l})
		if m.paused {
			// the remote's view of the choke state may lag behind what storrent
			// has already written: such a request may or may not be served
			m.pending = append(m.pending, req{i, b, l, false, true})
			return
		}
		if !m.unchoked && !m.fast {
			return // BEP 3: requests made while choked are discarded, there is no answer
		}
		m.pending = append(m.pending, req{i, b, l, !m.unchoked, false})
	}
	for _, s := range c.steps {
		m := rs[s.P%len(rs)]
		if !m.a.Alive() && s.Kind != "sleep" && s.Kind != "evict" && s.Kind != "verify" {
			continue
		}
		switch s.Kind {
		case "interested", "notinterested", "request", "request-odd", "request-dup", "flood", "cancel", "cancel-unknown":
			if m.paused && s.Kind != "flood" {
				// a remote that does not read does not talk (its view of the choke
				// state would lag behind); floods are the exception under test
				continue
			}
		}
		hist = append(hist, s.String())
		i := s.I % st.n
		if c.big && s.I%4 != 0 {
			// mostly aim at the few pieces that hold data
			i = c.initial[s.I%len(c.initial)]
		}
		switch s.Kind {
		case "interested":
			m.a.R.Send(ref.Msg{Kind: ref.KInterest})
		case "notinterested":
			if m.unchoked {
				labels["notinterested-while-unchoked"] = true
			}
			m.a.R.Send(ref.Msg{Kind: ref.KNotInt})
		case "request":
			nb := int((st.plen(i) + blk - 1) / blk)
			b := int64(s.A%nb) * blk
			sendReq(m, uint32(i), uint32(b), uint32(min(blk, st.plen(i)-b)))
			if !st.verified[i] {
				labels["request-unverified-piece"] = true
			} else if int64(i)*st.psize >= 1<<32 {
				labels["request-beyond-4GiB"] = true
			}
		case "request-odd":
			var idx, b, l uint32 = uint32(i), 0, blk
			switch s.A % 8 {
			case 0:
				b = 1 // misaligned
			case 1:
				b, l = uint32(st.plen(i))-100, 200 // crosses the piece end
			case 2:
				l = 0
			case 3:
				l = 1
			case 4:
				l = blk + 1
			case 5:
				l = 128 * 1024
			case 6:
				l = 1 << 31
			case 7:
				idx = uint32(st.n + s.A%3)
			}
			if int64(b) > st.plen(i) {
				b = 0
			}
			sendReq(m, idx, b, l)
			labels["odd-request"] = true
		case "request-dup":
			if len(m.pending) > 0 {
				r := m.pending[s.A%len(m.pending)]
				sendReq(m, r.i, r.b, r.l)
				labels["duplicate-request"] = true
			}
		case "flood":
			k := 251 + s.A%350
			for j := 0; j < k; j++ {
				p := (i + j) % st.n
				nb := int((st.plen(p) + blk - 1) / blk)
				b := int64(j%nb) * blk
				sendReq(m, uint32(p), uint32(b), uint32(min(blk, st.plen(p)-b)))
			}
			if m.unchoked {
				labels["flood-beyond-250"] = true
			}
		case "cancel":
			if len(m.pending) > 0 {
				k := s.A % len(m.pending)
				r := m.pending[k]
				m.a.R.Send(ref.Msg{Kind: ref.KCancel, Index: r.i, Begin: r.b, Length: r.l})
				if !m.fast {
					// without fast there is no acknowledgement: the request is simply gone
					m.pending = append(m.pending[:k], m.pending[k+1:]...)
					if !r.afterChoke && !r.uncertain {
						m.crossing = append(m.crossing, r)
					}
				} else {
					// with fast storrent answers a cancel with a reject; a Piece that
					// was already written may still precede it
				}
				labels["cancel-pending"] = true
			}
		case "cancel-unknown":
			m.a.R.Send(ref.Msg{Kind: ref.KCancel, Index: uint32(i), Begin: 0, Length: 77})
		case "t.interested":
			m.a.Cmd(peer.PeerInterested{Interested: s.A%3 != 0})
		case "congested-choke":
			// the remote stops reading, makes storrent fill its outgoing queue
			// (every change of the advertised set draws an interested /
			// not-interested reply), and then says it is no longer interested:
			// the Choke that follows cannot be written
			if !m.unchoked || !m.a.Alive() {
				continue
			}
			m.a.Cmd(peer.PeerInterested{Interested: true})
			if !m.paused {
				m.a.R.Pause(true)
				m.paused = true
			}
			full := make([]byte, (st.n+7)/8)
			for k := 0; k < st.n; k++ {
				full[k/8] |= 0x80 >> (k % 8)
			}
			empty := make([]byte, (st.n+7)/8)
			var raw []byte
			// how full the queue gets decides whether the Choke, or only some of
			// the rejects that follow it, cannot be written
			for k := 0; k < 30+s.I%70; k++ {
				bf := full
				if k%2 == 1 {
					bf = empty
				}
				raw = append(raw, ref.Encode(ref.Msg{Kind: ref.KBitfield, Data: bf})...)
			}
			m.a.R.SendRaw(raw)
			sim.Settle()
			m.a.R.Send(ref.Msg{Kind: ref.KNotInt})
			labels["congested-choke"] = true
			labels["congestion"] = true
		case "congested-unchoke":
			// the same congestion, and then the torrent decides to unchoke this
			// peer: the Unchoke cannot be written, so the peer is not unchoked
			if m.unchoked || !m.a.Alive() {
				continue
			}
			if !m.paused {
				m.a.R.Pause(true)
				m.paused = true
			}
			{
				full := make([]byte, (st.n+7)/8)
				for k := 0; k < st.n; k++ {
					full[k/8] |= 0x80 >> (k % 8)
				}
				empty := make([]byte, (st.n+7)/8)
				var raw []byte
				for k := 0; k < 30+s.I%70; k++ {
					bf := full
					if k%2 == 1 {
						bf = empty
					}
					raw = append(raw, ref.Encode(ref.Msg{Kind: ref.KBitfield, Data: bf})...)
				}
				m.a.R.SendRaw(raw)
				sim.Settle()
			}
			m.a.Cmd(peer.PeerUnchoke{Unchoke: true})
			labels["congested-unchoke"] = true
			labels["congestion"] = true
			labels["unchoke-cmd"] = true
		case "t.unchoke":
			m.a.Cmd(peer.PeerUnchoke{Unchoke: true})
			labels["unchoke-cmd"] = true
		case "t.choke":
			m.a.Cmd(peer.PeerUnchoke{Unchoke: false})
		case "evict":
			nev := st.ps.Expire(0, nil, func(k uint32) {
				delete(st.verified, int(k))
				evLog = append(evLog, fmt.Sprintf("step %d: piece %d", len(hist), k))
				for _, mm := range rs {
					if mm.paused {
						// a Piece written before the eviction may still sit in the pipe
						if mm.grace == nil {
							mm.grace = map[int]bool{}
						}
						mm.grace[int(k)] = true
					}
				}
			})
			if nev > 0 {
				for _, mm := range rs {
					if len(mm.pending) > 0 {
						labels["eviction-between-request-and-service"] = true
					}
				}
			}
		case "verify":
			st.verify(i)
		case "pause":
			m.a.R.Pause(true)
			m.paused = true
			labels["congestion"] = true
		case "unpause":
			m.a.R.Pause(false)
			m.paused = false
		case "close":
			if m.unchoked {
				labels["disconnect-while-unchoked"] = true
			}
			m.a.R.Close()
			m.open, m.paused = false, false
		case "sleep":
			for d := time.Duration(0); d < s.D; d += time.Second {
				time.Sleep(min(time.Second, s.D-d))
				if f := process(); f != "" {
					return f, labels, hist
				}
			}
		}
		if f := process(); f != "" {
			return f, labels, hist
		}
		if !m.paused {
			m.grace = nil
		}
	}
	// everybody leaves, or the torrent goes away under the peers
	if c.end == "torrent-goes-away" {
		for _, m := range rs {
			if m.a.Alive() && m.unchoked {
				labels["torrent-goes-away-while-unchoking"] = true
				if c.deaf {
					labels["torrent-goes-away-while-unchoking-with-reports-waiting"] = true
				}
			}
			select {
			case <-m.a.TorDone:
			default:
				close(m.a.TorDone)
			}
		}
		time.Sleep(time.Second)
		sim.Settle()
	}
	for _, m := range rs {
		m.a.R.Close()
	}
	time.Sleep(time.Second)
	sim.Settle()
	// a torrent that was not listening catches up now: a peer does not leave
	// before its last reports have been taken
	for k := 0; k < 100000; k++ {
		waiting := false
		for _, m := range rs {
			if m.a.Alive() {
				waiting = true
				m.a.Events()
			}
		}
		if !waiting {
			break
		}
		sim.Settle()
	}
	if got := peer.NumUnchoking(); got != 0 {
		return fmt.Sprintf("all peers are gone, the unchoke counter is %d", got) + describe(), labels, hist
	}
	return "", labels, hist
}

func keys(m map[int]bool) []int {
	var l []int
	for k := range m {
		l = append(l, k)
	}
	sort.Ints(l)
	return l
}

func TestC16Upload(t *testing.T) {
	rapid.Check(t, func(rt *rapid.T) {
		c := genCase(rt)
		var fail string
		var labels map[string]bool
		leak := sim.Bubble(t, func() { fail, labels, _ = run(c) })
		if fail != "" {
			rt.Fatalf("%s", fail)
		}
		if leak != "" {
			rt.Fatalf("goroutines left behind: %s", leak)
		}
		if d := sim.PoolDuplicate(); d != "" {
			// (depends on the state of a process-wide pool: rapid cannot replay it
			// and says "flaky"; the text goes to the output as well)
			fmt.Printf("after the case: %s\n", d)
			rt.Fatalf("after the case: %s", d)
		}
		var l []string
		for k := range labels {
			l = append(l, k)
		}
		sort.Strings(l)
		interesting := false
		for _, k := range []string{"choke-with-requests-pending", "cancel-pending", "eviction-between-request-and-service", "flood-beyond-250", "disconnect-while-unchoked", "congestion"} {
			interesting = interesting || labels[k]
		}
		nontrivial := labels["piece-served"] && interesting
		stats.Case(fmt.Sprint(l), nontrivial, l...)
		if nontrivial && stats.WantSample("c16") {
			stats.Sample("c16", map[string]any{"pieces": c.n, "pieceKiB": c.psK, "peers": c.npeers, "fast": c.fast, "steps": fmt.Sprint(c.steps), "labels": l})
		}
	})
}

// fast peer, congested writer, flood of requests: the upload queue grew without bound
func TestReg_c16_upload_queue_unbounded(t *testing.T) {
	c := caseSpec{psK: 64, n: 8, seed: 1, npeers: 1, fast: []bool{true}, initial: []int{0, 1, 2, 3, 4, 5, 6, 7},
		steps: []step{{Kind: "interested"}, {Kind: "t.unchoke"}, {Kind: "pause"}, {Kind: "flood", A: 300}, {Kind: "flood", A: 300}, {Kind: "sleep", D: time.Second}}}
	var fail string
	leak := sim.Bubble(t, func() { fail, _, _ = run(c) })
	if fail != "" {
		t.Fatalf("%s", fail)
	}
	if leak != "" {
		t.Fatalf("leak: %s", leak)
	}
}

// a choke whose Choke message is written but whose rejects no longer fit into
// the congested outgoing queue left the whole upload queue in place: after the
// next unchoke those requests, choked away (and partly rejected) long ago,
// were answered a second time
func TestReg_c16_choke_keeps_queue_when_reject_fails(t *testing.T) {
	for storm := 0; storm < 70; storm++ {
		c := caseSpec{psK: 16, n: 2, tail: 1, seed: 1, npeers: 1, fast: []bool{true}, initial: []int{1},
			steps: []step{{Kind: "interested"}, {Kind: "t.unchoke"}, {Kind: "flood", I: 0, A: 127}, {Kind: "congested-choke", I: storm}, {Kind: "unpause"},
				{Kind: "sleep", D: time.Second}, {Kind: "interested"}, {Kind: "t.unchoke"}, {Kind: "sleep", D: 3 * time.Second}, {Kind: "notinterested"}, {Kind: "sleep", D: time.Second}}}
		var fail string
		leak := sim.Bubble(t, func() { fail, _, _ = run(c) })
		if fail != "" {
			t.Fatalf("storm of %d: %s", 30+storm, fail)
		}
		if leak != "" {
			t.Fatalf("leak: %s", leak)
		}
	}
}
