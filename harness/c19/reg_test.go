package c19

import (
	"net/netip"
	"testing"

	"verif/webfix"
)

// Deterministic regression tests for the defects the generative tests found
// in http/http.go.  Each asserts the property on a minimal input.

type handPool struct{ pool }

func (p *handPool) mk(kind, hostile, base string) *slot {
	s := &slot{kind: kind, hostile: hostile, scheme: base, classes: classesOf(hostile)}
	p.slots = append(p.slots, s)
	return s
}

func noSubdir(int, [][]*slot) []*slot { return nil }

func firstSubdir(_ int, dirs [][]*slot) []*slot { return dirs[0] }

// AF-C19-1: the torrent name is written unescaped into the front page and the
// directory page (metainfo name, and magnet display name while the metadata is
// incomplete).
func TestReg_c19_entry_name(t *testing.T) {
	webfix.KillAll()
	var p handPool
	multi := &torSpec{kind: "multi", seed: 1, name: p.mk(kName, "<script>alert(1)</script>", "")}
	multi.files = []fileSpec{{comps: []*slot{p.mk(kComp, "f", "")}, length: 10}}
	magnet := &torSpec{kind: "magnet", name: p.mk(kDN, "x\"><img src=x onerror=alert(1)>", ""), mhash: []byte("01234567890123456789")}
	p.assignBenign()
	sc := &scenario{pool: p.pool, tors: []*torSpec{multi, magnet}}
	checkHTML(t, sc, sc.pages(noSubdir))
}

// AF-C19-2: tracker URLs, tracker error texts and web-seed URLs are written
// unescaped into the peers page.
func TestReg_c19_peers_page(t *testing.T) {
	for _, which := range []string{"tracker-url", "tracker-error", "webseed-url"} {
		t.Run(which, func(t *testing.T) {
			webfix.KillAll()
			var p handPool
			ts := &torSpec{kind: "single", seed: 1, length: 100, name: p.mk(kName, "n", "")}
			switch which {
			case "tracker-url":
				ts.tiers = [][]trkSpec{{{mode: "plain", url: p.mk(kURL, "http://h.example/<script>alert(1)</script>", "http://")}}}
			case "tracker-error":
				ts.tiers = [][]trkSpec{{{mode: "fake-error", url: p.mk(kURL, "http://h.example/a", "http://"), text: p.mk(kText, "</td></tr></table><img src=x onerror=alert(1)>", "")}}}
			case "webseed-url":
				ts.seeds = []seedSpec{{url: p.mk(kURL, "http://h.example/\"><svg/onload=alert(1)>", "http://")}}
			}
			p.assignBenign()
			sc := &scenario{pool: p.pool, tors: []*torSpec{ts}}
			checkHTML(t, sc, sc.pages(noSubdir))
		})
	}
}

// The same through a real HTTP tracker object: the text is the "failure
// reason" of a BEP 3 reply from a loopback tracker.
func TestReg_c19_tracker_failure_reason(t *testing.T) {
	webfix.KillAll()
	var p handPool
	ts := &torSpec{kind: "single", seed: 1, length: 100, name: p.mk(kName, "n", "")}
	key := "kreg"
	base := trackerBase() + "/" + key + "/"
	ts.tiers = [][]trkSpec{{{mode: "real-error", key: key, url: p.mk(kURL, base+"announce", base), text: p.mk(kText, "<script>alert(1)</script>", "")}}}
	p.assignBenign()
	sc := &scenario{pool: p.pool, tors: []*torSpec{ts}}
	checkHTML(t, sc, sc.pages(noSubdir))
}

// AF-C19-3: a line break in a file name adds lines to the playlist.
func TestReg_c19_m3u_crlf(t *testing.T) {
	for _, name := range []string{"x\nhttp://evil.example/y", "x\r\n#EXTINF:-1,evil\r\nhttp://evil.example/y", "x\ry"} {
		webfix.KillAll()
		var p handPool
		ts := &torSpec{kind: "multi", seed: 1, name: p.mk(kName, "n", "")}
		ts.files = []fileSpec{{comps: []*slot{p.mk(kComp, name, "")}, length: 10}, {comps: []*slot{p.mk(kComp, "b", "")}, length: 10}}
		p.assignBenign()
		sc := &scenario{pool: p.pool, tors: []*torSpec{ts}}
		checkM3U(t, sc, nil, localHost, false)
	}
	// single-file torrent: the title is the torrent name
	webfix.KillAll()
	var p handPool
	ts := &torSpec{kind: "single", seed: 1, length: 10, name: p.mk(kName, "x\nhttp://evil.example/y", "")}
	p.assignBenign()
	sc := &scenario{pool: p.pool, tors: []*torSpec{ts}}
	checkM3U(t, sc, nil, localHost, false)
}

// AF-C19-4: path components are URL-escaped but not HTML-escaped inside href
// attributes; url.PathEscape leaves '&' alone, so a name holding a character
// reference ("&lt", "&quot", "&copy" …) is decoded by the browser and the
// link points to a different path than the file's.
func TestReg_c19_href_amp(t *testing.T) {
	webfix.KillAll()
	var p handPool
	ts := &torSpec{kind: "multi", seed: 1, name: p.mk(kName, "n", "")}
	d := p.mk(kComp, "d&quot", "")
	ts.files = []fileSpec{
		{comps: []*slot{p.mk(kComp, "a&lt;b", "")}, length: 10},
		{comps: []*slot{d, p.mk(kComp, "R&copy.txt", "")}, length: 10},
	}
	p.assignBenign()
	sc := &scenario{pool: p.pool, tors: []*torSpec{ts}}
	checkHTML(t, sc, sc.pages(noSubdir))
	// single-file torrent: the name is the path
	webfix.KillAll()
	var q handPool
	single := &torSpec{kind: "single", seed: 1, length: 10, name: q.mk(kName, "a&gt.bin", "")}
	q.assignBenign()
	sc = &scenario{pool: q.pool, tors: []*torSpec{single}}
	checkHTML(t, sc, sc.pages(noSubdir))
}

// The address of a known peer is printed as it is; netip accepts any text as
// the zone of an IPv6 address ("2001:db8::1%<script>…"), and a tracker's
// dictionary-form reply gives addresses as text.
func TestReg_c19_known_peer_zone(t *testing.T) {
	webfix.KillAll()
	var p handPool
	ts := &torSpec{kind: "single", seed: 1, length: 100, name: p.mk(kName, "n", "")}
	ts.knowns = []knownSpec{{addr: netip.MustParseAddrPort("[2001:db8::1]:6881"), zone: p.mk(kText, "<script>alert(1)</script>", ""), version: p.mk(kText, "v", "")}}
	p.assignBenign()
	sc := &scenario{pool: p.pool, tors: []*torSpec{ts}}
	checkHTML(t, sc, sc.pages(noSubdir))
}
