package c19

import (
	"bytes"
	"encoding/hex"
	"fmt"
	"mime/multipart"
	"net/http"
	nurl "net/url"
	"path"
	"sort"
	"strings"
	"testing"

	"pgregory.net/rapid"

	"github.com/jech/storrent/config"
	"github.com/jech/storrent/hash"
	"github.com/jech/storrent/tor"

	"verif/stats"
	"verif/webfix"
)

// ---------------------------------------------------------------- the world of a host case

// world: torrent A (complete, pre-filled, one directory, a tracker, a web
// seed), torrent B (magnet, metadata incomplete).  Requests may add C (magnet)
// or D (metainfo upload).
type world struct {
	a, b      *webfix.Live
	aHash     string
	bHash     string
	cHash     string
	dSpec     *webfix.Spec
	dFile     []byte
	dHash     string
	markers   []string
	aContent  []byte
	fileStart int64
}

const (
	mkName    = "MKnameAx7"
	mkFile    = "MKfileAx7"
	mkDir     = "MKdirAx7"
	mkTracker = "MKtrackerAx7"
	mkSeed    = "MKseedAx7"
	mkDN      = "MKdnBx7"
)

func newWorld(seed uint64) (*world, error) {
	w := &world{}
	sa := &webfix.Spec{Name: mkName, PieceLen: webfix.Chunk, Seed: seed, CDate: 1700000000,
		Files: []webfix.File{
			{Path: []string{"top.bin"}, Length: 700},
			{Path: []string{mkDir, mkFile}, Length: 20000},
		},
		Announce: "http://" + mkTracker + ".example/announce", URLList: []string{"http://" + mkSeed + ".example/"}}
	var err error
	if w.a, err = webfix.Add(sa, true); err != nil {
		return nil, err
	}
	w.aHash = w.a.T.Hash.String()
	w.aContent = w.a.Content
	w.fileStart = 700
	bh := make([]byte, 20)
	for i := range bh {
		bh[i] = byte(seed>>uint(i%8*8)) ^ byte(0xb0+i)
	}
	w.bHash = hex.EncodeToString(bh)
	if w.b, err = webfix.AddMagnet("magnet:?xt=urn:btih:" + w.bHash + "&dn=" + mkDN); err != nil {
		return nil, err
	}
	ch := make([]byte, 20)
	for i := range ch {
		ch[i] = byte(seed>>uint(i%8*8)) ^ byte(0xc0+i)
	}
	w.cHash = hex.EncodeToString(ch)
	w.dSpec = &webfix.Spec{Name: "MKnameDx7", PieceLen: webfix.Chunk, Seed: seed + 1, Length: 100}
	w.dFile, _ = w.dSpec.Metainfo()
	if l, err := webfix.Read(w.dSpec); err == nil {
		w.dHash = l.T.Hash.String()
	}
	w.markers = []string{mkName, mkFile, mkDir, mkTracker, mkSeed, mkDN, string(w.aContent[700:724]), string(w.aContent[0:24])}
	return w, nil
}

// restore brings the world back to {A, B} with default settings (a local
// positive control may have deleted, added or reconfigured something).
func (w *world) restore() error {
	live := map[string]bool{}
	for _, h := range webfix.LiveHashes() {
		live[h] = true
	}
	if !live[w.aHash] || !live[w.bHash] || len(live) != 2 {
		webfix.KillAll()
		nw, err := newWorld(w.a.Spec.Seed)
		if err != nil {
			return err
		}
		*w = *nw
	}
	webfix.ResetGlobals()
	conf, err := w.a.T.GetConf()
	if err != nil {
		return err
	}
	if conf.DhtMode != config.DhtNone || conf.UseTrackers || conf.UseWebseeds {
		conf.DhtMode, conf.UseTrackers, conf.UseWebseeds = config.DhtNone, false, false
		if err := w.a.T.SetConf(conf); err != nil {
			return err
		}
	}
	return nil
}

// snapshot is the observable state the web UI can read or change.
func snapshot() string {
	var ts []string
	tor.Range(func(h hash.Hash, t *tor.Torrent) bool {
		conf, err := t.GetConf()
		ts = append(ts, fmt.Sprintf("%v{complete=%v conf=%+v err=%v}", h, t.InfoComplete(), conf, err))
		return true
	})
	sort.Strings(ts)
	return fmt.Sprintf("torrents=%v upload=%v idle=%v", ts, config.UploadRate(), config.IdleRate())
}

// ---------------------------------------------------------------- routes

type hreq struct {
	target string
	hdr    http.Header
	body   []byte
}

type route struct {
	name string
	// canonical: methods under which a local request is effective
	canonical []string
	build     func(w *world, method string, inBody bool) hreq
	// local: verdict on the response to the canonical request from a local
	// host ("" = as expected); before/after are snapshots.
	local func(w *world, method string, r *webfix.Resp, before, after string) string
}

func form(kv ...string) nurl.Values {
	v := nurl.Values{}
	for i := 0; i+1 < len(kv); i += 2 {
		v.Set(kv[i], kv[i+1])
	}
	return v
}

// action builds a "/?q=…" request with the parameters in the query string or
// (POST-style) in a urlencoded body.
func action(v nurl.Values, inBody bool) hreq {
	if inBody {
		return hreq{target: "/", hdr: http.Header{"Content-Type": {"application/x-www-form-urlencoded"}}, body: []byte(v.Encode())}
	}
	return hreq{target: "/?" + v.Encode()}
}

func wantStatus(codes ...int) func(*world, string, *webfix.Resp, string, string) string {
	return func(_ *world, _ string, r *webfix.Resp, _, _ string) string {
		for _, c := range codes {
			if r.Status == c {
				return ""
			}
		}
		return fmt.Sprintf("status %d, want one of %v", r.Status, codes)
	}
}

func wantBody(marker string) func(*world, string, *webfix.Resp, string, string) string {
	return func(_ *world, method string, r *webfix.Resp, _, _ string) string {
		if r.Status != 200 {
			return fmt.Sprintf("status %d, want 200", r.Status)
		}
		if method != "HEAD" && !strings.Contains(string(r.Body), marker) {
			return fmt.Sprintf("body lacks %q", marker)
		}
		return ""
	}
}

func changed(what string) func(*world, string, *webfix.Resp, string, string) string {
	return func(_ *world, _ string, r *webfix.Resp, before, after string) string {
		if r.Status != 303 {
			return fmt.Sprintf("status %d, want 303", r.Status)
		}
		if before == after {
			return "state did not change (" + what + ")"
		}
		return ""
	}
}

var getHead = []string{"GET", "HEAD"}
var getPost = []string{"GET", "POST"}

var routes = []route{
	{"front", getHead, func(w *world, m string, b bool) hreq { return hreq{target: "/"} }, wantBody(mkName)},
	{"front-junk-query", getHead, func(w *world, m string, b bool) hreq { return hreq{target: "/?x=1&y=%3Cb%3E"} }, wantBody(mkDN)},
	{"peers", getHead, func(w *world, m string, b bool) hreq { return hreq{target: "/?q=peers&hash=" + w.aHash} }, wantBody(mkTracker)},
	{"add-magnet", getPost, func(w *world, m string, b bool) hreq {
		return action(form("q", "add", "url", "magnet:?xt=urn:btih:"+w.cHash+"&dn=MKdnCx7"), b)
	}, changed("magnet added")},
	{"add-file", getPost, func(w *world, m string, b bool) hreq {
		var buf bytes.Buffer
		mw := multipart.NewWriter(&buf)
		fw, _ := mw.CreateFormFile("file", "d.torrent")
		fw.Write(w.dFile)
		mw.Close()
		return hreq{target: "/?q=add", hdr: http.Header{"Content-Type": {mw.FormDataContentType()}}, body: buf.Bytes()}
	}, changed("metainfo uploaded")},
	{"delete", getPost, func(w *world, m string, b bool) hreq { return action(form("q", "delete", "hash", w.aHash), b) }, changed("torrent deleted")},
	{"set", getPost, func(w *world, m string, b bool) hreq {
		return action(form("q", "set", "upload", "12345", "idle", "777"), b)
	}, changed("rates set")},
	{"set-torrent", getPost, func(w *world, m string, b bool) hreq {
		return action(form("q", "set-torrent", "hash", w.aHash, "dht-mode", "passive", "use-trackers", "on", "use-webseeds", "on"), b)
	}, changed("torrent reconfigured")},
	{"unknown-action", getPost, func(w *world, m string, b bool) hreq { return action(form("q", "format-disk"), b) }, wantStatus(400)},
	{"hash-redirect", getHead, func(w *world, m string, b bool) hreq { return hreq{target: "/" + w.aHash} }, wantStatus(301)},
	{"torrent-file", getHead, func(w *world, m string, b bool) hreq { return hreq{target: "/" + w.aHash + ".torrent"} }, wantBody(mkName)},
	{"m3u", getHead, func(w *world, m string, b bool) hreq { return hreq{target: "/" + w.aHash + ".m3u"} }, wantBody(mkFile)},
	{"hash-other-ext", getHead, func(w *world, m string, b bool) hreq { return hreq{target: "/" + w.aHash + ".exe"} }, wantStatus(404)},
	{"dir-root", getHead, func(w *world, m string, b bool) hreq { return hreq{target: "/" + w.aHash + "/"} }, wantBody(mkFile)},
	{"subdir", getHead, func(w *world, m string, b bool) hreq { return hreq{target: "/" + w.aHash + "/" + mkDir + "/"} }, wantBody(mkFile)},
	{"dir-playlist", getHead, func(w *world, m string, b bool) hreq { return hreq{target: "/" + w.aHash + "/" + mkDir + "/?playlist"} }, wantBody(mkFile)},
	{"file", getHead, func(w *world, m string, b bool) hreq { return hreq{target: "/" + w.aHash + "/" + mkDir + "/" + mkFile} },
		func(w *world, method string, r *webfix.Resp, _, _ string) string {
			if r.Status != 200 {
				return fmt.Sprintf("status %d, want 200", r.Status)
			}
			if method != "HEAD" && !bytes.Equal(r.Body, w.aContent[700:]) {
				return "body is not the file's content"
			}
			return ""
		}},
	{"file-range", getHead, func(w *world, m string, b bool) hreq {
		return hreq{target: "/" + w.aHash + "/top.bin", hdr: http.Header{"Range": {"bytes=0-99"}}}
	}, wantStatus(206)},
	{"missing-file", getHead, func(w *world, m string, b bool) hreq { return hreq{target: "/" + w.aHash + "/" + mkDir + "/nope"} }, wantStatus(404)},
	{"magnet-dir", getHead, func(w *world, m string, b bool) hreq { return hreq{target: "/" + w.bHash + "/"} }, wantBody(mkDN)},
	{"magnet-torrent-file", getHead, func(w *world, m string, b bool) hreq { return hreq{target: "/" + w.bHash + ".torrent"} }, wantStatus(504)},
	{"unknown-hash", getHead, func(w *world, m string, b bool) hreq { return hreq{target: "/" + strings.Repeat("0", 40) + "/x"} }, wantStatus(404)},
	{"junk-one-segment", getHead, func(w *world, m string, b bool) hreq { return hreq{target: "/favicon.ico"} }, wantStatus(404)},
	{"junk-deep", getHead, func(w *world, m string, b bool) hreq { return hreq{target: "/a/b/c?d=e"} }, wantStatus(404)},
}

var methods = []string{"GET", "HEAD", "POST", "PUT", "DELETE", "OPTIONS", "PATCH"}

func isCanonical(r *route, m string) bool {
	for _, c := range r.canonical {
		if c == m {
			return true
		}
	}
	return false
}

// ---------------------------------------------------------------- hosts

// Fixed evil-host classes of the exhaustive table: DNS names other than
// "localhost" (with a port, without one, with a service-name port).
var evilTable = []struct{ class, host string }{
	{"plain-name", "evil.com:8088"},
	{"plain-name-port80", "evil.com:80"},
	{"no-port", "evil.com"},
	{"single-label", "intranet:8088"},
	{"localhost-as-subdomain", "localhost.evil.com:8088"},
	{"ends-in-localhost", "evil-localhost:8088"},
	{"dot-localhost-suffix", "evil.localhost:8088"},
	{"localhost-prefix", "localhostx:8088"},
	{"localdomain", "localhost.localdomain:8088"},
	{"ip-as-subdomain", "127.0.0.1.evil.com:8088"},
	{"digits-5-labels", "1.2.3.4.5:8088"},
	{"digits-octet-overflow", "256.1.1.1:8088"},
	{"digits-3-labels", "1.2.3:8088"},
	{"punycode", "xn--bcher-kva.example:8088"},
	{"utf8-name", "bücher.example:8088"},
	{"upper-case", "EVIL.COM:8088"},
	{"trailing-dot", "evil.com.:8088"},
	{"bracketed-name", "[evil.com]:8088"},
	{"at-sign", "localhost@evil.com:8088"},
	{"service-port", "evil.com:http"},
	{"two-ports", "evil.com:80:8088"},
}

var localTable = []string{"localhost:8088", "127.0.0.1:8088", "[::1]:8088", "localhost:1"}

// hosts the statement does not cover (not a DNS name other than localhost, or
// arguably the same name): either answer is accepted, but no crash and no
// state change when refused.
var dontCare = []string{"", ":8088", "localhost", "LOCALHOST:8088", "Localhost:8088", "localhost.:8088", "[::1]", "[fe80::1%25eth0]:8088"}

func genLabel(t *rapid.T, lb string) string {
	return rapid.StringMatching(`[a-z]([a-z0-9-]{0,8}[a-z0-9])?`).Draw(t, lb)
}

// genEvilHost draws a Host header whose host part is a DNS name other than
// "localhost" (never an IP literal: at least one label is alphabetic, or the
// name is taken from the digits-only non-IP list).
func genEvilHost(t *rapid.T) (host, class string) {
	class = rapid.SampledFrom([]string{"random-name", "random-name", "around-localhost", "digits", "idn", "case", "table"}).Draw(t, "hostclass")
	var name string
	switch class {
	case "random-name":
		n := rapid.IntRange(1, 4).Draw(t, "labels")
		var ls []string
		for i := 0; i < n; i++ {
			ls = append(ls, genLabel(t, "label"))
		}
		name = strings.Join(ls, ".")
		if rapid.IntRange(0, 5).Draw(t, "digits-label") == 0 {
			name = rapid.StringMatching(`[0-9]{1,3}`).Draw(t, "dl") + "." + name
		}
		if rapid.IntRange(0, 7).Draw(t, "dot") == 0 {
			name += "."
		}
	case "around-localhost":
		x := genLabel(t, "x")
		name = rapid.SampledFrom([]string{"localhost." + x, x + ".localhost", "localhost" + x, x + "localhost", "localhost-" + x, x + "-localhost",
			"localhost." + x + ".com", "local.host", "localhos", "ocalhost", "localhost.localhost", "127.0.0.1." + x, x + ".127.0.0.1.nip.io", "localhost@" + x + ".com"}).Draw(t, "form")
	case "digits":
		name = rapid.SampledFrom([]string{"1.2.3.4.5", "256.1.1.1", "1.2.3", "1.2.3.999", "300.300.300.300", "127.0.0.1.1", "127.1.2.3.4.5"}).Draw(t, "digits")
	case "idn":
		name = rapid.SampledFrom([]string{"xn--bcher-kva.example", "bücher.example", "пример.рф", "例え.jp", "xn--e1afmkfd.xn--p1ai"}).Draw(t, "idn")
	case "case":
		name = strings.ToUpper(genLabel(t, "u")) + "." + rapid.SampledFrom([]string{"com", "COM", "Example"}).Draw(t, "tld")
	case "table":
		e := rapid.SampledFrom(evilTable).Draw(t, "entry")
		return e.host, "table:" + e.class
	}
	if name == "localhost" {
		name = "notlocalhost"
	}
	port := rapid.SampledFrom([]string{":8088", ":8088", ":80", ":443", ":1", ":65535", ":0", "", ":http", ":08088"}).Draw(t, "port")
	if rapid.IntRange(0, 9).Draw(t, "brackets") == 0 {
		name = "[" + name + "]"
	}
	return name + port, class
}

// ---------------------------------------------------------------- the oracle

func cleanPath(p string) string {
	if p == "" {
		return "/"
	}
	if p[0] != '/' {
		p = "/" + p
	}
	np := path.Clean(p)
	if p[len(p)-1] == '/' && np != "/" {
		if len(p) == len(np)+1 && strings.HasPrefix(p, np) {
			np = p
		} else {
			np += "/"
		}
	}
	return np
}

func do(method, host string, q hreq) (*webfix.Resp, error) {
	return webfix.Do(method, host, q.target, q.hdr, q.body)
}

// checkRefused serves the request with a non-local DNS host and returns a
// description of the violated clause, or "".
func checkRefused(w *world, method, host string, q hreq) string {
	before := snapshot()
	r, err := do(method, host, q)
	if err != nil {
		return "harness: bad request: " + err.Error()
	}
	after := snapshot()
	if r.Panic != nil {
		return fmt.Sprintf("handler panicked: %v", r.Panic)
	}
	if r.Status >= 200 && r.Status < 300 {
		return fmt.Sprintf("request was served: status %d, body %q", r.Status, clip(r.Body))
	}
	u, _ := nurl.ParseRequestURI(q.target)
	muxOwn := r.Pattern == "" || (u != nil && cleanPath(u.Path) != u.Path)
	if !muxOwn && r.Status < 400 {
		return fmt.Sprintf("a storrent handler answered with status %d instead of refusing (Location %q)", r.Status, r.Header.Get("Location"))
	}
	if before != after {
		return fmt.Sprintf("observable state changed\nbefore: %s\nafter:  %s", before, after)
	}
	sent := q.target + string(q.body)
	var hay strings.Builder
	hay.Write(r.Body)
	for k, vs := range r.Header {
		hay.WriteString("\n" + k + ": " + strings.Join(vs, ","))
	}
	ms := append([]string{}, w.markers...)
	for _, h := range []string{w.aHash, w.bHash} {
		if !strings.Contains(sent, h) {
			ms = append(ms, h)
		}
	}
	for _, m := range ms {
		if strings.Contains(hay.String(), m) {
			return fmt.Sprintf("response discloses %q\nstatus %d, body %q", m, r.Status, clip(r.Body))
		}
	}
	return ""
}

// ---------------------------------------------------------------- exhaustive table

func TestC19HostTable(t *testing.T) {
	webfix.KillAll()
	w, err := newWorld(7)
	if err != nil {
		t.Fatal(err)
	}
	defer webfix.KillAll()
	cells := 0
	for ri := range routes {
		rt := &routes[ri]
		for _, m := range methods {
			for _, inBody := range []bool{false, true} {
				if inBody && (m == "GET" || m == "HEAD" || !strings.Contains(rt.build(w, m, false).target, "?q=") || rt.name == "add-file" || rt.name == "peers") {
					continue
				}
				for _, e := range evilTable {
					if err := w.restore(); err != nil {
						t.Fatal(err)
					}
					q := rt.build(w, m, inBody)
					if f := checkRefused(w, m, e.host, q); f != "" {
						t.Fatalf("route %s, %s %s, Host %q (%s): %s", rt.name, m, q.target, e.host, e.class, f)
					}
					cells++
					stats.Case(fmt.Sprintf("table/%s/%s/%v/%s", rt.name, m, inBody, e.class), true, "evil:"+rt.name, "evil-method:"+m, "evil-host:"+e.class)
				}
				for _, h := range dontCare {
					if err := w.restore(); err != nil {
						t.Fatal(err)
					}
					q := rt.build(w, m, inBody)
					before := snapshot()
					r, err := do(m, h, q)
					if err != nil {
						t.Fatal(err)
					}
					if r.Panic != nil {
						t.Fatalf("route %s, %s %s, Host %q: handler panicked: %v", rt.name, m, q.target, h, r.Panic)
					}
					if (r.Status == 400 || r.Status == 403) && snapshot() != before && rt.name != "unknown-action" {
						t.Fatalf("route %s, %s %s, Host %q: refused with %d but the state changed", rt.name, m, q.target, h, r.Status)
					}
					stats.Label(fmt.Sprintf("dontcare-host:%q:%d", h, r.Status/100*100))
				}
				// positive control: the same request is effective from a local host
				for _, h := range localTable {
					if err := w.restore(); err != nil {
						t.Fatal(err)
					}
					q := rt.build(w, m, inBody)
					before := snapshot()
					r, err := do(m, h, q)
					if err != nil {
						t.Fatal(err)
					}
					after := snapshot()
					if r.Panic != nil {
						t.Fatalf("route %s, %s %s, Host %q: handler panicked: %v", rt.name, m, q.target, h, r.Panic)
					}
					if r.Status == 403 {
						t.Fatalf("positive control: route %s, %s %s with Host %q was refused (403)", rt.name, m, q.target, h)
					}
					if isCanonical(rt, m) {
						if f := rt.local(w, m, r, before, after); f != "" {
							t.Fatalf("positive control: route %s, %s %s with Host %q: %s\nbody %q", rt.name, m, q.target, h, f, clip(r.Body))
						}
						stats.Label("local-effective:" + rt.name)
					} else if before != after {
						t.Fatalf("harness: route %s: method %s changed the state from a local host; it should be listed as canonical", rt.name, m)
					}
					stats.Label(fmt.Sprintf("local:%s:%d", rt.name, r.Status))
				}
			}
		}
	}
	stats.Exhaustive(fmt.Sprintf("C19 route(%d) x method(%d) x parameter placement x evil-host class(%d)", len(routes), len(methods), len(evilTable)))
	t.Logf("%d evil cells", cells)
}

// ---------------------------------------------------------------- generative host test

func TestC19Host(t *testing.T) {
	rapid.Check(t, func(t *rapid.T) {
		webfix.KillAll()
		webfix.ResetGlobals()
		w, err := newWorld(rapid.Uint64Range(1, 1<<40).Draw(t, "seed"))
		if err != nil {
			t.Fatalf("harness: %v", err)
		}
		defer webfix.KillAll()
		{
			rt := rapid.SampledFrom(routes).Draw(t, "route")
			m := rapid.SampledFrom(methods).Draw(t, "method")
			if rapid.IntRange(0, 2).Draw(t, "canonical") > 0 {
				m = rapid.SampledFrom(rt.canonical).Draw(t, "cmethod")
			}
			inBody := m != "GET" && m != "HEAD" && rt.name != "add-file" && rapid.Bool().Draw(t, "inbody")
			q := rt.build(w, m, inBody)
			if rapid.IntRange(0, 3).Draw(t, "extra-headers") == 0 {
				if q.hdr == nil {
					q.hdr = http.Header{}
				}
				q.hdr.Set("Origin", "http://evil.com")
				q.hdr.Set("Referer", "http://localhost:8088/")
				q.hdr.Set("X-Forwarded-Host", "localhost:8088")
				q.hdr.Set("Forwarded", "host=localhost")
			}
			host, class := genEvilHost(t)
			if f := checkRefused(w, m, host, q); f != "" {
				t.Fatalf("route %s, %s %s, Host %q (%s): %s", rt.name, m, q.target, host, class, f)
			}
			// the verdict does not wear off: the very same request again, and once
			// more on another route (a browser retries, a rebinding page polls)
			nrep := rapid.IntRange(0, 2).Draw(t, "repeats")
			for k := 0; k < nrep; k++ {
				q2, rt2, m2 := q, rt, m
				if k == 1 {
					rt2 = rapid.SampledFrom(routes).Draw(t, "route2")
					m2 = rapid.SampledFrom(rt2.canonical).Draw(t, "method2")
					q2 = rt2.build(w, m2, false)
				}
				if f := checkRefused(w, m2, host, q2); f != "" {
					t.Fatalf("route %s, %s %s, Host %q (%s), request number %d in a row with this Host header: %s", rt2.name, m2, q2.target, host, class, k+2, f)
				}
			}
			// and not only on the routes the UI is known to have: whatever else is
			// registered on the server's mux (debug endpoints pulled in by an import,
			// a stray file server) is behind the same check, or it is a way round it
			if rapid.Bool().Draw(t, "wildpath") {
				seg := rapid.SampledFrom([]string{"debug", "debug/pprof", "debug/pprof/cmdline", "debug/pprof/goroutine?debug=2", "debug/pprof/heap", "debug/vars", "metrics", "favicon.ico", "robots.txt",
					".git/config", "static/x.js", "api/v1/torrents", "x", "x/y", "index.html", "%2e%2e/etc/passwd", "debug/pprof/../pprof/cmdline"}).Draw(t, "wild")
				wm := rapid.SampledFrom([]string{"GET", "GET", "HEAD", "POST"}).Draw(t, "wildmethod")
				if f := checkRefused(w, wm, host, hreq{target: "/" + seg}); f != "" {
					t.Fatalf("%s /%s with Host %q (%s): %s", wm, seg, host, class, f)
				}
			}
			// positive control with a local host
			lh := rapid.SampledFrom(localTable).Draw(t, "localhost")
			before := snapshot()
			r, err := do(m, lh, q)
			if err != nil {
				t.Fatalf("harness: %v", err)
			}
			after := snapshot()
			if r.Panic != nil {
				t.Fatalf("route %s, %s %s, Host %q: handler panicked: %v", rt.name, m, q.target, lh, r.Panic)
			}
			effective := false
			if r.Status == 403 {
				t.Fatalf("positive control: route %s, %s %s with Host %q was refused (403)", rt.name, m, q.target, lh)
			}
			if isCanonical(&rt, m) {
				if f := rt.local(w, m, r, before, after); f != "" {
					t.Fatalf("positive control: route %s, %s %s with Host %q: %s\nbody %q", rt.name, m, q.target, lh, f, clip(r.Body))
				}
				effective = r.Status < 400
			}
			// and after a local request has been served, the foreign name is still foreign
			if rapid.Bool().Draw(t, "evilAfterLocal") {
				if f := checkRefused(w, m, host, q); f != "" {
					t.Fatalf("route %s, %s %s, Host %q (%s), right after a request with Host %q was served: %s", rt.name, m, q.target, host, class, lh, f)
				}
			}
			labels := []string{"evil:" + rt.name, "evil-method:" + m, "evil-hostclass:" + class}
			if nrep > 0 {
				labels = append(labels, "evil-host-repeated")
			}
			if effective {
				labels = append(labels, "evil-on-effective-request")
			}
			stats.Case(fmt.Sprintf("host/%s/%s/%v/%s/%v", rt.name, m, inBody, class, effective), effective, labels...)
			if stats.WantSample("evil-hostclass:" + class) {
				stats.Sample("evil-hostclass:"+class, host)
			}
		}
	})
}
