package c19

import (
	"bytes"
	"fmt"
	"io"
	nurl "net/url"
	"strings"

	"golang.org/x/net/html"
)

// ---------------------------------------------------------------- HTML analysis

type attrOcc struct {
	tag, key, val string
}

type page struct {
	skeleton []string  // one entry per non-text token: type, tag name, attribute names in order
	texts    []string  // decoded text nodes outside <script>/<style>
	raw      []string  // raw text inside <script>/<style>
	comments []string  // comment bodies
	attrs    []attrOcc // decoded attribute values
	title    string
}

// nl is what the tokenizer does to line breaks in text and attribute values.
func nl(s string) string {
	s = strings.ReplaceAll(s, "\r\n", "\n")
	return strings.ReplaceAll(s, "\r", "\n")
}

// titleNorm: inside <title> (RCDATA) the tokenizer also replaces NUL by
// U+FFFD, as the HTML standard prescribes.
func titleNorm(s string) string {
	return strings.ReplaceAll(nl(s), "\x00", "\uFFFD")
}

func analyse(body []byte) (*page, error) {
	p := &page{}
	z := html.NewTokenizer(bytes.NewReader(body))
	rawDepth := ""
	inTitle := false
	for {
		tt := z.Next()
		if tt == html.ErrorToken {
			if z.Err() == io.EOF {
				return p, nil
			}
			return p, z.Err()
		}
		tk := z.Token()
		switch tt {
		case html.TextToken:
			switch {
			case rawDepth != "":
				p.raw = append(p.raw, tk.Data)
			case inTitle:
				p.title += tk.Data
			default:
				p.texts = append(p.texts, tk.Data)
			}
		case html.StartTagToken, html.SelfClosingTagToken, html.EndTagToken:
			var names []string
			for _, a := range tk.Attr {
				names = append(names, a.Key)
				p.attrs = append(p.attrs, attrOcc{tk.Data, a.Key, a.Val})
			}
			p.skeleton = append(p.skeleton, fmt.Sprintf("%v %s [%s]", tt, tk.Data, strings.Join(names, " ")))
			if tt == html.StartTagToken && (tk.Data == "script" || tk.Data == "style") {
				rawDepth = tk.Data
			}
			if tt == html.EndTagToken && tk.Data == rawDepth {
				rawDepth = ""
			}
			if tk.Data == "title" {
				inTitle = tt == html.StartTagToken
			}
		case html.CommentToken:
			p.skeleton = append(p.skeleton, "Comment")
			p.comments = append(p.comments, tk.Data)
		case html.DoctypeToken:
			p.skeleton = append(p.skeleton, "Doctype "+tk.Data)
		}
	}
}

// hasText: some text node, once decoded, contains s.
func (p *page) hasText(s string) bool {
	s = nl(s)
	for _, t := range p.texts {
		if strings.Contains(nl(t), s) {
			return true
		}
	}
	return false
}

// hasLink: some <a href> decodes (HTML entities, then URL escapes) to the given
// path, with the given raw query.
func (p *page) hasLink(path, query string) bool {
	for _, a := range p.attrs {
		if a.tag != "a" || a.key != "href" {
			continue
		}
		u, err := nurl.Parse(a.val)
		if err != nil {
			continue
		}
		if u.Path == path && u.RawQuery == query && u.Host == "" && u.Scheme == "" && u.Fragment == "" {
			return true
		}
	}
	return false
}

// markerOutsideData reports a marker found anywhere the tokenizer does not
// treat as character data or an attribute value: raw script text, comments.
func (p *page) markerOutsideData(marker string) string {
	if marker == "" {
		return ""
	}
	for _, r := range p.raw {
		if strings.Contains(r, marker) {
			return "inside a <script>/<style> element"
		}
	}
	for _, c := range p.comments {
		if strings.Contains(c, marker) {
			return "inside a comment"
		}
	}
	return ""
}

func diffSkeleton(a, b []string) string {
	n := min(len(a), len(b))
	for i := 0; i < n; i++ {
		if a[i] != b[i] {
			return fmt.Sprintf("token %d: hostile rendering has {%s}, benign rendering has {%s}\n  context (hostile): %s", i, a[i], b[i], strings.Join(a[max(0, i-3):min(len(a), i+4)], " | "))
		}
	}
	if len(a) != len(b) {
		longer, which := a, "hostile"
		if len(b) > len(a) {
			longer, which = b, "benign"
		}
		return fmt.Sprintf("%d tokens in the hostile rendering, %d in the benign one; first surplus token (%s): {%s}", len(a), len(b), which, longer[n])
	}
	return ""
}

// ---------------------------------------------------------------- playlists

// splitLines splits on every line terminator a playlist reader may honour
// (LF, CRLF, lone CR); the final terminator does not start a line.
func splitLines(b []byte) []string {
	s := nl(string(b))
	s = strings.TrimSuffix(s, "\n")
	return strings.Split(s, "\n")
}

// checkPlaylist: header + exactly two lines per entry; odd lines are EXTINF
// titles, even lines are URLs on the request's host whose path decodes to
// /<hash>/<file path>.  wantPaths is the multiset of expected decoded paths.
func checkPlaylist(body []byte, host string, wantPaths []string) string {
	lines := splitLines(body)
	if want := 1 + 2*len(wantPaths); len(lines) != want {
		return fmt.Sprintf("playlist has %d lines, want 1 + 2 x %d entries = %d", len(lines), len(wantPaths), want)
	}
	if lines[0] != "#EXTM3U" {
		return fmt.Sprintf("first line %q", lines[0])
	}
	remaining := map[string]int{}
	for _, w := range wantPaths {
		remaining[w]++
	}
	for i := 1; i < len(lines); i += 2 {
		if !strings.HasPrefix(lines[i], "#EXTINF:") {
			return fmt.Sprintf("line %d should be an #EXTINF title, is %q", i+1, lines[i])
		}
		u, err := nurl.Parse(lines[i+1])
		if err != nil {
			return fmt.Sprintf("line %d is not a URL: %q (%v)", i+2, lines[i+1], err)
		}
		if u.Scheme != "http" || u.Host != host || u.RawQuery != "" || u.Fragment != "" {
			return fmt.Sprintf("line %d: URL %q is not http://%s/<path>", i+2, lines[i+1], host)
		}
		if remaining[u.Path] == 0 {
			return fmt.Sprintf("line %d: URL path decodes to %q, which is not a file of the listing (or is listed too often)", i+2, u.Path)
		}
		remaining[u.Path]--
	}
	return ""
}
