package c19

import (
	"fmt"
	nurl "net/url"
	"sort"
	"strings"

	"pgregory.net/rapid"
)

// ---------------------------------------------------------------- hostile strings

// the three classes every output site must be exercised with
const (
	clLT = "lt"    // contains '<'
	clQ  = "quote" // contains '"'
	clNL = "nl"    // contains CR or LF
)

var classFrags = map[string][]string{
	clLT: {"<", "</td>", "<script>alert(1)</script>", "<img src=x onerror=alert(1)>", "</a><a href=//evil>", "<!--", "</title>", "</script>", "<em>", "<svg/onload=alert(1)>", "<b", "</table>"},
	clQ:  {"\"", "\"><img src=x onerror=alert(1)>", "\" onmouseover=\"alert(1)", "x\"y", "\"/>"},
	clNL: {"\n", "\r", "\r\n", "\nhttp://evil.example/x", "\r\n#EXTINF:-1,evil\r\nhttp://evil.example/y", "\n\n"},
}

var otherFrags = []string{
	"&", "'", ">", "&lt;", "&lt", "&gt", "&amp;", "&amp", "&quot;", "&quot", "&#60;", "&#x3c;", "&#60", "&notit", "&copy", "&nbsp;",
	"\x00", "é", "日本語", " ", "\u0085", ",", ",,", " ", "\t", "%3C", "%", "%zz", "+", "?", "#", "/", "//", "\\", "-->", "]]>",
	"' onmouseover='alert(1)", "javascript:alert(1)", "=", ";", "`", "{{x}}", "${x}", "\x7f", "\xff", "\xc3", "..", ".", "a", "Z", "0", "-", "_", "~", ":", "@", "*", "|", "(", ")", "[", "]",
}

const (
	kName    = "name"    // torrent name in metainfo: non-empty
	kDN      = "dn"      // magnet display name
	kComp    = "comp"    // one path component
	kURL     = "url"     // something url.Parse must accept
	kText    = "text"    // tracker error text, version string
	kPeerTag = "peertag" // the six bytes of a peer id shown as its version
)

type slot struct {
	kind    string
	hostile string
	benign  string
	marker  string
	classes []string
	scheme  string // kURL: prefix kept in the benign variant
}

func (s *slot) get(hostile bool) string {
	if hostile {
		return s.hostile
	}
	return s.benign
}

func (s *slot) has(class string) bool {
	for _, c := range s.classes {
		if c == class {
			return true
		}
	}
	return false
}

func classesOf(s string) []string {
	var out []string
	if strings.Contains(s, "<") {
		out = append(out, clLT)
	}
	if strings.Contains(s, "\"") {
		out = append(out, clQ)
	}
	if strings.ContainsAny(s, "\r\n") {
		out = append(out, clNL)
	}
	return out
}

type pool struct {
	slots []*slot
	n     int
}

func (p *pool) marker() string {
	p.n++
	return fmt.Sprintf("zq%dqz", p.n)
}

func drawFrags(t *rapid.T, label string, forced string, max int) string {
	var b strings.Builder
	n := rapid.IntRange(0, max).Draw(t, label+".n")
	at := -1
	if forced != "" {
		at = rapid.IntRange(0, n).Draw(t, label+".at")
	}
	for i := 0; i <= n; i++ {
		if i == at {
			b.WriteString(rapid.SampledFrom(classFrags[forced]).Draw(t, label+".class"))
		}
		if i == n {
			break
		}
		switch rapid.IntRange(0, 9).Draw(t, label+".k") {
		case 0:
			c := rapid.SampledFrom([]string{clLT, clQ, clNL}).Draw(t, label+".c")
			b.WriteString(rapid.SampledFrom(classFrags[c]).Draw(t, label+".cf"))
		case 1:
			b.WriteString(rapid.StringN(0, 6, 24).Draw(t, label+".s"))
		case 2:
			b.WriteString(strings.Repeat(rapid.SampledFrom(otherFrags).Draw(t, label+".rf"), rapid.IntRange(1, 40).Draw(t, label+".rep")))
		default:
			b.WriteString(rapid.SampledFrom(otherFrags).Draw(t, label+".f"))
		}
	}
	return b.String()
}

// urlSafe makes s acceptable to url.Parse when placed after "scheme://host/":
// control characters removed, stray '%' escaped.
func urlSafe(s string) string {
	var b strings.Builder
	for i := 0; i < len(s); i++ {
		c := s[i]
		switch {
		case c < 0x20 || c == 0x7f:
		case c == '%':
			if i+2 < len(s) && isHex(s[i+1]) && isHex(s[i+2]) {
				b.WriteByte(c)
			} else {
				b.WriteString("%25")
			}
		default:
			b.WriteByte(c)
		}
	}
	return b.String()
}

func isHex(c byte) bool {
	return c >= '0' && c <= '9' || c >= 'a' && c <= 'f' || c >= 'A' && c <= 'F'
}

// newSlot draws one attacker-controlled string of the given kind.  Every
// string carries a unique alphanumeric marker so that its rendering can be
// located; most carry at least one fragment of a drawn mandatory class.
func (p *pool) newSlot(t *rapid.T, label, kind, scheme string) *slot {
	s := &slot{kind: kind, scheme: scheme, marker: p.marker()}
	forced := rapid.SampledFrom([]string{clLT, clLT, clQ, clQ, clNL, clNL, ""}).Draw(t, label+".force")
	if kind == kURL && forced == clNL {
		forced = clLT // a URL cannot carry a line break: url.Parse refuses control characters
	}
	switch kind {
	case kPeerTag:
		tags := map[string][]string{
			clLT: {"<b>x<i", "<i></i", "<a x>1", "</td><"},
			clQ:  {"\"><b>\"", "a\"b\"c\"", "\"\"\"\"\"\""},
			clNL: {"a\nb\rc\n", "\r\n\r\n<>", "\n<b>\n\""},
			"":   {"&lt;gt", "&amp;x", "UT3500", "'\x00\xff&>;"},
		}
		s.hostile = rapid.SampledFrom(tags[forced]).Draw(t, label+".tag")
		s.marker = ""
	default:
		pre := drawFrags(t, label+".pre", "", 3)
		post := drawFrags(t, label+".post", forced, 3)
		if rapid.Bool().Draw(t, label+".swap") {
			pre, post = post, pre
		}
		s.hostile = pre + s.marker + post
		if len(s.hostile) > 300 {
			// keep the marker and the forced fragment's side
			s.hostile = s.hostile[:300]
			if !strings.Contains(s.hostile, s.marker) {
				s.hostile = s.marker + s.hostile[:300-len(s.marker)]
			}
		}
	}
	if kind == kDN && rapid.IntRange(0, 9).Draw(t, label+".emptydn") == 0 {
		s.hostile = ""
		s.marker = ""
	}
	if kind == kURL {
		body := urlSafe(s.hostile)
		where := rapid.SampledFrom([]string{"path", "path", "query", "fragment", "host"}).Draw(t, label+".where")
		var u string
		switch where {
		case "path":
			u = scheme + "h.example/" + body
		case "query":
			u = scheme + "h.example/a?" + body
		case "fragment":
			u = scheme + "h.example/a#" + body
		case "host":
			hb := strings.Map(func(r rune) rune {
				if strings.ContainsRune("<>\"'&;=", r) || r >= '0' && r <= '9' || r >= 'a' && r <= 'z' {
					return r
				}
				return -1
			}, body)
			u = scheme + hb + ".example/x"
		}
		if _, err := nurl.Parse(u); err != nil || !strings.Contains(u, s.marker) {
			// fall back to printable ASCII in the path
			pb := strings.Map(func(r rune) rune {
				if r > 0x20 && r < 0x7f && r != '%' {
					return r
				}
				return -1
			}, s.hostile)
			u = scheme + "h.example/" + pb
			if _, err := nurl.Parse(u); err != nil {
				u = scheme + "h.example/" + s.marker + "<\"" // always parses
			}
		}
		s.hostile = u
	}
	s.classes = classesOf(s.hostile)
	p.slots = append(p.slots, s)
	return s
}

// assignBenign gives every slot an alphanumeric stand-in.  For names and path
// components the mapping is injective and order-preserving on the raw bytes
// (the pages sort torrents by name and files by path, and group files by
// equal directory components), so both renderings have the same shape.
func (p *pool) assignBenign() {
	var ordered []string
	seen := map[string]bool{}
	for _, s := range p.slots {
		if (s.kind == kName || s.kind == kDN || s.kind == kComp) && !seen[s.hostile] {
			seen[s.hostile] = true
			ordered = append(ordered, s.hostile)
		}
	}
	sort.Strings(ordered)
	rank := map[string]int{}
	for i, v := range ordered {
		rank[v] = i
	}
	for i, s := range p.slots {
		switch s.kind {
		case kName, kDN, kComp:
			if s.hostile == "" {
				s.benign = ""
			} else {
				s.benign = fmt.Sprintf("b%04dx", rank[s.hostile])
			}
		case kURL:
			s.benign = fmt.Sprintf("%sh.example/u%04d", s.scheme, i)
		case kPeerTag:
			s.benign = fmt.Sprintf("AB%04d", i%10000)
		default:
			s.benign = fmt.Sprintf("t%04dx", i)
		}
	}
}
