package c19

import (
	"bytes"
	"context"
	"crypto/sha1"
	"encoding/hex"
	"errors"
	"fmt"
	"mime/multipart"
	"net/http"
	"net/http/httptest"
	"net/netip"
	nurl "net/url"
	"strings"
	"sync"
	"sync/atomic"

	"pgregory.net/rapid"

	"github.com/jech/storrent/known"
	"github.com/jech/storrent/tor"
	"github.com/jech/storrent/tracker"

	"verif/ref"
	"verif/webfix"
)

const localHost = "localhost:8088"

// ---------------------------------------------------------------- fake and real trackers

type fakeTracker struct {
	url string
	st  tracker.State
	err error
}

func (f *fakeTracker) URL() string                      { return f.url }
func (f *fakeTracker) GetState() (tracker.State, error) { return f.st, f.err }
func (f *fakeTracker) Announce(ctx context.Context, hash []byte, myid []byte, want int, size int64, port4, port6 int, proxy string, fn func(netip.AddrPort) bool) error {
	return errors.New("fake tracker")
}

var (
	trackerOnce sync.Once
	trackerSrv  *httptest.Server
	trackerKey  atomic.Int64
	trackerText sync.Map // "/k<N>" -> failure reason
)

// trackerBase starts (once) a loopback HTTP tracker whose reply to an
// announce under /k<N>/ is a BEP 3 failure with the text registered for N.
func trackerBase() string {
	trackerOnce.Do(func() {
		trackerSrv = httptest.NewServer(http.HandlerFunc(func(w http.ResponseWriter, r *http.Request) {
			seg := strings.SplitN(strings.TrimPrefix(r.URL.Path, "/"), "/", 2)[0]
			text, _ := trackerText.Load(seg)
			s, _ := text.(string)
			w.Write(ref.Benc(map[string]any{"failure reason": s}))
		}))
	})
	return trackerSrv.URL
}

// ---------------------------------------------------------------- scenario model

type fileSpec struct {
	comps  []*slot
	length int64
	pad    bool
}

type trkSpec struct {
	url  *slot
	mode string // plain | fake-error | real-error
	text *slot  // error text (fake-error, real-error)
	key  string // real-error: first path segment
}

type seedSpec struct {
	url     *slot
	hoffman bool
}

type peerSpec struct {
	addr    netip.AddrPort
	tag     *slot  // six bytes of the peer id
	rest    []byte // remaining 12 bytes
	version *slot  // nil: none known, the id-derived tag is shown
	via     string // ext0 | addknown | none
}

type knownSpec struct {
	zone    *slot // IPv6 zone (attacker-chosen text when the address came from a tracker)
	addr    netip.AddrPort
	hasID   bool
	tag     *slot
	rest    []byte
	version *slot
}

type torSpec struct {
	kind   string // multi | single | magnet
	name   *slot
	files  []fileSpec
	length int64
	seed   uint64
	mhash  []byte // magnet
	tiers  [][]trkSpec
	seeds  []seedSpec
	peers  []peerSpec
	knowns []knownSpec
	cdate  int64
	// viaHTTP: the torrent is added through the web UI itself (multipart
	// upload of the metainfo, or the magnet link in the url field)
	viaHTTP bool
}

type scenario struct {
	pool pool
	tors []*torSpec
}

func peerID(tag string, rest []byte) []byte {
	if len(tag) != 6 {
		panic("harness: peer id tag must be six bytes: " + tag)
	}
	id := append([]byte("-"), tag...)
	id = append(id, '-')
	id = append(id, rest...)
	return id[:20]
}

func genAddr(t *rapid.T, label string, n int) netip.AddrPort {
	port := uint16(rapid.IntRange(1024, 65000).Draw(t, label+".port"))
	if rapid.IntRange(0, 3).Draw(t, label+".v6") == 0 {
		a := netip.AddrFrom16([16]byte{0x20, 0x01, 0x0d, 0xb8, 0, 0, 0, byte(n), 0, 0, 0, 0, 0, 0, 0, byte(1 + rapid.IntRange(0, 200).Draw(t, label+".h"))})
		return netip.AddrPortFrom(a, port)
	}
	a := netip.AddrFrom4([4]byte{93, 184, byte(n), byte(1 + rapid.IntRange(0, 200).Draw(t, label+".h"))})
	return netip.AddrPortFrom(a, port)
}

func genScenario(t *rapid.T) *scenario {
	sc := &scenario{}
	p := &sc.pool
	nt := rapid.IntRange(1, 3).Draw(t, "ntorrents")
	addrN := 0
	for ti := 0; ti < nt; ti++ {
		lb := fmt.Sprintf("t%d", ti)
		ts := &torSpec{seed: rapid.Uint64().Draw(t, lb+".seed")}
		ts.kind = rapid.SampledFrom([]string{"multi", "multi", "multi", "single", "magnet"}).Draw(t, lb+".kind")
		switch ts.kind {
		case "magnet":
			ts.name = p.newSlot(t, lb+".dn", kDN, "")
			ts.mhash = rapid.SliceOfN(rapid.Byte(), 20, 20).Draw(t, lb+".hash")
		case "single":
			ts.name = p.newSlot(t, lb+".name", kName, "")
			ts.length = rapid.Int64Range(1, 40000).Draw(t, lb+".length")
		case "multi":
			ts.name = p.newSlot(t, lb+".name", kName, "")
			nf := rapid.IntRange(1, 6).Draw(t, lb+".nfiles")
			dirs := [][]*slot{nil}
			for fi := 0; fi < nf; fi++ {
				fl := fmt.Sprintf("%s.f%d", lb, fi)
				dir := rapid.SampledFrom(dirs).Draw(t, fl+".dir")
				if len(dir) < 3 && rapid.IntRange(0, 2).Draw(t, fl+".newdir") == 0 {
					dir = append(append([]*slot{}, dir...), p.newSlot(t, fl+".dirname", kComp, ""))
					dirs = append(dirs, dir)
				}
				f := fileSpec{comps: append(append([]*slot{}, dir...), p.newSlot(t, fl+".name", kComp, ""))}
				f.length = rapid.Int64Range(0, 3000).Draw(t, fl+".len")
				f.pad = rapid.IntRange(0, 7).Draw(t, fl+".pad") == 0
				ts.files = append(ts.files, f)
			}
			if ts.total() == 0 {
				ts.files[0].length = 1
			}
		}
		ts.viaHTTP = rapid.IntRange(0, 3).Draw(t, lb+".viahttp") == 0
		if rapid.Bool().Draw(t, lb+".cdate") {
			ts.cdate = rapid.Int64Range(1, 1<<33).Draw(t, lb+".cdatev")
		}
		// trackers
		ntier := rapid.IntRange(0, 2).Draw(t, lb+".ntiers")
		for i := 0; i < ntier; i++ {
			var tier []trkSpec
			for j, n := 0, rapid.IntRange(1, 2).Draw(t, fmt.Sprintf("%s.tier%d", lb, i)); j < n; j++ {
				tl := fmt.Sprintf("%s.tr%d.%d", lb, i, j)
				tr := trkSpec{mode: "plain"}
				if ts.kind != "magnet" {
					tr.mode = rapid.SampledFrom([]string{"plain", "fake-error", "fake-error", "real-error"}).Draw(t, tl+".mode")
					if tr.mode == "real-error" && rapid.IntRange(0, 3).Draw(t, tl+".real") != 0 {
						tr.mode = "fake-error" // keep loopback connections rare
					}
				}
				base := rapid.SampledFrom([]string{"http://", "https://", "udp://", "wss://", ""}).Draw(t, tl+".scheme")
				if tr.mode == "real-error" {
					tr.key = fmt.Sprintf("k%d", trackerKey.Add(1))
					base = trackerBase() + "/" + tr.key + "/"
				}
				tr.url = p.newSlot(t, tl+".url", kURL, base)
				if tr.mode != "plain" {
					tr.text = p.newSlot(t, tl+".err", kText, "")
				}
				tier = append(tier, tr)
			}
			ts.tiers = append(ts.tiers, tier)
		}
		for i, n := 0, rapid.IntRange(0, 2).Draw(t, lb+".nseeds"); i < n; i++ {
			sl := fmt.Sprintf("%s.ws%d", lb, i)
			base := rapid.SampledFrom([]string{"http://", "https://"}).Draw(t, sl+".scheme")
			sd := seedSpec{url: p.newSlot(t, sl+".url", kURL, base)}
			if ts.kind != "magnet" {
				sd.hoffman = rapid.Bool().Draw(t, sl+".hoffman")
			}
			ts.seeds = append(ts.seeds, sd)
		}
		for i, n := 0, rapid.IntRange(0, 2).Draw(t, lb+".npeers"); i < n; i++ {
			pl := fmt.Sprintf("%s.p%d", lb, i)
			addrN++
			ps := peerSpec{addr: genAddr(t, pl, addrN), tag: p.newSlot(t, pl+".tag", kPeerTag, ""), rest: rapid.SliceOfN(rapid.Byte(), 12, 12).Draw(t, pl+".rest")}
			ps.via = rapid.SampledFrom([]string{"ext0", "ext0", "addknown", "none"}).Draw(t, pl+".via")
			if ps.via != "none" {
				ps.version = p.newSlot(t, pl+".version", kText, "")
			}
			ts.peers = append(ts.peers, ps)
		}
		for i, n := 0, rapid.IntRange(0, 3).Draw(t, lb+".nknown"); i < n; i++ {
			kl := fmt.Sprintf("%s.k%d", lb, i)
			addrN++
			ks := knownSpec{addr: genAddr(t, kl, addrN), hasID: rapid.Bool().Draw(t, kl+".id")}
			if ks.hasID {
				ks.tag = p.newSlot(t, kl+".tag", kPeerTag, "")
				ks.rest = rapid.SliceOfN(rapid.Byte(), 12, 12).Draw(t, kl+".rest")
			}
			if !ks.hasID || rapid.Bool().Draw(t, kl+".hasversion") {
				ks.version = p.newSlot(t, kl+".version", kText, "")
			}
			if ks.addr.Addr().Is6() && rapid.Bool().Draw(t, kl+".zoned") {
				// an IPv6 address with a zone: a tracker's dictionary-form reply
				// gives the address as text, and everything after '%' is the zone
				ks.zone = p.newSlot(t, kl+".zone", kText, "")
			}
			ts.knowns = append(ts.knowns, ks)
		}
		sc.tors = append(sc.tors, ts)
	}
	p.assignBenign()
	return sc
}

func (ts *torSpec) total() int64 {
	if ts.kind == "single" {
		return ts.length
	}
	var n int64
	for _, f := range ts.files {
		n += f.length
	}
	return n
}

func compStrings(c []*slot, hostile bool) []string {
	out := make([]string, len(c))
	for i, s := range c {
		out[i] = s.get(hostile)
	}
	return out
}

// ---------------------------------------------------------------- instantiation

type liveTor struct {
	spec *torSpec
	live *webfix.Live
	hash string
	// what the tracker error cell must show, per tracker (the text the
	// tracker object actually reports)
	errText map[*trkSpec]string
}

func (ts *torSpec) spec(hostile bool) *webfix.Spec {
	s := &webfix.Spec{Name: ts.name.get(hostile), PieceLen: webfix.Chunk, Seed: ts.seed, CDate: ts.cdate}
	if ts.kind == "single" {
		s.Length = ts.length
	} else {
		s.Files = []webfix.File{}
		for _, f := range ts.files {
			s.Files = append(s.Files, webfix.File{Path: compStrings(f.comps, hostile), Length: f.length, Pad: f.pad})
		}
	}
	fake := false
	for _, tier := range ts.tiers {
		for _, tr := range tier {
			fake = fake || tr.mode == "fake-error"
		}
	}
	if len(ts.tiers) > 0 {
		s.AnnounceList = [][]string{}
	}
	for _, tier := range ts.tiers {
		var urls []string
		var fakes []tracker.Tracker
		for _, tr := range tier {
			u := tr.url.get(hostile)
			urls = append(urls, u)
			if tr.mode == "fake-error" {
				fakes = append(fakes, &fakeTracker{url: u, st: tracker.Error, err: errors.New(tr.text.get(hostile))})
			} else if x := tracker.New(u); x != nil {
				fakes = append(fakes, x)
			}
		}
		s.AnnounceList = append(s.AnnounceList, urls)
		if fake {
			s.FakeTrackers = append(s.FakeTrackers, fakes)
		}
	}
	for _, sd := range ts.seeds {
		if sd.hoffman {
			s.HTTPSeeds = append(s.HTTPSeeds, sd.url.get(hostile))
		} else {
			s.URLList = append(s.URLList, sd.url.get(hostile))
		}
	}
	return s
}

func (ts *torSpec) magnet(hostile bool) string {
	q := []string{"xt=urn:btih:" + hex.EncodeToString(ts.mhash)}
	if dn := ts.name.get(hostile); dn != "" {
		q = append(q, "dn="+nurl.QueryEscape(dn))
	}
	for _, tier := range ts.tiers {
		for _, tr := range tier {
			q = append(q, "tr="+nurl.QueryEscape(tr.url.get(hostile)))
		}
	}
	for i, sd := range ts.seeds {
		k := "ws"
		if i%2 == 1 {
			k = "as"
		}
		q = append(q, k+"="+nurl.QueryEscape(sd.url.get(hostile)))
	}
	return "magnet:?" + strings.Join(q, "&")
}

func ext0(version string, port uint16) []byte {
	return ref.Encode(ref.Msg{Kind: ref.KExtended, Sub: 0, X: ref.XHandshake, HS: &ref.ExtHS{V: &version, P: &port, M: map[string]uint8{}}})
}

// build registers the scenario's torrents with the hostile or the benign
// strings.  Any failure here is a harness problem (the inputs are valid by
// construction) and is reported as such.
func (sc *scenario) build(hostile bool) ([]*liveTor, error) {
	var out []*liveTor
	for i, ts := range sc.tors {
		lt := &liveTor{spec: ts, errText: map[*trkSpec]string{}}
		var err error
		if ts.kind == "magnet" {
			for tor.Get(ts.mhash) != nil { // equal draws: take the next free hash
				ts.mhash = append([]byte{}, ts.mhash...)
				for k := 19; k >= 0; k-- {
					ts.mhash[k]++
					if ts.mhash[k] != 0 {
						break
					}
				}
			}
			if ts.viaHTTP {
				lt.live, err = addViaHTTP(nil, ts.magnet(hostile), ts.mhash)
			} else {
				lt.live, err = webfix.AddMagnet(ts.magnet(hostile))
			}
		} else if sp := ts.spec(hostile); ts.viaHTTP && sp.FakeTrackers == nil {
			file, info := sp.Metainfo()
			h := sha1.Sum(info)
			lt.live, err = addViaHTTP(file, "", h[:])
		} else {
			lt.live, err = webfix.Add(sp, false)
		}
		if err != nil {
			return out, fmt.Errorf("torrent %d (%s): %v", i, ts.kind, err)
		}
		out = append(out, lt)
		lt.hash = lt.live.T.Hash.String()
		// trackers: count must match (every URL was built to be parseable)
		ti := 0
		got := lt.live.T.Trackers()
		want := 0
		for _, tier := range ts.tiers {
			want += len(tier)
		}
		have := 0
		for _, tier := range got {
			have += len(tier)
		}
		if have != want {
			return out, fmt.Errorf("torrent %d: %d trackers registered, scenario has %d", i, have, want)
		}
		if len(lt.live.T.Webseeds()) != len(ts.seeds) {
			return out, fmt.Errorf("torrent %d: %d web seeds registered, scenario has %d", i, len(lt.live.T.Webseeds()), len(ts.seeds))
		}
		for a := range ts.tiers {
			for b := range ts.tiers[a] {
				tr := &ts.tiers[a][b]
				switch tr.mode {
				case "fake-error":
					lt.errText[tr] = tr.text.get(hostile)
				case "real-error":
					trackerText.Store(tr.key, tr.text.get(hostile))
					var obj tracker.Tracker
					if ts.kind == "magnet" {
						obj = got[ti][0]
					} else {
						obj = got[a][b]
					}
					obj.Announce(context.Background(), lt.live.T.Hash, lt.live.T.MyId, 10, ts.total(), 0, 0, "", func(netip.AddrPort) bool { return true })
					st, e := obj.GetState()
					if st != tracker.Error || e == nil {
						return out, fmt.Errorf("torrent %d: real tracker is in state %v (%v) after a failed announce", i, st, e)
					}
					// what must be shown is whatever the tracker reports (the
					// failure reason; under port exhaustion a dial error that
					// embeds the URL)
					lt.errText[tr] = e.Error()
					trackerText.Delete(tr.key)
				}
				ti++
			}
		}
		for pi, ps := range ts.peers {
			id := peerID(ps.tag.get(hostile), ps.rest)
			var send []byte
			if ps.via == "ext0" {
				send = ext0(ps.version.get(hostile), ps.addr.Port())
			}
			if err := lt.live.AttachPeer(ps.addr, id, true, send); err != nil {
				return out, fmt.Errorf("torrent %d peer %d: %v", i, pi, err)
			}
			if !lt.live.WaitPeers(pi + 1) {
				return out, fmt.Errorf("torrent %d peer %d never registered", i, pi)
			}
			switch ps.via {
			case "ext0":
				if !lt.live.WaitKnownVersion(ps.addr, ps.version.get(hostile)) {
					return out, fmt.Errorf("torrent %d peer %d: version from the extended handshake never recorded", i, pi)
				}
			case "addknown":
				lt.live.AddKnown(ps.addr, id, ps.version.get(hostile), known.Seen)
			}
		}
		kinds := []known.Kind{known.Tracker, known.DHT, known.PEX, known.Heard, known.Seen, known.Active}
		for ki, ks := range ts.knowns {
			var id []byte
			if ks.hasID {
				id = peerID(ks.tag.get(hostile), ks.rest)
			}
			v := ""
			if ks.version != nil {
				v = ks.version.get(hostile)
			}
			ka := ks.addr
			if ks.zone != nil && ks.zone.get(hostile) != "" {
				ka = netip.AddrPortFrom(ka.Addr().WithZone(ks.zone.get(hostile)), ka.Port())
			}
			lt.live.AddKnown(ka, id, v, kinds[ki%len(kinds)])
		}
		lt.live.Sync()
	}
	return out, nil
}

// addViaHTTP adds a torrent the way a browser does: POST /?q=add with a
// multipart form carrying either the metainfo file or the magnet link.
func addViaHTTP(file []byte, magnet string, h []byte) (*webfix.Live, error) {
	var buf bytes.Buffer
	mw := multipart.NewWriter(&buf)
	if file != nil {
		fw, _ := mw.CreateFormFile("file", "x.torrent")
		fw.Write(file)
	} else {
		mw.WriteField("url", magnet)
	}
	mw.Close()
	r, err := webfix.Do("POST", localHost, "/?q=add", http.Header{"Content-Type": {mw.FormDataContentType()}}, buf.Bytes())
	if err != nil {
		return nil, err
	}
	if r.Panic != nil || r.Status != 303 {
		return nil, fmt.Errorf("POST /?q=add: status %d panic %v body %q", r.Status, r.Panic, r.Body)
	}
	return webfix.Adopt(h)
}

func killAll(ls []*liveTor) {
	for _, l := range ls {
		if l.live != nil {
			l.live.Kill()
		}
	}
	webfix.KillAll()
}
