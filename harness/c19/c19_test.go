// C19 — the web UI is local-only and injection-free.
//
// Engine E6: storrent/http's handlers are registered once by the real
// http.Serve and then called in process through http.DefaultServeMux with
// httptest recorders; torrents are live (real tor.AddTorrent event loops).
package c19

import (
	"fmt"
	nurl "net/url"
	"sort"
	"strings"
	"testing"

	"pgregory.net/rapid"

	"verif/stats"
	"verif/webfix"
)

func TestMain(m *testing.M) {
	webfix.Init()
	stats.Main(m)
}

type failer interface {
	Fatalf(format string, args ...any)
}

// ---------------------------------------------------------------- expectations

// expect is one place where an attacker-controlled string must show up,
// decoded, as character data or inside an attribute value.
type expect struct {
	site  string
	slots []*slot
	what  string
	ok    func(p *page) bool
	shown string // the string that must come back when the page is decoded
}

func escPath(comps []string) string {
	var out []string
	for _, c := range comps {
		out = append(out, nurl.PathEscape(c))
	}
	return strings.Join(out, "/")
}

func within(file, dir []string) bool {
	if len(file) <= len(dir) {
		return false
	}
	for i := range dir {
		if file[i] != dir[i] {
			return false
		}
	}
	return true
}

// entryExpect: what torrentEntry must show for one torrent listed under dir.
func entryExpect(lt *liveTor, hostile bool, dir []string) []expect {
	ts := lt.spec
	var out []expect
	add := func(site string, slots []*slot, shown, what string, ok func(p *page) bool) {
		out = append(out, expect{site: site, slots: slots, what: what, ok: ok, shown: shown})
	}
	name := ts.name.get(hostile)
	if name != "" {
		site := "entry-name"
		if ts.kind == "magnet" {
			site = "entry-name-magnet"
		}
		add(site, []*slot{ts.name}, name, fmt.Sprintf("torrent name %q as link text", name), func(p *page) bool { return p.hasText(name) })
	}
	switch ts.kind {
	case "single":
		if len(dir) == 0 {
			shown := strings.Trim(name, "/")
			add("single-file-row", []*slot{ts.name}, shown, fmt.Sprintf("file row %q", shown), func(p *page) bool { return p.hasText(shown) })
			add("single-file-href", []*slot{ts.name}, shown, fmt.Sprintf("link whose path decodes to /%s/%s", lt.hash, shown), func(p *page) bool { return p.hasLink("/"+lt.hash+"/"+shown, "") })
		}
	case "multi":
		seenDir := map[string]bool{}
		for _, f := range ts.files {
			comps := compStrings(f.comps, hostile)
			if !within(comps, dir) {
				continue
			}
			full := strings.Join(comps, "/")
			add("file-row-text", f.comps, full, fmt.Sprintf("file row %q", full), func(p *page) bool { return p.hasText(full) })
			add("file-row-href", f.comps, full, fmt.Sprintf("link whose path decodes to /%s/%s", lt.hash, full), func(p *page) bool { return p.hasLink("/"+lt.hash+"/"+full, "") })
			for k := 1; k < len(comps); k++ {
				d := strings.Join(comps[:k], "/")
				if seenDir[d] {
					continue
				}
				seenDir[d] = true
				add("dir-row-text", f.comps[:k], d, fmt.Sprintf("directory row %q", d+"/"), func(p *page) bool { return p.hasText(d + "/") })
				add("dir-row-href", f.comps[:k], d, fmt.Sprintf("links whose path decodes to /%s/%s/ (plain and ?playlist)", lt.hash, d), func(p *page) bool {
					return p.hasLink("/"+lt.hash+"/"+d+"/", "") && p.hasLink("/"+lt.hash+"/"+d+"/", "playlist")
				})
			}
		}
	}
	return out
}

func titleExpect(ts *torSpec, want string) expect {
	return expect{site: "title", slots: []*slot{ts.name}, shown: want, what: fmt.Sprintf("<title> %q", want),
		ok: func(p *page) bool { return titleNorm(p.title) == titleNorm(want) }}
}

func peersExpect(lt *liveTor, hostile bool) []expect {
	ts := lt.spec
	var out []expect
	add := func(site string, s *slot, shown, what string) {
		out = append(out, expect{site: site, slots: []*slot{s}, what: fmt.Sprintf(what, shown), shown: shown, ok: func(p *page) bool { return p.hasText(shown) }})
	}
	out = append(out, titleExpect(ts, "Peers for "+ts.name.get(hostile)))
	for a := range ts.tiers {
		for b := range ts.tiers[a] {
			tr := &ts.tiers[a][b]
			add("tracker-url", tr.url, tr.url.get(hostile), "tracker URL %q")
			if tr.mode != "plain" {
				text := lt.errText[tr]
				site := "tracker-error"
				if tr.mode == "real-error" {
					site = "tracker-error-real"
				}
				out = append(out, expect{site: site, slots: []*slot{tr.text}, shown: text, what: fmt.Sprintf("tracker error %q", text),
					ok: func(p *page) bool { return p.hasText("(" + text + ")") }})
			}
		}
	}
	for _, sd := range ts.seeds {
		add("webseed-url", sd.url, sd.url.get(hostile), "web-seed URL %q")
	}
	for _, ps := range ts.peers {
		if ps.version != nil {
			add("peer-version-"+ps.via, ps.version, ps.version.get(hostile), "peer version %q")
		} else {
			add("peer-id-version", ps.tag, ps.tag.get(hostile), "version %q derived from the peer id")
		}
	}
	for _, ks := range ts.knowns {
		if ks.version != nil {
			add("known-version", ks.version, ks.version.get(hostile), "known-peer version %q")
		} else if ks.hasID {
			add("known-id-version", ks.tag, ks.tag.get(hostile), "version %q derived from a known peer's id")
		}
	}
	return out
}

// ---------------------------------------------------------------- pages of a scenario

type pageReq struct {
	kind   string // front | dir | peers
	tor    int
	dir    []*slot
	target func(ls []*liveTor, hostile bool) string
	expect func(ls []*liveTor, hostile bool) []expect
}

func addressable(c string) bool {
	return c != "" && c != "." && c != ".." && !strings.Contains(c, "/")
}

// eligibleDirs: directories of the torrent whose URL can be written in both
// renderings (no empty, dot or slash-bearing component: those are not
// addressable over HTTP at all and the two renderings would differ in shape).
func (ts *torSpec) eligibleDirs() [][]*slot {
	var out [][]*slot
	seen := map[string]bool{}
	for _, f := range ts.files {
		for k := 1; k < len(f.comps); k++ {
			ok := true
			var key []string
			for _, s := range f.comps[:k] {
				ok = ok && addressable(s.hostile)
				key = append(key, s.marker)
			}
			ks := strings.Join(key, "/")
			if ok && !seen[ks] {
				seen[ks] = true
				out = append(out, f.comps[:k])
			}
		}
	}
	return out
}

// pages lists the HTML pages fetched for a scenario; pick chooses which
// sub-directory page (if any is addressable) is fetched for torrent i.
func (sc *scenario) pages(pick func(i int, dirs [][]*slot) []*slot) []pageReq {
	var out []pageReq
	out = append(out, pageReq{kind: "front",
		target: func([]*liveTor, bool) string { return "/" },
		expect: func(ls []*liveTor, h bool) []expect {
			var ex []expect
			for _, lt := range ls {
				ex = append(ex, entryExpect(lt, h, nil)...)
			}
			return ex
		}})
	for i, ts := range sc.tors {
		i := i
		ts := ts
		out = append(out, pageReq{kind: "dir", tor: i,
			target: func(ls []*liveTor, _ bool) string { return "/" + ls[i].hash + "/" },
			expect: func(ls []*liveTor, h bool) []expect {
				return append(entryExpect(ls[i], h, nil), titleExpect(ts, ts.name.get(h)))
			}})
		if dirs := ts.eligibleDirs(); len(dirs) > 0 {
			if dir := pick(i, dirs); dir != nil {
				out = append(out, pageReq{kind: "subdir", tor: i, dir: dir,
					target: func(ls []*liveTor, h bool) string {
						return "/" + ls[i].hash + "/" + escPath(compStrings(dir, h)) + "/"
					},
					expect: func(ls []*liveTor, h bool) []expect { return entryExpect(ls[i], h, compStrings(dir, h)) }})
			}
		}
		out = append(out, pageReq{kind: "peers", tor: i,
			target: func(ls []*liveTor, _ bool) string { return "/?q=peers&hash=" + ls[i].hash },
			expect: func(ls []*liveTor, h bool) []expect { return peersExpect(ls[i], h) }})
	}
	return out
}

// ---------------------------------------------------------------- TestC19HTML

type rendered struct {
	target string
	body   []byte
	page   *page
}

func render(t failer, sc *scenario, reqs []pageReq, hostile bool) ([]rendered, []*liveTor) {
	which := "benign"
	if hostile {
		which = "hostile"
	}
	ls, err := sc.build(hostile)
	if err != nil {
		killAll(ls)
		t.Fatalf("harness: building the %s scenario failed: %v", which, err)
	}
	var out []rendered
	for _, rq := range reqs {
		target := rq.target(ls, hostile)
		r, err := webfix.Do("GET", localHost, target, nil, nil)
		if err != nil {
			killAll(ls)
			t.Fatalf("harness: bad request target %q: %v", target, err)
		}
		if r.Panic != nil {
			killAll(ls)
			t.Fatalf("GET %s panicked (%s rendering): %v", target, which, r.Panic)
		}
		if r.Status != 200 {
			killAll(ls)
			t.Fatalf("GET %s (%s rendering): status %d, want 200 (positive control)\nbody %q", target, which, r.Status, clip(r.Body))
		}
		if ct := r.Header.Get("Content-Type"); !strings.HasPrefix(ct, "text/html") {
			killAll(ls)
			t.Fatalf("GET %s: content type %q", target, ct)
		}
		pg, err := analyse(r.Body)
		if err != nil {
			killAll(ls)
			t.Fatalf("GET %s (%s rendering): page does not tokenise: %v", target, which, err)
		}
		out = append(out, rendered{target, r.Body, pg})
	}
	return out, ls
}

func clip(b []byte) string {
	if len(b) > 1500 {
		return string(b[:1500]) + fmt.Sprintf("…(%d bytes)", len(b))
	}
	return string(b)
}

func around(body []byte, marker string) string {
	i := strings.Index(string(body), marker)
	if i < 0 || marker == "" {
		return clip(body)
	}
	return "…" + string(body[max(0, i-300):min(len(body), i+300)]) + "…"
}

// checkHTML is the HTML oracle: the scenario is rendered with alphanumeric
// stand-ins and with the hostile strings, and the pages are compared.
func checkHTML(t failer, sc *scenario, reqs []pageReq) (labels map[string]bool, nontrivial bool) {
	ben, bls := render(t, sc, reqs, false)
	killAll(bls)
	hos, hls := render(t, sc, reqs, true)
	defer killAll(hls)

	labels = map[string]bool{}
	for i, rq := range reqs {
		h, b := hos[i], ben[i]
		// positive control of the harness: the benign rendering shows every string
		for _, e := range rq.expect(bls, false) {
			if !e.ok(b.page) {
				t.Fatalf("harness: the benign rendering of %s does not show %s\nbody %q", b.target, e.what, clip(b.body))
			}
		}
		// (1) same element/attribute skeleton
		if d := diffSkeleton(h.page.skeleton, b.page.skeleton); d != "" {
			t.Fatalf("GET %s: attacker-controlled strings changed the markup of the page (element/attribute skeleton differs from the same page rendered with alphanumeric strings)\n%s\n%s", h.target, d, describe(sc, h.body))
		}
		// (2) every string is present, decoded, as character data / attribute value
		for _, e := range rq.expect(hls, true) {
			if !e.ok(h.page) {
				mk := ""
				if len(e.slots) > 0 {
					mk = e.slots[len(e.slots)-1].marker
				}
				t.Fatalf("GET %s: site %s: %s is not present as escaped character data (decoding the page's text nodes / link targets does not give the string back)\naround it: %q", h.target, e.site, e.what, around(h.body, mk))
			}
			for _, c := range classesOf(e.shown) {
				labels["site:"+e.site+"/"+c] = true
				nontrivial = true
			}
			labels["site:"+e.site] = true
		}
		// (3) nowhere else
		for _, s := range sc.pool.slots {
			if w := h.page.markerOutsideData(s.marker); w != "" {
				t.Fatalf("GET %s: attacker-controlled string %q appears %s", h.target, s.hostile, w)
			}
		}
		labels["page:"+rq.kind] = true
	}
	return
}

func TestC19HTML(t *testing.T) {
	rapid.Check(t, func(t *rapid.T) {
		webfix.KillAll()
		webfix.ResetGlobals()
		sc := genScenario(t)
		reqs := sc.pages(func(i int, dirs [][]*slot) []*slot {
			return rapid.SampledFrom(dirs).Draw(t, fmt.Sprintf("t%d.dirpage", i))
		})
		labels, nontrivial := checkHTML(t, sc, reqs)
		var ls []string
		for l := range labels {
			ls = append(ls, l)
		}
		sort.Strings(ls)
		kinds := ""
		for _, ts := range sc.tors {
			if ts.viaHTTP {
				ls = append(ls, "added-via-web-ui:"+ts.kind)
			}
			kinds += ts.kind[:2] + fmt.Sprint(min(len(ts.files), 3), len(ts.tiers), len(ts.seeds), len(ts.peers), min(len(ts.knowns), 2)) + ","
		}
		stats.Case("html/"+kinds+"/"+strings.Join(ls, ","), nontrivial, ls...)
		for _, l := range ls {
			if strings.Contains(l, "/") && stats.WantSample(l) {
				stats.Sample(l, sampleFor(sc, l))
			}
		}
	})
}

func sampleFor(sc *scenario, label string) string {
	for _, s := range sc.pool.slots {
		for _, c := range s.classes {
			if strings.HasSuffix(label, "/"+c) {
				return clipS(s.hostile)
			}
		}
	}
	return ""
}

func clipS(s string) string {
	if len(s) > 200 {
		return s[:200] + "…"
	}
	return s
}

func describe(sc *scenario, body []byte) string {
	var b strings.Builder
	b.WriteString("attacker-controlled strings of the case:\n")
	for _, s := range sc.pool.slots {
		if s.marker != "" && !strings.Contains(string(body), s.marker) {
			continue
		}
		fmt.Fprintf(&b, "  %s: %q\n", s.kind, s.hostile)
	}
	return b.String()
}

// checkM3U is the playlist oracle for a one-torrent scenario.
func checkM3U(t failer, sc *scenario, dir []*slot, host string, rootForm bool) (labels map[string]bool, nontrivial bool) {
	ts := sc.tors[0]

	lines := [2]int{}
	labels = map[string]bool{}
	for pass, hostile := range []bool{false, true} {
		ls, err := sc.build(hostile)
		if err != nil {
			killAll(ls)
			t.Fatalf("harness: %v", err)
		}
		lt := ls[0]
		target := "/" + lt.hash + ".m3u"
		if dir != nil {
			target = "/" + lt.hash + "/" + escPath(compStrings(dir, hostile)) + "/?playlist"
		} else if rootForm {
			target = "/" + lt.hash + "/?playlist"
		}
		r, err := webfix.Do("GET", host, target, nil, nil)
		if err != nil || r.Panic != nil || r.Status != 200 {
			killAll(ls)
			t.Fatalf("GET %s: err=%v panic=%v status=%d (positive control: want a playlist)", target, err, r.Panic, r.Status)
		}
		var want []string
		var titles []string
		if ts.kind == "single" {
			shown := strings.Trim(ts.name.get(hostile), "/")
			want = append(want, "/"+lt.hash+"/"+shown)
			titles = append(titles, shown[strings.LastIndex(shown, "/")+1:])
		} else {
			for _, f := range ts.files {
				comps := compStrings(f.comps, hostile)
				if within(comps, compStrings(dir, hostile)) {
					want = append(want, "/"+lt.hash+"/"+strings.Join(comps, "/"))
					titles = append(titles, comps[len(comps)-1])
				}
			}
		}
		if f := checkPlaylist(r.Body, host, want); f != "" {
			killAll(ls)
			which := "hostile"
			if !hostile {
				which = "benign (harness positive control)"
			}
			t.Fatalf("GET %s [%s file names]: %s\nfile paths %q\nbody %q", target, which, f, want, clip(r.Body))
		}
		lines[pass] = len(splitLines(r.Body))
		if hostile {
			for _, s := range titles {
				for _, c := range classesOf(s) {
					labels["site:m3u-title/"+c] = true
					nontrivial = true
				}
			}
			for _, s := range want {
				for _, c := range classesOf(s) {
					labels["site:m3u-url/"+c] = true
				}
			}
		}
		killAll(ls)
	}
	if lines[0] != lines[1] {
		t.Fatalf("playlist has %d lines with hostile names and %d with alphanumeric names", lines[1], lines[0])
	}
	return
}

// ---------------------------------------------------------------- TestC19Playlists

func TestC19Playlists(t *testing.T) {
	rapid.Check(t, func(t *rapid.T) {
		webfix.KillAll()
		webfix.ResetGlobals()
		var pl pool
		ts := &torSpec{seed: rapid.Uint64().Draw(t, "seed")}
		ts.kind = rapid.SampledFrom([]string{"multi", "multi", "multi", "single"}).Draw(t, "kind")
		ts.name = pl.newSlot(t, "name", kName, "")
		if ts.kind == "single" {
			ts.length = rapid.Int64Range(1, 3000).Draw(t, "length")
		} else {
			nf := rapid.IntRange(1, 6).Draw(t, "nfiles")
			dirs := [][]*slot{nil}
			for fi := 0; fi < nf; fi++ {
				fl := fmt.Sprintf("f%d", fi)
				dir := rapid.SampledFrom(dirs).Draw(t, fl+".dir")
				if len(dir) < 3 && rapid.IntRange(0, 2).Draw(t, fl+".newdir") == 0 {
					dir = append(append([]*slot{}, dir...), pl.newSlot(t, fl+".dirname", kComp, ""))
					dirs = append(dirs, dir)
				}
				ts.files = append(ts.files, fileSpec{comps: append(append([]*slot{}, dir...), pl.newSlot(t, fl+".name", kComp, "")),
					length: rapid.Int64Range(0, 2000).Draw(t, fl+".len")})
			}
			if ts.total() == 0 {
				ts.files[0].length = 1
			}
		}
		pl.assignBenign()
		sc := &scenario{pool: pl, tors: []*torSpec{ts}}
		var dir []*slot
		if dirs := ts.eligibleDirs(); len(dirs) > 0 && rapid.Bool().Draw(t, "subdir") {
			dir = rapid.SampledFrom(dirs).Draw(t, "dir")
		}
		host := rapid.SampledFrom([]string{localHost, "127.0.0.1:8088", "[::1]:9000"}).Draw(t, "host")
		rootForm := rapid.Bool().Draw(t, "rootform")
		labels, nontrivial := checkM3U(t, sc, dir, host, rootForm)
		var ls []string
		for l := range labels {
			ls = append(ls, l)
		}
		sort.Strings(ls)
		ls = append(ls, "playlist:"+ts.kind)
		if dir != nil {
			ls = append(ls, "playlist:subdir")
		}
		stats.Case(fmt.Sprintf("m3u/%s/%d/%v/%s", ts.kind, len(ts.files), dir != nil, strings.Join(ls, ",")), nontrivial, ls...)
		for _, l := range ls {
			if strings.HasPrefix(l, "site:") && stats.WantSample(l) {
				stats.Sample(l, sampleFor(sc, l))
			}
		}
	})
}
