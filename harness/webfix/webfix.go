// Package webfix builds live storrent torrents for the front-end checks (C19,
// C20): metainfo serialised by the independent bencoder, registered with the
// real tor.AddTorrent (real event loop), content pre-filled and hash-verified
// through the real piece store so that readers return at once.  It also owns
// the one-time process initialisation (globals as in storrent's main, handler
// registration through storrent/http.Serve, logging silenced) and the
// in-process request helper.
package webfix

import (
	"bytes"
	"context"
	"crypto/sha1"
	"fmt"
	"io"
	"log"
	"net"
	"net/http"
	"net/http/httptest"
	"net/netip"
	"net/url"
	"os"
	"strings"
	"sync"
	"time"

	"github.com/jech/storrent/config"
	"github.com/jech/storrent/hash"
	shttp "github.com/jech/storrent/http"
	"github.com/jech/storrent/known"
	"github.com/jech/storrent/peer"
	"github.com/jech/storrent/protocol"
	"github.com/jech/storrent/tor"
	"github.com/jech/storrent/tracker"
	"github.com/jech/storrent/webseed"

	"verif/gen"
	"verif/ref"
)

const Chunk = 16384

var once sync.Once

// realStderr keeps descriptor 2's *os.File reachable (its finalizer would
// close the descriptor and swallow the runtime's crash reports).
var realStderr = os.Stderr

// Init does what storrent's main() does before serving, registers the three
// HTTP handlers on http.DefaultServeMux by calling the real Serve once (it
// also opens a loopback listener that the checks never use), and silences
// storrent's loggers (peers log to os.Stderr; the Go runtime still writes
// panics to file descriptor 2).
func Init() {
	once.Do(func() {
		if null, err := os.OpenFile(os.DevNull, os.O_WRONLY, 0); err == nil {
			os.Stderr = null
		}
		log.SetOutput(io.Discard)
		config.SetDefaultProxy("")
		config.MemoryMark = 1 << 30
		config.PrefetchRate = 768 * 1024
		config.DefaultDhtMode = config.DhtNone
		config.DefaultUseTrackers = false
		config.DefaultUseWebseeds = false
		peer.UploadEstimator.Init(3 * time.Second)
		peer.DownloadEstimator.Init(3 * time.Second)
		if err := shttp.Serve("127.0.0.1:0"); err != nil {
			panic("webfix: storrent/http.Serve: " + err.Error())
		}
	})
}

// ResetGlobals puts the run-time settings the web UI can change back to
// storrent's defaults.
func ResetGlobals() {
	config.SetUploadRate(512 * 1024)
	config.SetIdleRate(64 * 1024)
}

// ---------------------------------------------------------------- metainfo

type File struct {
	Path   []string
	Length int64
	Pad    bool
	// Attr, when not empty, is the file's attr string as it goes into the
	// metainfo (BEP 47: a set of flag letters; "p" among them marks padding).
	// Empty: "p" for padding files, no attr key otherwise.
	Attr string
}

// Spec describes one torrent.  Files == nil means single-file (Length is the
// content length, Name the file name).
type Spec struct {
	Name         string
	PieceLen     int64
	Length       int64
	Files        []File
	Seed         uint64
	CDate        int64
	Announce     string
	AnnounceList [][]string
	URLList      []string
	HTTPSeeds    []string
	// FakeTrackers, when non-nil, are handed to tor.New instead of the
	// trackers ReadTorrent would build from Announce/AnnounceList.
	FakeTrackers [][]tracker.Tracker
	// LegacyPaths: the file names of the spec are carried under "path.utf-8",
	// and "path" holds another (legacy code page) spelling of each component.
	// LegacyName: likewise "name.utf-8" / "name".  Clients that know the
	// .utf-8 keys - storrent does - use those.
	LegacyPaths, LegacyName bool
}

// Legacy is the other spelling the legacy keys carry.
func Legacy(s string) string { return "legacy~" + strings.ToUpper(s) }

func (s *Spec) Total() int64 {
	if s.Files == nil {
		return s.Length
	}
	var n int64
	for _, f := range s.Files {
		n += f.Length
	}
	return n
}

// Content is a pure function of (Seed, Total).
func (s *Spec) Content() []byte { return gen.Fill(s.Seed|1, int(s.Total())) }

func toList(p []string) []any {
	l := make([]any, len(p))
	for i, s := range p {
		l[i] = s
	}
	return l
}

// Metainfo serialises the spec with the independent bencoder (canonical key
// order) and returns the file and the info dictionary.
func (s *Spec) Metainfo() (file, info []byte) {
	content := s.Content()
	var pieces []byte
	for off := int64(0); off < int64(len(content)); off += s.PieceLen {
		end := min(off+s.PieceLen, int64(len(content)))
		h := sha1.Sum(content[off:end])
		pieces = append(pieces, h[:]...)
	}
	if pieces == nil {
		pieces = []byte{}
	}
	id := map[string]any{"name": s.Name, "piece length": s.PieceLen, "pieces": pieces}
	if s.LegacyName && s.Name != "" {
		id["name"], id["name.utf-8"] = Legacy(s.Name), s.Name
	}
	if s.Files == nil {
		id["length"] = s.Length
	} else {
		fl := []any{}
		for _, f := range s.Files {
			fd := map[string]any{"length": f.Length, "path": toList(f.Path)}
			if s.LegacyPaths {
				var lp []string
				for _, c := range f.Path {
					lp = append(lp, Legacy(c))
				}
				fd["path"], fd["path.utf-8"] = toList(lp), toList(f.Path)
			}
			if f.Attr != "" {
				fd["attr"] = f.Attr
			} else if f.Pad {
				fd["attr"] = "p"
			}
			fl = append(fl, fd)
		}
		id["files"] = fl
	}
	info = ref.Benc(id)
	td := map[string]any{"info": ref.Raw(info)}
	if s.Announce != "" {
		td["announce"] = s.Announce
	}
	if s.AnnounceList != nil {
		al := []any{}
		for _, tier := range s.AnnounceList {
			al = append(al, toList(tier))
		}
		td["announce-list"] = al
	}
	if s.URLList != nil {
		td["url-list"] = toList(s.URLList)
	}
	if s.HTTPSeeds != nil {
		td["httpseeds"] = toList(s.HTTPSeeds)
	}
	if s.CDate != 0 {
		td["creation date"] = s.CDate
	}
	file = ref.Benc(td)
	return
}

// ---------------------------------------------------------------- live torrents

type Live struct {
	T       *tor.Torrent
	Spec    *Spec
	Content []byte
	Info    []byte
	File    []byte
	conns   []net.Conn
}

func silence(t *tor.Torrent) { t.Log = log.New(io.Discard, "", 0) }

// Read parses the spec's metainfo with the real tor.ReadTorrent (or, with
// fake trackers, with the same three steps ReadTorrent performs: hash, New,
// MetadataComplete).
func Read(s *Spec) (*Live, error) {
	Init()
	file, info := s.Metainfo()
	var t *tor.Torrent
	var err error
	if s.FakeTrackers == nil {
		t, err = tor.ReadTorrent("", bytes.NewReader(file))
		if err != nil {
			return nil, err
		}
	} else {
		h := sha1.Sum(info)
		var ws []webseed.Webseed
		for _, u := range s.URLList {
			if w := webseed.New(u, true); w != nil {
				ws = append(ws, w)
			}
		}
		for _, u := range s.HTTPSeeds {
			if w := webseed.New(u, false); w != nil {
				ws = append(ws, w)
			}
		}
		t, err = tor.New("", hash.Hash(h[:]), "", info, s.CDate, s.FakeTrackers, ws)
		if err != nil {
			return nil, err
		}
		if err = t.MetadataComplete(); err != nil {
			return nil, err
		}
	}
	silence(t)
	return &Live{T: t, Spec: s, Info: info, File: file}, nil
}

// Prefill stores and verifies every piece.
func (l *Live) Prefill() error {
	l.Content = l.Spec.Content()
	t := l.T
	ps := int64(t.Pieces.PieceSize())
	for i := 0; int64(i)*ps < int64(len(l.Content)); i++ {
		off := int64(i) * ps
		end := min(off+ps, int64(len(l.Content)))
		_, complete, err := t.Pieces.AddData(uint32(i), 0, l.Content[off:end], ^uint32(0))
		if err != nil || !complete {
			return fmt.Errorf("webfix: AddData(piece %d): complete=%v err=%v", i, complete, err)
		}
		done, _, err := t.Pieces.Finalise(uint32(i), t.PieceHashes[i])
		if err != nil || !done {
			return fmt.Errorf("webfix: Finalise(piece %d): done=%v err=%v", i, done, err)
		}
	}
	return nil
}

// Add reads, registers (real tor.AddTorrent) and optionally pre-fills.
func Add(s *Spec, prefill bool) (*Live, error) {
	l, err := Read(s)
	if err != nil {
		return nil, err
	}
	if _, err := tor.AddTorrent(context.Background(), l.T); err != nil {
		return nil, err
	}
	if prefill {
		if err := l.Prefill(); err != nil {
			l.Kill()
			return nil, err
		}
	}
	return l, nil
}

// AddViaMagnet registers the spec's torrent the way a magnet link does - by
// info-hash, with the given display name - and then completes its metadata
// (what happens when peers have delivered the info dictionary) and pre-fills.
func AddViaMagnet(s *Spec, dn string, prefill bool) (*Live, error) {
	Init()
	file, info := s.Metainfo()
	h := sha1.Sum(info)
	link := "magnet:?xt=urn:btih:" + fmt.Sprintf("%x", h[:])
	if dn != "" {
		link += "&dn=" + url.QueryEscape(dn)
	}
	l, err := AddMagnet(link)
	if err != nil {
		return nil, err
	}
	l.Spec, l.Info, l.File = s, info, file
	l.T.Info = info
	if err := l.T.MetadataComplete(); err != nil {
		l.Kill()
		return nil, err
	}
	if prefill {
		if err := l.Prefill(); err != nil {
			l.Kill()
			return nil, err
		}
	}
	return l, nil
}

// AddMagnet registers a torrent from a magnet link (metadata incomplete).
func AddMagnet(link string) (*Live, error) {
	Init()
	t, err := tor.ReadMagnet("", link)
	if err != nil {
		return nil, err
	}
	if t == nil {
		return nil, fmt.Errorf("webfix: ReadMagnet(%q) returned nothing", link)
	}
	silence(t)
	if _, err := tor.AddTorrent(context.Background(), t); err != nil {
		return nil, err
	}
	return &Live{T: t}, nil
}

// Adopt wraps a torrent that is already registered (e.g. added through the
// web UI itself).
func Adopt(h []byte) (*Live, error) {
	t := tor.Get(hash.Hash(h))
	if t == nil {
		return nil, fmt.Errorf("webfix: torrent %x is not registered", h)
	}
	silence(t)
	return &Live{T: t}, nil
}

// AttachPeer connects a scripted remote over net.Pipe through the real
// Torrent.NewPeer; the remote end drains what storrent writes and first sends
// the given bytes (e.g. an extended handshake).  The peer stays alive until
// the torrent is killed.
func (l *Live) AttachPeer(addr netip.AddrPort, id []byte, extended bool, send []byte) error {
	a, b := net.Pipe()
	l.conns = append(l.conns, b)
	go func() {
		if len(send) > 0 {
			b.Write(send)
		}
	}()
	go io.Copy(io.Discard, b)
	res := protocol.HandshakeResult{Hash: l.T.Hash, Id: hash.Hash(id), Extended: extended, Fast: true}
	return l.T.NewPeer("", a, addr, false, res, nil)
}

// WaitKnownVersion waits until the torrent knows a version string for addr
// (set by the event loop when the peer's extended handshake is handled).
func (l *Live) WaitKnownVersion(addr netip.AddrPort, want string) bool {
	for i := 0; i < 20000; i++ {
		kp, err := l.T.GetKnown(nil, addr)
		if err != nil {
			return false
		}
		if kp != nil && kp.Version == want {
			return true
		}
		time.Sleep(time.Duration(min(i+1, 50)) * 100 * time.Microsecond)
	}
	return false
}

// WaitPeers waits until the event loop has registered n peers.
func (l *Live) WaitPeers(n int) bool {
	for i := 0; i < 20000; i++ {
		ps, err := l.T.GetPeers()
		if err != nil {
			return false
		}
		if len(ps) >= n {
			return true
		}
		time.Sleep(time.Duration(min(i+1, 50)) * 100 * time.Microsecond)
	}
	return false
}

// Sync returns after the event loop has handled everything queued before the
// call (events are handled in order).
func (l *Live) Sync() { l.T.GetStats() }

func (l *Live) AddKnown(addr netip.AddrPort, id []byte, version string, kind known.Kind) {
	var h hash.Hash
	if id != nil {
		h = hash.Hash(id)
	}
	l.T.AddKnown(addr, h, version, kind)
	l.Sync()
}

// Kill stops the torrent and waits until it has left the global table.
func (l *Live) Kill() {
	l.T.Kill(context.Background())
	<-l.T.Deleted
	for _, c := range l.conns {
		c.Close()
	}
	l.conns = nil
}

// KillAll removes every torrent still registered (including ones added
// through the web UI itself).
func KillAll() {
	var all []*tor.Torrent
	tor.Range(func(_ hash.Hash, t *tor.Torrent) bool {
		all = append(all, t)
		return true
	})
	for _, t := range all {
		t.Kill(context.Background())
		<-t.Deleted
	}
}

// LiveHashes is the set of registered torrents.
func LiveHashes() []string {
	var out []string
	tor.Range(func(h hash.Hash, _ *tor.Torrent) bool {
		out = append(out, h.String())
		return true
	})
	return out
}

// ---------------------------------------------------------------- requests

type Resp struct {
	Status  int
	Header  http.Header
	Body    []byte
	Pattern string // mux pattern that matched ("" = answered by the mux itself)
	Panic   any
}

// Do serves one request in process through http.DefaultServeMux (on which
// storrent's Serve registered its handlers).  target is a request-URI
// ("/path?query"); it is parsed like a server would (url.ParseRequestURI).
func Do(method, host, target string, hdr http.Header, body []byte) (*Resp, error) {
	Init()
	u, err := url.ParseRequestURI(target)
	if err != nil {
		return nil, err
	}
	req := &http.Request{
		Method:     method,
		URL:        u,
		Proto:      "HTTP/1.1",
		ProtoMajor: 1,
		ProtoMinor: 1,
		Header:     http.Header{},
		Host:       host,
		RequestURI: target,
		RemoteAddr: "127.0.0.1:40000",
		Body:       http.NoBody,
	}
	for k, v := range hdr {
		req.Header[k] = v
	}
	if body != nil {
		req.Body = io.NopCloser(bytes.NewReader(body))
		req.ContentLength = int64(len(body))
	}
	req = req.WithContext(context.Background())
	rec := httptest.NewRecorder()
	out := &Resp{}
	_, out.Pattern = http.DefaultServeMux.Handler(req)
	func() {
		defer func() { out.Panic = recover() }()
		http.DefaultServeMux.ServeHTTP(rec, req)
	}()
	out.Status = rec.Code
	out.Header = rec.Header()
	out.Body = rec.Body.Bytes()
	return out, nil
}
