package c10

// A real Reader reading a torrent from front to back, its requests handled
// one event at a time by the real torrent-side handler.  The reader needs
// every piece from its position onwards until it has read it, so a piece it
// has asked for must stay requested, at every boundary between two events,
// until it is verified: also while the reader moves its window on (it
// registers the new window and withdraws the old one; a piece in both must not
// drop out in between, or its blocks are cancelled at every peer and fetched
// again).

import (
	"context"
	"fmt"
	"io"
	"testing"
	"time"

	"pgregory.net/rapid"

	"github.com/jech/storrent/config"
	"github.com/jech/storrent/hash"
	"github.com/jech/storrent/peer"
	"github.com/jech/storrent/tor"

	"verif/sim"
	"verif/stats"
)

func TestC10ReaderAdvance(t *testing.T) {
	sim.Init()
	rapid.Check(t, func(rt *rapid.T) {
		npieces := rapid.IntRange(2, 12).Draw(rt, "pieces")
		readSize := rapid.SampledFrom([]int{16384, 5000, 16384 * 2, 100}).Draw(rt, "readSize")
		prefilled := rapid.SliceOfN(rapid.IntRange(0, 11), 0, 3).Draw(rt, "prefilled")
		config.SetIdleRate(0)
		defer config.SetIdleRate(64 * 1024)
		x, err := sim.Build(sim.Geometry{PieceSize: 16384, Length: 16384 * int64(npieces), Seed: 9}, "")
		if err != nil {
			rt.Fatalf("build: %v", err)
		}
		tt := x.T
		tor.VerifInit(tt)
		defer tt.Pieces.Del()
		ctx, cancel := context.WithCancel(context.Background())
		defer cancel()
		fill := func(i int) {
			tt.Pieces.AddData(uint32(i), 0, x.Data(i, 0, 16384), ^uint32(0))
			tt.Pieces.Finalise(uint32(i), hash.Hash(x.Hashes[i]))
		}
		for _, i := range prefilled {
			if i < npieces {
				fill(i)
			}
		}
		// a peer advertises everything, so that the pieces count as available
		for i := 0; i < npieces; i++ {
			tor.VerifHandleEvent(ctx, tt, peer.TorPeerHave{Index: uint32(i), Have: true})
		}
		rd := tt.NewReader(ctx, 0, x.Length)
		type rres struct {
			n   int64
			err error
		}
		done := make(chan rres, 1)
		go func() {
			buf := make([]byte, readSize)
			var total int64
			for {
				n, err := rd.Read(buf)
				total += int64(n)
				if err != nil {
					done <- rres{total, err}
					return
				}
			}
		}()
		var hist []string
		asked := map[uint32]bool{} // pieces the reader has asked for and that are not verified yet
		boundary := func(after string) {
			got := tor.VerifRequested(tt)
			for k := range asked {
				if tt.Pieces.Complete(k) {
					delete(asked, k)
					continue
				}
				if g, ok := got[k]; !ok || len(g.Prio) == 0 {
					rt.Fatalf("after %s: piece %d, which the reader has asked for and still has to read (it is not there yet), is not requested by any consumer at this moment\nhistory: %v", after, k, hist)
				}
			}
		}
		events := 0
		for {
			var e peer.TorEvent
			select {
			case r := <-done:
				if r.err != io.EOF || r.n != x.Length {
					rt.Fatalf("the reader ended with %d bytes and %v, want %d and EOF\nhistory: %v", r.n, r.err, x.Length, hist)
				}
				rd.Close()
				// the withdrawals of Close
				for {
					select {
					case e := <-tt.Event:
						tor.VerifHandleEvent(ctx, tt, e)
						continue
					default:
					}
					break
				}
				for k, g := range tor.VerifRequested(tt) {
					if len(g.Prio) > 0 {
						rt.Fatalf("the reader has closed, piece %d is still requested at %v", k, g.Prio)
					}
				}
				stats.Case(fmt.Sprintf("reader-advance/%d/%d", npieces, readSize), events > npieces, "reader-advance")
				return
			case e = <-tt.Event:
			case <-time.After(20 * time.Second):
				rt.Skip("inconclusive: no event for 20 s of real time")
			}
			events++
			rq, isReq := e.(peer.TorRequest)
			hist = append(hist, fmt.Sprintf("%T%+v", e, e))
			if err := tor.VerifHandleEvent(ctx, tt, e); err != nil {
				rt.Fatalf("handling %T: %v", e, err)
			}
			if isReq && rq.Request && rq.Priority > tor.IdlePriority {
				asked[rq.Index] = true
			}
			boundary(hist[len(hist)-1])
			if isReq && rq.Request && rq.Ch != nil && !tt.Pieces.Complete(rq.Index) {
				// the piece the reader waits for arrives and is verified
				fill(int(rq.Index))
				hist = append(hist, fmt.Sprintf("piece %d verified", rq.Index))
				tor.VerifHandleEvent(ctx, tt, peer.TorHave{Index: rq.Index, Have: true})
				boundary(hist[len(hist)-1])
			}
		}
	})
}
