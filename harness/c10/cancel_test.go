package c10

// A Reader that is cancelled between two Reads (not while it waits): the Read
// that notices the cancellation must withdraw every priority the reader
// holds, each exactly once - a second reader over the same pieces keeps all of
// its own - and Close afterwards must not withdraw anything a second time.

import (
	"context"
	"fmt"
	"sort"
	"sync"
	"testing"

	"pgregory.net/rapid"

	"github.com/jech/storrent/config"
	"github.com/jech/storrent/hash"
	"github.com/jech/storrent/peer"
	"github.com/jech/storrent/tor"

	"verif/sim"
	"verif/stats"
)

func TestC10ReaderCancelledBetweenReads(t *testing.T) {
	sim.Init()
	rapid.Check(t, func(rt *rapid.T) {
		npieces := rapid.IntRange(3, 12).Draw(rt, "pieces")
		have := rapid.IntRange(1, npieces-1).Draw(rt, "verified prefix")
		readSize := rapid.SampledFrom([]int{16384, 5000, 16384 * 2, 100}).Draw(rt, "readSize")
		reads := rapid.IntRange(0, 8).Draw(rt, "reads before the cancellation")
		start := int64(rapid.IntRange(0, have*16384-1).Draw(rt, "start"))
		other := rapid.Bool().Draw(rt, "a second reader")
		otherStart := int64(rapid.IntRange(0, have*16384-1).Draw(rt, "start of the second reader"))
		config.SetIdleRate(0)
		defer config.SetIdleRate(64 * 1024)
		x, err := sim.Build(sim.Geometry{PieceSize: 16384, Length: 16384 * int64(npieces), Seed: 9}, "")
		if err != nil {
			rt.Fatalf("build: %v", err)
		}
		tt := x.T
		tor.VerifInit(tt)
		defer tt.Pieces.Del()
		bg, stopAll := context.WithCancel(context.Background())
		defer stopAll()
		for i := 0; i < have; i++ {
			tt.Pieces.AddData(uint32(i), 0, x.Data(i, 0, 16384), ^uint32(0))
			tt.Pieces.Finalise(uint32(i), hash.Hash(x.Hashes[i]))
		}
		for i := 0; i < npieces; i++ {
			tor.VerifHandleEvent(bg, tt, peer.TorPeerHave{Index: uint32(i), Have: true})
		}
		// the torrent's loop: one event at a time, under a lock the oracle takes to look
		var mu sync.Mutex
		var hist []string
		stop := make(chan struct{})
		pumped := make(chan struct{})
		go func() {
			defer close(pumped)
			for {
				select {
				case e := <-tt.Event:
					mu.Lock()
					if _, barrier := e.(peer.TorGetConf); !barrier {
						hist = append(hist, fmt.Sprintf("%T%+v", e, e))
					}
					tor.VerifHandleEvent(bg, tt, e)
					mu.Unlock()
				case <-stop:
					return
				}
			}
		}()
		defer func() { close(stop); <-pumped }()
		held := func() string {
			// withdrawals are queued, not awaited: a query behind them (one
			// queue, one handler) is answered when they have been handled
			bar := make(chan peer.TorConf, 1)
			tt.Event <- peer.TorGetConf{Ch: bar}
			<-bar
			mu.Lock()
			defer mu.Unlock()
			var out []string
			for k, g := range tor.VerifRequested(tt) {
				if len(g.Prio) > 0 {
					p := append([]int8(nil), g.Prio...)
					sort.Slice(p, func(i, j int) bool { return p[i] < p[j] })
					out = append(out, fmt.Sprintf("%d:%v", k, p))
				}
			}
			sort.Strings(out)
			return fmt.Sprint(out)
		}
		history := func() []string {
			mu.Lock()
			defer mu.Unlock()
			return append([]string(nil), hist...)
		}
		limit := int64(have) * 16384
		buf := make([]byte, readSize)
		baseline := held()
		if other {
			ctx2, cancel2 := context.WithCancel(bg)
			defer cancel2()
			rd2 := tt.NewReader(ctx2, 0, x.Length)
			defer rd2.Close()
			rd2.Seek(otherStart, 0)
			if otherStart+int64(readSize) <= limit {
				if n, err := rd2.Read(buf); n == 0 || err != nil {
					rt.Fatalf("second reader: Read inside the verified prefix returned %d, %v", n, err)
				}
			}
			baseline = held()
		}
		ctx, cancel := context.WithCancel(bg)
		defer cancel()
		rd := tt.NewReader(ctx, 0, x.Length)
		rd.Seek(start, 0)
		pos, done := start, 0
		for done < reads && pos+int64(readSize) <= limit {
			n, err := rd.Read(buf)
			if n == 0 || err != nil {
				rt.Fatalf("Read at %d inside the verified prefix (%d pieces) returned %d, %v", pos, have, n, err)
			}
			pos += int64(n)
			done++
		}
		before := held()
		cancel()
		n, err := rd.Read(buf)
		if err == nil {
			rt.Fatalf("Read after the reader's context was cancelled returned %d bytes and no error", n)
		}
		if got := held(); got != baseline {
			rt.Fatalf("a reader at %d made %d reads, was cancelled, and its next Read returned %v: the pieces requested are now %s, want %s (what was requested before this reader came; with it: %s) - the cancelled consumer's priorities must be withdrawn, each exactly once\nevents: %v", start, done, err, got, baseline, before, history())
		}
		rd.Close()
		if got := held(); got != baseline {
			rt.Fatalf("Close of the cancelled reader changed what is requested to %s, want %s\nevents: %v", got, baseline, history())
		}
		labels := []string{"reader-cancelled-between-reads"}
		if before != baseline {
			labels = append(labels, "cancelled-while-holding-priorities")
		}
		if other && baseline != "[]" {
			labels = append(labels, "cancelled-beside-another-consumer")
		}
		stats.Case(fmt.Sprintf("reader-cancel/%d/%d/%d/%v", npieces, have, done, other), before != baseline, labels...)
	})
}
