// C10 — piece requests: no lost wake-ups, no leaked priorities.
package c10

import (
	"context"
	"fmt"
	"sort"
	"testing"
	"time"

	"pgregory.net/rapid"

	"github.com/jech/storrent/config"
	"github.com/jech/storrent/hash"
	"github.com/jech/storrent/peer"
	"github.com/jech/storrent/tor"

	"verif/sim"
	"verif/stats"
)

func TestMain(m *testing.M) { stats.Main(m) }

type waiter struct {
	ch     <-chan struct{}
	piece  int
	closed bool // model: must be closed by now
	why    string
}

type consumer struct {
	held map[int][]int8 // priorities this consumer has registered, per piece
}

type step struct {
	Kind string
	C    int
	I    int
	P    int8
	Want bool
}

func (s step) String() string {
	switch s.Kind {
	case "request":
		return fmt.Sprintf("c%d.request(%d,prio %d,want %v)", s.C, s.I, s.P, s.Want)
	case "withdraw", "withdraw-not-held":
		return fmt.Sprintf("c%d.%s(%d,prio %d)", s.C, s.Kind, s.I, s.P)
	}
	return fmt.Sprintf("%s(%d)", s.Kind, s.I)
}

var kinds = []string{"request", "request", "request", "request", "withdraw", "withdraw", "withdraw", "withdraw-not-held",
	"complete", "data-good", "data-good", "data-bad", "data-dup", "data-dup", "deliver", "deliver", "deliver", "fail", "evict", "idle-tick", "idle-tick", "setconf", "periodic", "avail", "avail"}

func isClosed(ch <-chan struct{}) bool {
	select {
	case <-ch:
		return true
	default:
		return false
	}
}

func run(rt *rapid.T, npieces int, idleRate uint32, steps []step) (fail string, labels map[string]bool, hist []string) {
	labels = map[string]bool{}
	config.SetIdleRate(idleRate)
	defer config.SetIdleRate(64 * 1024)
	x, err := sim.Build(sim.Geometry{PieceSize: 16384, Length: 16384 * int64(npieces), Seed: 3}, "")
	if err != nil {
		return "build: " + err.Error(), labels, nil
	}
	t := x.T
	tor.VerifInit(t)
	ctx := context.Background()
	defer t.Pieces.Del()
	// reference model
	prios := map[int][]int8{}
	var waiters []*waiter
	cons := make([]*consumer, 4)
	for i := range cons {
		cons[i] = &consumer{held: map[int][]int8{}}
	}
	var queued []peer.TorEvent // completion / eviction notices not yet delivered to the loop
	describe := func() string { return fmt.Sprintf("\n%d pieces, idle rate %d; history: %v", npieces, idleRate, hist) }
	handle := func(e peer.TorEvent) string {
		var pv any
		var herr error
		func() {
			defer func() { pv = recover() }()
			herr = tor.VerifHandleEvent(ctx, t, e)
		}()
		if pv != nil {
			return fmt.Sprintf("handling %T%+v panicked: %v", e, e, pv) + describe()
		}
		if herr != nil {
			return fmt.Sprintf("handling %T returned %v", e, herr) + describe()
		}
		return ""
	}
	// the real completion path (TorData{Complete} -> finalisePiece -> hash ->
	// TorHave): verifications observed vs completions announced, per piece
	verifs, announces := map[int]int{}, map[int]int{}
	// drain moves what the finalising goroutines have told the torrent into
	// queued; wait: how long to wait (real time) for at least one event
	var until func() bool // drain returns as soon as this holds (nil: only when the time is up)
	drain := func(wait time.Duration) string {
		deadline := time.Now().Add(wait)
		defer func() { until = nil }()
		for {
			if until != nil && until() {
				return ""
			}
			select {
			case e := <-t.Event:
				switch e := e.(type) {
				case peer.TorHave:
					if e.Have {
						announces[int(e.Index)]++
						if announces[int(e.Index)] > verifs[int(e.Index)] {
							return fmt.Sprintf("completion of piece %d announced %d time(s), it passed verification %d time(s): consumers are woken for a piece that was not verified", e.Index, announces[int(e.Index)], verifs[int(e.Index)]) + describe()
						}
						labels["completion-announced-by-finalisePiece"] = true
					}
					queued = append(queued, e)
				default:
					if f := handle(e); f != "" {
						return f
					}
				}
				continue
			default:
			}
			if !time.Now().Before(deadline) {
				return ""
			}
			time.Sleep(50 * time.Microsecond)
		}
	}
	// settled waits until the piece is no longer being hashed
	settled := func(i int) bool {
		for k := 0; k < 200000; k++ {
			if t.Pieces.Complete(uint32(i)) || t.Pieces.PieceEmpty(uint32(i)) {
				return true
			}
			time.Sleep(50 * time.Microsecond)
		}
		return false
	}
	closeWaiters := func(piece int, why string) {
		for _, w := range waiters {
			if w.piece == piece && !w.closed {
				w.closed, w.why = true, why
			}
		}
	}
	removeOne := func(l []int8, p int8) ([]int8, bool) {
		for i, q := range l {
			if q == p {
				return append(append([]int8{}, l[:i]...), l[i+1:]...), true
			}
		}
		return l, false
	}
	check := func(when string) string {
		got := tor.VerifRequested(t)
		for i, want := range prios {
			if len(want) == 0 {
				continue
			}
			g, ok := got[uint32(i)]
			if !ok {
				return fmt.Sprintf("%s: piece %d is wanted at priorities %v by consumers, but it is not requested any more", when, i, want) + describe()
			}
			a, b := append([]int8{}, want...), append([]int8{}, g.Prio...)
			sort.Slice(a, func(x, y int) bool { return a[x] < a[y] })
			sort.Slice(b, func(x, y int) bool { return b[x] < b[y] })
			if fmt.Sprint(a) != fmt.Sprint(b) {
				return fmt.Sprintf("%s: piece %d is requested at priorities %v, consumers hold %v", when, i, b, a) + describe()
			}
		}
		for i, g := range got {
			if len(prios[int(i)]) == 0 {
				if len(g.Prio) != 0 {
					return fmt.Sprintf("%s: piece %d is still requested at priorities %v although no consumer wants it (leaked priority)", when, i, g.Prio) + describe()
				}
				if g.HasDone {
					return fmt.Sprintf("%s: idle-only entry for piece %d carries a waiter's channel", when, i) + describe()
				}
				labels["idle-only-entry"] = true
				// the prefetcher wants a piece until it is there: once the piece is
				// verified and the loop has been told, the entry has to go
				if t.Pieces.Complete(i) {
					pending := false
					for _, e := range queued {
						if h, ok := e.(peer.TorHave); ok && h.Have && h.Index == i {
							pending = true
						}
					}
					if !pending && len(t.Event) == 0 {
						return fmt.Sprintf("%s: piece %d is complete, its completion has been processed, no consumer wants it, and it is still requested (the prefetcher's entry was never withdrawn)", when, i) + describe()
					}
					labels["idle-entry-for-complete-piece-awaiting-announcement"] = true
				}
			}
		}
		for k, w := range waiters {
			if c := isClosed(w.ch); c != w.closed {
				if c {
					return fmt.Sprintf("%s: waiter %d on piece %d was woken although the piece was not verified and the wait not abandoned", when, k, w.piece) + describe()
				}
				return fmt.Sprintf("%s: waiter %d on piece %d was not woken (%s)", when, k, w.piece, w.why) + describe()
			}
		}
		return ""
	}
	for _, s := range steps {
		i := s.I % npieces
		c := cons[s.C%len(cons)]
		if f := drain(0); f != "" {
			return f, labels, hist
		}
		switch s.Kind {
		case "request":
			hist = append(hist, s.String())
			ch := make(chan (<-chan struct{}), 1)
			var cc chan<- (<-chan struct{})
			if s.Want {
				cc = ch
			}
			complete := t.Pieces.Complete(uint32(i))
			if f := handle(peer.TorRequest{Index: uint32(i), Priority: s.P, Request: true, Ch: cc}); f != "" {
				return f, labels, hist
			}
			if len(prios[i]) > 0 {
				labels["two-consumers-one-piece"] = true
			}
			prios[i] = append(prios[i], s.P)
			c.held[i] = append(c.held[i], s.P)
			if s.Want {
				var done <-chan struct{}
				select {
				case done = <-ch:
				default:
					return fmt.Sprintf("%s: no reply on the request's channel", s) + describe(), labels, hist
				}
				if done == nil && !complete {
					return fmt.Sprintf("%s: piece %d is not complete, yet no channel to wait on was returned", s, i) + describe(), labels, hist
				}
				if done != nil {
					pendingNotice := false
					for _, q := range queued {
						if h, ok := q.(peer.TorHave); ok && int(h.Index) == i && h.Have {
							labels["request-races-with-completion"] = true
							pendingNotice = true
						}
					}
					if complete && !pendingNotice {
						return fmt.Sprintf("%s: piece %d is verified and its completion has already been processed, yet the caller was handed a channel to wait on: nothing will ever close it (lost wake-up)", s, i) + describe(), labels, hist
					}
					known := false
					for _, w := range waiters {
						if w.ch == done {
							known = true
							if w.closed {
								return fmt.Sprintf("%s: returned a channel that has already been closed", s) + describe(), labels, hist
							}
						}
					}
					if !known {
						waiters = append(waiters, &waiter{ch: done, piece: i})
					}
					if isClosed(done) {
						return fmt.Sprintf("%s: returned a closed channel", s) + describe(), labels, hist
					}
				}
			}
		case "withdraw":
			// a priority this consumer holds
			var pieces []int
			for p, l := range c.held {
				if len(l) > 0 {
					pieces = append(pieces, p)
				}
			}
			if len(pieces) == 0 {
				continue
			}
			sort.Ints(pieces)
			p := pieces[s.I%len(pieces)]
			pr := c.held[p][int(s.P+1)%len(c.held[p])]
			hist = append(hist, fmt.Sprintf("c%d.withdraw(%d,prio %d)", s.C%len(cons), p, pr))
			if f := handle(peer.TorRequest{Index: uint32(p), Priority: pr, Request: false}); f != "" {
				return f, labels, hist
			}
			same := 0
			for _, q := range prios[p] {
				if q == pr {
					same++
				}
			}
			if same >= 2 {
				labels["withdraw-one-of-two-equal"] = true
			}
			c.held[p], _ = removeOne(c.held[p], pr)
			prios[p], _ = removeOne(prios[p], pr)
			if len(prios[p]) == 0 {
				closeWaiters(p, "its last priority was withdrawn: the wait is abandoned")
			}
		case "withdraw-not-held":
			hist = append(hist, s.String())
			held := false
			for _, q := range prios[i] {
				if q == s.P {
					held = true
				}
			}
			if held {
				continue // somebody holds exactly this priority; withdrawing it would be a real withdrawal
			}
			if f := handle(peer.TorRequest{Index: uint32(i), Priority: s.P, Request: false}); f != "" {
				return f, labels, hist
			}
			labels["withdraw-not-held"] = true
		case "complete":
			// the piece is stored and verified; the loop hears about it later
			if t.Pieces.Complete(uint32(i)) {
				continue
			}
			hist = append(hist, s.String())
			t.Pieces.AddData(uint32(i), 0, x.Data(i, 0, 16384), ^uint32(0))
			done, _, _ := t.Pieces.Finalise(uint32(i), hash.Hash(x.Hashes[i]))
			if done {
				queued = append(queued, peer.TorHave{Index: uint32(i), Have: true})
			}
		case "deliver":
			if len(queued) == 0 {
				continue
			}
			k := s.I % len(queued)
			e := queued[k]
			queued = append(queued[:k], queued[k+1:]...)
			hist = append(hist, fmt.Sprintf("deliver(%+v)", e))
			if f := handle(e); f != "" {
				return f, labels, hist
			}
			if h := e.(peer.TorHave); h.Have {
				closeWaiters(int(h.Index), "TorHave(true) for it was processed")
				labels["completion-delivered"] = true
			}
		case "data-good", "data-bad", "data-dup":
			// the way data really arrives: the block is stored and the torrent is
			// told (TorData); when that block completes the piece, the real
			// finalisePiece hashes it in a goroutine and announces the result
			// itself.  data-dup: a second peer reports the same last block.
			was := t.Pieces.Complete(uint32(i))
			hist = append(hist, s.String())
			complete := s.Kind == "data-dup"
			if s.Kind != "data-dup" && !was {
				d := append([]byte{}, x.Data(i, 0, 16384)...)
				if s.Kind == "data-bad" {
					d[0] ^= 1
					labels["hash-failure-through-finalisePiece"] = true
				}
				_, c, _ := t.Pieces.AddData(uint32(i), 0, d, ^uint32(0))
				complete = c
			}
			if f := handle(peer.TorData{Index: uint32(i), Begin: 0, Length: 16384, Complete: complete}); f != "" {
				return f, labels, hist
			}
			if !settled(i) {
				rt.Skip("inconclusive: hashing did not end")
			}
			if !was && t.Pieces.Complete(uint32(i)) {
				verifs[i]++
				until = func() bool { return announces[i] == verifs[i] }
				if f := drain(5 * time.Second); f != "" {
					return f, labels, hist
				}
				if announces[i] != verifs[i] {
					return fmt.Sprintf("piece %d passed verification, and 5 s later its completion has not been announced", i) + describe(), labels, hist
				}
			} else {
				if s.Kind == "data-dup" {
					labels["duplicate-completion-report"] = true
					if !was {
						labels["duplicate-completion-report-for-unverified-piece"] = true
					}
				}
				// nothing should come; give a wrong announcement a moment to show up
				if f := drain(300 * time.Microsecond); f != "" {
					return f, labels, hist
				}
			}
		case "fail":
			if t.Pieces.Complete(uint32(i)) {
				continue
			}
			hist = append(hist, s.String())
			bad := append([]byte{}, x.Data(i, 0, 16384)...)
			bad[0] ^= 1
			t.Pieces.AddData(uint32(i), 0, bad, ^uint32(0))
			t.Pieces.Finalise(uint32(i), hash.Hash(x.Hashes[i]))
			labels["hash-failure"] = true
		case "evict":
			hist = append(hist, s.String())
			t.Pieces.Expire(0, nil, func(k uint32) {
				queued = append(queued, peer.TorHave{Index: k, Have: false})
				if len(prios[int(k)]) > 0 {
					labels["evict-while-requested"] = true
				}
			})
		case "idle-tick", "periodic":
			hist = append(hist, s.String())
			var pv any
			func() {
				defer func() { pv = recover() }()
				tor.VerifPeriodicRequest(ctx, t)
			}()
			if pv != nil {
				return fmt.Sprintf("periodicRequest panicked: %v", pv) + describe(), labels, hist
			}
		case "avail":
			// some peer advertises the piece (idle prefetch only picks available pieces)
			hist = append(hist, s.String())
			if f := handle(peer.TorPeerHave{Index: uint32(i), Have: true}); f != "" {
				return f, labels, hist
			}
		case "setconf":
			hist = append(hist, s.String())
			if f := handle(peer.TorSetConf{Conf: peer.TorConf{UseWebseeds: s.I%2 == 0}}); f != "" {
				return f, labels, hist
			}
		}
		// the prefetcher's picks are for an idle torrent: a scheduling pass that
		// finds a consumer waiting for something it can get (requested, not yet
		// there, available) withdraws them, and so does every configuration change
		idleOnly := func() []uint32 {
			var l []uint32
			for i, g := range tor.VerifRequested(t) {
				if len(g.Prio) == 0 {
					l = append(l, i)
				}
			}
			sort.Slice(l, func(a, b int) bool { return l[a] < l[b] })
			return l
		}
		switch s.Kind {
		case "setconf":
			if l := idleOnly(); len(l) > 0 {
				return fmt.Sprintf("after %s: pieces %v are still requested on the idle prefetcher's behalf although the configuration has just changed (its picks are withdrawn on every change)", hist[len(hist)-1], l) + describe(), labels, hist
			}
		case "request", "idle-tick", "periodic":
			avail := tor.VerifAvailable(t)
			waiting := -1
			for i, pl := range prios {
				if len(pl) > 0 && !t.Pieces.Complete(uint32(i)) && i < len(avail) && avail[i] > 0 {
					waiting = i
				}
			}
			if waiting >= 0 {
				labels["scheduling-pass-with-a-consumer-waiting"] = true
				if l := idleOnly(); len(l) > 0 {
					return fmt.Sprintf("after %s: a consumer waits for piece %d (requested, not there yet, available) and pieces %v are still requested on the idle prefetcher's behalf: nobody wants them", hist[len(hist)-1], waiting, l) + describe(), labels, hist
				}
			}
		}
		if f := check("after " + hist[len(hist)-1]); f != "" {
			return f, labels, hist
		}
	}
	if f := drain(time.Millisecond); f != "" {
		return f, labels, hist
	}
	// consumers close: each withdraws what it still holds, exactly once
	for ci, c := range cons {
		var pieces []int
		for p := range c.held {
			pieces = append(pieces, p)
		}
		sort.Ints(pieces)
		for _, p := range pieces {
			for _, pr := range c.held[p] {
				hist = append(hist, fmt.Sprintf("c%d.close:withdraw(%d,%d)", ci, p, pr))
				if f := handle(peer.TorRequest{Index: uint32(p), Priority: pr, Request: false}); f != "" {
					return f, labels, hist
				}
				prios[p], _ = removeOne(prios[p], pr)
				if len(prios[p]) == 0 {
					closeWaiters(p, "its last priority was withdrawn: the wait is abandoned")
				}
			}
			c.held[p] = nil
		}
	}
	if f := check("after every consumer closed"); f != "" {
		return f, labels, hist
	}
	for i, g := range tor.VerifRequested(t) {
		if len(g.Prio) > 0 {
			return fmt.Sprintf("every consumer closed, piece %d is still requested at %v", i, g.Prio) + describe(), labels, hist
		}
	}
	return "", labels, hist
}

func TestC10Requests(t *testing.T) {
	rapid.Check(t, func(rt *rapid.T) {
		np := rapid.IntRange(2, 6).Draw(rt, "pieces")
		idle := rapid.SampledFrom([]uint32{0, 64 * 1024}).Draw(rt, "idleRate")
		n := rapid.IntRange(1, 80).Draw(rt, "nsteps")
		var steps []step
		for i := 0; i < n; i++ {
			steps = append(steps, step{Kind: rapid.SampledFrom(kinds).Draw(rt, "kind"), C: rapid.IntRange(0, 3).Draw(rt, "c"), I: rapid.IntRange(0, 50).Draw(rt, "i"),
				P: int8(rapid.IntRange(-1, 1).Draw(rt, "prio")), Want: rapid.Bool().Draw(rt, "want")})
		}
		fail, labels, _ := run(rt, np, idle, steps)
		if fail != "" {
			rt.Fatalf("%s", fail)
		}
		var l []string
		for k := range labels {
			l = append(l, k)
		}
		sort.Strings(l)
		nontrivial := labels["two-consumers-one-piece"] || labels["request-races-with-completion"] || labels["evict-while-requested"] || labels["withdraw-one-of-two-equal"]
		stats.Case(fmt.Sprint(l), nontrivial, l...)
		if nontrivial && stats.WantSample("c10") {
			stats.Sample("c10", map[string]any{"pieces": np, "idleRate": idle, "steps": fmt.Sprint(steps), "labels": l})
		}
	})
}
