// C06 — emitted messages round-trip and match an independent BitTorrent codec.
package c06

import (
	"bufio"
	"bytes"
	"fmt"
	"io"
	"net"
	"reflect"
	"testing"
	"time"

	"pgregory.net/rapid"

	"github.com/jech/storrent/protocol"

	"verif/conv"
	"verif/gen"
	"verif/ref"
	"verif/stats"
)

func TestMain(m *testing.M) { stats.Main(m) }

// roles storrent can emit
var emitRoles = []int{ref.XHandshake, ref.XPex, ref.XMetadata, ref.XDontHave}

type drawn struct {
	m     ref.Msg
	own   bool // extended sub-id is the one storrent itself listens on
	roles ref.Roles
}

func genEmittable(t *rapid.T, maxPayload int) drawn {
	kind := rapid.SampledFrom(gen.Kinds).Draw(t, "kind")
	role := -1
	own := true
	roles := ref.Roles{}
	var subFor func(int) uint8
	if kind == ref.KExtended {
		role = rapid.SampledFrom(emitRoles).Draw(t, "role")
		if role != ref.XHandshake {
			if rapid.Bool().Draw(t, "ownSub") {
				sub := map[int]uint8{ref.XPex: 1, ref.XMetadata: 2, ref.XDontHave: 3}[role]
				subFor = func(int) uint8 { return sub }
				roles[sub] = role
			} else {
				sub := rapid.Uint8Range(1, 255).Draw(t, "sub")
				subFor = func(int) uint8 { return sub }
				roles[sub] = role
				own = ref.StorrentRoles[sub] == role
			}
		}
	}
	m := gen.Msg(t, kind, role, maxPayload, true, subFor)
	return drawn{m, own, roles}
}

func write(m protocol.Message) (b []byte, err error, pv any) {
	var buf bytes.Buffer
	w := bufio.NewWriter(&buf)
	func() {
		defer func() { pv = recover() }()
		err = protocol.Write(w, m, nil)
	}()
	w.Flush()
	return buf.Bytes(), err, pv
}

func clone(m ref.Msg) ref.Msg {
	m.Data = append([]byte(nil), m.Data...)
	return m
}

func class(d drawn) string {
	m := d.m
	s := fmt.Sprintf("k%d", m.Kind)
	if m.Kind == ref.KExtended {
		s += fmt.Sprintf(".x%d.own%v", m.X, d.own)
	}
	return s
}

func payloadClass(n int) string {
	switch {
	case n == 0:
		return "0"
	case n == 1:
		return "1"
	case n < 16384:
		return "<16K"
	case n == 16384:
		return "16K"
	case n < 1<<19:
		return "<512K"
	default:
		return "big"
	}
}

func fieldClass(v uint32) string {
	switch {
	case v == 0:
		return "0"
	case v < 1<<16:
		return "s"
	case v < 1<<31:
		return "m"
	default:
		return "h"
	}
}

// checkOne applies oracles 1-3 to a single message.
func checkOne(t *rapid.T, d drawn) []byte {
	want := ref.Encode(d.m)
	sm := conv.FromRef(clone(d.m))
	got, err, pv := write(sm)
	if pv != nil {
		t.Fatalf("protocol.Write(%#v) panicked: %v", conv.FromRef(d.m), pv)
	}
	if err != nil {
		t.Fatalf("protocol.Write(%#v): %v", conv.FromRef(d.m), err)
	}
	// 1. differential, encode
	if !bytes.Equal(got, want) {
		i := 0
		for i < len(got) && i < len(want) && got[i] == want[i] {
			i++
		}
		t.Fatalf("encoding differs from the reference at byte %d:\nstorrent  %x\nreference %x\nmessage %+v",
			i, got[:min(len(got), 120)], want[:min(len(want), 120)], d.m)
	}
	// 2. differential, decode: the strict reference decoder accepts storrent's bytes
	back, n, err := ref.Decode(got, d.roles)
	if err != nil || n != len(got) {
		t.Fatalf("reference decoder rejects storrent's bytes %x: %v (consumed %d of %d)", got[:min(len(got), 120)], err, n, len(got))
	}
	if !refEqual(back, d.m) {
		t.Fatalf("reference decoder reads storrent's bytes as %+v, generated %+v", back, d.m)
	}
	// 3. round-trip through storrent's reader
	if d.own {
		r := bufio.NewReaderSize(bytes.NewReader(got), 16)
		m2, err := protocol.Read(r, nil)
		if err != nil {
			t.Fatalf("protocol.Read rejects what protocol.Write produced for %+v: %v", d.m, err)
		}
		if wantm := conv.FromRef(d.m); !conv.Equal(m2, wantm) {
			t.Fatalf("round trip changed the message:\n wrote %#v\n read  %#v", wantm, m2)
		}
		if r.Buffered() != 0 {
			t.Fatalf("round trip left %d bytes", r.Buffered())
		}
		if _, err := r.ReadByte(); err != io.EOF {
			t.Fatalf("round trip did not consume the frame")
		}
	}
	return got
}

func refEqual(a, b ref.Msg) bool {
	norm := func(m ref.Msg) ref.Msg {
		if len(m.Data) == 0 {
			m.Data = nil
		}
		if len(m.Added) == 0 {
			m.Added = nil
		}
		if len(m.Dropped) == 0 {
			m.Dropped = nil
		}
		// the wire groups peers by family
		m.Added = byFamily(m.Added)
		m.Dropped = byFamily(m.Dropped)
		if m.HS != nil {
			h := *m.HS
			if len(h.M) == 0 && h.M != nil {
				h.M = map[string]uint8{}
			}
			m.HS = &h
		}
		return m
	}
	return reflect.DeepEqual(norm(a), norm(b))
}

func byFamily(l []ref.PexPeer) []ref.PexPeer {
	var v4, v6 []ref.PexPeer
	for _, p := range l {
		if p.Addr.Addr().Is4() {
			v4 = append(v4, p)
		} else {
			v6 = append(v6, p)
		}
	}
	return append(v4, v6...)
}

func TestC06Messages(t *testing.T) {
	rapid.Check(t, func(t *rapid.T) {
		maxp := 40000
		if rapid.IntRange(0, 19).Draw(t, "bigpayload") == 0 {
			maxp = 1<<20 - 9
		}
		d := genEmittable(t, maxp)
		checkOne(t, d)
		m := d.m
		nontrivial := len(m.Data) > 0 || m.Kind == ref.KExtended
		labels := []string{"type:" + class(d)}
		if m.Kind == ref.KExtended && m.X == ref.XPex {
			var has4, has6, mapped bool
			for _, p := range append(append([]ref.PexPeer{}, m.Added...), m.Dropped...) {
				if p.Addr.Addr().Is4() {
					has4 = true
				} else {
					has6 = true
					if p.Addr.Addr().Is4In6() {
						mapped = true
					}
				}
			}
			if has4 && has6 {
				labels = append(labels, "pex-mixed-families")
			}
			if mapped {
				labels = append(labels, "pex-v4-mapped")
			}
		}
		fp := fmt.Sprintf("%s/p%s/%s%s%s", class(d), payloadClass(len(m.Data)), fieldClass(m.Index), fieldClass(m.Begin), fieldClass(m.Length))
		if m.HS != nil {
			h := m.HS
			fp += fmt.Sprintf("/hs%v%v%v%v%v%v%d", h.V != nil, h.P != nil, h.ReqQ != nil, h.IPv4 != nil, h.IPv6 != nil, h.MetadataSize != nil, len(h.M))
		}
		if m.X == ref.XPex {
			fp += fmt.Sprintf("/a%d.d%d", len(m.Added), len(m.Dropped))
		}
		stats.Case(fp, nontrivial, labels...)
		if stats.WantSample("message:" + class(d)) {
			e := ref.Encode(m)
			stats.Sample("message:"+class(d), fmt.Sprintf("%x", e[:min(len(e), 80)]))
		}
	})
}

// ------------------------------------------------------------------ streams

// planReader returns at most the next planned number of bytes per Read.
type planReader struct {
	b    []byte
	plan []int
	i    int
}

func (p *planReader) Read(q []byte) (int, error) {
	if len(p.b) == 0 {
		return 0, io.EOF
	}
	n := 1 << 30
	if len(p.plan) > 0 {
		n = p.plan[p.i%len(p.plan)]
		p.i++
	}
	n = min(n, len(q), len(p.b))
	copy(q, p.b[:n])
	p.b = p.b[n:]
	return n, nil
}

type fakeConn struct{ planReader }

func (c *fakeConn) Write(b []byte) (int, error)      { return len(b), nil }
func (c *fakeConn) Close() error                     { return nil }
func (c *fakeConn) LocalAddr() net.Addr              { return &net.TCPAddr{} }
func (c *fakeConn) RemoteAddr() net.Addr             { return &net.TCPAddr{} }
func (c *fakeConn) SetDeadline(time.Time) error      { return nil }
func (c *fakeConn) SetReadDeadline(time.Time) error  { return nil }
func (c *fakeConn) SetWriteDeadline(time.Time) error { return nil }

func TestC06Streams(t *testing.T) {
	rapid.Check(t, func(t *rapid.T) {
		n := rapid.IntRange(1, 12).Draw(t, "n")
		var stream []byte
		var msgs []protocol.Message
		var bounds []int
		foreign := false
		for i := 0; i < n; i++ {
			d := genEmittable(t, 20000)
			if !d.own && d.m.Sub <= 4 {
				// ids 1-4 mean something else to storrent; a peer writing to
				// storrent never uses them for another role
				d.m.Sub, d.own = map[int]uint8{ref.XPex: 1, ref.XMetadata: 2, ref.XDontHave: 3}[d.m.X], true
			}
			b, err, pv := write(conv.FromRef(clone(d.m)))
			if err != nil || pv != nil {
				t.Fatalf("write: %v %v", err, pv)
			}
			bounds = append(bounds, len(stream))
			stream = append(stream, b...)
			if d.own {
				msgs = append(msgs, conv.FromRef(d.m))
			} else {
				// a sub-id storrent does not listen on: it must be skipped
				// as an unknown extension without losing framing
				msgs = append(msgs, protocol.ExtendedUnknown{Subtype: d.m.Sub})
				foreign = true
			}
		}
		// cut plan
		var plan []int
		mode := rapid.SampledFrom([]string{"bytewise", "random", "prefix-cuts", "whole"}).Draw(t, "plan")
		switch mode {
		case "bytewise":
			plan = []int{1}
		case "random":
			plan = rapid.SliceOfN(rapid.IntRange(1, 700), 1, 40).Draw(t, "sizes")
		case "prefix-cuts":
			// cut inside every length prefix: read sizes so that each message's
			// first 1-3 bytes arrive alone
			k := rapid.IntRange(1, 3).Draw(t, "k")
			pos := 0
			for i, b := range bounds {
				_ = i
				if b+k > pos {
					if b+k-pos > 0 {
						plan = append(plan, b+k-pos)
					}
					pos = b + k
				}
			}
			if len(plan) == 0 {
				plan = []int{k}
			}
		}
		cutInPrefix := mode == "bytewise" || mode == "prefix-cuts"
		if mode == "random" {
			pos, i := 0, 0
			for pos < len(stream) {
				pos += plan[i%len(plan)]
				i++
				for _, b := range bounds {
					if pos > b && pos < b+4 {
						cutInPrefix = true
					}
				}
			}
		}
		// (a) protocol.Read through a bufio.Reader over the plan
		{
			r := bufio.NewReaderSize(&planReader{b: stream, plan: plan}, 16)
			for i, want := range msgs {
				m, err := protocol.Read(r, nil)
				if err != nil {
					t.Fatalf("plan %s: message %d of %d: %v", mode, i, n, err)
				}
				if !conv.Equal(m, want) {
					t.Fatalf("plan %s: message %d: read %#v, wrote %#v", mode, i, m, want)
				}
			}
			if m, err := protocol.Read(r, nil); err == nil {
				t.Fatalf("plan %s: extra message %#v after the end of the stream", mode, m)
			}
		}
		// (b) protocol.Reader with the stream split between init and the conn
		split := rapid.IntRange(0, len(stream)).Draw(t, "initSplit")
		inside := false
		for i, b := range bounds {
			end := len(stream)
			if i+1 < len(bounds) {
				end = bounds[i+1]
			}
			if split > b && split < end {
				inside = true
			}
		}
		{
			conn := &fakeConn{planReader{b: stream[split:], plan: plan}}
			ch := make(chan protocol.Message)
			done := make(chan struct{})
			go protocol.Reader(conn, stream[:split], nil, ch, done)
			for i, want := range msgs {
				m := <-ch
				if e, ok := m.(protocol.Error); ok {
					close(done)
					t.Fatalf("Reader(init=%d bytes) plan %s: message %d of %d: error %v", split, mode, i, n, e.Error)
				}
				if !conv.Equal(m, want) {
					close(done)
					t.Fatalf("Reader(init=%d bytes) plan %s: message %d: read %#v, wrote %#v", split, mode, i, m, want)
				}
			}
			m := <-ch
			close(done)
			if e, ok := m.(protocol.Error); !ok || e.Error != io.EOF {
				t.Fatalf("Reader: after the last message got %#v, want a clean EOF", m)
			}
		}
		labels := []string{"plan:" + mode}
		if cutInPrefix {
			labels = append(labels, "cut-in-prefix")
		}
		if inside {
			labels = append(labels, "init-split")
		}
		if foreign {
			labels = append(labels, "foreign-sub-id-in-stream")
		}
		stats.Case(fmt.Sprintf("%s/%d/%v/%v/%d", mode, n, cutInPrefix, inside, len(stream)/4096), cutInPrefix || inside || n > 1, labels...)
		if stats.WantSample("stream:" + mode) {
			stats.Sample("stream:"+mode, map[string]any{"messages": n, "bytes": len(stream), "plan": plan[:min(len(plan), 12)], "init": split})
		}
	})
}
