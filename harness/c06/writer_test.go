package c06

// The writer goroutine (protocol.Writer) takes whatever is queued and writes
// it as one batch through a buffered writer.  Whatever the batch - small
// messages around full-size blocks, several blocks in a row - the bytes on
// the wire decode, with the independent codec, to the same messages in the
// same order.

import (
	"fmt"
	"net"
	"testing"
	"time"

	"pgregory.net/rapid"

	"github.com/jech/storrent/protocol"

	"verif/conv"
	"verif/gen"
	"verif/ref"
	"verif/stats"
)

func TestC06WriterBatches(t *testing.T) {
	rapid.Check(t, func(t *rapid.T) {
		n := rapid.IntRange(1, 14).Draw(t, "n")
		var want []ref.Msg
		roles := ref.Roles{}
		blocks, small := 0, 0
		for i := 0; i < n; i++ {
			var m ref.Msg
			switch rapid.IntRange(0, 5).Draw(t, "what") {
			case 0, 1:
				// a block: full size, or the short tail of a torrent
				l := rapid.SampledFrom([]int{16384, 16384, 16384, 1, 100, 16383}).Draw(t, "blocklen")
				m = ref.Msg{Kind: ref.KPiece, Index: gen.U32(t, "i"), Begin: gen.U32(t, "b"), Data: gen.Bytes(t, "data", l)}
				blocks++
			default:
				d := genEmittable(t, 2000)
				if !d.own {
					i--
					continue
				}
				m = d.m
				for k, v := range d.roles {
					roles[k] = v
				}
				small++
			}
			want = append(want, m)
		}
		ch := make(chan protocol.Message, len(want)+1)
		batches := rapid.IntRange(1, 3).Draw(t, "batches")
		a, b := net.Pipe()
		done := make(chan struct{})
		werr := make(chan error, 1)
		// the first batch is queued before the writer starts: it finds all of it
		per := (len(want) + batches - 1) / batches
		queue := func(from, to int) {
			for _, m := range want[from:min(to, len(want))] {
				ch <- conv.FromRef(clone(m))
			}
		}
		queue(0, per)
		go func() { werr <- protocol.Writer(a, nil, ch, done) }()
		// how much must arrive: what the independent encoder makes of the batch
		expect := 0
		for _, w := range want {
			expect += len(ref.Encode(w))
		}
		got := make(chan []byte, 1)
		go func() {
			var all []byte
			buf := make([]byte, 65536)
			for len(all) < expect {
				b.SetReadDeadline(time.Now().Add(3 * time.Second))
				k, err := b.Read(buf)
				all = append(all, buf[:k]...)
				if err != nil {
					break
				}
			}
			got <- all
		}()
		for from := per; from < len(want); from += per {
			time.Sleep(200 * time.Microsecond)
			queue(from, from+per)
		}
		stream := <-got
		// (the writer drops what is still buffered when its queue is closed: the
		// queue is closed only now)
		close(ch)
		go func() {
			buf := make([]byte, 4096)
			for {
				if _, err := b.Read(buf); err != nil {
					return
				}
			}
		}()
		if err := <-werr; err != nil {
			t.Fatalf("Writer: %v", err)
		}
		a.Close()
		b.Close()
		if len(stream) < expect {
			t.Fatalf("%d bytes arrived within 3 s, the batch encodes to %d", len(stream), expect)
		}
		rest := stream
		for i, w := range want {
			m, k, err := ref.Decode(rest, ref.StorrentRoles)
			if err != nil {
				t.Fatalf("message %d of %d: the wire does not decode (%v); expected %s", i, len(want), err, describe(w))
			}
			exp := conv.FromRef(clone(w))
			if !conv.Equal(conv.FromRef(m), exp) {
				t.Fatalf("message %d of %d on the wire is %s, queued was %s (batch of %d blocks and %d other messages)", i, len(want), describe(m), describe(w), blocks, small)
			}
			rest = rest[k:]
		}
		if len(rest) != 0 {
			t.Fatalf("%d bytes on the wire after the last message", len(rest))
		}
		labels := []string{"writer-batch"}
		if blocks > 0 && small > 0 {
			labels = append(labels, "writer-batch:blocks-among-small-messages")
		}
		if blocks > 1 {
			labels = append(labels, "writer-batch:several-blocks")
		}
		stats.Case(fmt.Sprintf("wb/%d/%d/%d", min(blocks, 4), min(small, 6), batches), blocks > 0 && small > 0, labels...)
	})
}

func describe(m ref.Msg) string {
	return fmt.Sprintf("{kind %d ext %d index %d begin %d length %d data %dB added %d dropped %d}", m.Kind, m.X, m.Index, m.Begin, m.Length, len(m.Data), len(m.Added), len(m.Dropped))
}
