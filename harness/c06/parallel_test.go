package c06

// Several connections at once.  Each connection has its own writer goroutine
// (protocol.Writer), but the encoders share process-wide state (the pool of
// 16 KiB block buffers, and whatever else a change introduces).  Every
// connection's queue starts with enough small messages to fill the writer's
// 4 KiB buffer to a drawn point, so that the extended messages and blocks that
// follow straddle a flush; the receiving ends read slowly, so writers block in
// the middle of a message while other writers encode theirs; and some
// connections fail in mid-stream.
//
// Oracles: the bytes that arrived on each connection decode, with the
// independent codec, to exactly the messages queued on that connection (a
// prefix of them where the connection failed), payloads included; and after
// all of it, the block-buffer pool does not hand out one buffer twice.

import (
	"errors"
	"fmt"
	"net"
	"net/netip"
	"os"
	"runtime"
	"sync"
	"sync/atomic"
	"testing"
	"time"
	"unsafe"

	"pgregory.net/rapid"

	"github.com/jech/storrent/protocol"

	"verif/conv"
	"verif/gen"
	"verif/ref"
	"verif/stats"
)

// failConn fails the write that would carry its stream beyond failAt bytes
// (after passing on the part before that point).
type failConn struct {
	net.Conn
	failAt  int // -1: never
	written int
}

func (c *failConn) Write(p []byte) (int, error) {
	if c.failAt >= 0 && c.written+len(p) > c.failAt {
		n := c.failAt - c.written
		if n > 0 {
			k, _ := c.Conn.Write(p[:n])
			c.written += k
		}
		c.failAt = c.written // every later write fails at once
		return max(n, 0), errors.New("connection reset by peer")
	}
	n, err := c.Conn.Write(p)
	c.written += n
	return n, err
}

type parConn struct {
	want     []ref.Msg
	failAt   int
	stream   []byte
	werr     error
	readGap  time.Duration
	backlog  bool
	expect   int // bytes the whole queue encodes to
	received atomic.Int64
	stalled  bool // nothing arrived for a minute of real time: the machine, not the code
}

// tail appends one of the larger messages to the connection's queue.
func (c *parConn) tail(t *rapid.T, ci, i int, blocksp, extsp *int) {
	blocks, exts := *blocksp, *extsp
	tag := uint64(ci)<<32 | uint64(i)<<8
	switch rapid.IntRange(0, 5).Draw(t, "what") {
	case 0, 1:
		c.want = append(c.want, ref.Msg{Kind: ref.KPiece, Index: uint32(ci), Begin: uint32(i) * 16384, Data: gen.Fill(tag|1, 16384)})
		blocks++
	case 2:
		total := uint32(1 << 20)
		c.want = append(c.want, ref.Msg{Kind: ref.KExtended, Sub: 2, X: ref.XMetadata, MetaType: 1, MetaPiece: uint32(i), MetaTotal: &total, Data: gen.Fill(tag|2, rapid.SampledFrom([]int{100, 5000, 16384}).Draw(t, "metalen"))})
		exts++
	case 3:
		var added []ref.PexPeer
		for k, n := 0, rapid.IntRange(1, 40).Draw(t, "npex"); k < n; k++ {
			added = append(added, ref.PexPeer{Addr: netip.AddrPortFrom(netip.AddrFrom4([4]byte{byte(11 + ci), byte(i + 1), byte(k / 250), byte(k%250 + 1)}), uint16(1000+k)), Flags: byte(ci*16+i) & 0x1f})
		}
		c.want = append(c.want, ref.Msg{Kind: ref.KExtended, Sub: 1, X: ref.XPex, Added: added})
		exts++
	case 4:
		v := fmt.Sprintf("connection-%d-message-%d-%s", ci, i, string(gen.Fill(tag|4, 40)))
		c.want = append(c.want, ref.Msg{Kind: ref.KExtended, Sub: 0, X: ref.XHandshake, HS: &ref.ExtHS{V: &v, M: map[string]uint8{"ut_pex": 1, "ut_metadata": 3}, UploadOnly: new(bool)}})
		exts++
	default:
		c.want = append(c.want, ref.Msg{Kind: ref.KHave, Index: uint32(ci*1000 + i)})
	}

	*blocksp, *extsp = blocks, exts
}

func TestC06ConnectionsInParallel(t *testing.T) {
	rapid.Check(t, func(t *rapid.T) {
		// on how many processors: per-processor caches (sync.Pool) make sharing
		// between connections depend on it
		procs := rapid.SampledFrom([]int{1, 2, 2, 4, 0}).Draw(t, "GOMAXPROCS")
		if procs > 0 {
			defer runtime.GOMAXPROCS(runtime.GOMAXPROCS(procs))
		}
		fatal := func(format string, a ...any) {
			// (a failure that depends on the schedule is reported by rapid as
			// "flaky": the text goes to the output as well)
			msg := fmt.Sprintf(format, a...)
			fmt.Fprintf(os.Stdout, "TestC06ConnectionsInParallel: %s\n", msg)
			t.Fatalf("%s", msg)
		}
		nconn := rapid.IntRange(2, 8).Draw(t, "connections")
		conns := make([]*parConn, nconn)
		exts, blocks, failing := 0, 0, 0
		for ci := range conns {
			c := &parConn{failAt: -1, backlog: rapid.Bool().Draw(t, "backlog"), readGap: time.Duration(rapid.SampledFrom([]int{0, 20, 200}).Draw(t, "readGapMicros")) * time.Microsecond}
			// rounds of: small messages up to a drawn fill of the writer's 4096-byte
			// buffer, then the messages that are to straddle the flush
			rounds := rapid.IntRange(1, 12).Draw(t, "rounds")
			seq := 0
			for r := 0; r < rounds; r++ {
				for i, n := 0, rapid.IntRange(225, 245).Draw(t, "requests"); i < n; i++ {
					c.want = append(c.want, ref.Msg{Kind: ref.KRequest, Index: uint32(ci), Begin: uint32(i) * 16384, Length: 16384})
				}
				seq += 16
				for i, n := seq, seq+rapid.IntRange(1, 4).Draw(t, "tail"); i < n; i++ {
					c.tail(t, ci, i, &blocks, &exts)
				}
			}
			for _, m := range c.want {
				c.expect += len(ref.Encode(m))
			}
			if rapid.IntRange(0, 3).Draw(t, "fails") == 0 {
				c.failAt = rapid.IntRange(0, c.expect).Draw(t, "failAt")
				failing++
			}
			conns[ci] = c
		}
		var wg sync.WaitGroup
		for _, c := range conns {
			a, b := net.Pipe()
			fc := &failConn{Conn: a, failAt: c.failAt}
			// the queue between a peer and its writer: as short as storrent's own
			// (64: the writer keeps up, batches are small), or long enough to hold
			// a backlog that fills the writer's buffer many times over
			qcap := 64
			if c.backlog {
				qcap = len(c.want) + 1
			}
			ch := make(chan protocol.Message, qcap)
			done := make(chan struct{})
			wg.Add(3)
			startWriter := make(chan struct{})
			go func() {
				defer wg.Done()
				<-startWriter
				c.werr = protocol.Writer(fc, nil, ch, done)
				a.Close()
			}()
			if !c.backlog {
				close(startWriter)
			}
			go func() {
				// the peer's side: it queues its messages one by one; blocks take
				// their buffer from the shared pool at that moment
				defer wg.Done()
				defer close(ch)
				for _, w := range c.want {
					m := conv.FromRef(clone(w))
					if pc, ok := m.(protocol.Piece); ok && len(pc.Data) == 16384 {
						buf := protocol.GetBuffer(16384)
						copy(buf, pc.Data)
						pc.Data = buf
						m = pc
					}
					select {
					case ch <- m:
					case <-done:
						return
					}
				}
				if c.backlog {
					close(startWriter)
				}
				// (the writer drops what is still buffered when its queue is closed:
				// the queue is closed when everything has arrived, or the writer has ended)
			flushed:
				for k := 0; k < 600000 && c.received.Load() < int64(c.expect); k++ {
					select {
					case <-done:
						break flushed
					case <-time.After(100 * time.Microsecond):
					}
				}
			}()
			go func() {
				defer wg.Done()
				buf := make([]byte, 1500)
				for {
					b.SetReadDeadline(time.Now().Add(60 * time.Second))
					k, err := b.Read(buf)
					c.stream = append(c.stream, buf[:k]...)
					c.received.Add(int64(k))
					if err != nil {
						var ne net.Error
						if errors.As(err, &ne) && ne.Timeout() {
							c.stalled = true
						}
						b.Close()
						return
					}
					if c.readGap > 0 {
						time.Sleep(c.readGap)
					}
				}
			}()
		}
		t0 := time.Now()
		wg.Wait()
		if os.Getenv("VERIF_C06_TIMING") != "" {
			fmt.Fprintf(os.Stdout, "case: %d conns, %d failing, wait %v\n", len(conns), failing, time.Since(t0))
		}
		complete := 0
		for _, c := range conns {
			if c.stalled {
				t.Skip("inconclusive: a connection saw no data for 60 s of real time")
			}
		}
		for ci, c := range conns {
			rest := c.stream
			decoded := 0
			for i, w := range c.want {
				if len(rest) == 0 {
					break
				}
				m, k, err := ref.Decode(rest, ref.StorrentRoles)
				if err != nil {
					if c.failAt >= 0 {
						// cut in mid-message by the failure: the whole messages before it count
						break
					}
					if os.Getenv("VERIF_C06_TIMING") != "" {
						fmt.Printf("DEBUG rest=%d want=%d head=%x wanthead=%x stream=%d werr=%v\n", len(rest), len(ref.Encode(w)), rest[:min(len(rest), 40)], ref.Encode(w)[:40], len(c.stream), c.werr)
					}
					fatal("connection %d of %d, message %d: the wire does not decode (%v); queued was %s", ci, len(conns), i, err, describe(w))
				}
				if !conv.Equal(conv.FromRef(m), conv.FromRef(clone(w))) {
					fatal("connection %d of %d (%d extended messages and %d blocks on all connections, %d connections failing): message %d on the wire is %s, queued on this connection was %s",
						ci, len(conns), exts, blocks, failing, i, describe(m), describe(w))
				}
				rest = rest[k:]
				decoded++
			}
			if c.failAt < 0 && c.werr != nil {
				fatal("connection %d: Writer failed on a healthy connection: %v", ci, c.werr)
			}
			if c.failAt < 0 && (decoded != len(c.want) || len(rest) != 0) {
				fatal("connection %d of %d is healthy: %d of its %d messages arrived, %d bytes are left over", ci, len(conns), decoded, len(c.want), len(rest))
			}
			if decoded == len(c.want) {
				complete++
			}
		}
		// the pool of block buffers must not hold one buffer twice
		seen := map[uintptr]bool{}
		var held [][]byte
		for i := 0; i < 64; i++ {
			b := protocol.GetBuffer(16384)
			p := uintptr(unsafe.Pointer(&b[0]))
			if seen[p] {
				fatal("the block-buffer pool handed out the same 16 KiB buffer twice (%d connections, %d of them failed in mid-stream, %d blocks queued): two users now share one buffer", len(conns), failing, blocks)
			}
			seen[p] = true
			held = append(held, b)
		}
		_ = held
		labels := []string{"parallel-writers"}
		if failing > 0 && blocks > 0 {
			labels = append(labels, "parallel-writers:a-connection-fails-with-blocks-queued")
		}
		if exts > 1 {
			labels = append(labels, "parallel-writers:extended-messages-on-several-connections")
		}
		stats.Case(fmt.Sprintf("par/%d/%v/%v", len(conns), failing > 0, complete), exts > 1 && blocks > 0, labels...)
	})
}
