package c06

// The reader goroutine (protocol.Reader) against a peer that pauses: the
// byte stream of a message sequence reaches the connection in pieces, cut at
// arbitrary points - in particular in the middle of a message - with pauses
// of up to five minutes between the pieces (the reader gives up on a peer
// that has been silent for six).  The messages delivered must be the ones
// sent, in order, none lost, none invented.  Virtual time (a bubble).

import (
	"fmt"
	"net"
	"testing"
	"time"

	"pgregory.net/rapid"

	"github.com/jech/storrent/protocol"

	"verif/conv"
	"verif/gen"
	"verif/ref"
	"verif/sim"
	"verif/stats"
)

func TestC06ReaderPauses(tt *testing.T) {
	sim.Init()
	rapid.Check(tt, func(t *rapid.T) {
		var want []ref.Msg
		var stream []byte
		for i, n := 0, rapid.IntRange(1, 8).Draw(t, "n"); i < n; i++ {
			var m ref.Msg
			switch rapid.IntRange(0, 4).Draw(t, "what") {
			case 0:
				m = ref.Msg{Kind: ref.KPiece, Index: gen.U32(t, "i"), Begin: gen.U32(t, "b"), Data: gen.Bytes(t, "data", rapid.SampledFrom([]int{16384, 1, 5000}).Draw(t, "blocklen"))}
			case 1:
				m = ref.Msg{Kind: ref.KRequest, Index: gen.U32(t, "i"), Begin: gen.U32(t, "b"), Length: 16384}
			case 2:
				m = ref.Msg{Kind: ref.KHave, Index: gen.U32(t, "i")}
			case 3:
				m = ref.Msg{Kind: ref.KBitfield, Data: gen.Bytes(t, "bf", rapid.IntRange(1, 300).Draw(t, "bflen"))}
			default:
				total := uint32(1 << 20)
				m = ref.Msg{Kind: ref.KExtended, Sub: 2, X: ref.XMetadata, MetaType: 1, MetaPiece: gen.U32(t, "mp") % 64, MetaTotal: &total, Data: gen.Bytes(t, "md", rapid.SampledFrom([]int{0, 700, 16384}).Draw(t, "mdlen"))}
			}
			want = append(want, m)
			stream = append(stream, ref.Encode(m)...)
		}
		// the cuts, and the pause after each piece
		type seg struct {
			n     int
			pause time.Duration
		}
		var segs []seg
		glued := rapid.IntRange(0, min(len(stream), 200)).Draw(t, "glued") // arrives with the handshake
		// (the reader allows six minutes per message: all pauses together stay below that)
		total := time.Duration(0)
		for left := len(stream) - glued; left > 0; {
			n := min(left, rapid.SampledFrom([]int{1, 2, 3, 4, 5, 13, 100, 4000, 4096, 20000}).Draw(t, "seglen"))
			p := rapid.SampledFrom([]time.Duration{0, 0, time.Millisecond, time.Second, 2100 * time.Millisecond, 59 * time.Second, 5 * time.Minute}).Draw(t, "pause")
			if total+p > 5*time.Minute+30*time.Second {
				p = 0
			}
			total += p
			segs = append(segs, seg{n, p})
			left -= n
		}
		var got []protocol.Message
		var rerr error
		longest := time.Duration(0)
		leak := sim.Bubble(tt, func() {
			a, b := net.Pipe()
			ch := make(chan protocol.Message, 4)
			done := make(chan struct{})
			go protocol.Reader(b, append([]byte(nil), stream[:glued]...), nil, ch, done)
			go func() {
				off := glued
				for _, s := range segs {
					a.Write(stream[off : off+s.n])
					off += s.n
					time.Sleep(s.pause)
				}
				// the peer stays connected and silent for a while, then goes
				time.Sleep(time.Minute)
				a.Close()
			}()
			for m := range ch {
				if e, ok := m.(protocol.Error); ok {
					rerr = e.Error
					break
				}
				got = append(got, m)
				if len(got) == len(want) {
					break
				}
			}
			close(done)
			a.Close()
			b.Close()
		})
		for _, s := range segs {
			longest = max(longest, s.pause)
		}
		if leak != "" {
			t.Fatalf("goroutines left behind: %s", leak)
		}
		for i, w := range want {
			if i >= len(got) {
				t.Fatalf("%d messages were sent (%d bytes, in %d pieces, longest pause %v), %d were delivered (then: %v); message %d, %s, never arrived", len(want), len(stream), len(segs)+1, longest, len(got), rerr, i, describe(w))
			}
			if !conv.Equal(got[i], conv.FromRef(clone(w))) {
				t.Fatalf("message %d of %d delivered by the reader is %s, sent was %s (%d bytes in %d pieces, longest pause %v)", i, len(want), describeP(got[i]), describe(w), len(stream), len(segs)+1, longest)
			}
		}
		labels := []string{"reader-pauses"}
		if longest >= 2*time.Second {
			labels = append(labels, "reader-pauses:pause-of-seconds-or-minutes-in-mid-stream")
		}
		stats.Case(fmt.Sprintf("rp/%d/%v", min(len(want), 4), longest >= 2*time.Second), longest >= 2*time.Second, labels...)
	})
}

func describeP(m protocol.Message) string {
	r, ok := conv.ToRef(m)
	if !ok {
		return fmt.Sprintf("%T", m)
	}
	return describe(r)
}
