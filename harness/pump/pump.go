// Package pump is engine E3: the real peer and torrent handlers called from
// harness goroutines through verif-tagged forwarders.  The harness owns the
// loops that peer.Run and Torrent.run normally own, so it chooses the order in
// which messages and events are handled, panics surface in harness goroutines
// (recoverable, hence shrinkable), and allocation per message can be measured.
//
// One goroutine per peer services the peer's event mailbox, because the
// torrent's scheduler performs synchronous rendezvous with peers
// (Peer.GetStatus and friends); calls into one peer are serialised by a mutex.
package pump

import (
	"bufio"
	"context"
	"fmt"
	"io"
	"net/netip"
	"runtime/debug"
	"slices"
	"strings"
	"sync"

	"github.com/jech/storrent/hash"
	"github.com/jech/storrent/peer"
	"github.com/jech/storrent/protocol"
	"github.com/jech/storrent/tor"

	"verif/segconn"
	"verif/sim"
)

type PP struct {
	P          *peer.Peer
	N          int
	mu         sync.Mutex
	torEvents  chan peer.TorEvent
	writer     chan protocol.Message
	wdone      chan struct{}
	stop       chan struct{}
	Alive      bool
	Sent       []protocol.Message // what storrent wrote to this peer since the last TakeSent
	sentMu     sync.Mutex
	panicked   string
	conn       *segconn.End
	w          *World
	hold       chan struct{} // non-nil while the harness plays a remote that does not read
	holdReq    chan struct{}
	mu2        sync.Mutex
	writePanic string
	gateMu     sync.Mutex
	gate       chan struct{} // non-nil while the peer's goroutine is not scheduled (PauseMailbox)
	pauseReq   chan chan struct{}
}

// PauseMailbox stops the peer's goroutine from taking commands out of its
// mailbox (a goroutine that is not scheduled for a while): what the torrent
// sends piles up, up to the mailbox's capacity.  It returns when the
// goroutine has finished what it was handling.  ResumeMailbox undoes it.
func (pp *PP) PauseMailbox() {
	pp.gateMu.Lock()
	if pp.gate != nil {
		pp.gateMu.Unlock()
		return
	}
	g := make(chan struct{})
	pp.gate = g
	pp.gateMu.Unlock()
	select {
	case pp.pauseReq <- g:
	case <-pp.stop:
	}
}

func (pp *PP) ResumeMailbox() {
	pp.gateMu.Lock()
	if pp.gate != nil {
		close(pp.gate)
		pp.gate = nil
	}
	pp.gateMu.Unlock()
}

// WriterCap is the capacity of the channel between a peer and its writer
// (peer.Run uses 64).
var WriterCap = 64

// StopReading makes the remote stop reading: what storrent writes to this
// peer piles up in the writer channel (write congestion).
func (pp *PP) StopReading() {
	pp.sentMu.Lock()
	already := pp.hold != nil
	if !already {
		pp.hold = make(chan struct{})
	}
	pp.sentMu.Unlock()
	if already {
		return
	}
	// wait until the draining goroutine has seen it: nothing is taken from the
	// writer channel after StopReading has returned
	select {
	case pp.holdReq <- struct{}{}:
	case <-pp.stop:
	}
}

// Congested reports whether more than half of the writer channel is in use.
func (pp *PP) Congested() bool { return len(pp.writer) > cap(pp.writer)/2 }

type World struct {
	T     *tor.Torrent
	Ctx   context.Context
	Peers []*PP
	// Pending are events peers have emitted and the torrent has not handled yet, in order of emission.
	Pending []peer.TorEvent
	// ReverseCollect: events of different peers that are in transit at the same
	// time reach the torrent in the opposite order (last peer first)
	ReverseCollect bool
	// NextAddr, when valid, is the address of the next peer added (then reset);
	// LastAddr is the address the last added peer got
	NextAddr, LastAddr netip.AddrPort
}

type Caps struct {
	Fast, Extended, DHT bool
	AddrClass           string // "" (global IPv4) | loopback | link-local | private | port-0 | v6
}

// NewWorld prepares t for a harness-played loop.
func NewWorld(t *tor.Torrent) *World {
	sim.Init()
	tor.VerifInit(t)
	return &World{T: t, Ctx: context.Background()}
}

func firstFrames(st []byte) string {
	var keep []string
	for _, l := range strings.Split(string(st), "\n") {
		if strings.Contains(l, "storrent/") && !strings.Contains(l, "verif") {
			keep = append(keep, strings.TrimSpace(l))
		}
		if len(keep) >= 6 {
			break
		}
	}
	return strings.Join(keep, " <- ")
}

// AddPeer creates a real peer.Peer, attaches it to the torrent and starts
// servicing its mailbox.
func (w *World) AddPeer(caps Caps, incoming bool) *PP {
	n := len(w.Peers) + 1
	a, _ := segconn.Pair(segconn.Plan{}, segconn.Plan{})
	id := make([]byte, 20)
	copy(id, fmt.Sprintf("-VF0001-pumped%06d", n))
	addr := netip.AddrPortFrom(netip.AddrFrom4([4]byte{8, 9, byte(n >> 8), byte(n)}), uint16(30000+n))
	if w.NextAddr.IsValid() {
		// a peer that comes back from the address of an earlier one
		addr, w.NextAddr = w.NextAddr, netip.AddrPort{}
	} else {
		w.assign(&addr, caps, n)
	}
	w.LastAddr = addr
	res := protocol.HandshakeResult{Hash: w.T.Hash, Id: hash.Hash(id), Dht: caps.DHT, Fast: caps.Fast, Extended: caps.Extended}
	p := peer.New("", a, addr, incoming, res)
	p.Log.SetOutput(discard{})
	pp := &PP{P: p, N: n, torEvents: make(chan peer.TorEvent, 1<<16), writer: make(chan protocol.Message, WriterCap), wdone: make(chan struct{}), holdReq: make(chan struct{}), pauseReq: make(chan chan struct{}),
		stop: make(chan struct{}), Alive: true, conn: a, w: w}
	var info []byte
	if w.T.InfoComplete() {
		info = w.T.Info
	}
	tor.VerifAttachPeer(w.T, p)
	peer.VerifSetup(p, pp.torEvents, w.T.Done, info, w.T.Pieces.Bitmap(), pp.writer, pp.wdone)
	go pp.drainWriter()
	go pp.serve()
	w.Peers = append(w.Peers, pp)
	return pp
}

func (w *World) assign(addrp *netip.AddrPort, caps Caps, n int) {
	addr := *addrp
	switch caps.AddrClass {
	case "loopback":
		addr = netip.AddrPortFrom(netip.AddrFrom4([4]byte{127, 0, 0, byte(n)}), uint16(30000+n))
	case "link-local":
		addr = netip.AddrPortFrom(netip.MustParseAddr(fmt.Sprintf("fe80::%x", n)), uint16(30000+n))
	case "private":
		addr = netip.AddrPortFrom(netip.AddrFrom4([4]byte{10, 1, byte(n >> 8), byte(n)}), uint16(30000+n))
	case "port-0":
		addr = netip.AddrPortFrom(netip.AddrFrom4([4]byte{8, 9, byte(n >> 8), byte(n)}), 0)
	case "v6":
		addr = netip.AddrPortFrom(netip.MustParseAddr(fmt.Sprintf("2001:db8::%x", n)), uint16(30000+n))
	}
	*addrp = addr
}

type discard struct{}

func (discard) Write(p []byte) (int, error) { return len(p), nil }

func (pp *PP) drainWriter() {
	for {
		pp.sentMu.Lock()
		hold := pp.hold
		pp.sentMu.Unlock()
		if hold != nil {
			select {
			case <-hold:
			case <-pp.holdReq:
			case <-pp.stop:
				return
			}
			continue
		}
		select {
		case <-pp.holdReq:
		case m := <-pp.writer:
			if b, ok := m.(barrier); ok {
				close(b.done)
				continue
			}
			pp.encodable(m)
			pp.sentMu.Lock()
			if len(pp.Sent) < 100000 {
				pp.Sent = append(pp.Sent, m)
			}
			pp.sentMu.Unlock()
		case <-pp.stop:
			return
		}
	}
}

// encodable does what the real writer goroutine does with a queued message:
// it serialises it with protocol.Write (into nothing).  A message that makes
// Write panic would take the whole process down.
func (pp *PP) encodable(m protocol.Message) {
	if pc, ok := m.(protocol.Piece); ok {
		// Write recycles the data buffer; the harness keeps the message
		pc.Data = append([]byte(nil), pc.Data...)
		m = pc
	}
	defer func() {
		if r := recover(); r != nil {
			pp.mu2.Lock()
			if pp.writePanic == "" {
				pp.writePanic = fmt.Sprintf("protocol.Write panicked on the %T that storrent queued for this peer (%+v): %v", m, m, r)
			}
			pp.mu2.Unlock()
		}
	}()
	protocol.Write(bufio.NewWriter(io.Discard), m, nil)
}

// PeerTick plays one of the periodic branches of peer.Run's loop: "upload"
// (the upload ticker), "expire" (request expiry and refill), "pex".
func (pp *PP) PeerTick(kind string) (panicked string) {
	pp.mu.Lock()
	defer pp.mu.Unlock()
	if !pp.Alive {
		return ""
	}
	var err error
	func() {
		defer func() {
			if r := recover(); r != nil {
				panicked = fmt.Sprintf("peer tick %q panicked: %v [%s]", kind, r, firstFrames(debug.Stack()))
			}
		}()
		switch kind {
		case "upload":
			err = peer.VerifScheduleUpload(pp.P, true)
		case "expire":
			var expired bool
			expired, err = peer.VerifExpireRequests(pp.P)
			if err == nil && expired {
				peer.VerifMaybeRequest(pp.P)
			}
		case "pex":
			peer.VerifSendPex(pp.P)
		}
	}()
	if err != nil {
		pp.exitLocked()
	}
	return
}

// flushWriter sends a marker through the writer channel: when the draining
// goroutine reaches it, everything written before is in Sent.
func (pp *PP) flushWriter() {
	b := barrier{make(chan struct{})}
	select {
	case pp.writer <- b:
		select {
		case <-b.done:
		case <-pp.stop:
		}
	case <-pp.stop:
	}
}

// TakeSent returns what storrent wrote to this peer.
func (pp *PP) TakeSent() []protocol.Message {
	pp.sentMu.Lock()
	held := pp.hold != nil
	pp.sentMu.Unlock()
	if !held {
		pp.flushWriter()
	}
	pp.sentMu.Lock()
	defer pp.sentMu.Unlock()
	s := pp.Sent
	pp.Sent = nil
	return s
}

// serve plays the part of peer.Run that handles torrent commands.
func (pp *PP) serve() {
	for {
		select {
		case g := <-pp.pauseReq:
			select {
			case <-g:
			case <-pp.stop:
				return
			}
		case e := <-pp.P.Event:
			if b, ok := e.(barrier); ok {
				close(b.done)
				continue
			}
			pp.mu.Lock()
			if !pp.Alive {
				// Run has exited: nobody reads the mailbox any more
				pp.mu.Unlock()
				continue
			}
			func() {
				defer func() {
					if r := recover(); r != nil {
						pp.panicked = fmt.Sprintf("peer.handleEvent(%T) panicked: %v [%s]", e, r, firstFrames(debug.Stack()))
					}
				}()
				if err := peer.VerifHandleEvent(pp.P, e); err != nil && pp.Alive {
					pp.exitLocked()
				}
			}()
			pp.mu.Unlock()
		case <-pp.stop:
			return
		}
	}
}

// exitLocked does the bookkeeping of peer.Run's exit path.
func (pp *PP) exitLocked() {
	if !pp.Alive {
		return
	}
	pp.Alive = false
	peer.VerifExit(pp.P)
}

// Msg delivers one decoded message to the peer's handler.  It returns the
// handler's error (the peer is then disconnected, as Run would) and the
// description of a panic, if any.
func (pp *PP) Msg(m protocol.Message) (err error, panicked string) {
	pp.mu.Lock()
	defer pp.mu.Unlock()
	if !pp.Alive {
		return nil, ""
	}
	func() {
		defer func() {
			if r := recover(); r != nil {
				panicked = fmt.Sprintf("peer.handleMessage(%T) panicked: %v [%s]", m, r, firstFrames(debug.Stack()))
			}
		}()
		err = peer.VerifHandleMessage(pp.P, m)
	}()
	if err != nil {
		pp.exitLocked()
	}
	return
}

// Disconnect ends the peer the way a closed connection does.
func (pp *PP) Disconnect() {
	pp.mu.Lock()
	pp.exitLocked()
	pp.mu.Unlock()
}

// Collect moves what peers have told the torrent into Pending (peer by peer,
// each peer's events in order).
func (w *World) Collect() {
	// what goroutines started by the torrent's own handlers (piece verification)
	// tell the torrent through its real mailbox
	for {
		select {
		case e := <-w.T.Event:
			w.Pending = append(w.Pending, e)
			continue
		default:
		}
		break
	}
	order := append([]*PP(nil), w.Peers...)
	if w.ReverseCollect {
		slices.Reverse(order)
	}
	for _, pp := range order {
		pp.mu.Lock()
		for _, e := range peer.VerifTakeEvents(pp.P) {
			w.Pending = append(w.Pending, e)
		}
		pp.mu.Unlock()
		for {
			select {
			case e := <-pp.torEvents:
				w.Pending = append(w.Pending, e)
				continue
			default:
			}
			break
		}
	}
}

// HandleTor delivers one event to the real tor.handleEvent.
func (w *World) HandleTor(e peer.TorEvent) (err error, panicked string) {
	func() {
		defer func() {
			if r := recover(); r != nil {
				panicked = fmt.Sprintf("tor.handleEvent(%T) panicked: %v [%s]", e, r, firstFrames(debug.Stack()))
			}
		}()
		err = tor.VerifHandleEvent(w.Ctx, w.T, e)
	}()
	return
}

// Drain handles every pending event, and what that gives rise to, until
// nothing is left.  It returns the first panic.
func (w *World) Drain() string {
	for round := 0; round < 200000; round++ {
		w.Collect()
		if len(w.Pending) == 0 {
			// peers may still be working on commands the torrent sent: a marker
			// through every mailbox (FIFO) returns when they have been handled
			w.barrier()
			w.Collect()
			if len(w.Pending) > 0 {
				continue
			}
			for _, pp := range w.Peers {
				pp.mu.Lock()
				p := pp.panicked
				pp.mu.Unlock()
				if p != "" {
					return p
				}
				// what the peer wrote has been serialised when TakeSent's marker
				// comes through; flush here so that a panic is reported at the step
				// that caused it
				pp.sentMu.Lock()
				held := pp.hold != nil
				pp.sentMu.Unlock()
				if !held {
					pp.flushWriter()
				}
				pp.mu2.Lock()
				p = pp.writePanic
				pp.mu2.Unlock()
				if p != "" {
					return p
				}
			}
			return ""
		}
		e := w.Pending[0]
		w.Pending = w.Pending[1:]
		err, p := w.HandleTor(e)
		if p != "" {
			return p
		}
		if err != nil {
			if _, bye := e.(peer.TorGoAway); !bye {
				// Torrent.run returns on the first error of handleEvent: the torrent
				// and all its peers are gone
				return fmt.Sprintf("tor.handleEvent(%T) returned an error (%v): the torrent's loop ends, the whole torrent is lost", e, err)
			}
		}
	}
	return "event processing does not terminate"
}

// barrier is what the harness sends through a peer's mailbox, or through its
// writer channel, to learn that everything sent before has been consumed.
type barrier struct{ done chan struct{} }

func (w *World) barrier() {
	for _, pp := range w.Peers {
		pp.gateMu.Lock()
		paused := pp.gate != nil
		pp.gateMu.Unlock()
		if paused {
			// its goroutine is not running: nothing it could be working on
			continue
		}
		b := barrier{make(chan struct{})}
		select {
		case pp.P.Event <- b:
			select {
			case <-b.done:
			case <-pp.stop:
			}
		case <-pp.stop:
		}
	}
}

// Tick calls the functions Torrent.run calls on its five-second ticker
// while metadata is incomplete.
func (w *World) Tick() (panicked string) {
	func() {
		defer func() {
			if r := recover(); r != nil {
				panicked = fmt.Sprintf("requestMetadata panicked: %v [%s]", r, firstFrames(debug.Stack()))
			}
		}()
		if !w.T.InfoComplete() {
			tor.VerifRequestMetadata(w.T, nil)
		}
	}()
	return
}

// Close stops the helper goroutines.
func (w *World) Close() {
	for _, pp := range w.Peers {
		select {
		case <-pp.stop:
		default:
			close(pp.stop)
		}
	}
	w.T.Pieces.Del()
}
