package ref

// Message Stream Encryption, written from the specification (Azureus wiki
// "Message Stream Encryption", the text BEP drafts refer to), not from
// storrent's source:
//
//   1 A->B: Diffie Hellman Ya, PadA
//   2 B->A: Diffie Hellman Yb, PadB
//   3 A->B: HASH('req1', S), HASH('req2', SKEY) xor HASH('req3', S),
//           ENCRYPT(VC, crypto_provide, len(PadC), PadC, len(IA)), ENCRYPT(IA)
//   4 B->A: ENCRYPT(VC, crypto_select, len(padD), padD), ENCRYPT2(Payload Stream)
//   5 A->B: ENCRYPT2(Payload Stream)
//
// P is the 768-bit prime below, G = 2, S the shared secret as 96 bytes; RC4
// keys HASH('keyA', S, SKEY) for A->B and HASH('keyB', S, SKEY) for B->A, first
// 1024 bytes of each keystream discarded; pads are 0..512 bytes; B
// synchronises on HASH('req1', S), A on ENCRYPT(VC); crypto_provide /
// crypto_select bit 0x01 = plaintext, 0x02 = RC4.

import (
	"bytes"
	"crypto/rc4"
	"crypto/sha1"
	"encoding/binary"
	"errors"
	"fmt"
	"io"
	"math/big"
)

var mseP, _ = new(big.Int).SetString("FFFFFFFFFFFFFFFFC90FDAA22168C234C4C6628B80DC1CD129024E088A67CC74020BBEA63B139B22514A08798E3404DDEF9519B3CD3A431B302B0A6DF25F14374FE1356D6D51C245E485B576625E7EC6F44C42E9A63A36210000000000090563", 16)
var mseG = big.NewInt(2)

func sha(parts ...[]byte) []byte {
	h := sha1.New()
	for _, p := range parts {
		h.Write(p)
	}
	return h.Sum(nil)
}

// MSEKeys derives the two RC4 streams (keystream already advanced by 1024).
func MSEKeys(S, skey []byte) (a2b, b2a *rc4.Cipher) {
	mk := func(label string) *rc4.Cipher {
		c, _ := rc4.NewCipher(sha([]byte(label), S, skey))
		d := make([]byte, 1024)
		c.XORKeyStream(d, d)
		return c
	}
	return mk("keyA"), mk("keyB")
}

// rd is a reader with look-behind buffer.
type rd struct {
	r   io.Reader
	buf []byte
}

func (r *rd) fill() error {
	b := make([]byte, 4096)
	n, err := r.r.Read(b)
	r.buf = append(r.buf, b[:n]...)
	if n == 0 && err != nil {
		return err
	}
	return nil
}

func (r *rd) exactly(n int) ([]byte, error) {
	for len(r.buf) < n {
		if err := r.fill(); err != nil {
			return nil, err
		}
	}
	out := append([]byte(nil), r.buf[:n]...)
	r.buf = r.buf[n:]
	return out, nil
}

// until consumes up to and including the first occurrence of pat, which must
// end within limit bytes.
func (r *rd) until(pat []byte, limit int) error {
	for {
		if i := bytes.Index(r.buf, pat); i >= 0 {
			if i+len(pat) > limit {
				return errors.New("mse: synchronisation pattern beyond the allowed padding")
			}
			r.buf = r.buf[i+len(pat):]
			return nil
		}
		if len(r.buf) >= limit {
			return errors.New("mse: synchronisation pattern not found")
		}
		if err := r.fill(); err != nil {
			return err
		}
	}
}

type MSEResult struct {
	S        []byte
	SKey     []byte
	Provide  uint32
	Select   uint32
	IA       []byte
	Enc, Dec *rc4.Cipher // ciphers of the payload stream when Select == 2 (also valid, but unused, when 1)
	Rest     []byte      // bytes already read beyond the handshake (still encrypted if Select == 2; Decrypt with Dec)
}

// MSEClientParams are the choices the initiator makes.
type MSEClientParams struct {
	X          *big.Int // private exponent
	PadA, PadC []byte
	Provide    uint32
	IA         []byte
}

// MSEClient runs role A.
func MSEClient(c io.ReadWriter, skey []byte, p MSEClientParams) (*MSEResult, error) {
	Y := new(big.Int).Exp(mseG, p.X, mseP)
	yb := make([]byte, 96)
	Y.FillBytes(yb)
	if _, err := c.Write(append(yb, p.PadA...)); err != nil {
		return nil, err
	}
	r := &rd{r: c}
	peer, err := r.exactly(96)
	if err != nil {
		return nil, fmt.Errorf("mse client: reading Yb: %w", err)
	}
	S := make([]byte, 96)
	new(big.Int).Exp(new(big.Int).SetBytes(peer), p.X, mseP).FillBytes(S)
	enc, dec := MSEKeys(S, skey)
	x := sha([]byte("req2"), skey)
	y := sha([]byte("req3"), S)
	for i := range x {
		x[i] ^= y[i]
	}
	msg := append(sha([]byte("req1"), S), x...)
	plain := make([]byte, 0, 64)
	plain = append(plain, make([]byte, 8)...) // VC
	plain = binary.BigEndian.AppendUint32(plain, p.Provide)
	plain = binary.BigEndian.AppendUint16(plain, uint16(len(p.PadC)))
	plain = append(plain, p.PadC...)
	plain = binary.BigEndian.AppendUint16(plain, uint16(len(p.IA)))
	plain = append(plain, p.IA...)
	ct := make([]byte, len(plain))
	enc.XORKeyStream(ct, plain)
	if _, err := c.Write(append(msg, ct...)); err != nil {
		return nil, err
	}
	// synchronise on ENCRYPT(VC)
	evc := make([]byte, 8)
	dec.XORKeyStream(evc, evc)
	if err := r.until(evc, 512+8); err != nil {
		return nil, fmt.Errorf("mse client: %w", err)
	}
	hdr, err := r.exactly(6)
	if err != nil {
		return nil, err
	}
	dec.XORKeyStream(hdr, hdr)
	sel := binary.BigEndian.Uint32(hdr)
	padD := int(binary.BigEndian.Uint16(hdr[4:]))
	pd, err := r.exactly(padD)
	if err != nil {
		return nil, err
	}
	dec.XORKeyStream(pd, pd)
	return &MSEResult{S: S, SKey: skey, Provide: p.Provide, Select: sel, Enc: enc, Dec: dec, Rest: r.buf}, nil
}

// MSEServerParams are the choices the responder makes.
type MSEServerParams struct {
	X          *big.Int
	PadB, PadD []byte
	// Select maps the initiator's crypto_provide to the crypto_select to answer.
	Select func(provide uint32) uint32
}

// MSEServer runs role B.
func MSEServer(c io.ReadWriter, skeys [][]byte, p MSEServerParams) (*MSEResult, error) {
	r := &rd{r: c}
	peer, err := r.exactly(96)
	if err != nil {
		return nil, fmt.Errorf("mse server: reading Ya: %w", err)
	}
	Y := new(big.Int).Exp(mseG, p.X, mseP)
	yb := make([]byte, 96)
	Y.FillBytes(yb)
	if _, err := c.Write(append(yb, p.PadB...)); err != nil {
		return nil, err
	}
	S := make([]byte, 96)
	new(big.Int).Exp(new(big.Int).SetBytes(peer), p.X, mseP).FillBytes(S)
	if err := r.until(sha([]byte("req1"), S), 512+20); err != nil {
		return nil, fmt.Errorf("mse server: %w", err)
	}
	h, err := r.exactly(20)
	if err != nil {
		return nil, err
	}
	y := sha([]byte("req3"), S)
	for i := range h {
		h[i] ^= y[i]
	}
	var skey []byte
	for _, k := range skeys {
		if bytes.Equal(h, sha([]byte("req2"), k)) {
			skey = k
		}
	}
	if skey == nil {
		return nil, errors.New("mse server: unknown SKEY")
	}
	dec, enc := MSEKeys(S, skey) // A->B is what we decrypt
	hdr, err := r.exactly(8 + 4 + 2)
	if err != nil {
		return nil, err
	}
	dec.XORKeyStream(hdr, hdr)
	if !bytes.Equal(hdr[:8], make([]byte, 8)) {
		return nil, errors.New("mse server: bad VC")
	}
	provide := binary.BigEndian.Uint32(hdr[8:])
	padC, err := r.exactly(int(binary.BigEndian.Uint16(hdr[12:])))
	if err != nil {
		return nil, err
	}
	dec.XORKeyStream(padC, padC)
	l, err := r.exactly(2)
	if err != nil {
		return nil, err
	}
	dec.XORKeyStream(l, l)
	ia, err := r.exactly(int(binary.BigEndian.Uint16(l)))
	if err != nil {
		return nil, err
	}
	dec.XORKeyStream(ia, ia)
	sel := p.Select(provide)
	plain := make([]byte, 8, 32)
	plain = binary.BigEndian.AppendUint32(plain, sel)
	plain = binary.BigEndian.AppendUint16(plain, uint16(len(p.PadD)))
	plain = append(plain, p.PadD...)
	ct := make([]byte, len(plain))
	enc.XORKeyStream(ct, plain)
	if _, err := c.Write(ct); err != nil {
		return nil, err
	}
	return &MSEResult{S: S, SKey: skey, Provide: provide, Select: sel, IA: ia, Enc: enc, Dec: dec, Rest: r.buf}, nil
}

// BTHandshake builds the 68-byte BitTorrent handshake (BEP 3).
func BTHandshake(reserved [8]byte, infoHash, peerID []byte) []byte {
	b := append([]byte{19}, "BitTorrent protocol"...)
	b = append(b, reserved[:]...)
	b = append(b, infoHash...)
	return append(b, peerID...)
}

// ParseBTHandshake checks and splits a 68-byte handshake.
func ParseBTHandshake(b []byte) (reserved [8]byte, infoHash, peerID []byte, err error) {
	if len(b) < 68 || b[0] != 19 || string(b[1:20]) != "BitTorrent protocol" {
		err = errors.New("not a BitTorrent handshake")
		return
	}
	copy(reserved[:], b[20:28])
	return reserved, b[28:48], b[48:68], nil
}
