package ref

import (
	"encoding/binary"
	"errors"
	"fmt"
	"net/netip"
)

// Message kinds, numbered by their wire id (BEP 3, 5, 6, 10); KeepAlive has no id.
const (
	KKeepAlive = -1
	KChoke     = 0
	KUnchoke   = 1
	KInterest  = 2
	KNotInt    = 3
	KHave      = 4
	KBitfield  = 5
	KRequest   = 6
	KPiece     = 7
	KCancel    = 8
	KPort      = 9
	KSuggest   = 13
	KHaveAll   = 14
	KHaveNone  = 15
	KReject    = 16
	KAllowed   = 17
	KExtended  = 20
)

// What an extended message (id 20) carries, by role.  The sub-id on the wire is
// whatever the receiver asked for in its handshake, so role and sub-id are
// separate fields.
const (
	XNone = iota
	XHandshake
	XPex
	XMetadata
	XDontHave
	XUploadOnly
	XOpaque // unknown extension: payload carried verbatim
)

type PexPeer struct {
	Addr  netip.AddrPort
	Flags byte
}

type ExtHS struct {
	V            *string // "v"
	P            *uint16 // "p"
	ReqQ         *uint32
	IPv4         []byte // 4 bytes
	IPv6         []byte // 16 bytes
	MetadataSize *uint32
	M            map[string]uint8 // nil = key absent
	UploadOnly   *bool
	E            *bool
}

type Msg struct {
	Kind                 int
	Index, Begin, Length uint32
	Port                 uint16
	Data                 []byte // bitfield, piece block, metadata block, opaque payload
	// extended
	Sub       uint8
	X         int
	HS        *ExtHS
	Added     []PexPeer
	Dropped   []PexPeer
	MetaType  uint8
	MetaPiece uint32
	MetaTotal *uint32
	Flag      bool // upload_only value
}

func be32(b []byte, v uint32) []byte { return binary.BigEndian.AppendUint32(b, v) }

// Encode produces the exact bytes of m, length prefix included.
func Encode(m Msg) []byte {
	var body []byte
	switch m.Kind {
	case KKeepAlive:
		return []byte{0, 0, 0, 0}
	case KChoke, KUnchoke, KInterest, KNotInt, KHaveAll, KHaveNone:
		body = []byte{byte(m.Kind)}
	case KHave, KSuggest, KAllowed:
		body = be32([]byte{byte(m.Kind)}, m.Index)
	case KBitfield:
		body = append([]byte{5}, m.Data...)
	case KRequest, KCancel, KReject:
		body = be32(be32(be32([]byte{byte(m.Kind)}, m.Index), m.Begin), m.Length)
	case KPiece:
		body = append(be32(be32([]byte{7}, m.Index), m.Begin), m.Data...)
	case KPort:
		body = binary.BigEndian.AppendUint16([]byte{9}, m.Port)
	case KExtended:
		body = []byte{20, m.Sub}
		switch m.X {
		case XHandshake:
			d := map[string]any{}
			h := m.HS
			if h.V != nil {
				d["v"] = *h.V
			}
			if h.P != nil {
				d["p"] = *h.P
			}
			if h.ReqQ != nil {
				d["reqq"] = *h.ReqQ
			}
			if h.IPv4 != nil {
				d["ipv4"] = h.IPv4
			}
			if h.IPv6 != nil {
				d["ipv6"] = h.IPv6
			}
			if h.MetadataSize != nil {
				d["metadata_size"] = *h.MetadataSize
			}
			if h.M != nil {
				mm := map[string]any{}
				for k, v := range h.M {
					mm[k] = v
				}
				d["m"] = mm
			}
			if h.UploadOnly != nil {
				d["upload_only"] = *h.UploadOnly
			}
			if h.E != nil {
				d["e"] = *h.E
			}
			body = append(body, Benc(d)...)
		case XPex:
			d := map[string]any{}
			var a4, f4, a6, f6, d4, d6 []byte
			for _, p := range m.Added {
				if p.Addr.Addr().Is4() {
					ip := p.Addr.Addr().As4()
					a4 = binary.BigEndian.AppendUint16(append(a4, ip[:]...), p.Addr.Port())
					f4 = append(f4, p.Flags)
				} else {
					ip := p.Addr.Addr().As16()
					a6 = binary.BigEndian.AppendUint16(append(a6, ip[:]...), p.Addr.Port())
					f6 = append(f6, p.Flags)
				}
			}
			for _, p := range m.Dropped {
				if p.Addr.Addr().Is4() {
					ip := p.Addr.Addr().As4()
					d4 = binary.BigEndian.AppendUint16(append(d4, ip[:]...), p.Addr.Port())
				} else {
					ip := p.Addr.Addr().As16()
					d6 = binary.BigEndian.AppendUint16(append(d6, ip[:]...), p.Addr.Port())
				}
			}
			put := func(k string, v []byte) {
				if len(v) > 0 {
					d[k] = v
				}
			}
			put("added", a4)
			put("added.f", f4)
			put("added6", a6)
			put("added6.f", f6)
			put("dropped", d4)
			put("dropped6", d6)
			body = append(body, Benc(d)...)
		case XMetadata:
			d := map[string]any{"msg_type": m.MetaType, "piece": m.MetaPiece}
			if m.MetaTotal != nil {
				d["total_size"] = *m.MetaTotal
			}
			body = append(append(body, Benc(d)...), m.Data...)
		case XDontHave:
			body = be32(body, m.Index)
		case XUploadOnly:
			if m.Flag {
				body = append(body, 1)
			} else {
				body = append(body, 0)
			}
		case XOpaque:
			body = append(body, m.Data...)
		default:
			panic("ref.Encode: bad extended role")
		}
	default:
		panic(fmt.Sprintf("ref.Encode: bad kind %d", m.Kind))
	}
	return append(be32(nil, uint32(len(body))), body...)
}

var ErrWire = errors.New("ref: malformed message")
var ErrShort = errors.New("ref: incomplete frame")

// Roles tells the strict decoder what each extended sub-id means for the
// receiving side (the ids the receiver announced in its own handshake).
type Roles map[uint8]int

// StorrentRoles are the ids storrent asks its peers to use when writing to it.
var StorrentRoles = Roles{1: XPex, 2: XMetadata, 3: XDontHave, 4: XUploadOnly}

// Decode strictly decodes one message from the front of b and returns it and
// the number of bytes consumed.  Every field width, every fixed length and
// the canonical form of bencoded payloads is enforced.
func Decode(b []byte, roles Roles) (Msg, int, error) {
	if len(b) < 4 {
		return Msg{}, 0, ErrShort
	}
	l := int(binary.BigEndian.Uint32(b))
	if l == 0 {
		return Msg{Kind: KKeepAlive}, 4, nil
	}
	if len(b)-4 < l {
		return Msg{}, 0, ErrShort
	}
	body := b[4 : 4+l]
	n := 4 + l
	id := int(body[0])
	p := body[1:]
	m := Msg{Kind: id}
	u32 := func(i int) uint32 { return binary.BigEndian.Uint32(p[4*i:]) }
	switch id {
	case KChoke, KUnchoke, KInterest, KNotInt, KHaveAll, KHaveNone:
		if len(p) != 0 {
			return m, n, ErrWire
		}
	case KHave, KSuggest, KAllowed:
		if len(p) != 4 {
			return m, n, ErrWire
		}
		m.Index = u32(0)
	case KBitfield:
		m.Data = append([]byte{}, p...)
	case KRequest, KCancel, KReject:
		if len(p) != 12 {
			return m, n, ErrWire
		}
		m.Index, m.Begin, m.Length = u32(0), u32(1), u32(2)
	case KPiece:
		if len(p) < 8 {
			return m, n, ErrWire
		}
		m.Index, m.Begin = u32(0), u32(1)
		m.Data = append([]byte{}, p[8:]...)
	case KPort:
		if len(p) != 2 {
			return m, n, ErrWire
		}
		m.Port = binary.BigEndian.Uint16(p)
	case KExtended:
		if len(p) < 1 {
			return m, n, ErrWire
		}
		m.Sub = p[0]
		p = p[1:]
		role := XOpaque
		if m.Sub == 0 {
			role = XHandshake
		} else if r, ok := roles[m.Sub]; ok {
			role = r
		}
		m.X = role
		switch role {
		case XHandshake:
			v, k, err := Bdec(p)
			d, isd := v.(Dict)
			if err != nil || k != len(p) || !isd || !Canonical(d) {
				return m, n, ErrWire
			}
			h := &ExtHS{}
			m.HS = h
			for _, kv := range d {
				switch kv.K {
				case "v":
					s, ok := kv.V.([]byte)
					if !ok {
						return m, n, ErrWire
					}
					str := string(s)
					h.V = &str
				case "p":
					i, ok := kv.V.(int64)
					if !ok || i < 0 || i > 65535 {
						return m, n, ErrWire
					}
					x := uint16(i)
					h.P = &x
				case "reqq", "metadata_size":
					i, ok := kv.V.(int64)
					if !ok || i < 0 || i > 0xFFFFFFFF {
						return m, n, ErrWire
					}
					x := uint32(i)
					if kv.K == "reqq" {
						h.ReqQ = &x
					} else {
						h.MetadataSize = &x
					}
				case "ipv4", "ipv6":
					s, ok := kv.V.([]byte)
					if !ok || (kv.K == "ipv4" && len(s) != 4) || (kv.K == "ipv6" && len(s) != 16) {
						return m, n, ErrWire
					}
					if kv.K == "ipv4" {
						h.IPv4 = s
					} else {
						h.IPv6 = s
					}
				case "m":
					dd, ok := kv.V.(Dict)
					if !ok {
						return m, n, ErrWire
					}
					h.M = map[string]uint8{}
					for _, e := range dd {
						i, ok := e.V.(int64)
						if !ok || i < 0 || i > 255 {
							return m, n, ErrWire
						}
						h.M[e.K] = uint8(i)
					}
				case "upload_only", "e":
					i, ok := kv.V.(int64)
					if !ok || (i != 0 && i != 1) {
						return m, n, ErrWire
					}
					x := i == 1
					if kv.K == "e" {
						h.E = &x
					} else {
						h.UploadOnly = &x
					}
				default:
					return m, n, fmt.Errorf("%w: unknown handshake key %q", ErrWire, kv.K)
				}
			}
		case XPex:
			v, k, err := Bdec(p)
			d, isd := v.(Dict)
			if err != nil || k != len(p) || !isd || !Canonical(d) {
				return m, n, ErrWire
			}
			get := func(key string) ([]byte, bool) {
				x, ok := d.Get(key)
				if !ok {
					return nil, true
				}
				s, ok := x.([]byte)
				return s, ok
			}
			for _, kv := range d {
				switch kv.K {
				case "added", "added.f", "added6", "added6.f", "dropped", "dropped6":
				default:
					return m, n, fmt.Errorf("%w: unknown pex key %q", ErrWire, kv.K)
				}
			}
			a4, ok1 := get("added")
			f4, ok2 := get("added.f")
			a6, ok3 := get("added6")
			f6, ok4 := get("added6.f")
			d4, ok5 := get("dropped")
			d6, ok6 := get("dropped6")
			if !(ok1 && ok2 && ok3 && ok4 && ok5 && ok6) {
				return m, n, ErrWire
			}
			if len(a4)%6 != 0 || len(a6)%18 != 0 || len(d4)%6 != 0 || len(d6)%18 != 0 ||
				len(f4) != len(a4)/6 || len(f6) != len(a6)/18 {
				return m, n, ErrWire
			}
			parse := func(data, flags []byte, w int) []PexPeer {
				var out []PexPeer
				for i := 0; i+w+2 <= len(data); i += w + 2 {
					ip, _ := netip.AddrFromSlice(data[i : i+w])
					pp := PexPeer{Addr: netip.AddrPortFrom(ip, binary.BigEndian.Uint16(data[i+w:]))}
					if flags != nil {
						pp.Flags = flags[i/(w+2)]
					}
					out = append(out, pp)
				}
				return out
			}
			m.Added = append(parse(a4, f4, 4), parse(a6, f6, 16)...)
			m.Dropped = append(parse(d4, nil, 4), parse(d6, nil, 16)...)
		case XMetadata:
			v, k, err := Bdec(p)
			d, isd := v.(Dict)
			if err != nil || !isd || !Canonical(d) {
				return m, n, ErrWire
			}
			for _, kv := range d {
				i, ok := kv.V.(int64)
				if !ok || i < 0 {
					return m, n, ErrWire
				}
				switch kv.K {
				case "msg_type":
					if i > 2 {
						return m, n, ErrWire
					}
					m.MetaType = uint8(i)
				case "piece":
					if i > 0xFFFFFFFF {
						return m, n, ErrWire
					}
					m.MetaPiece = uint32(i)
				case "total_size":
					if i > 0xFFFFFFFF {
						return m, n, ErrWire
					}
					x := uint32(i)
					m.MetaTotal = &x
				default:
					return m, n, ErrWire
				}
			}
			if _, ok := d.Get("msg_type"); !ok {
				return m, n, ErrWire
			}
			if _, ok := d.Get("piece"); !ok {
				return m, n, ErrWire
			}
			m.Data = append([]byte{}, p[k:]...)
		case XDontHave:
			if len(p) != 4 {
				return m, n, ErrWire
			}
			m.Index = binary.BigEndian.Uint32(p)
		case XUploadOnly:
			if len(p) != 1 || p[0] > 1 {
				return m, n, ErrWire
			}
			m.Flag = p[0] == 1
		default:
			m.Data = append([]byte{}, p...)
		}
	default:
		return m, n, fmt.Errorf("%w: unknown id %d", ErrWire, id)
	}
	return m, n, nil
}
