// Package ref holds reference implementations written from the BEPs (3, 5,
// 6, 9, 10, 11, lt_donthave, MSE), not from storrent's source.  They are the
// differential oracles and the scripted remote peers of the checks, so that
// storrent is never only compared with itself.
package ref

import (
	"errors"
	"fmt"
	"math/big"
	"sort"
	"strconv"
)

// KV is one dictionary entry; Dict keeps entries in the order given (used to
// emit unsorted or duplicate keys on purpose).  map[string]any is emitted with
// sorted keys, which is the canonical form.
type KV struct {
	K string
	V any
}
type Dict []KV

// Raw is spliced into the output unchanged.
type Raw []byte

// Benc encodes v.  Supported: int, int64, uint8..uint64, *big.Int, bool (as
// integer 0/1), string, []byte, []any, map[string]any, Dict, Raw.
func Benc(v any) []byte { return appendBenc(nil, v) }

func appendBenc(b []byte, v any) []byte {
	switch v := v.(type) {
	case int:
		return append(strconv.AppendInt(append(b, 'i'), int64(v), 10), 'e')
	case int64:
		return append(strconv.AppendInt(append(b, 'i'), v, 10), 'e')
	case uint8:
		return append(strconv.AppendUint(append(b, 'i'), uint64(v), 10), 'e')
	case uint16:
		return append(strconv.AppendUint(append(b, 'i'), uint64(v), 10), 'e')
	case uint32:
		return append(strconv.AppendUint(append(b, 'i'), uint64(v), 10), 'e')
	case uint64:
		return append(strconv.AppendUint(append(b, 'i'), v, 10), 'e')
	case *big.Int:
		return append(append(append(b, 'i'), v.String()...), 'e')
	case bool:
		if v {
			return append(b, "i1e"...)
		}
		return append(b, "i0e"...)
	case string:
		b = strconv.AppendInt(b, int64(len(v)), 10)
		b = append(b, ':')
		return append(b, v...)
	case []byte:
		b = strconv.AppendInt(b, int64(len(v)), 10)
		b = append(b, ':')
		return append(b, v...)
	case []any:
		b = append(b, 'l')
		for _, e := range v {
			b = appendBenc(b, e)
		}
		return append(b, 'e')
	case map[string]any:
		keys := make([]string, 0, len(v))
		for k := range v {
			keys = append(keys, k)
		}
		sort.Strings(keys)
		b = append(b, 'd')
		for _, k := range keys {
			b = appendBenc(b, k)
			b = appendBenc(b, v[k])
		}
		return append(b, 'e')
	case Dict:
		b = append(b, 'd')
		for _, kv := range v {
			b = appendBenc(b, kv.K)
			b = appendBenc(b, kv.V)
		}
		return append(b, 'e')
	case Raw:
		return append(b, v...)
	default:
		panic(fmt.Sprintf("ref.Benc: unsupported %T", v))
	}
}

var ErrBenc = errors.New("ref: malformed bencoding")

// Bdec decodes one value from the front of b and returns it with the number
// of bytes used.  Integers decode to int64, or *big.Int when they do not fit;
// strings to []byte; lists to []any; dictionaries to Dict (order and
// duplicates preserved so that callers can be strict or lenient about them).
// It is iterative-depth-limited (maxDepth) rather than recursive without
// bound.
func Bdec(b []byte) (any, int, error) { return bdec(b, 0, 0) }

const maxDepth = 20000

func bdec(b []byte, i int, depth int) (any, int, error) {
	if depth > maxDepth || i >= len(b) {
		return nil, i, ErrBenc
	}
	switch c := b[i]; {
	case c == 'i':
		j := i + 1
		for j < len(b) && b[j] != 'e' {
			j++
		}
		if j >= len(b) {
			return nil, i, ErrBenc
		}
		s := string(b[i+1 : j])
		if !validInt(s) {
			return nil, i, ErrBenc
		}
		if n, err := strconv.ParseInt(s, 10, 64); err == nil {
			return n, j + 1, nil
		}
		z, ok := new(big.Int).SetString(s, 10)
		if !ok {
			return nil, i, ErrBenc
		}
		return z, j + 1, nil
	case c >= '0' && c <= '9':
		j := i
		for j < len(b) && b[j] >= '0' && b[j] <= '9' {
			j++
		}
		if j >= len(b) || b[j] != ':' {
			return nil, i, ErrBenc
		}
		if b[i] == '0' && j != i+1 {
			return nil, i, ErrBenc
		}
		n, err := strconv.ParseUint(string(b[i:j]), 10, 63)
		if err != nil || n > uint64(len(b)-(j+1)) {
			return nil, i, ErrBenc
		}
		s := make([]byte, n)
		copy(s, b[j+1:])
		return s, j + 1 + int(n), nil
	case c == 'l':
		l := []any{}
		i++
		for {
			if i >= len(b) {
				return nil, i, ErrBenc
			}
			if b[i] == 'e' {
				return l, i + 1, nil
			}
			v, n, err := bdec(b, i, depth+1)
			if err != nil {
				return nil, n, err
			}
			l = append(l, v)
			i = n
		}
	case c == 'd':
		d := Dict{}
		i++
		for {
			if i >= len(b) {
				return nil, i, ErrBenc
			}
			if b[i] == 'e' {
				return d, i + 1, nil
			}
			if b[i] < '0' || b[i] > '9' {
				return nil, i, ErrBenc
			}
			k, n, err := bdec(b, i, depth+1)
			if err != nil {
				return nil, n, err
			}
			v, n2, err := bdec(b, n, depth+1)
			if err != nil {
				return nil, n2, err
			}
			d = append(d, KV{string(k.([]byte)), v})
			i = n2
		}
	}
	return nil, i, ErrBenc
}

func validInt(s string) bool {
	if s == "" || s == "-" {
		return false
	}
	t := s
	if t[0] == '-' {
		t = t[1:]
		if t == "0" {
			return false
		}
	}
	if len(t) > 1 && t[0] == '0' {
		return false
	}
	for _, c := range t {
		if c < '0' || c > '9' {
			return false
		}
	}
	return true
}

// Canonical reports whether every dictionary in v has strictly increasing keys.
func Canonical(v any) bool {
	switch v := v.(type) {
	case Dict:
		for i, kv := range v {
			if i > 0 && v[i-1].K >= kv.K {
				return false
			}
			if !Canonical(kv.V) {
				return false
			}
		}
	case []any:
		for _, e := range v {
			if !Canonical(e) {
				return false
			}
		}
	}
	return true
}

// Get returns the last value bound to key k in d (bencode decoders differ on
// duplicates; generators never rely on it).
func (d Dict) Get(k string) (any, bool) {
	for i := len(d) - 1; i >= 0; i-- {
		if d[i].K == k {
			return d[i].V, true
		}
	}
	return nil, false
}
