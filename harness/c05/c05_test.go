// C05 — no message sequence from a remote peer can crash or bloat the client.
package c05

import (
	"time"
	"bytes"
	"fmt"
	"io"
	"net/netip"
	"runtime"
	"sort"
	"testing"

	"pgregory.net/rapid"

	"github.com/jech/storrent/hash"
	"github.com/jech/storrent/peer"
	"github.com/jech/storrent/pex"
	"github.com/jech/storrent/protocol"
	"github.com/jech/storrent/tor"

	"verif/conv"
	"verif/gen"
	"verif/pump"
	"verif/ref"
	"verif/sim"
	"verif/stats"
)

func TestMain(m *testing.M) { stats.Main(m) }

const MiB = 1 << 20

type step struct {
	Kind string // msg | cmd | tick | consumer | disconnect
	P    int
	M    protocol.Message
	Desc string
	Wire int
	Cmd  string
	A    int
}

func (s step) String() string {
	if s.Kind == "msg" {
		return fmt.Sprintf("p%d<-%s", s.P, s.Desc)
	}
	return fmt.Sprintf("%s(%s,%d)", s.Kind, s.Cmd, s.A)
}

func describeMsg(m protocol.Message) string {
	switch x := m.(type) {
	case protocol.Piece:
		return fmt.Sprintf("Piece{%d,%d,%dB}", x.Index, x.Begin, len(x.Data))
	case protocol.Bitfield:
		return fmt.Sprintf("Bitfield{%dB}", len(x.Bitfield))
	case protocol.ExtendedMetadata:
		return fmt.Sprintf("ExtendedMetadata{type %d piece %d total %d %dB}", x.Type, x.Piece, x.TotalSize, len(x.Data))
	case protocol.ExtendedPex:
		return fmt.Sprintf("ExtendedPex{+%d -%d}", len(x.Added), len(x.Dropped))
	case protocol.Extended0:
		return fmt.Sprintf("Extended0{reqq %d ms %d m %v}", x.ReqQ, x.MetadataSize, x.Messages)
	}
	return fmt.Sprintf("%T%+v", m, m)
}

func fieldClass(v uint32, n int) string {
	switch {
	case v == 0:
		return "0"
	case int64(v) < int64(n):
		return "in"
	case int64(v) == int64(n):
		return "n"
	case v < 1<<16:
		return "small-out"
	case v < 1<<31:
		return "mid"
	default:
		return "high"
	}
}

// genMessage draws any value protocol.Read can return.
func genMessage(rt *rapid.T, npieces int, beforeMetadata bool) (protocol.Message, string, int) {
	idx := func(label string) uint32 {
		vals := []uint32{0, 1, uint32(max(npieces-1, 0)), uint32(npieces), uint32(npieces + 1), 1 << 16, 1 << 31, 1<<32 - 1}
		if rapid.Bool().Draw(rt, label+".in") && npieces > 0 {
			return uint32(rapid.IntRange(0, npieces-1).Draw(rt, label))
		}
		v := rapid.SampledFrom(vals).Draw(rt, label)
		if rapid.IntRange(0, 4).Draw(rt, label+".log") == 0 {
			v = uint32(1) << uint(rapid.IntRange(0, 31).Draw(rt, label+".bit"))
		}
		return v
	}
	capIdx := func(v uint32) uint32 {
		// region of the recorded finding c05-index-before-metadata
		if beforeMetadata && stats.Excl("c05-index-before-metadata") && v > 1<<16 {
			stats.Excluded("c05-index-before-metadata")
			return v & 0xffff
		}
		return v
	}
	kind := rapid.SampledFrom([]string{"keepalive", "choke", "unchoke", "interested", "notinterested", "have", "have", "bitfield", "request", "piece", "piece", "cancel",
		"port", "suggest", "haveall", "havenone", "reject", "allowedfast", "ext0", "pex", "metadata", "metadata", "donthave", "uploadonly", "extunknown", "unknown", "error"}).Draw(rt, "mkind")
	var m protocol.Message
	cls := kind
	switch kind {
	case "keepalive":
		m = protocol.KeepAlive{}
	case "choke":
		m = protocol.Choke{}
	case "unchoke":
		m = protocol.Unchoke{}
	case "interested":
		m = protocol.Interested{}
	case "notinterested":
		m = protocol.NotInterested{}
	case "have":
		v := capIdx(idx("have"))
		m = protocol.Have{Index: v}
		cls += ":" + fieldClass(v, npieces)
	case "bitfield":
		n := rapid.SampledFrom([]int{0, 1, (npieces + 7) / 8, (npieces+7)/8 + 1, 1000, MiB - 9}).Draw(rt, "bflen")
		b := gen.Fill(rapid.Uint64().Draw(rt, "bfseed"), n)
		if rapid.Bool().Draw(rt, "bfzero") {
			b = make([]byte, n)
			if n > 0 {
				b[n-1] = byte(rapid.IntRange(0, 255).Draw(rt, "bflast"))
			}
		}
		m = protocol.Bitfield{Bitfield: b}
		if n > (npieces+7)/8 {
			cls += ":overlong"
		}
	case "request", "cancel", "reject":
		i, b, l := idx("i"), gen.U32(rt, "begin"), rapid.SampledFrom([]uint32{0, 1, 16384, 16385, 1 << 17, 1 << 31, 1<<32 - 1}).Draw(rt, "len")
		switch kind {
		case "request":
			m = protocol.Request{Index: i, Begin: b, Length: l}
		case "cancel":
			m = protocol.Cancel{Index: i, Begin: b, Length: l}
		default:
			m = protocol.RejectRequest{Index: i, Begin: b, Length: l}
		}
		cls += ":" + fieldClass(i, npieces)
	case "piece":
		i := idx("i")
		b := rapid.SampledFrom([]uint32{0, 16384, 1, 32768, 1 << 31, 1<<32 - 16384}).Draw(rt, "begin")
		n := rapid.SampledFrom([]int{0, 1, 16383, 16384, 16385, 32768, 100000}).Draw(rt, "plen")
		m = protocol.Piece{Index: i, Begin: b, Data: gen.Fill(7, n)}
		cls += ":" + fieldClass(i, npieces)
	case "port":
		m = protocol.Port{Port: rapid.Uint16().Draw(rt, "port")}
	case "suggest":
		m = protocol.SuggestPiece{Index: idx("i")}
	case "haveall":
		m = protocol.HaveAll{}
	case "havenone":
		m = protocol.HaveNone{}
	case "allowedfast":
		m = protocol.AllowedFast{Index: idx("i")}
	case "ext0":
		e := protocol.Extended0{Version: rapid.StringN(0, 30, -1).Draw(rt, "v"), Port: rapid.Uint16().Draw(rt, "p"),
			ReqQ:         rapid.SampledFrom([]uint32{0, 1, 250, 1 << 31, 1<<32 - 1}).Draw(rt, "reqq"),
			MetadataSize: rapid.SampledFrom([]uint32{0, 0, 1, 1000, 16384, 49000, MiB, 128 * MiB, 128*MiB + 1, 1<<32 - 1}).Draw(rt, "ms"),
			UploadOnly:   rapid.Bool().Draw(rt, "uo"), Encrypt: rapid.Bool().Draw(rt, "e")}
		if rapid.Bool().Draw(rt, "m?") {
			e.Messages = map[string]uint8{}
			for _, k := range []string{"ut_pex", "ut_metadata", "lt_donthave", "upload_only", "zz"} {
				if rapid.Bool().Draw(rt, "m."+k) {
					e.Messages[k] = rapid.Uint8().Draw(rt, "mv")
				}
			}
		}
		if rapid.Bool().Draw(rt, "ip4") {
			e.IPv4 = gen.Addr4(rt, "ip4")
		}
		if rapid.Bool().Draw(rt, "ip6") {
			e.IPv6 = gen.Addr6(rt, "ip6")
		}
		m = e
	case "pex":
		n := rapid.SampledFrom([]int{0, 1, 5, 50, 51, 1000, 5000}).Draw(rt, "npex")
		var add, del []pex.Peer
		for i := 0; i < n; i++ {
			a := netip.AddrPortFrom(netip.AddrFrom4([4]byte{9, byte(i >> 16), byte(i >> 8), byte(i)}), uint16(1+i%60000))
			if rapid.IntRange(0, 9).Draw(rt, "dup") == 0 && len(add) > 0 {
				a = add[0].Addr
			}
			add = append(add, pex.Peer{Addr: a, Flags: byte(i)})
		}
		for i := 0; i < n/2; i++ {
			del = append(del, pex.Peer{Addr: netip.AddrPortFrom(netip.AddrFrom4([4]byte{9, 9, byte(i >> 8), byte(i)}), 7)})
		}
		m = protocol.ExtendedPex{Subtype: protocol.ExtPex, Added: add, Dropped: del}
		if n >= 1000 {
			cls += ":flood"
		}
	case "metadata":
		tpe := uint8(rapid.SampledFrom([]int{0, 1, 1, 2, 3, 255}).Draw(rt, "mtype"))
		pi := rapid.SampledFrom([]uint32{0, 1, 2, 3, 4, 100, 1 << 31, 1<<32 - 1}).Draw(rt, "mpiece")
		total := rapid.SampledFrom([]uint32{0, 1000, 16384, 49000, MiB, 1<<32 - 1}).Draw(rt, "mtotal")
		n := rapid.SampledFrom([]int{0, 1, 1000, 16383, 16384, 16385}).Draw(rt, "mlen")
		m = protocol.ExtendedMetadata{Subtype: protocol.ExtMetadata, Type: tpe, Piece: pi, TotalSize: total, Data: gen.Fill(8, n)}
		cls += fmt.Sprintf(":type%d", min(int(tpe), 3))
	case "donthave":
		v := capIdx(idx("i"))
		m = protocol.ExtendedDontHave{Subtype: protocol.ExtDontHave, Index: v}
		cls += ":" + fieldClass(v, npieces)
	case "uploadonly":
		m = protocol.ExtendedUploadOnly{Subtype: protocol.ExtUploadOnly, Value: rapid.Bool().Draw(rt, "v")}
	case "extunknown":
		m = protocol.ExtendedUnknown{Subtype: rapid.Uint8Range(5, 255).Draw(rt, "sub")}
	case "unknown":
		m = protocol.Unknown{}
	case "error":
		m = protocol.Error{Error: io.EOF}
	}
	wire := 6
	if r, ok := conv.ToRef(m); ok {
		wire = len(ref.Encode(r))
	}
	return m, cls, wire
}

func run(rt *rapid.T, magnet bool, npieces int, caps []pump.Caps, steps []step, plK ...int) (fail string, labels map[string]bool, hist []string) {
	labels = map[string]bool{}
	var t *tor.Torrent
	var err error
	if magnet {
		t, err = tor.New("", hash.Hash(gen.Fill(1, 20)), "", nil, 0, nil, nil)
	} else {
		pl := 16384
		if len(plK) > 0 {
			pl = plK[0] * 16384
		}
		info := ref.Benc(map[string]any{"name": "c05", "piece length": pl, "length": int64(npieces) * int64(pl), "pieces": gen.Fill(2, 20*npieces)})
		t, err = tor.ReadTorrent("", bytes.NewReader(ref.Benc(map[string]any{"info": ref.Raw(info)})))
	}
	if err != nil {
		return err.Error(), labels, nil
	}
	t.Log.SetOutput(nullWriter{})
	w := pump.NewWorld(t)
	defer w.Close()
	for _, c := range caps {
		w.AddPeer(c, false)
	}
	describe := func() string {
		return fmt.Sprintf("\nmetadata known: %v, %d pieces, peers %+v; history: %v", !magnet, npieces, caps, hist)
	}
	var ms0, ms1 runtime.MemStats
	for _, s := range steps {
		hist = append(hist, s.String())
		live := []*pump.PP{}
		for _, pp := range w.Peers {
			if pp.Alive {
				live = append(live, pp)
			}
		}
		if len(live) == 0 {
			w.AddPeer(caps[0], false)
			live = append(live, w.Peers[len(w.Peers)-1])
		}
		pp := live[s.P%len(live)]
		switch s.Kind {
		case "msg":
			votesBefore := fmt.Sprint(tor.VerifInfoSizeVotes(t))
			known := t.InfoComplete()
			runtime.ReadMemStats(&ms0)
			herr, pv := pp.Msg(s.M)
			if pv != "" {
				return pv + describe(), labels, hist
			}
			if p := w.Drain(); p != "" {
				return p + describe(), labels, hist
			}
			runtime.ReadMemStats(&ms1)
			alloc := ms1.TotalAlloc - ms0.TotalAlloc
			budget := uint64(8*MiB + 256*s.Wire)
			if known {
				budget += uint64(16 * npieces)
			}
			if fmt.Sprint(tor.VerifInfoSizeVotes(t)) != votesBefore || !known {
				// the code's own sanity rule: a metadata buffer of 1..128 MiB for the majority size
				var biggest uint32
				for sz := range tor.VerifInfoSizeVotes(t) {
					biggest = max(biggest, sz)
				}
				budget += uint64(biggest) + uint64(biggest)/1024
			}
			if alloc > budget {
				return fmt.Sprintf("handling %s (%d bytes on the wire) allocated %d bytes, more than %d (8 MiB + 256 x wire size + allowances): memory proportional to a numeric field of the message", s.Desc, s.Wire, alloc, budget) + describe(), labels, hist
			}
			if herr != nil {
				labels["peer-disconnected-by-error"] = true
			}
		case "msg-pair":
			// end game: the same block arrives from two peers before the torrent
			// has heard of either delivery
			if len(live) < 2 {
				continue
			}
			for _, q := range []*pump.PP{live[0], live[1]} {
				m := s.M
				if pc, ok := m.(protocol.Piece); ok {
					// the handler recycles the data buffer
					pc.Data = append([]byte(nil), pc.Data...)
					m = pc
				}
				if _, pv := q.Msg(m); pv != "" {
					return pv + describe(), labels, hist
				}
			}
			labels["same-block-from-two-peers-at-once"] = true
			if p := w.Drain(); p != "" {
				return p + describe(), labels, hist
			}
		case "cmd":
			var e peer.PeerEvent
			total := (int(t.Pieces.Length()) + 16383) / 16384
			switch s.Cmd {
			case "request":
				if !t.InfoComplete() || total == 0 {
					continue
				}
				// two blocks, or more than the pipeline takes at once (the rest waits in the peer's queue)
				n := []int{2, 2, 12, 300}[s.A/7%4]
				var chunks []uint32
				for k := 0; k < min(n, total); k++ {
					chunks = append(chunks, uint32((s.A+k)%total))
				}
				e = peer.PeerRequest{Chunks: chunks}
				if len(chunks) > 2 {
					labels["more-blocks-asked-than-the-pipeline-takes"] = true
				}
			case "cancel":
				if !t.InfoComplete() {
					continue
				}
				e = peer.PeerCancel{Chunk: uint32(s.A % max(total, 1))}
			case "have":
				if !t.InfoComplete() {
					continue
				}
				e = peer.PeerHave{Index: uint32(s.A % max(npieces, 1)), Have: s.A%2 == 0}
			case "unchoke":
				e = peer.PeerUnchoke{Unchoke: s.A%2 == 0}
			case "interested":
				e = peer.PeerInterested{Interested: s.A%2 == 0}
			}
			select {
			case pp.P.Event <- e:
			case <-pp.P.Done:
			}
			if p := w.Drain(); p != "" {
				return p + describe(), labels, hist
			}
		case "tick":
			var pv string
			func() {
				defer func() {
					if r := recover(); r != nil {
						pv = fmt.Sprintf("periodicRequest / requestMetadata panicked: %v", r)
					}
				}()
				if t.InfoComplete() {
					tor.VerifPeriodicRequest(w.Ctx, t)
				} else {
					tor.VerifRequestMetadata(t, nil)
				}
			}()
			if pv != "" {
				return pv + describe(), labels, hist
			}
			if p := w.Drain(); p != "" {
				return p + describe(), labels, hist
			}
		case "peer-tick":
			// the periodic branches of the peer's own loop: what the messages
			// handled so far give rise to later
			if s.Cmd == "upload" && len(peer.VerifUploadQueue(pp.P)) > 0 {
				labels["upload-tick-with-queued-requests"] = true
			}
			runtime.ReadMemStats(&ms0)
			if pv := pp.PeerTick(s.Cmd); pv != "" {
				return pv + describe(), labels, hist
			}
			if p := w.Drain(); p != "" {
				return p + describe(), labels, hist
			}
			runtime.ReadMemStats(&ms1)
			if alloc, budget := ms1.TotalAlloc-ms0.TotalAlloc, uint64(8*MiB+16*npieces); alloc > budget {
				return fmt.Sprintf("the peer's %s tick allocated %d bytes, more than %d: memory proportional to a numeric field of an earlier message", s.Cmd, alloc, budget) + describe(), labels, hist
			}
			labels["peer-tick:"+s.Cmd] = true
		case "settle-hash":
			// give the verification goroutine its moment, then handle what it reports
			for k := 0; k < 2000 && npieces > 0; k++ {
				if t.Pieces.Complete(0) || t.Pieces.PieceEmpty(0) {
					break
				}
				time.Sleep(50 * time.Microsecond)
			}
			time.Sleep(200 * time.Microsecond)
			if p := w.Drain(); p != "" {
				return p + describe(), labels, hist
			}
		case "consumer":
			if !t.InfoComplete() || npieces == 0 {
				continue
			}
			_, pv := w.HandleTor(peer.TorRequest{Index: uint32(s.A % npieces), Priority: 1, Request: s.A%3 != 0})
			if pv != "" {
				return pv + describe(), labels, hist
			}
			if p := w.Drain(); p != "" {
				return p + describe(), labels, hist
			}
		case "disconnect":
			pp.Disconnect()
			if p := w.Drain(); p != "" {
				return p + describe(), labels, hist
			}
		}
	}
	return "", labels, hist
}

type nullWriter struct{}

func (nullWriter) Write(p []byte) (int, error) { return len(p), nil }

func TestC05Messages(t *testing.T) {
	sim.Init()
	rapid.Check(t, func(rt *rapid.T) {
		magnet := rapid.Bool().Draw(rt, "magnet")
		npieces := 0
		if !magnet {
			npieces = rapid.SampledFrom([]int{1, 2, 8, 9, 100, 5000}).Draw(rt, "pieces")
		}
		var caps []pump.Caps
		classes := map[string]bool{}
		for i, n := 0, rapid.IntRange(1, 3).Draw(rt, "peers"); i < n; i++ {
			caps = append(caps, pump.Caps{Fast: rapid.Bool().Draw(rt, "fast"), Extended: rapid.Bool().Draw(rt, "ext"), DHT: rapid.Bool().Draw(rt, "dht"),
				AddrClass: rapid.SampledFrom([]string{"", "", "", "loopback", "link-local", "private", "port-0", "v6"}).Draw(rt, "addr")})
			if caps[len(caps)-1].AddrClass != "" {
				classes["peer-address:"+caps[len(caps)-1].AddrClass] = true
			}
		}
		var steps []step
		for i, n := 0, rapid.IntRange(1, 60).Draw(rt, "nsteps"); i < n; i++ {
			switch k := rapid.IntRange(0, 9).Draw(rt, "kind"); {
			case k < 7:
				m, cls, wire := genMessage(rt, npieces, magnet)
				steps = append(steps, step{Kind: "msg", P: rapid.IntRange(0, 5).Draw(rt, "p"), M: m, Desc: describeMsg(m), Wire: wire})
				classes[cls] = true
			case k == 7:
				steps = append(steps, step{Kind: "cmd", P: rapid.IntRange(0, 5).Draw(rt, "p"), Cmd: rapid.SampledFrom([]string{"request", "cancel", "have", "unchoke", "interested"}).Draw(rt, "cmd"), A: rapid.IntRange(0, 100000).Draw(rt, "a")})
			case k == 8:
				st := step{Kind: rapid.SampledFrom([]string{"tick", "consumer", "consumer", "peer-tick", "peer-tick"}).Draw(rt, "misc"), A: rapid.IntRange(0, 100000).Draw(rt, "a")}
				if st.Kind == "peer-tick" {
					st.P = rapid.IntRange(0, 5).Draw(rt, "p")
					st.Cmd = rapid.SampledFrom([]string{"upload", "upload", "expire", "pex"}).Draw(rt, "ticker")
				}
				steps = append(steps, st)
			default:
				steps = append(steps, step{Kind: "disconnect", P: rapid.IntRange(0, 5).Draw(rt, "p")})
			}
		}
		plK := rapid.SampledFrom([]int{1, 1, 2, 4}).Draw(rt, "pieceBlocks")
		if npieces > 100 {
			plK = 1
		}
		if !magnet && rapid.Bool().Draw(rt, "withOutstandingRequests") {
			// a useful prefix: the peer has everything and unchokes us, the scheduler asks it for the first blocks
			bf := make([]byte, (npieces+7)/8)
			for i := 0; i < npieces; i++ {
				bf[i/8] |= 0x80 >> (i % 8)
			}
			pre := []step{{Kind: "msg", P: 0, M: protocol.Bitfield{Bitfield: bf}, Desc: "Bitfield{all}", Wire: 5 + len(bf)},
				{Kind: "msg", P: 0, M: protocol.Unchoke{}, Desc: "Unchoke", Wire: 5}, {Kind: "cmd", P: 0, Cmd: "request", A: rapid.SampledFrom([]int{0, 14, 21, 21}).Draw(rt, "prefixRequest")}}
			if len(caps) >= 2 && rapid.IntRange(0, 1).Draw(rt, "endGame") == 0 {
				// end game: a second peer is asked for the same blocks, and the block
				// that completes piece 0 arrives from both at once; the piece is then
				// hashed for real (and fails: the hashes of this torrent are arbitrary)
				pre[2].A = 0
				pre = append(pre, step{Kind: "msg", P: 1, M: protocol.Bitfield{Bitfield: bf}, Desc: "Bitfield{all}", Wire: 5 + len(bf)},
					step{Kind: "msg", P: 1, M: protocol.Unchoke{}, Desc: "Unchoke", Wire: 5}, step{Kind: "cmd", P: 1, Cmd: "request", A: 0})
				if plK > 2 {
					// blocks 2 and 3 as well, from both
					pre = append(pre, step{Kind: "cmd", P: 0, Cmd: "request", A: 2}, step{Kind: "cmd", P: 1, Cmd: "request", A: 2})
				}
				for b := 0; b < plK; b++ {
					pc := protocol.Piece{Index: 0, Begin: uint32(b * 16384), Data: gen.Fill(78+uint64(b), 16384)}
					kind := "msg"
					if b == plK-1 {
						kind = "msg-pair"
					}
					pre = append(pre, step{Kind: kind, P: 0, M: pc, Desc: describeMsg(pc), Wire: 13 + 16384})
				}
				pre = append(pre, step{Kind: "settle-hash"})
			} else if rapid.Bool().Draw(rt, "deliverFirst") {
				// ... and the peer delivers the first block: with one-block pieces that
				// completes a piece, which is then hashed for real (the hashes of this
				// torrent are arbitrary: the piece fails, its contributors are blamed)
				pc := protocol.Piece{Index: 0, Begin: 0, Data: gen.Fill(77, 16384)}
				pre = append(pre, step{Kind: "msg", P: 0, M: pc, Desc: describeMsg(pc), Wire: 13 + 16384}, step{Kind: "settle-hash"})
				classes["block-of-outstanding-request-delivered"] = true
			}
			steps = append(pre, steps...)
			classes["with-outstanding-requests"] = true
		}
		if rapid.IntRange(0, 2).Draw(rt, "unchokedByUs") == 0 {
			// another useful prefix: the remote is interested and we unchoke it, so its requests are queued for upload
			pre := []step{{Kind: "msg", P: 0, M: protocol.Interested{}, Desc: "Interested", Wire: 5}, {Kind: "cmd", P: 0, Cmd: "unchoke", A: 0}}
			for i, n := 0, rapid.IntRange(0, 3).Draw(rt, "uploadRequests"); i < n; i++ {
				rq := protocol.Request{Index: uint32(rapid.IntRange(0, max(npieces, 1)).Draw(rt, "ri")), Begin: rapid.SampledFrom([]uint32{0, 16384, 1, 1 << 31}).Draw(rt, "rb"),
					Length: rapid.SampledFrom([]uint32{0, 1, 16384, 16385, 1 << 17, 1 << 24, 1 << 29, 1 << 31, 1<<32 - 1}).Draw(rt, "rl")}
				pre = append(pre, step{Kind: "msg", P: 0, M: rq, Desc: describeMsg(rq), Wire: 17})
				if rapid.Bool().Draw(rt, "tickNow") {
					pre = append(pre, step{Kind: "peer-tick", P: 0, Cmd: "upload"})
				}
			}
			steps = append(pre, steps...)
			classes["unchoked-by-us"] = true
		}
		fail, labels, _ := run(rt, magnet, npieces, caps, steps, plK)
		if fail != "" {
			rt.Fatalf("%s", fail)
		}
		state := "metadata-known"
		if magnet {
			state = "before-metadata"
		}
		var l []string
		for c := range classes {
			l = append(l, state+"/"+c)
		}
		for k := range labels {
			l = append(l, k)
		}
		sort.Strings(l)
		nontrivial := false
		for c := range classes {
			for _, bad := range []string{":n", ":small-out", ":mid", ":high", ":overlong", ":flood", ":type"} {
				if len(c) > len(bad) && bytes.Contains([]byte(c), []byte(bad)) {
					nontrivial = true
				}
			}
		}
		capset := ""
		for _, c := range caps {
			capset += fmt.Sprintf("%v%v%v,", c.Fast, c.Extended, c.DHT)
		}
		stats.Case(fmt.Sprint(l, capset), nontrivial, l...)
		if nontrivial && stats.WantSample("c05:"+state) {
			stats.Sample("c05:"+state, map[string]any{"pieces": npieces, "caps": fmt.Sprintf("%+v", caps), "steps": fmt.Sprint(steps)})
		}
	})
}

// Have with a huge index before the piece count is known (scaled down: index 2^26)
func TestReg_c05_index_before_metadata(t *testing.T) {
	sim.Init()
	m := protocol.Have{Index: 1 << 26}
	fail, _, _ := run(nil, true, 0, []pump.Caps{{Extended: true}}, []step{{Kind: "msg", P: 0, M: m, Desc: describeMsg(m), Wire: 9}})
	if fail != "" {
		t.Fatalf("%s", fail)
	}
}

// AllowedFast with an out-of-range index, then the idle prefetcher's tick
func TestReg_c05_allowedfast_range(t *testing.T) {
	sim.Init()
	for _, magnetFirst := range []bool{false} {
		_ = magnetFirst
		m := protocol.AllowedFast{Index: 1}
		fail, _, _ := run(nil, false, 1, []pump.Caps{{Fast: true}}, []step{{Kind: "msg", P: 0, M: m, Desc: describeMsg(m), Wire: 9}, {Kind: "tick"}})
		if fail != "" {
			t.Fatalf("%s", fail)
		}
	}
}
