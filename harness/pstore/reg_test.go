package pstore

import (
	"crypto/sha1"
	"testing"

	"github.com/jech/storrent/alloc"
	"github.com/jech/storrent/mono"
	"github.com/jech/storrent/tor/piece"

	"verif/gen"
)

// scripted builds a world with one store of n pieces of ps bytes and the given
// per-actor operation lists, and runs it under a fixed schedule.
func scripted(t *testing.T, ps int64, n int, length int64, script []int, build func(s *mstore) [][]op) {
	t.Helper()
	w := &world{events: make(chan event), flags: map[string]bool{}, script: script}
	if w.script == nil {
		w.script = []int{}
	}
	failed := ""
	w.fatal = func(m string) { failed = m }
	mono.VerifResetOrigin()
	w.base = alloc.Bytes()
	s := &mstore{id: 0, ps: new(piece.Pieces), psize: ps, length: length, n: n}
	s.content = gen.Fill(42, int(length))
	s.pieces = make([]mpiece, n)
	for i := 0; i < n; i++ {
		h := sha1.Sum(s.content[int64(i)*ps:][:s.plen(i)])
		s.hashes = append(s.hashes, h[:])
	}
	s.ps.MetadataComplete(uint32(ps), length)
	w.stores = []*mstore{s}
	for _, ops := range build(s) {
		w.actors = append(w.actors, &actorState{resume: make(chan struct{}), ops: ops})
	}
	done := make(chan struct{})
	go func() { defer close(done); w.execute() }()
	<-done
	if failed != "" {
		t.Fatalf("%s", failed)
	}
}

func addValid(s *mstore, i, c int) op {
	return op{Kind: "add", Store: 0, Index: i, Begin: uint32(c * blk), Variant: "valid",
		data: s.content[int64(i)*s.psize+int64(c)*blk:][:s.blen(i, c)]}
}

// Del waits for a piece whose hash then fails: the hasher frees the piece,
// del continued with a nil buffer and decremented the count again.
func TestReg_c03_del_after_failed_hash(t *testing.T) {
	scripted(t, 16384, 2, 32768, []int{0, 0, 0, 0, 1, 1, 0, 0, 1, 1},
		func(s *mstore) [][]op {
			bad := append([]byte(nil), s.content[:blk]...)
			bad[0] ^= 1
			return [][]op{
				{{Kind: "add", Store: 0, Index: 0, Begin: 0, Variant: "corrupt", data: bad},
					{Kind: "finalise", Store: 0, Index: 0, HashSel: "right", hash: s.hashes[0]}},
				{{Kind: "del", Store: 0}},
			}
		})
}

// AddData on an already swept piece while Del waits for a busy one: the
// buffer stays allocated to the deleted torrent.
func TestReg_c03_adddata_during_del(t *testing.T) {
	scripted(t, 16384, 2, 32768, []int{0, 0, 0, 0, 1, 1, 2, 2, 0, 0, 1},
		func(s *mstore) [][]op {
			return [][]op{
				{addValid(s, 1, 0), {Kind: "finalise", Store: 0, Index: 1, HashSel: "right", hash: s.hashes[1]}},
				{{Kind: "del", Store: 0}},
				{addValid(s, 0, 0)},
			}
		})
}
