package pstore

import (
	"fmt"
	"sort"
	"strings"
	"testing"

	"pgregory.net/rapid"

	"verif/stats"
)

func TestMain(m *testing.M) { stats.Main(m) }

func flagList(w *world) []string {
	var l []string
	for f := range w.flags {
		l = append(l, f)
	}
	sort.Strings(l)
	return l
}

func sample(w *world) any {
	var acts []string
	for i, a := range w.actors {
		var ops []string
		for _, o := range a.ops {
			ops = append(ops, o.String())
		}
		acts = append(acts, fmt.Sprintf("a%d: %s", i, strings.Join(ops, "; ")))
	}
	geo := []string{}
	for _, s := range w.stores {
		geo = append(geo, fmt.Sprintf("store%d: piece %d KiB, %d pieces, length %d", s.id, s.psize/1024, s.n, s.length))
	}
	tr := w.tr.lines
	if len(tr) > 40 {
		tr = tr[:40]
	}
	return map[string]any{"geometry": geo, "actors": acts, "schedule_prefix": tr, "flags": flagList(w)}
}

// C01 at store level: only hash-verified data is ever readable.
func TestC01Store(t *testing.T) {
	rapid.Check(t, func(t *rapid.T) {
		w := runCase(t, 1)
		f := w.flags
		interesting := f["corrupt-block-stored"] || f["multi-block-adddata"] || f["evict-complete"] || f["del"] || f["read-while-busy"] || f["adddata-while-busy"]
		nontrivial := f["finalise-ok"] && f["read-complete"] && interesting
		labels := flagList(w)
		if f["evict-complete"] && f["read-empty-or-evicted"] {
			labels = append(labels, "evict-after-complete")
		}
		s := w.stores[0]
		stats.Case(fmt.Sprintf("%v|ps%d|n%d|tail%d", flagList(w), s.psize/1024, s.n, s.length%blk), nontrivial, labels...)
		if nontrivial && stats.WantSample("c01-nontrivial") {
			stats.Sample("c01-nontrivial", sample(w))
		}
	})
}

// C03: piece memory is accounted, evictable to the target, fully released.
func TestC03Store(t *testing.T) {
	rapid.Check(t, func(t *rapid.T) {
		w := runCase(t, 3)
		f := w.flags
		nontrivial := f["free-while-others-inside"] || f["expire-skips-busy"] || f["del-waits-for-hash"] || (len(w.stores) > 1 && (f["evicted"] || f["del"]))
		labels := flagList(w)
		if len(w.stores) > 1 {
			labels = append(labels, "multi-store")
		}
		stats.Case(fmt.Sprintf("%v|stores%d", flagList(w), len(w.stores)), nontrivial, labels...)
		if nontrivial && stats.WantSample("c03-nontrivial") {
			stats.Sample("c03-nontrivial", sample(w))
		}
	})
}
