package pstore

import (
	"bytes"
	"crypto/sha1"
	"io"
	"runtime/debug"
	"sync"
	"sync/atomic"
	"testing"

	"pgregory.net/rapid"

	"github.com/jech/storrent/alloc"
	"github.com/jech/storrent/hash"
	"github.com/jech/storrent/tor/piece"

	"verif/gen"
	"verif/stats"
)

// Unscheduled stress: the same operation mix on free-running goroutines (no
// yield hook, the Go scheduler decides), meant to be run under -race in the
// thorough tier.  No model; the oracle is the race detector, content equality
// of everything read, accounting back to zero, and no panic / fault.
func TestC01RaceStress(t *testing.T) {
	rapid.Check(t, func(rt *rapid.T) {
		ps := int64(rapid.SampledFrom([]int{16, 32, 128, 256}).Draw(rt, "pieceKiB")) * 1024
		n := rapid.IntRange(2, 6).Draw(rt, "pieces")
		length := ps*int64(n) - int64(rapid.SampledFrom([]int{0, 1, 100, 16383}).Draw(rt, "tail"))
		content := gen.Fill(rapid.Uint64().Draw(rt, "content"), int(length))
		var hashes [][]byte
		plen := func(i int) int64 {
			if i == n-1 {
				return length - int64(i)*ps
			}
			return ps
		}
		for i := 0; i < n; i++ {
			h := sha1.Sum(content[int64(i)*ps:][:plen(i)])
			hashes = append(hashes, h[:])
		}
		base := alloc.Bytes()
		store := new(piece.Pieces)
		store.MetadataComplete(uint32(ps), length)
		workers := rapid.IntRange(3, 8).Draw(rt, "workers")
		rounds := rapid.IntRange(20, 200).Draw(rt, "rounds")
		seeds := rapid.SliceOfN(rapid.Uint64(), workers, workers).Draw(rt, "seeds")
		withDel := rapid.Bool().Draw(rt, "withDel")
		var bad atomic.Value
		var reads, good atomic.Int64
		var wg sync.WaitGroup
		for wkr := 0; wkr < workers; wkr++ {
			wg.Add(1)
			go func(wkr int) {
				defer wg.Done()
				debug.SetPanicOnFault(true)
				defer func() {
					if r := recover(); r != nil {
						bad.Store("panic: " + stringOf(r))
					}
				}()
				x := seeds[wkr]
				next := func(m int) int {
					x = x*6364136223846793005 + 1442695040888963407
					return int((x >> 33) % uint64(m))
				}
				for r := 0; r < rounds; r++ {
					i := next(n)
					switch next(10) {
					case 0, 1, 2, 3:
						nb := int((plen(i) + blk - 1) / blk)
						c := next(nb)
						off := int64(i)*ps + int64(c)*blk
						d := content[off:min(off+blk, int64(i)*ps+plen(i))]
						if next(5) == 0 {
							d = append([]byte(nil), d...)
							d[0] ^= 1
						}
						store.AddData(uint32(i), uint32(c*blk), d, 3)
					case 4, 5:
						store.Finalise(uint32(i), hash.Hash(hashes[i]))
					case 6, 7, 8:
						buf := make([]byte, 1+next(40000))
						off := int64(next(int(length)))
						k, err := store.ReadAt(buf, off)
						reads.Add(1)
						if err != nil && err != io.EOF {
							bad.Store("ReadAt error " + err.Error())
						}
						if k > 0 {
							good.Add(1)
							if !bytes.Equal(buf[:k], content[off:off+int64(k)]) {
								bad.Store("ReadAt returned bytes that differ from the torrent's content")
							}
						}
					default:
						if withDel && wkr == 0 && r == rounds/2 {
							store.Del()
						} else {
							store.Expire(int64(next(n))*ps, nil, func(uint32) {})
						}
					}
				}
			}(wkr)
		}
		wg.Wait()
		store.Del()
		if v := bad.Load(); v != nil {
			rt.Fatalf("%v", v)
		}
		if got := alloc.Bytes() - base; got != 0 {
			rt.Fatalf("%d bytes remain allocated after Del", got)
		}
		stats.Case("stress", good.Load() > 0, "race-stress", "race-stress-read-verified-data")
	})
}

func stringOf(v any) string {
	if e, ok := v.(error); ok {
		return e.Error()
	}
	if s, ok := v.(string); ok {
		return s
	}
	return "?"
}
