package pstore

// Two more unscheduled stress tests (real parallelism, the Go scheduler
// decides).  They are plain tests with a fixed amount of work.
//
// TestC03ParallelStores: several stores (torrents) allocate and free at the
// same time; the global accounting must come back to exactly where it was,
// and never be seen negative.
//
// TestC03ReadVersusEviction: readers copy whole memory-mapped pieces while
// another goroutine evicts and refills them; a read returns the torrent's
// bytes or nothing, and never faults on memory that was given back.

import (
	"bytes"
	"crypto/sha1"
	"fmt"
	"os"
	"runtime"
	"runtime/debug"
	"sync"
	"sync/atomic"
	"testing"

	"github.com/jech/storrent/alloc"
	"github.com/jech/storrent/hash"
	"github.com/jech/storrent/tor/piece"

	"verif/gen"
	"verif/stats"
)

func TestC03ParallelStores(t *testing.T) {
	base := alloc.Bytes()
	const workers, rounds = 8, 400
	var wg sync.WaitGroup
	var negative atomic.Int64
	stores := make([]*piece.Pieces, workers)
	for w := range stores {
		stores[w] = new(piece.Pieces)
		// 256 KiB pieces are memory-mapped, 64 KiB ones come from the heap
		ps := uint32([]int{64, 256, 128, 16}[w%4] * 1024)
		stores[w].MetadataComplete(ps, int64(ps)*4)
	}
	block := gen.Fill(5, blk)
	for w := 0; w < workers; w++ {
		wg.Add(1)
		go func(w int) {
			defer wg.Done()
			st := stores[w]
			for r := 0; r < rounds; r++ {
				for i := uint32(0); i < 4; i++ {
					st.AddData(i, 0, block, 1)
				}
				if v := alloc.Bytes(); v < 0 {
					negative.Store(v)
				}
				if r%3 == 2 {
					st.Expire(0, nil, func(uint32) {})
				} else {
					st.Expire(int64(st.PieceSize()), nil, func(uint32) {})
				}
			}
		}(w)
	}
	wg.Wait()
	var held int64
	for _, st := range stores {
		held += st.Bytes()
	}
	if got := alloc.Bytes() - base; got != held {
		t.Fatalf("%d stores allocating and freeing in parallel: the memory manager accounts for %d bytes, the stores hold %d", workers, got, held)
	}
	for _, st := range stores {
		st.Del()
	}
	if got := alloc.Bytes() - base; got != 0 {
		t.Fatalf("every store has been deleted, %d bytes are still accounted for", got)
	}
	if v := negative.Load(); v != 0 {
		t.Fatalf("the accounted total was seen negative (%d)", v)
	}
	stats.Case("parallel-stores", true, "parallel-stores")
}

func TestC03ReadVersusEviction(t *testing.T) {
	const ps, n = 256 * 1024, 3
	content := gen.Fill(9, ps*n)
	var hashes [][]byte
	for i := 0; i < n; i++ {
		h := sha1.Sum(content[i*ps : (i+1)*ps])
		hashes = append(hashes, h[:])
	}
	base := alloc.Bytes()
	st := new(piece.Pieces)
	st.MetadataComplete(ps, ps*n)
	fill := func() {
		for i := 0; i < n; i++ {
			for b := 0; b < ps; b += blk {
				st.AddData(uint32(i), uint32(b), content[i*ps+b:i*ps+b+blk], 1)
			}
			st.Finalise(uint32(i), hash.Hash(hashes[i]))
		}
	}
	fill()
	var stop atomic.Bool
	var bad atomic.Value
	var reads, full atomic.Int64
	var wg sync.WaitGroup
	for r := 0; r < 4; r++ {
		wg.Add(1)
		go func(r int) {
			defer wg.Done()
			debug.SetPanicOnFault(true)
			defer func() {
				if v := recover(); v != nil {
					bad.Store(fmt.Sprintf("a read faulted: %v (the piece's memory was given back while it was being copied)", v))
				}
			}()
			buf := make([]byte, ps)
			for k := 0; !stop.Load(); k++ {
				i := (k + r) % n
				got, _ := st.ReadAt(buf, int64(i)*ps)
				reads.Add(1)
				if got > 0 {
					if got == ps {
						full.Add(1)
					}
					if !bytes.Equal(buf[:got], content[i*ps:i*ps+got]) {
						bad.Store("a read returned bytes that are not the torrent's content")
						return
					}
				}
			}
		}(r)
	}
	for cycle := 0; cycle < 400 && bad.Load() == nil; cycle++ {
		st.Expire(0, nil, func(uint32) {})
		fill()
	}
	stop.Store(true)
	wg.Wait()
	st.Del()
	if v := bad.Load(); v != nil {
		t.Fatalf("%v", v)
	}
	if got := alloc.Bytes() - base; got != 0 {
		t.Fatalf("%d bytes remain allocated after Del", got)
	}
	stats.Case("read-vs-eviction", full.Load() > 0, "read-versus-eviction")
	stats.Note("read versus eviction: %d reads, %d of a whole piece, 400 evict-and-refill cycles", reads.Load(), full.Load())
}

// Verification compares all 160 bits of the hash: a piece whose SHA-1 differs
// from the expected one in a single bit (any of the 160) is not verified.
func TestC01NearMissHashes(t *testing.T) {
	for _, ps := range []int{16 * 1024, 256 * 1024} {
		content := gen.Fill(21, ps)
		h := sha1.Sum(content)
		for bit := 0; bit <= 160; bit++ {
			st := new(piece.Pieces)
			st.MetadataComplete(uint32(ps), int64(ps))
			for b := 0; b < ps; b += blk {
				st.AddData(0, uint32(b), content[b:b+blk], 1)
			}
			want := append([]byte(nil), h[:]...)
			if bit < 160 {
				want[bit/8] ^= 0x80 >> (bit % 8)
			}
			done, _, err := st.Finalise(0, hash.Hash(want))
			buf := make([]byte, 100)
			n, _ := st.ReadAt(buf, 0)
			if bit < 160 && (done || n > 0) {
				t.Fatalf("piece of %d KiB: its SHA-1 %x differs from the expected hash %x in bit %d, yet Finalise returned done=%v (err %v) and %d bytes are readable", ps/1024, h, want, bit, done, err, n)
			}
			if bit == 160 && (!done || n != 100) {
				t.Fatalf("harness: the true hash was not accepted (%v)", err)
			}
			st.Del()
		}
	}
	stats.Case("near-miss-hashes", true, "near-miss-hashes")
	stats.Exhaustive("single-bit differences between computed and expected piece hash (160 bits x heap and mmap pieces)")
}

// An allocation the operating system refuses (the address space, the mapping
// count or a resource limit is exhausted) must leave the accounting where it
// was: what is reported as allocated is what is held.
func TestC03AllocFailure(t *testing.T) {
	before := alloc.Bytes()
	refused := 0
	for _, n := range []int{1 << 47, 1<<46 + 4096, 1<<47 + 128*1024} {
		b, err := alloc.Alloc(n)
		if err == nil {
			alloc.Free(b)
			continue // this machine maps that much; nothing to see
		}
		refused++
		if got := alloc.Bytes(); got != before {
			// (the error's own text - ENOMEM - is left out: the driver reads it as
			// "this machine ran out of memory")
			t.Fatalf("alloc.Alloc(%d) was refused by the system and %d bytes are reported as allocated, %d before the call: the accounting counts memory that is not held", n, got, before)
		}
	}
	if got := alloc.Bytes(); got != before {
		t.Fatalf("after allocating and freeing: %d bytes reported, %d before", got, before)
	}
	if refused == 0 {
		t.Skip("inconclusive: no allocation was refused on this machine")
	}
	stats.Case("alloc-refused", true, "allocation-refused-by-the-system")
}

func vsize() (int64, bool) {
	b, err := os.ReadFile("/proc/self/statm")
	if err != nil {
		return 0, false
	}
	var pages int64
	if _, err := fmt.Sscan(string(b), &pages); err != nil {
		return 0, false
	}
	return pages * int64(os.Getpagesize()), true
}

// "Fully released": a buffer that was freed is given back to the system, not
// only subtracted from the accounting.  For every size around the powers of
// two that piece lengths take (the allocator switches from the heap to
// mappings of its own somewhere among them), 512 MiB worth of allocate/free
// cycles must not grow the address space of the process by more than half of
// that (the Go heap reserves address space 64 MiB at a time and is collected
// every 32 cycles here, so it holds a few MiB of freed buffers at most; a
// mapping that is never unmapped costs the full 512 MiB).
func TestC03AllocReleased(t *testing.T) {
	if _, ok := vsize(); !ok {
		t.Skip("inconclusive: /proc/self/statm cannot be read")
	}
	const total = 512 << 20
	var sizes []int
	for sh := 16; sh <= 24; sh++ {
		for _, d := range []int{-4096, -1, 0, 1, 4096} {
			sizes = append(sizes, 1<<sh+d)
		}
	}
	var maxGrowth int64
	maxAt := 0
	for _, n := range sizes {
		before := alloc.Bytes()
		cycle := func() {
			b, err := alloc.Alloc(n)
			if err != nil {
				t.Fatalf("alloc.Alloc(%d) refused after earlier buffers of that size were freed: %T", n, err)
			}
			b[0], b[n-1] = 1, 1
			if err := alloc.Free(b); err != nil {
				t.Fatalf("alloc.Free of a %d-byte buffer: %T", n, err)
			}
		}
		for i := 0; i < 16; i++ {
			cycle()
		}
		runtime.GC()
		v0, _ := vsize()
		cycles := total / n
		for i := 0; i < cycles; i++ {
			cycle()
			if i%32 == 31 {
				// buffers the allocator took from the Go heap are given back by
				// the collector, whenever it runs: make it run, so that what is
				// measured is the allocator and not the collector's pace
				runtime.GC()
			}
		}
		runtime.GC()
		v1, _ := vsize()
		if got := alloc.Bytes(); got != before {
			t.Fatalf("%d cycles of Alloc(%d)/Free: %d bytes reported as allocated, %d before", cycles, n, got, before)
		}
		if v1-v0 > maxGrowth {
			maxGrowth, maxAt = v1-v0, n
		}
		if v1-v0 > total/2 {
			t.Fatalf("%d cycles of Alloc(%d)/Free grew the address space of the process by %d MiB (%d MiB were allocated and freed in all, accounting back at %d): freed buffers of %d bytes are not given back to the system", cycles, n, (v1-v0)>>20, total>>20, alloc.Bytes(), n)
		}
		stats.Case(fmt.Sprintf("alloc-released/%d", n), true, "freed-buffer-returned-to-the-system")
	}
	t.Logf("largest growth of the address space over one size: %d MiB (size %d); limit %d MiB", maxGrowth>>20, maxAt, total/2>>20)
	stats.Exhaustive("allocation sizes 2^16..2^24, each -4096, -1, 0, +1, +4096")
}
