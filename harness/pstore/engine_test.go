// Package pstore is engine E2: the piece store driven by several actors
// under a schedule owned by the harness (C01 store level, C03).
//
// Exactly one actor goroutine runs at a time.  Actors park at the yield
// points the verif build tag adds to tor/piece (all of them at places where
// the store's mutex is not held) and between operations; rapid draws which
// parked actor continues.  Every stretch between two parks is therefore
// atomic, the run is a pure function of the drawn values, and a sequential
// reference model advanced once per stretch is an exact oracle.
package pstore

import (
	"bytes"
	"crypto/sha1"
	"errors"
	"fmt"
	"io"
	"runtime"
	"runtime/debug"
	"slices"
	"strings"
	"sync"
	"time"

	"pgregory.net/rapid"

	"github.com/jech/storrent/alloc"
	"github.com/jech/storrent/hash"
	"github.com/jech/storrent/mono"
	"github.com/jech/storrent/tor/piece"

	"verif/gen"
)

const blk = 16384

// ------------------------------------------------------------------ model

type mpiece struct {
	buf    bool
	blocks map[int][]byte
	state  int // 0 incomplete, 1 complete, 2 busy
	busyBy int
	snap   []byte // bytes being hashed
	time   int64  // model access time, seconds
}

type mstore struct {
	id      int
	ps      *piece.Pieces
	psize   int64
	length  int64
	n       int
	content []byte
	hashes  [][]byte
	pieces  []mpiece
	deleted bool
	delDone bool // Del has returned
}

func (s *mstore) plen(i int) int64 {
	if i == s.n-1 {
		if r := s.length - int64(i)*s.psize; r > 0 {
			return r
		}
	}
	return s.psize
}

func (s *mstore) nblocks(i int) int { return int((s.plen(i) + blk - 1) / blk) }

func (s *mstore) blen(i, c int) int64 {
	l := s.plen(i) - int64(c)*blk
	if l > blk {
		l = blk
	}
	return l
}

func (s *mstore) bufBytes() int64 {
	var n int64
	for i := range s.pieces {
		if s.pieces[i].buf {
			n += s.plen(i)
		}
	}
	return n
}

func (s *mstore) count() int {
	n := 0
	for i := range s.pieces {
		if s.pieces[i].buf {
			n++
		}
	}
	return n
}

func (s *mstore) free(i int) {
	p := &s.pieces[i]
	p.buf, p.blocks, p.state, p.snap = false, nil, 0, nil
}

func (s *mstore) image(i int) []byte {
	b := make([]byte, s.plen(i))
	for c, d := range s.pieces[i].blocks {
		copy(b[int64(c)*blk:], d)
	}
	return b
}

// ------------------------------------------------------------------ ops

type op struct {
	Kind    string // add finalise read expire del touch advance
	Store   int
	Index   int
	Begin   uint32
	Variant string
	data    []byte
	hash    []byte
	HashSel string
	Off     int64
	N       int
	Target  int64
	Avail   []uint16
	Adv     int64
}

func (o op) String() string {
	switch o.Kind {
	case "add":
		return fmt.Sprintf("s%d.AddData(%d,%d,%s:%dB)", o.Store, o.Index, o.Begin, o.Variant, len(o.data))
	case "finalise":
		return fmt.Sprintf("s%d.Finalise(%d,%s)", o.Store, o.Index, o.HashSel)
	case "read":
		return fmt.Sprintf("s%d.ReadAt(len %d, off %d)", o.Store, o.N, o.Off)
	case "expire":
		return fmt.Sprintf("s%d.Expire(%d,%v)", o.Store, o.Target, o.Avail)
	case "del":
		return fmt.Sprintf("s%d.Del()", o.Store)
	case "touch":
		return fmt.Sprintf("s%d.UpdateTime(%d)", o.Store, o.Index)
	case "advance":
		return fmt.Sprintf("clock+%ds", o.Adv)
	}
	return o.Kind
}

type result struct {
	count    uint32
	complete bool
	done     bool
	err      error
	n        int
	buf      []byte
	ret      int
	cb       []uint32
	panicked any
	stack    string
}

type event struct {
	actor int
	yield string // "" = operation returned
	idx   int
	res   result
}

// ------------------------------------------------------------------ controller

type actorState struct {
	ops     []op
	pc      int    // next op to start, or the one in progress
	inOp    bool   // parked inside ops[pc]
	point   string // where it is parked
	idx     int
	done    bool
	cursor  int      // Del: sweep position
	visited []int    // Expire: pieces whose turn came
	ages    []int64  // Expire: ages sampled at start
	todo0   int64    // Expire: bytes to free, sampled
	todoSet bool     // Expire
	freed   []int    // Expire: pieces freed so far (model)
	cbWant  []uint32 // Expire: callbacks the model expects
	busyAt  map[int]bool
	resume  chan struct{}
	waits   int
}

type Trace struct {
	lines []string
}

func (tr *Trace) add(format string, a ...any) {
	tr.lines = append(tr.lines, fmt.Sprintf(format, a...))
}

func (tr *Trace) String() string {
	l := tr.lines
	if len(l) > 120 {
		l = append(append([]string{}, l[:10]...), append([]string{"..."}, l[len(l)-100:]...)...)
	}
	return strings.Join(l, "\n")
}

type world struct {
	t      *rapid.T
	stores []*mstore
	actors []*actorState
	events chan event
	cur    int
	now    int64 // model clock, seconds since start
	base   int64 // alloc.Bytes() at case start
	tr     Trace
	// classification
	flags   map[string]bool
	nyield  int
	aborted bool
	wg      sync.WaitGroup
	script  []int
	fatal   func(string)
}

func (w *world) flag(s string) { w.flags[s] = true }

// abort lets every parked actor run to completion without scheduling, so
// that a failing case (and each shrinking attempt) does not leak goroutines
// and piece buffers.
func (w *world) abort() {
	if w.aborted {
		return
	}
	w.aborted = true
	piece.VerifYieldHook = nil
	go func() {
		for range w.events {
		}
	}()
	for _, as := range w.actors {
		close(as.resume)
	}
	done := make(chan struct{})
	go func() { w.wg.Wait(); close(done) }()
	select {
	case <-done:
		for _, s := range w.stores {
			func() {
				defer func() { recover() }()
				s.ps.Del()
			}()
		}
	case <-time.After(5 * time.Second):
	}
}

func (w *world) failf(format string, a ...any) {
	w.abort()
	if w.fatal != nil {
		w.fatal(fmt.Sprintf("%s\n--- trace ---\n%s", fmt.Sprintf(format, a...), w.tr.String()))
		runtime.Goexit()
	}
	w.t.Fatalf("%s\n--- trace (atomic segments in execution order) ---\n%s", fmt.Sprintf(format, a...), w.tr.String())
}

func (w *world) yieldHook(point string, idx int) {
	a := w.cur
	w.events <- event{actor: a, yield: point, idx: idx}
	<-w.actors[a].resume
}

func (w *world) runActor(a int) {
	defer w.wg.Done()
	debug.SetPanicOnFault(true)
	as := w.actors[a]
	<-as.resume
	for _, o := range as.ops {
		res := w.exec(o)
		w.events <- event{actor: a, res: res}
		<-as.resume
	}
}

func (w *world) exec(o op) (res result) {
	defer func() {
		if r := recover(); r != nil {
			res.panicked = r
			res.stack = string(debug.Stack())
		}
	}()
	var s *mstore
	if o.Store >= 0 {
		s = w.stores[o.Store]
	}
	switch o.Kind {
	case "add":
		res.count, res.complete, res.err = s.ps.AddData(uint32(o.Index), o.Begin, o.data, 7)
	case "finalise":
		res.done, _, res.err = s.ps.Finalise(uint32(o.Index), hash.Hash(o.hash))
	case "read":
		buf := make([]byte, o.N)
		for i := range buf {
			buf[i] = 0xEE
		}
		res.n, res.err = s.ps.ReadAt(buf, o.Off)
		res.buf = buf
	case "expire":
		res.ret = s.ps.Expire(o.Target, o.Avail, func(i uint32) { res.cb = append(res.cb, i) })
	case "del":
		s.ps.Del()
	case "touch":
		res.complete = s.ps.UpdateTime(uint32(o.Index))
	case "advance":
		mono.VerifAdvance(time.Duration(o.Adv) * time.Second)
	}
	return
}

// eligible actors: not finished; an actor spinning in del's wait loop is
// only eligible while nobody else can run (its piece is still busy).
func (w *world) eligible() []int {
	var normal, waiting []int
	for i, a := range w.actors {
		if a.done {
			continue
		}
		if a.inOp && a.point == "del.wait" && w.stores[a.ops[a.pc].Store].pieces[a.idx].state == 2 {
			waiting = append(waiting, i)
		} else {
			normal = append(normal, i)
		}
	}
	if len(normal) > 0 {
		return normal
	}
	return waiting
}

func (w *world) run() {
	live := len(w.actors)
	for live > 0 {
		el := w.eligible()
		if len(el) == 0 {
			w.failf("no actor can run")
		}
		a := el[0]
		if w.script != nil {
			// scripted schedule (regression tests): next listed actor that is eligible
			for len(w.script) > 0 {
				c := w.script[0]
				w.script = w.script[1:]
				if slices.Contains(el, c) {
					a = c
					break
				}
			}
		} else if len(el) > 1 {
			a = el[rapid.IntRange(0, len(el)-1).Draw(w.t, "run")]
		}
		as := w.actors[a]
		if as.inOp && as.point == "del.wait" && w.stores[as.ops[as.pc].Store].pieces[as.idx].state == 2 {
			as.waits++
			if as.waits > 50 {
				w.failf("forced delete waits for piece %d, which the model says is being hashed, but no actor is left to finish the hash", as.idx)
			}
		}
		w.cur = a
		as.resume <- struct{}{}
		var ev event
		select {
		case ev = <-w.events:
		case <-time.After(60 * time.Second):
			w.failf("actor %d did not reach a yield point or return within 60 s (blocked on the store's lock?)", a)
		}
		if ev.actor != a {
			w.failf("event from actor %d while actor %d was running", ev.actor, a)
		}
		o := as.ops[as.pc]
		if ev.yield != "" {
			w.nyield++
			w.tr.add("a%d %-28s … parks at %s(%d)", a, o, ev.yield, ev.idx)
			as.inOp, as.point, as.idx = true, ev.yield, ev.idx
			w.onYield(a, as, o, ev)
		} else {
			as.inOp, as.point = false, ""
			w.onReturn(a, as, o, ev.res)
			as.pc++
			if as.pc == len(as.ops) {
				as.done = true
				live--
				as.resume <- struct{}{} // let the goroutine exit
			}
		}
		w.invariants()
	}
}

// ------------------------------------------------------------------ model transitions

func (w *world) othersParkedInside(a int) bool {
	for i, as := range w.actors {
		if i != a && as.inOp {
			return true
		}
	}
	return false
}

func (w *world) onYield(a int, as *actorState, o op, ev event) {
	var s *mstore
	if o.Store >= 0 {
		s = w.stores[o.Store]
	}
	switch ev.yield {
	case "Finalise.beforeHash":
		p := &s.pieces[ev.idx]
		if o.Kind != "finalise" || ev.idx != o.Index {
			w.failf("unexpected %s(%d) inside %s", ev.yield, ev.idx, o)
		}
		if p.state != 0 || !p.buf || len(p.blocks) != s.nblocks(ev.idx) || s.deleted {
			w.failf("%s started hashing piece %d although the model has state=%d buffer=%v blocks=%d/%d deleted=%v",
				o, ev.idx, p.state, p.buf, len(p.blocks), s.nblocks(ev.idx), s.deleted)
		}
		p.state, p.busyBy = 2, a
		p.snap = s.image(ev.idx)
	case "del.wait":
		switch o.Kind {
		case "del":
			// deletion is latched when the sweep starts: nothing may be
			// allocated for the torrent from then on
			s.deleted = true
			w.delSweep(s, as, ev.idx)
			if s.pieces[ev.idx].state != 2 {
				w.failf("Del waits for piece %d, which the model does not have busy (state %d)", ev.idx, s.pieces[ev.idx].state)
			}
			w.flag("del-waits-for-hash")
		default:
			w.failf("unexpected wait for piece %d inside %s", ev.idx, o)
		}
	case "Expire.beforeBytes":
		as.ages = make([]int64, s.n)
		for i := range as.ages {
			as.ages[i] = w.now - s.pieces[i].time
		}
		as.visited, as.freed, as.cbWant, as.todoSet = nil, nil, nil, false
	case "Expire.beforeDel":
		if !as.todoSet {
			as.todo0 = int64(s.count())*s.psize - o.Target
			as.todoSet = true
		} else {
			w.expireApply(s, as)
		}
		as.visited = append(as.visited, ev.idx)
	}
}

// delSweep: the stretch just executed freed every buffer from the cursor up
// to (not including) upto; none of them can have been busy.
func (w *world) delSweep(s *mstore, as *actorState, upto int) {
	for i := as.cursor; i < upto; i++ {
		p := &s.pieces[i]
		if p.buf {
			if p.state == 2 {
				w.failf("Del went past piece %d while it was being hashed", i)
			}
			if w.othersParkedInside(w.cur) {
				w.flag("free-while-others-inside")
			}
			s.free(i)
		}
	}
	as.cursor = upto
}

// expireApply: the stretch just executed ran del(i,false) on the last visited piece.
func (w *world) expireApply(s *mstore, as *actorState) {
	i := as.visited[len(as.visited)-1]
	p := &s.pieces[i]
	if !p.buf {
		return
	}
	if p.state == 2 {
		w.flag("expire-skips-busy")
		return
	}
	if p.state == 1 {
		as.cbWant = append(as.cbWant, uint32(i))
		w.flag("evict-complete")
	}
	as.freed = append(as.freed, i)
	s.free(i)
}

func errStr(e error) string {
	if e == nil {
		return "nil"
	}
	return e.Error()
}

func (w *world) onReturn(a int, as *actorState, o op, r result) {
	if r.panicked != nil {
		w.tr.add("a%d %-28s → PANIC %v", a, o, r.panicked)
		w.failf("%s panicked: %v\n%s", o, r.panicked, trimStack(r.stack))
	}
	var s *mstore
	if o.Store >= 0 {
		s = w.stores[o.Store]
	}
	switch o.Kind {
	case "add":
		w.tr.add("a%d %-28s → count=%d complete=%v err=%s", a, o, r.count, r.complete, errStr(r.err))
		w.retAdd(s, o, r)
	case "read":
		w.tr.add("a%d %-28s → n=%d err=%s", a, o, r.n, errStr(r.err))
		w.retRead(s, o, r)
	case "finalise":
		w.tr.add("a%d %-28s → done=%v err=%s", a, o, r.done, errStr(r.err))
		w.retFinalise(a, s, o, r)
	case "del":
		w.tr.add("a%d %-28s → returned", a, o)
		w.delSweep(s, as, s.n)
		as.cursor = 0
		s.deleted, s.delDone = true, true
		if n := s.bufBytes(); n != 0 {
			w.failf("store %d: Del returned, yet %d bytes (%d pieces) allocated while it was waiting remain allocated to the deleted torrent", s.id, n, s.count())
		}
		w.flag("del")
	case "expire":
		w.tr.add("a%d %-28s → %d evicted, callbacks %v, visited %v", a, o, r.ret, r.cb, as.visited)
		w.retExpire(s, as, o, r)
	case "touch":
		w.tr.add("a%d %-28s → complete=%v", a, o, r.complete)
		p := &s.pieces[o.Index]
		if p.time < w.now {
			p.time = w.now
		}
		if r.complete != (p.state == 1) {
			w.failf("%s reported complete=%v, model state %d", o, r.complete, p.state)
		}
	case "advance":
		w.tr.add("a%d %s", a, o)
		w.now += o.Adv
	}
}

func trimStack(s string) string {
	var keep []string
	for _, l := range strings.Split(s, "\n") {
		if strings.Contains(l, "storrent") {
			keep = append(keep, strings.TrimSpace(l))
		}
		if len(keep) >= 8 {
			break
		}
	}
	return strings.Join(keep, "\n")
}

func (w *world) retAdd(s *mstore, o op, r result) {
	p := &s.pieces[o.Index]
	var wc uint32
	var wcomplete bool
	var werr string
	pl := s.plen(o.Index)
	switch {
	case p.state != 0:
		if p.state == 2 {
			w.flag("adddata-while-busy")
		}
	case s.deleted:
		werr = "pieces deleted"
	case o.Begin%blk != 0:
		werr = "adding data at odd offset"
	case int64(o.Begin) >= pl:
		werr = "adding data beyond end of piece"
	default:
		if s.delDone {
			w.failf("%s accepted after the torrent was deleted", o)
		}
		if !p.buf {
			p.buf, p.blocks = true, map[int][]byte{}
			for _, as := range w.actors {
				if as.inOp && as.ops[as.pc].Kind == "del" && as.ops[as.pc].Store == s.id {
					w.flag("adddata-during-del-wait")
				}
			}
		}
		off := int64(o.Begin)
		var cnt int64
		for cnt < int64(len(o.data)) {
			c := int(off / blk)
			l := pl - off
			if l > blk {
				l = blk
			}
			if l <= 0 || int64(len(o.data)) < cnt+l {
				break
			}
			if _, ok := p.blocks[c]; !ok {
				p.blocks[c] = append([]byte(nil), o.data[cnt:cnt+l]...)
				if !bytes.Equal(p.blocks[c], s.content[int64(o.Index)*s.psize+off:][:l]) {
					w.flag("corrupt-block-stored")
				}
			} else {
				w.flag("duplicate-block")
			}
			off += l
			cnt += l
			if l%blk != 0 {
				w.flag("short-last-block")
				break
			}
		}
		if cnt > blk {
			w.flag("multi-block-adddata")
		}
		wc = uint32(cnt)
		wcomplete = len(p.blocks) == s.nblocks(o.Index)
	}
	if r.count != wc || r.complete != wcomplete || errStr(r.err) != orNil(werr) {
		w.failf("%s returned (count=%d, complete=%v, err=%s); the model (state=%d, deleted=%v, blocks=%d/%d) expects (count=%d, complete=%v, err=%s)",
			o, r.count, r.complete, errStr(r.err), p.state, s.deleted, len(p.blocks), s.nblocks(o.Index), wc, wcomplete, orNil(werr))
	}
}

func orNil(s string) string {
	if s == "" {
		return "nil"
	}
	return s
}

func (w *world) retRead(s *mstore, o op, r result) {
	if o.Off >= s.length {
		if r.n != 0 || r.err != io.EOF {
			w.failf("%s beyond the end returned (%d, %v), want (0, EOF)", o, r.n, r.err)
		}
		return
	}
	i := int(o.Off / s.psize)
	p := &s.pieces[i]
	want := 0
	if p.state == 1 {
		end := int64(i)*s.psize + s.plen(i)
		want = int(min(int64(o.N), end-o.Off))
		w.flag("read-complete")
		if int64(want) < int64(o.N) {
			w.flag("read-clipped-at-piece-end")
		}
	} else {
		switch {
		case p.state == 2:
			w.flag("read-while-busy")
		case s.delDone:
			w.flag("read-after-del")
		case !p.buf:
			w.flag("read-empty-or-evicted")
		case len(p.blocks) == s.nblocks(i):
			w.flag("read-all-blocks-unhashed")
		default:
			w.flag("read-partial")
		}
	}
	if r.err != nil {
		w.failf("%s returned error %v", o, r.err)
	}
	if r.n != want {
		w.failf("%s returned %d bytes; piece %d is in model state %d (1=verified) so exactly %d bytes are readable", o, r.n, i, p.state, want)
	}
	if r.n > 0 && !bytes.Equal(r.buf[:r.n], s.content[o.Off:o.Off+int64(r.n)]) {
		w.failf("%s returned bytes that differ from the torrent's content at that offset", o)
	}
	for _, b := range r.buf[r.n:] {
		if b != 0xEE {
			w.failf("%s wrote beyond the %d bytes it reported", o, r.n)
		}
	}
}

func (w *world) retFinalise(a int, s *mstore, o op, r result) {
	p := &s.pieces[o.Index]
	if p.state == 2 && p.busyBy == a {
		h := sha1.Sum(p.snap)
		if bytes.Equal(h[:], o.hash) {
			p.state, p.snap = 1, nil
			if !bytes.Equal(s.image(o.Index), s.content[int64(o.Index)*s.psize:][:s.plen(o.Index)]) {
				w.failf("harness error: a piece with foreign content matched its hash")
			}
			if !r.done || r.err != nil {
				w.failf("%s returned (done=%v, err=%v) although the stored bytes hash to the given value", o, r.done, r.err)
			}
			w.flag("finalise-ok")
			if s.plen(o.Index) >= 128*1024 {
				w.flag("mmap-piece-verified")
			}
		} else {
			s.free(o.Index)
			if r.done || !errors.Is(r.err, piece.ErrHashMismatch) {
				w.failf("%s returned (done=%v, err=%v) although the stored bytes do not hash to the given value", o, r.done, r.err)
			}
			w.flag("wrong-hash")
		}
		return
	}
	// never reached the hashing stage
	want := "nil"
	if p.state == 0 && s.deleted {
		want = "pieces deleted"
	}
	if p.state == 0 && !s.deleted && p.buf && len(p.blocks) == s.nblocks(o.Index) {
		w.failf("%s returned without hashing although every block is present", o)
	}
	if r.done || errStr(r.err) != want {
		w.failf("%s returned (done=%v, err=%s); model (state=%d, blocks=%d/%d, deleted=%v) expects (false, %s)",
			o, r.done, errStr(r.err), p.state, len(p.blocks), s.nblocks(o.Index), s.deleted, want)
	}
}

const ageTol = 2

func (w *world) retExpire(s *mstore, as *actorState, o op, r result) {
	if as.todoSet {
		w.expireApply(s, as)
	} else {
		as.todo0 = int64(s.count())*s.psize - o.Target
	}
	if r.ret != len(as.freed) {
		w.failf("%s returned %d, the model freed %v", o, r.ret, as.freed)
	}
	if fmt.Sprint(r.cb) != fmt.Sprint(as.cbWant) {
		w.failf("%s invoked the callback for %v; complete pieces dropped: %v", o, r.cb, as.cbWant)
	}
	// every piece whose turn came at most once
	seen := map[int]bool{}
	for _, v := range as.visited {
		if seen[v] || v < 0 || v >= s.n {
			w.failf("%s considered piece %d twice or out of range (%v)", o, v, as.visited)
		}
		seen[v] = true
	}
	// order: least recently accessed first (commonest first among pieces older than two hours)
	av := func(i int) uint16 {
		if i < len(o.Avail) {
			return o.Avail[i]
		}
		return 0
	}
	strictlyBefore := func(x, y int) bool { // must x be considered before y?
		ax, ay := as.ages[x], as.ages[y]
		if ax >= 7200+ageTol && ay >= 7200+ageTol {
			if av(x) != av(y) {
				return av(x) > av(y)
			}
			return ax > ay+ageTol
		}
		if (ax >= 7200-ageTol && ax < 7200+ageTol) || (ay >= 7200-ageTol && ay < 7200+ageTol) {
			return false // too close to the regime boundary to call
		}
		return ax > ay+ageTol
	}
	if as.ages != nil {
		old := false
		for _, x := range as.ages {
			if x >= 7200 {
				old = true
			}
		}
		if old && len(as.visited) > 1 {
			w.flag("old-regime")
		}
		for k := 0; k < len(as.visited); k++ {
			for l := k + 1; l < len(as.visited); l++ {
				if strictlyBefore(as.visited[l], as.visited[k]) {
					w.failf("%s considered piece %d (age %ds, avail %d) before piece %d (age %ds, avail %d)", o,
						as.visited[k], as.ages[as.visited[k]], av(as.visited[k]), as.visited[l], as.ages[as.visited[l]], av(as.visited[l]))
				}
			}
			for u := 0; u < s.n; u++ {
				if !seen[u] && strictlyBefore(u, as.visited[k]) {
					w.failf("%s considered piece %d (age %ds) but never piece %d (age %ds), which was accessed less recently", o,
						as.visited[k], as.ages[as.visited[k]], u, as.ages[u])
				}
			}
		}
	}
	// amount: stops as soon as the target is met, and not before
	freedBytes := int64(len(as.freed)) * s.psize
	if len(as.visited) < s.n && freedBytes < as.todo0 {
		w.failf("%s stopped after freeing %d bytes with %d still to free and pieces left unconsidered (visited %v of %d)", o, freedBytes, as.todo0-freedBytes, as.visited, s.n)
	}
	if len(as.freed) > 0 && freedBytes-s.psize >= as.todo0 {
		w.failf("%s freed %d pieces although %d bytes were enough", o, len(as.freed), as.todo0)
	}
	if len(as.freed) > 0 {
		w.flag("evicted")
	}
	as.visited, as.ages, as.freed, as.cbWant, as.todoSet = nil, nil, nil, nil, false
}

// invariants hold after every atomic stretch.
func (w *world) invariants() {
	var total int64
	for _, s := range w.stores {
		total += s.bufBytes()
		if got, want := s.ps.Count(), s.count(); got != want {
			w.failf("store %d: Count() = %d, the model holds %d buffers", s.id, got, want)
		}
		if got, want := s.ps.Bytes(), int64(s.count())*s.psize; got != want {
			w.failf("store %d: Bytes() = %d, want %d", s.id, got, want)
		}
		bm := s.ps.Bitmap()
		for i := range s.pieces {
			st := s.pieces[i].state
			if bm.Get(i) != (st == 1) || s.ps.Complete(uint32(i)) != (st == 1) {
				w.failf("store %d piece %d: advertised complete=%v, model state %d", s.id, i, bm.Get(i), st)
			}
			if s.ps.PieceEmpty(uint32(i)) != (len(s.pieces[i].blocks) == 0) {
				w.failf("store %d piece %d: PieceEmpty=%v, model has %d blocks", s.id, i, s.ps.PieceEmpty(uint32(i)), len(s.pieces[i].blocks))
			}
		}
	}
	if got := alloc.Bytes() - w.base; got != total {
		w.failf("alloc.Bytes() reports %d bytes allocated, the buffers of pieces holding data total %d", got, total)
	}
}

// ------------------------------------------------------------------ generation

var pieceSizesKiB = []int{16, 32, 48, 64, 128, 256}

func genStore(t *rapid.T, id int) *mstore {
	ps := int64(rapid.SampledFrom(pieceSizesKiB).Draw(t, "pieceKiB")) * 1024
	n := rapid.IntRange(1, 6).Draw(t, "pieces")
	if ps >= 128*1024 && n > 3 {
		n = 3
	}
	length := ps * int64(n)
	switch rapid.IntRange(0, 2).Draw(t, "tail") {
	case 0: // short last piece, whole blocks
		if nb := ps / blk; nb > 1 {
			length -= blk * rapid.Int64Range(1, nb-1).Draw(t, "tailblocks")
		}
	case 1: // short last block
		length -= rapid.SampledFrom([]int64{1, 100, 8192, 16383}).Draw(t, "tailbytes")
		if ps > blk && rapid.Bool().Draw(t, "alsoblocks") {
			length -= blk * rapid.Int64Range(0, ps/blk-1).Draw(t, "tailblocks")
		}
	}
	s := &mstore{id: id, ps: new(piece.Pieces), psize: ps, length: length, n: n}
	s.n = int((length + ps - 1) / ps)
	s.content = gen.Fill(rapid.Uint64().Draw(t, "content"), int(length))
	s.pieces = make([]mpiece, s.n)
	for i := 0; i < s.n; i++ {
		h := sha1.Sum(s.content[int64(i)*ps:][:s.plen(i)])
		s.hashes = append(s.hashes, h[:])
	}
	s.ps.MetadataComplete(uint32(ps), length)
	return s
}

func (w *world) genAdd(t *rapid.T, s *mstore, i int, variant string) op {
	nb := s.nblocks(i)
	c := rapid.IntRange(0, nb-1).Draw(t, "block")
	base := int64(i) * s.psize
	o := op{Kind: "add", Store: s.id, Index: i, Begin: uint32(c * blk), Variant: variant}
	bl := s.blen(i, c)
	good := s.content[base+int64(c)*blk:][:bl]
	switch variant {
	case "valid":
		o.data = good
	case "corrupt":
		d := append([]byte(nil), good...)
		d[rapid.IntRange(0, len(d)-1).Draw(t, "flipAt")] ^= byte(rapid.IntRange(1, 255).Draw(t, "flip"))
		o.data = d
	case "glued":
		k := rapid.IntRange(2, 3).Draw(t, "k")
		end := min(int64(c+k)*blk, s.plen(i))
		o.data = append([]byte(nil), s.content[base+int64(c)*blk:base+end]...)
		if rapid.Bool().Draw(t, "overrun") {
			o.data = append(o.data, gen.Fill(3, blk)...)
		}
	case "half":
		o.data = good[:len(good)/2]
	case "empty":
		o.data = nil
	case "misaligned":
		o.Begin += uint32(rapid.IntRange(1, blk-1).Draw(t, "skew"))
		o.data = good
	case "beyond":
		o.Begin = rapid.SampledFrom([]uint32{uint32(s.plen(i)), uint32((s.plen(i) + blk - 1) / blk * blk), uint32(s.psize), uint32(s.psize) + blk, 1 << 31, 1<<32 - blk}).Draw(t, "beyond")
		o.data = good
	case "trailing":
		o.data = append(append([]byte(nil), good...), gen.Fill(9, rapid.IntRange(1, 100).Draw(t, "extra"))...)
	}
	return o
}

var addVariants = []string{"valid", "valid", "valid", "valid", "corrupt", "glued", "half", "empty", "misaligned", "beyond", "trailing"}
var advances = []int64{7, 3000, 8000, 8000}

func (w *world) genOps(t *rapid.T, n int) []op {
	var ops []op
	for len(ops) < n {
		s := w.stores[rapid.IntRange(0, len(w.stores)-1).Draw(t, "store")]
		i := rapid.IntRange(0, s.n-1).Draw(t, "piece")
		switch k := rapid.IntRange(0, 19).Draw(t, "opkind"); {
		case k < 4:
			ops = append(ops, w.genAdd(t, s, i, rapid.SampledFrom(addVariants).Draw(t, "variant")))
		case k < 8: // fill a piece, perhaps with one bad block, then finalise
			bad := -1
			if rapid.IntRange(0, 3).Draw(t, "badfill") == 0 {
				bad = rapid.IntRange(0, s.nblocks(i)-1).Draw(t, "badblock")
			}
			order := rapid.Permutation(seq(s.nblocks(i))).Draw(t, "fillorder")
			for _, c := range order {
				base := int64(i)*s.psize + int64(c)*blk
				d := s.content[base:][:s.blen(i, c)]
				v := "valid"
				if c == bad {
					d = append([]byte(nil), d...)
					d[0] ^= 0x55
					v = "corrupt"
				}
				ops = append(ops, op{Kind: "add", Store: s.id, Index: i, Begin: uint32(c * blk), Variant: v, data: d})
			}
			ops = append(ops, w.genFinalise(t, s, i))
		case k < 10:
			ops = append(ops, w.genFinalise(t, s, i))
		case k < 15:
			o := op{Kind: "read", Store: s.id}
			o.N = rapid.SampledFrom([]int{0, 1, 100, blk, int(s.psize) + 1}).Draw(t, "readlen")
			switch rapid.IntRange(0, 3).Draw(t, "offclass") {
			case 0:
				o.Off = rapid.Int64Range(0, s.length+65536).Draw(t, "off")
			case 1:
				o.Off = int64(i)*s.psize + rapid.SampledFrom([]int64{0, 1, blk - 1, blk, s.plen(i) - 1, s.plen(i) - 100}).Draw(t, "offIn")
				if o.Off < 0 {
					o.Off = 0
				}
			default:
				o.Off = int64(i)*s.psize + rapid.Int64Range(0, s.plen(i)-1).Draw(t, "offIn")
			}
			ops = append(ops, o)
		case k < 17:
			o := op{Kind: "expire", Store: s.id}
			o.Target = rapid.SampledFrom([]int64{0, 0, s.psize, 2 * s.psize, s.psize * int64(s.n) / 2, s.psize * int64(s.n), 1 << 40}).Draw(t, "target")
			if rapid.Bool().Draw(t, "avail?") {
				o.Avail = rapid.SliceOfN(rapid.Uint16Range(0, 3), 0, s.n).Draw(t, "avail")
			}
			ops = append(ops, o)
		case k < 18:
			ops = append(ops, op{Kind: "touch", Store: s.id, Index: i})
		case k < 19:
			ops = append(ops, op{Kind: "advance", Store: -1, Adv: rapid.SampledFrom(advances).Draw(t, "adv")})
		default:
			if rapid.IntRange(0, 3).Draw(t, "del?") == 0 {
				ops = append(ops, op{Kind: "del", Store: s.id})
			}
		}
	}
	return ops
}

func seq(n int) []int {
	l := make([]int, n)
	for i := range l {
		l[i] = i
	}
	return l
}

func (w *world) genFinalise(t *rapid.T, s *mstore, i int) op {
	o := op{Kind: "finalise", Store: s.id, Index: i}
	o.HashSel = rapid.SampledFrom([]string{"right", "right", "right", "other", "random"}).Draw(t, "hash")
	switch o.HashSel {
	case "right":
		o.hash = s.hashes[i]
	case "other":
		o.hash = s.hashes[(i+1)%s.n]
		if s.n == 1 {
			o.hash = gen.Fill(77, 20)
		}
	default:
		o.hash = gen.Fill(rapid.Uint64().Draw(t, "rndhash"), 20)
	}
	return o
}

// runCase builds and runs one scheduled case and returns the world for
// classification.
func runCase(t *rapid.T, maxStores int) *world {
	w := &world{t: t, events: make(chan event), flags: map[string]bool{}}
	mono.VerifResetOrigin()
	w.base = alloc.Bytes()
	ns := rapid.IntRange(1, maxStores).Draw(t, "stores")
	for i := 0; i < ns; i++ {
		w.stores = append(w.stores, genStore(t, i))
	}
	na := rapid.IntRange(2, 4).Draw(t, "actors")
	for a := 0; a < na; a++ {
		as := &actorState{resume: make(chan struct{})}
		as.ops = w.genOps(t, rapid.IntRange(3, 12).Draw(t, "nops"))
		w.actors = append(w.actors, as)
	}
	w.execute()
	return w
}

// execute runs the actors of a prepared world to completion.
func (w *world) execute() {
	t := w.t
	piece.VerifYieldHook = w.yieldHook
	defer func() { piece.VerifYieldHook = nil }()
	w.wg.Add(len(w.actors))
	for a := range w.actors {
		go w.runActor(a)
	}
	w.run()
	w.wg.Wait()
	// teardown: release whatever is still held so that the next case starts clean
	piece.VerifYieldHook = nil
	for _, s := range w.stores {
		s.ps.Del()
	}
	if got := alloc.Bytes() - w.base; got != 0 {
		msg := fmt.Sprintf("after deleting every store %d bytes remain allocated\n%s", got, w.tr.String())
		if w.fatal != nil {
			w.fatal(msg)
			return
		}
		t.Fatalf("%s", msg)
	}
}
