package pstore

// Torrents beyond 4 GiB: piece and block arithmetic that is right for every
// small torrent can wrap at 2^32 (a piece size that does not divide 2^32 makes
// the last piece's length differ between 64-bit and truncated arithmetic).
// A few pieces of a very large store are filled with the true content, among
// them always the last one, and every read is compared with a model that
// works in int64 throughout.

import (
	"bytes"
	"crypto/sha1"
	"fmt"
	"testing"

	"pgregory.net/rapid"

	"github.com/jech/storrent/hash"
	"github.com/jech/storrent/tor/piece"

	"verif/gen"
	"verif/stats"
)

func hugeContent(index int, n int64) []byte {
	return gen.Fill(uint64(index)*2654435761+17, int(n))
}

func TestC01HugeGeometry(t *testing.T) {
	rapid.Check(t, func(rt *rapid.T) {
		psize := int64(blk) * int64(rapid.SampledFrom([]int{1, 2, 3, 5, 6, 7, 12, 16, 20, 48}).Draw(rt, "blocksPerPiece"))
		base := rapid.SampledFrom([]int64{1 << 32, 1 << 33, 3 << 31, 1<<32 - 1<<20, 1 << 31}).Draw(rt, "base")
		// the tail: a whole number of pieces, or a last piece of any length
		var length int64
		switch rapid.IntRange(0, 3).Draw(rt, "tailclass") {
		case 0:
			length = (base/psize + 1) * psize
		case 1:
			length = base/psize*psize + rapid.Int64Range(1, psize-1).Draw(rt, "tail")
		case 2:
			length = base + rapid.Int64Range(1, 1<<20).Draw(rt, "beyond")
		default:
			length = base/psize*psize + rapid.SampledFrom([]int64{1, blk - 1, blk, blk + 1}).Draw(rt, "tail") % psize
			if length%psize == 0 {
				length++
			}
		}
		n := int((length + psize - 1) / psize)
		lastLen := length - int64(n-1)*psize
		st := new(piece.Pieces)
		st.MetadataComplete(uint32(psize), length)
		defer st.Del()
		fail := func(format string, a ...any) {
			rt.Fatalf("torrent of %d bytes in %d pieces of %d bytes (last piece %d bytes): %s", length, n, psize, lastLen, fmt.Sprintf(format, a...))
		}
		if st.Num() != n {
			fail("the store counts %d pieces", st.Num())
		}
		if got := int64(st.PieceLength(uint32(n - 1))); got != lastLen {
			fail("PieceLength(last) = %d", got)
		}
		if got := int64(st.PieceLength(uint32(n - 2))); got != psize {
			fail("PieceLength(%d) = %d", n-2, got)
		}
		// pieces to fill: the last, the one that straddles 2^32, two drawn ones
		idx := []int{n - 1, int((int64(1)<<32 - 1) / psize), rapid.IntRange(0, n-1).Draw(rt, "p1"), rapid.IntRange(0, n-1).Draw(rt, "p2")}
		have := map[int][]byte{}
		for _, i := range idx {
			if i >= n || have[i] != nil {
				continue
			}
			pl := psize
			if i == n-1 {
				pl = lastLen
			}
			c := hugeContent(i, pl)
			for b := int64(0); b < pl; b += blk {
				e := min(b+blk, pl)
				cnt, complete, err := st.AddData(uint32(i), uint32(b), c[b:e], uint32(i))
				if err != nil {
					fail("AddData(piece %d, offset %d, %d bytes of the true content) failed: %v", i, b, e-b, err)
				}
				if cnt != uint32(e-b) {
					fail("AddData(piece %d, offset %d, %d bytes) stored %d bytes", i, b, e-b, cnt)
				}
				if complete != (e == pl) {
					fail("AddData(piece %d, offset %d): complete=%v with %d of %d bytes stored", i, b, complete, e, pl)
				}
			}
			h := sha1.Sum(c)
			done, _, err := st.Finalise(uint32(i), hash.Hash(h[:]))
			if !done || err != nil {
				fail("piece %d holds exactly its true content and Finalise says done=%v err=%v", i, done, err)
			}
			have[i] = c
		}
		// reads anywhere around the filled pieces, the 2^32 line and the end
		for k := 0; k < 12; k++ {
			i := idx[rapid.IntRange(0, len(idx)-1).Draw(rt, "at")]
			if i >= n {
				i = n - 1
			}
			start := int64(i) * psize
			pl := int64(len(have[i]))
			off := start + max(0, rapid.SampledFrom([]int64{0, 1, blk - 1, blk, pl - 1, pl, pl - 100, pl / 2}).Draw(rt, "rel"))
			buf := make([]byte, rapid.SampledFrom([]int{1, 100, blk, blk + 1, 3 * blk}).Draw(rt, "len"))
			got, err := st.ReadAt(buf, off)
			// the model: the offset decides the piece; bytes from there up to the end
			// of that piece (a read does not cross into the next piece), nothing
			// from a piece that was not filled, nothing at or beyond the end
			var want []byte
			j := int(off / psize)
			rel := off - int64(j)*psize
			if c := have[j]; off < length && c != nil && rel < int64(len(c)) {
				want = c[rel:min(int64(len(c)), rel+int64(len(buf)))]
			}
			if got > len(want) || !bytes.Equal(buf[:got], want[:got]) {
				fail("ReadAt(%d bytes at %d) returned %d bytes (err %v) that are not the content at that offset (piece %d, %d bytes into it)", len(buf), off, got, err, j, rel)
			}
			if len(want) > 0 && got == 0 {
				fail("ReadAt(%d bytes at %d) returned nothing (err %v) from verified piece %d", len(buf), off, err, j)
			}
		}
		if got, err := st.ReadAt(make([]byte, 10), length); got != 0 {
			fail("ReadAt at the very end returned %d bytes (err %v)", got, err)
		}
		class := "last-piece-partial"
		if lastLen == psize {
			class = "last-piece-whole"
		}
		if uint32(length)%uint32(psize) != uint32(length%psize) {
			class += ",truncated-arithmetic-differs"
			stats.Case(class, true, "huge:truncated-arithmetic-differs")
		} else {
			stats.Case(class, true, "huge:same")
		}
	})
}
