// C09 — scheduler bookkeeping is conserved.
package c09

import (
	"context"
	"fmt"
	"sort"
	"testing"
	"time"

	"pgregory.net/rapid"

	"github.com/jech/storrent/config"
	"github.com/jech/storrent/peer"
	"github.com/jech/storrent/tor"

	"verif/ref"
	"verif/sim"
	"verif/stats"
)

func TestMain(m *testing.M) { stats.Main(m) }

type rmodel struct {
	r        *sim.Remote
	id       int
	fast     bool
	have     map[int]bool
	haveAll  bool
	open     bool
	pending  []ref.Msg // requests received and not yet resolved by us
	unchoked bool
	pre      bool // connected while the torrent's metadata was still incomplete
}

type step struct {
	Kind string
	P    int // remote
	I    int // piece
	A    int // generic argument
	D    time.Duration
}

func (s step) String() string {
	switch s.Kind {
	case "sleep":
		return fmt.Sprintf("sleep(%v)", s.D)
	case "want", "unwant", "evict":
		return fmt.Sprintf("%s(%d)", s.Kind, s.I)
	}
	return fmt.Sprintf("p%d.%s(%d,%d)", s.P, s.Kind, s.I, s.A)
}

var stepKinds = []string{"connect", "bitfield", "have", "haveall", "havenone", "donthave", "unchoke", "choke",
	"answer", "answer", "answer", "answer-short", "answer-empty", "answer-long", "answer-misplaced", "answer-unrequested",
	"reject", "sleep", "sleep", "close", "bad-advert", "want", "want", "unwant", "evict", "close+tick", "connect+close", "adv-burst", "adv-burst", "busy-burst", "metadata", "metadata"}

type world struct {
	x       *sim.Tor
	rs      []*rmodel
	labels  map[string]bool
	hist    []string
	wanted  map[int][]int8
	answered int
	magnet  bool
}

func (w *world) lab(s string) { w.labels[s] = true }

// collect moves newly received requests into the remote models.
func (w *world) collect() string {
	for _, m := range w.rs {
		if m.r == nil {
			continue
		}
		if bad := m.r.Bad(); bad != "" {
			return fmt.Sprintf("peer %d sent an undecodable frame: %s", m.id, bad)
		}
		for _, msg := range m.r.Take() {
			switch msg.Kind {
			case ref.KRequest:
				m.pending = append(m.pending, msg)
				if int64(msg.Length) < 16384 {
					w.lab("short-last-block-requested")
				}
			case ref.KCancel:
				w.lab("cancel-sent")
			}
		}
		if m.r.Closed() {
			m.open = false
		}
	}
	return ""
}

// check compares the torrent's bookkeeping with what peers hold, at quiescence.
func (w *world) check(when string) string {
	t := w.x.T
	if !t.InfoComplete() {
		// a magnet start: nothing is countable until the piece count is known
		return ""
	}
	skipModel := false
	for _, m := range w.rs {
		if m.r != nil && m.open && m.pre {
			// what have-all / bitfield / don't-have mean before the piece count is
			// known is the peer handler's business; for such a peer only the
			// torrent's agreement with the peer's own bitmap is checked
			skipModel = true
		}
	}
	avail := tor.VerifAvailable(t)
	infl := tor.VerifInFlight(t)
	peers := tor.VerifPeers(t)
	wantAvail := make([]int, w.x.N)
	wantIF := make([]int, len(infl))
	for _, p := range peers {
		bm := peer.VerifBitmap(p)
		for i := 0; i < w.x.N; i++ {
			if bm.Get(i) {
				wantAvail[i]++
			}
		}
		q, r := peer.VerifRequests(p)
		for _, c := range append(q, r...) {
			if int(c) < len(wantIF) {
				wantIF[c]++
			}
		}
	}
	// the harness's own record of what each connected remote advertised
	modelAvail := make([]int, w.x.N)
	live := 0
	for _, m := range w.rs {
		if m.r == nil || !m.open {
			continue
		}
		live++
		for i := 0; i < w.x.N; i++ {
			if m.haveAll || m.have[i] {
				modelAvail[i]++
			}
		}
	}
	ctx := func() string { return fmt.Sprintf("\n%s; history: %v", when, w.hist) }
	if live != len(peers) && !skipModel {
		return fmt.Sprintf("%d remotes are connected, the torrent lists %d peers%s", live, len(peers), ctx())
	}
	for i := 0; i < w.x.N; i++ {
		got := 0
		if i < len(avail) {
			got = int(avail[i])
		}
		if got != wantAvail[i] {
			return fmt.Sprintf("piece %d: availability %d, but %d connected peers have it in their bitmap%s", i, got, wantAvail[i], ctx())
		}
		if got != modelAvail[i] && !skipModel {
			return fmt.Sprintf("piece %d: availability %d, but %d connected remotes currently advertise it%s", i, got, modelAvail[i], ctx())
		}
	}
	for i := w.x.N; i < len(avail); i++ {
		if avail[i] != 0 {
			return fmt.Sprintf("availability %d recorded for piece %d beyond the torrent%s", avail[i], i, ctx())
		}
	}
	for c := range infl {
		if int(infl[c]) != wantIF[c] {
			return fmt.Sprintf("block %d (piece %d): in-flight count %d, but %d requests for it are outstanding at peers%s",
				c, int64(c)*16384/w.x.PieceSize, infl[c], wantIF[c], ctx())
		}
	}
	return ""
}

// startAsMagnet: the torrent of the next case is added by info-hash; some
// peer delivers the metadata at a "metadata" step.
var startAsMagnet bool

func run(rt *rapid.T, steps []step, g sim.Geometry) (fail string, w *world) {
	config.SetIdleRate(0)
	defer config.SetIdleRate(64 * 1024)
	var x *sim.Tor
	var err error
	if startAsMagnet {
		x, err = sim.BuildMagnet(g, "")
	} else {
		x, err = sim.Build(g, "")
	}
	if err != nil {
		return "build: " + err.Error(), nil
	}
	w = &world{x: x, labels: map[string]bool{}, wanted: map[int][]int8{}, magnet: startAsMagnet}
	if startAsMagnet {
		w.lab("magnet-start")
	}
	ctx, cancel := context.WithCancel(context.Background())
	defer cancel()
	if err := x.Start(ctx); err != nil {
		return "start: " + err.Error(), w
	}
	t := x.T
	for i := 0; i < 4; i++ {
		w.rs = append(w.rs, &rmodel{id: i, have: map[int]bool{}})
	}
	for _, s := range steps {
		w.hist = append(w.hist, s.String())
		m := w.rs[s.P%len(w.rs)]
		i := s.I % x.N
		connected := m.r != nil && m.open
		switch s.Kind {
		case "connect":
			if m.r != nil {
				continue
			}
			m.fast = s.A%2 == 0
			r, err := x.Connect(sim.Caps{Fast: m.fast, Extended: true}, m.id+1, false)
			if err != nil {
				return "connect: " + err.Error(), w
			}
			m.r, m.open = r, true
			var rq *uint32
			if s.A%3 != 0 {
				v := []uint32{1, 2, 5, 250}[s.A%4]
				rq = &v
			}
			var msize *uint32
			if w.magnet {
				v := uint32(len(x.Info))
				msize = &v
				m.pre = !t.InfoComplete()
			}
			r.SendExt(nil, rq, msize, "")
		case "metadata":
			// the connected peer delivers the info dictionary
			if !w.magnet || t.InfoComplete() || !connected {
				continue
			}
			total := uint32(len(x.Info))
			for b := 0; b*16384 < len(x.Info); b++ {
				m.r.Send(ref.Msg{Kind: ref.KExtended, Sub: 2, X: ref.XMetadata, MetaType: 1, MetaPiece: uint32(b), MetaTotal: &total, Data: x.Info[b*16384 : min((b+1)*16384, len(x.Info))]})
			}
			sim.Settle()
			if t.InfoComplete() {
				w.lab("metadata-completed-with-peers-connected")
				for _, mm := range w.rs {
					if mm.r != nil && mm.open && (mm.haveAll || len(mm.have) > 0) {
						w.lab("metadata-completed-with-advertising-peers")
					}
				}
			}
		case "connect+close":
			// a remote that goes away while storrent is still writing its first messages
			if m.r != nil {
				continue
			}
			if stats.Excl("c09-early-exit") {
				stats.Excluded("c09-early-exit")
				continue
			}
			r, err := x.Connect(sim.Caps{Fast: s.A%2 == 0, Extended: s.A%3 != 0, DHT: s.A%5 == 0}, m.id+1, false)
			if err != nil {
				return "connect: " + err.Error(), w
			}
			r.Close()
			w.lab("connect-and-close-at-once")
		case "bitfield":
			if !connected {
				continue
			}
			bf := make([]byte, (x.N+7)/8)
			nh := map[int]bool{}
			for k := 0; k < x.N; k++ {
				if (s.A>>uint(k%16))&1 == 1 || k == i {
					bf[k/8] |= 0x80 >> (k % 8)
					nh[k] = true
				}
			}
			if m.have != nil && (len(m.have) > 0 || m.haveAll) {
				w.lab("bitmap-change")
			}
			m.r.Send(ref.Msg{Kind: ref.KBitfield, Data: bf})
			m.have, m.haveAll = nh, false
		case "bad-advert":
			// an advertisement storrent refuses, or one of an unusual shape: the
			// peer's exit must retract what it had advertised before, not this
			if !connected {
				continue
			}
			switch s.A % 4 {
			case 0, 1:
				// over-long bitfield: in-range bits as drawn plus one beyond the last piece
				beyond := x.N + (s.A/4)%9
				bf := make([]byte, max((x.N+7)/8, beyond/8+1))
				for k := 0; k < x.N; k++ {
					if (s.A>>uint(k%16))&1 == 1 || k == i || s.A%4 == 1 {
						bf[k/8] |= 0x80 >> (k % 8)
					}
				}
				bf[beyond/8] |= 0x80 >> (beyond % 8)
				m.r.Send(ref.Msg{Kind: ref.KBitfield, Data: bf})
				if t.InfoComplete() {
					w.lab("overlong-bitfield")
					for _, o := range w.rs {
						if o != m && o.r != nil && o.open && (o.haveAll || len(o.have) > 0) {
							w.lab("overlong-bitfield-while-others-advertise")
						}
					}
				}
			case 2:
				// short bitfield: the missing bytes count as zeroes
				bf := make([]byte, (x.N+7)/8)
				nh := map[int]bool{}
				for k := 0; k < (len(bf)-1)*8; k++ {
					if (s.A>>uint(k%16))&1 == 1 || k == i {
						bf[k/8] |= 0x80 >> (k % 8)
						nh[k] = true
					}
				}
				m.r.Send(ref.Msg{Kind: ref.KBitfield, Data: bf[:len(bf)-1]})
				m.have, m.haveAll = nh, false
				w.lab("short-bitfield")
			case 3:
				m.r.Send(ref.Msg{Kind: ref.KHave, Index: uint32(x.N + (s.A/4)%3)})
				if t.InfoComplete() {
					w.lab("have-out-of-range")
				}
			}
		case "adv-burst":
			// a bitfield and several have / don't-have messages in one segment:
			// the peer handles them back to back, before the torrent has looked
			// at the first notification
			if !connected {
				continue
			}
			bf := make([]byte, (x.N+7)/8)
			nh := map[int]bool{}
			for k := 0; k < x.N; k++ {
				if (s.A>>uint(k%16))&1 == 1 {
					bf[k/8] |= 0x80 >> (k % 8)
					nh[k] = true
				}
			}
			raw := ref.Encode(ref.Msg{Kind: ref.KBitfield, Data: bf})
			for j := 0; j < 3; j++ {
				k := (i + j*3) % x.N
				if (s.A>>uint(16+j))&1 == 0 {
					raw = append(raw, ref.Encode(ref.Msg{Kind: ref.KHave, Index: uint32(k)})...)
					nh[k] = true
				} else {
					raw = append(raw, ref.Encode(ref.Msg{Kind: ref.KExtended, Sub: 3, X: ref.XDontHave, Index: uint32(k)})...)
					delete(nh, k)
				}
			}
			m.r.SendRaw(raw)
			m.have, m.haveAll = nh, false
			w.lab("advertise-burst")
		case "busy-burst":
			// the torrent's loop is busy and its queue full while the peer
			// advertises, retracts and perhaps leaves: the peer's notifications
			// pile up on its side and must reach the torrent in the order in
			// which they were made
			if !connected {
				continue
			}
			hold := make(chan *peer.TorStats)
			t.Event <- peer.TorGetStats{Ch: hold}
			sim.Settle()
			for len(t.Event) < cap(t.Event) {
				t.Event <- peer.TorAnnounce{}
			}
			var raw, raw2 []byte
			nh := map[int]bool{}
			for k, v := range m.have {
				nh[k] = v
			}
			if m.haveAll {
				for k := 0; k < x.N; k++ {
					nh[k] = true
				}
			}
			// part 1, while the queue is full: many notifications that pile up at the peer
			// (now and then a flood of them, led by an Unchoke - which makes the
			// torrent run its scheduler, and the scheduler queries every peer,
			// synchronously)
			reps := 4
			if (s.A>>9)&3 == 3 {
				reps = 320
				raw = append(raw, ref.Encode(ref.Msg{Kind: ref.KUnchoke})...)
				m.unchoked = true
				w.lab("flood-while-torrent-busy")
			}
			for rep := 0; rep < reps; rep++ {
				for j := 0; j < 6; j++ {
					k := (i + j*3) % x.N
					if nh[k] {
						raw = append(raw, ref.Encode(ref.Msg{Kind: ref.KExtended, Sub: 3, X: ref.XDontHave, Index: uint32(k)})...)
						delete(nh, k)
					} else {
						raw = append(raw, ref.Encode(ref.Msg{Kind: ref.KHave, Index: uint32(k)})...)
						nh[k] = true
					}
				}
			}
			// part 2, sent at the moment the torrent starts catching up: the peer
			// makes new notifications while older ones are still waiting
			for j := 0; j < 6; j++ {
				k := (i + j*3) % x.N
				if (s.A>>uint(j))&1 == 0 {
					if !nh[k] {
						raw2 = append(raw2, ref.Encode(ref.Msg{Kind: ref.KHave, Index: uint32(k)})...)
						nh[k] = true
					}
				} else if nh[k] {
					raw2 = append(raw2, ref.Encode(ref.Msg{Kind: ref.KExtended, Sub: 3, X: ref.XDontHave, Index: uint32(k)})...)
					delete(nh, k)
				}
			}
			m.r.SendRaw(raw)
			sim.Settle()
			select {
			case <-hold:
			case <-time.After(time.Second):
			}
			m.r.SendRaw(raw2)
			m.have, m.haveAll = nh, false
			w.lab("advertise-while-torrent-busy")
			if (s.A>>8)&1 == 1 {
				m.r.Close()
				sim.Settle()
				m.open = false
				m.pending = nil
				m.r = nil
				m.have, m.haveAll, m.unchoked = map[int]bool{}, false, false
				w.lab("leave-while-torrent-busy")
			}
		case "have":
			if !connected {
				continue
			}
			m.r.Send(ref.Msg{Kind: ref.KHave, Index: uint32(i)})
			if !m.haveAll {
				m.have[i] = true
			}
		case "haveall":
			if !connected || !m.fast {
				continue
			}
			if len(m.have) > 0 {
				w.lab("bitmap-change")
			}
			m.r.Send(ref.Msg{Kind: ref.KHaveAll})
			m.have, m.haveAll = map[int]bool{}, true
		case "havenone":
			if !connected || !m.fast {
				continue
			}
			if len(m.have) > 0 || m.haveAll {
				w.lab("bitmap-change")
			}
			m.r.Send(ref.Msg{Kind: ref.KHaveNone})
			m.have, m.haveAll = map[int]bool{}, false
		case "donthave":
			if !connected {
				continue
			}
			m.r.Send(ref.Msg{Kind: ref.KExtended, Sub: 3, X: ref.XDontHave, Index: uint32(i)})
			if m.haveAll {
				m.haveAll = false
				for k := 0; k < x.N; k++ {
					m.have[k] = true
				}
			}
			if m.have[i] {
				w.lab("donthave")
			}
			delete(m.have, i)
		case "unchoke":
			if !connected {
				continue
			}
			m.r.Send(ref.Msg{Kind: ref.KUnchoke})
			m.unchoked = true
		case "choke":
			if !connected {
				continue
			}
			if len(m.pending) > 0 {
				if m.fast {
					w.lab("choke-with-requests-fast")
				} else {
					w.lab("choke-with-requests-nonfast")
				}
			}
			m.r.Send(ref.Msg{Kind: ref.KChoke})
			m.unchoked = false
			if !m.fast {
				m.pending = nil // BEP 3: choking discards the requests
			}
		case "answer", "answer-short", "answer-empty", "answer-long", "answer-misplaced":
			if !connected || len(m.pending) == 0 {
				continue
			}
			k := s.A % len(m.pending)
			rq := m.pending[k]
			m.pending = append(m.pending[:k], m.pending[k+1:]...)
			data := append([]byte(nil), x.Data(int(rq.Index), int64(rq.Begin), int64(rq.Length))...)
			begin := rq.Begin
			switch s.Kind {
			case "answer-short":
				if len(data) < 2 {
					continue
				}
				data = data[:len(data)/2]
				w.lab("short-answer")
			case "answer-empty":
				if stats.Excl("c09-empty-piece") {
					stats.Excluded("c09-empty-piece")
					continue
				}
				data = nil
				w.lab("empty-answer")
			case "answer-long":
				if stats.Excl("c09-overlong-piece") {
					stats.Excluded("c09-overlong-piece")
					continue
				}
				data = append([]byte(nil), x.Data(int(rq.Index), int64(rq.Begin), 32768)...)
				if len(data) <= 16384 {
					data = append(data, 1, 2, 3)
				}
				w.lab("overlong-answer")
			case "answer-misplaced":
				switch s.I % 3 {
				case 0:
					begin = (rq.Begin + 16384) % uint32(x.PieceSize)
				case 1:
					// a byte off, inside the block that was asked for: it answers the
					// request and cannot be stored
					begin = rq.Begin + 1
					w.lab("misplaced-answer-inside-the-requested-block")
				default:
					// beyond the end of the piece: it maps to a block of a later piece
					begin = uint32(x.PieceSize) + rq.Begin
					w.lab("misplaced-answer-beyond-the-piece")
				}
				w.lab("misplaced-answer")
			default:
				if s.I%5 == 0 {
					data[0] ^= 0xff // corrupt: the piece will fail its hash and be fetched again
					w.lab("corrupt-answer")
				}
				w.answered++
			}
			m.r.Send(ref.Msg{Kind: ref.KPiece, Index: rq.Index, Begin: begin, Data: data})
		case "answer-unrequested":
			if !connected {
				continue
			}
			// any block of the piece: one that was never asked for, or one that
			// the peer has been handed and has not sent a Request for yet
			ub := int64(s.A) % ((x.PieceLen(i) + 16383) / 16384) * 16384
			m.r.Send(ref.Msg{Kind: ref.KPiece, Index: uint32(i), Begin: uint32(ub), Data: x.Data(i, ub, 16384)})
			w.lab("unrequested-block")
			if ub > 0 {
				w.lab("unrequested-block-inside-the-piece")
			}
			if s.A%2 == 1 {
				// ... and every other block of the piece behind it
				for b := int64(0); b < int64(x.Blocks(i)); b++ {
					if b*16384 != ub {
						m.r.Send(ref.Msg{Kind: ref.KPiece, Index: uint32(i), Begin: uint32(b * 16384), Data: x.Data(i, b*16384, 16384)})
					}
				}
				w.lab("unrequested-whole-piece")
			}
		case "reject":
			if !connected || !m.fast || len(m.pending) == 0 {
				continue
			}
			k := s.A % len(m.pending)
			rq := m.pending[k]
			m.pending = append(m.pending[:k], m.pending[k+1:]...)
			m.r.Send(ref.Msg{Kind: ref.KReject, Index: rq.Index, Begin: rq.Begin, Length: rq.Length})
			w.lab("reject")
		case "sleep":
			busy := false
			for _, mm := range w.rs {
				busy = busy || (mm.open && len(mm.pending) > 0)
			}
			if busy && s.D >= 35*time.Second {
				w.lab("timeout-expiry")
			}
			time.Sleep(s.D)
		case "close", "close+tick":
			if !connected {
				continue
			}
			if len(m.pending) > 0 {
				w.lab("disconnect-with-requests")
			}
			if s.Kind == "close+tick" {
				if stats.Excl("c09-stranded-peerrequest") {
					stats.Excluded("c09-stranded-peerrequest")
				} else {
					// same burst: the pipe closes while a consumer makes the scheduler issue requests
					w.lab("disconnect-in-burst-with-tick")
					go t.Request(uint32(i), 1, true, false)
					w.wanted[i] = append(w.wanted[i], 1)
				}
			}
			m.r.Close()
			m.open = false
			m.pending = nil
			m.r = nil
			m.have, m.haveAll, m.unchoked = map[int]bool{}, false, false
		case "want":
			prio := int8(s.A%3 - 1)
			t.Request(uint32(i), prio, true, false)
			w.wanted[i] = append(w.wanted[i], prio)
		case "unwant":
			if l := w.wanted[i]; len(l) > 0 {
				t.Request(uint32(i), l[0], false, false)
				w.wanted[i] = l[1:]
			}
		case "evict":
			n := t.Pieces.Expire(0, nil, func(k uint32) { t.Have(k, false) })
			if n > 0 {
				w.lab("evict")
			}
		}
		sim.Settle()
		if f := w.collect(); f != "" {
			return f, w
		}
		if f := w.check("after " + s.String()); f != "" {
			return f, w
		}
	}
	// everybody leaves: both vectors must return to zero
	for _, m := range w.rs {
		if m.r != nil {
			m.r.Close()
			m.r, m.open = nil, false
		}
	}
	time.Sleep(time.Second)
	sim.Settle()
	for c, v := range tor.VerifInFlight(t) {
		if v != 0 {
			return fmt.Sprintf("nobody is connected, yet block %d still has in-flight count %d (it will be considered busy for ever); history: %v", c, v, w.hist), w
		}
	}
	for i, v := range tor.VerifAvailable(t) {
		if v != 0 {
			return fmt.Sprintf("nobody is connected, yet piece %d still has availability %d; history: %v", i, v, w.hist), w
		}
	}
	if n := len(tor.VerifPeers(t)); n != 0 {
		return fmt.Sprintf("every pipe is closed, the torrent still lists %d peers; history: %v", n, w.hist), w
	}
	return "", w
}

func genGeometry(rt *rapid.T) sim.Geometry {
	ps := rapid.SampledFrom([]int64{16, 32, 64}).Draw(rt, "pieceKiB") * 1024
	n := rapid.IntRange(1, 10).Draw(rt, "pieces")
	tail := rapid.SampledFrom([]int64{0, 1, 100, 8192, 16383}).Draw(rt, "tail")
	if stats.Excl("c09-short-last-chunk") {
		tail = 0
	}
	l := ps*int64(n) - tail
	return sim.Geometry{PieceSize: ps, Length: l, Seed: rapid.Uint64().Draw(rt, "seed")}
}

func genSteps(rt *rapid.T) []step {
	n := rapid.IntRange(3, 40).Draw(rt, "nsteps")
	// a useful prefix so that most histories get as far as requests
	steps := []step{{Kind: "connect", P: 0, A: rapid.IntRange(0, 11).Draw(rt, "caps0")}, {Kind: "bitfield", P: 0, A: 0xffff}, {Kind: "unchoke", P: 0},
		{Kind: "want", I: rapid.IntRange(0, 9).Draw(rt, "want0"), A: 2}}
	for len(steps) < n+4 {
		s := step{Kind: rapid.SampledFrom(stepKinds).Draw(rt, "kind"), P: rapid.IntRange(0, 3).Draw(rt, "peer"),
			I: rapid.IntRange(0, 9).Draw(rt, "piece"), A: rapid.IntRange(0, 1<<16).Draw(rt, "arg")}
		if s.Kind == "sleep" {
			s.D = rapid.SampledFrom([]time.Duration{300 * time.Millisecond, 3 * time.Second, 5 * time.Second, 31 * time.Second, 40 * time.Second, 60 * time.Second}).Draw(rt, "d")
		}
		steps = append(steps, s)
	}
	return steps
}

func TestC09Conservation(t *testing.T) {
	rapid.Check(t, func(rt *rapid.T) {
		g := genGeometry(rt)
		steps := genSteps(rt)
		var fail string
		var w *world
		startAsMagnet = rapid.IntRange(0, 3).Draw(rt, "magnet") == 0
		leak := sim.Bubble(t, func() { fail, w = run(rt, steps, g) })
		startAsMagnet = false
		if fail != "" {
			// (a torrent that is stuck stays behind and spoils the re-runs rapid
			// makes to shrink the case: the first failure goes to the output too)
			fmt.Printf("TestC09Conservation: %s\n", fail)
			rt.Fatalf("%s", fail)
		}
		if leak != "" {
			fmt.Printf("TestC09Conservation: goroutines left behind: %.400s\n", leak)
			rt.Fatalf("goroutines left behind: %s", leak)
		}
		if d := sim.PoolDuplicate(); d != "" {
			// (depends on the state of a process-wide pool: rapid cannot replay it
			// and says "flaky"; the text goes to the output as well)
			fmt.Printf("after the case: %s\n", d)
			rt.Fatalf("after the case: %s", d)
		}
		var l []string
		for k := range w.labels {
			l = append(l, k)
		}
		sort.Strings(l)
		interesting := false
		for _, k := range []string{"disconnect-with-requests", "choke-with-requests-fast", "choke-with-requests-nonfast", "reject", "timeout-expiry",
			"bitmap-change", "short-answer", "empty-answer", "overlong-answer", "misplaced-answer", "short-last-block-requested"} {
			interesting = interesting || w.labels[k]
		}
		nontrivial := w.answered > 0 && interesting
		stats.Case(fmt.Sprint(l), nontrivial, l...)
		if nontrivial && stats.WantSample("c09") {
			stats.Sample("c09", map[string]any{"pieceKiB": g.PieceSize / 1024, "length": g.Length, "history": w.hist, "labels": l})
		}
	})
}

func fixed(t *testing.T, g sim.Geometry, steps []step) {
	t.Helper()
	var fail string
	leak := sim.Bubble(t, func() { fail, _ = run(nil, steps, g) })
	if fail != "" {
		t.Fatalf("%s", fail)
	}
	if leak != "" {
		t.Fatalf("leak: %s", leak)
	}
}

var pre = []step{{Kind: "connect", P: 0, A: 0}, {Kind: "bitfield", P: 0, A: 0xffff}, {Kind: "unchoke", P: 0}}

// the torrent's final chunk is shorter than 16 KiB
func TestReg_c09_short_last_chunk(t *testing.T) {
	fixed(t, sim.Geometry{PieceSize: 16384, Length: 16384 + 100, Seed: 1},
		append(append([]step{}, pre...), step{Kind: "want", I: 1, A: 2}, step{Kind: "answer", I: 1}, step{Kind: "sleep", D: time.Second}))
}

// an empty Piece message for an outstanding request
func TestReg_c09_empty_piece(t *testing.T) {
	fixed(t, sim.Geometry{PieceSize: 32768, Length: 65536, Seed: 1},
		append(append([]step{}, pre...), step{Kind: "want", I: 0, A: 2}, step{Kind: "answer-empty"}, step{Kind: "sleep", D: time.Second}))
}

// a 32 KiB answer to a 16 KiB request
func TestReg_c09_overlong_piece(t *testing.T) {
	fixed(t, sim.Geometry{PieceSize: 65536, Length: 131072, Seed: 1},
		append(append([]step{}, pre...), step{Kind: "want", I: 0, A: 2}, step{Kind: "answer-long"}, step{Kind: "sleep", D: time.Second}))
}

// a PeerRequest accepted by the mailbox of a peer whose loop is exiting
// (schedule-dependent: the burst is repeated, every repetition must conserve)
func TestReg_c09_stranded_peerrequest(t *testing.T) {
	for k := 0; k < 300; k++ {
		steps := append(append([]step{}, pre...), step{Kind: "close+tick", I: k % 4})
		var fail string
		leak := sim.Bubble(t, func() { fail, _ = run(nil, steps, sim.Geometry{PieceSize: 65536, Length: 4 * 65536, Seed: 1}) })
		if fail != "" {
			t.Fatalf("repetition %d: %s", k, fail)
		}
		if leak != "" {
			t.Fatalf("leak: %s", leak)
		}
	}
}


// a remote that closes while storrent writes its first messages: peer.Run
// returned before its exit path was registered
func TestReg_c09_peer_early_exit(t *testing.T) {
	for k := 0; k < 200; k++ {
		steps := []step{{Kind: "connect+close", P: 0, A: k}, {Kind: "sleep", D: time.Second}, {Kind: "connect+close", P: 1, A: k + 1}, {Kind: "sleep", D: time.Second}}
		var fail string
		leak := sim.Bubble(t, func() { fail, _ = run(nil, steps, sim.Geometry{PieceSize: 16384, Length: 4 * 16384, Seed: 1}) })
		if fail != "" {
			t.Fatalf("repetition %d: %s", k, fail)
		}
		if leak != "" {
			t.Fatalf("repetition %d: goroutines left behind: %s", k, leak)
		}
	}
}
