#!/usr/bin/env python3
"""Regenerates MANIFEST.json from checks_conf.py (claimed checks) and
properties.jsonl (everything else goes to not_applicable with a reason)."""
import json, os, subprocess
ROOT = os.path.dirname(os.path.abspath(__file__))
import sys
sys.path.insert(0, ROOT)
from checks_conf import CHECKS, HOOK_COMMITS, NOT_APPLICABLE, ENGINES

props = [json.loads(l) for l in open(os.path.join(ROOT, "properties.jsonl"))]
checks = []
na = []
for p in props:
    cid = p["id"]
    c = CHECKS.get(cid)
    if c is None or not c.get("claimed", True):
        na.append({"property_id": cid, "reason": NOT_APPLICABLE.get(cid, "check not built yet in this session; not claimed")})
        continue
    checks.append({
        "property_id": cid,
        "quick_cmd": "./check %s --tier quick" % cid,
        "thorough_cmd": "./check %s --tier thorough" % cid,
        "evidence_file": "/verif/evidence/%s.json" % cid,
        "replay_cmd_template": "./check %s --replay {path}" % cid,
        "engine": c.get("engine", ""),
        "level_claimed": {"category": "exploration", "text": c["level_text"], "design_ref": c.get("design_ref", "DESIGN.md §4 " + cid)},
        "level_note": c["level_note"],
        "technique": c["technique"],
    })
m = {
    "version": 1,
    "setup_cmd": "./check --setup",
    "hooks": {
        "guard": "verif",
        "enable": "go1.26.8 test -c -tags verif <pkg>  (cwd /verif/harness; module 'verif' with `replace github.com/jech/storrent => /repo`; GOFLAGS=-mod=mod GOPROXY=off GOTOOLCHAIN=local)",
        "baseline_off_cmd": "cd /repo && go test -vet=off -count=1 ./...",
        "source_commits": HOOK_COMMITS,
        "add_only": True,
    },
    "engines": ENGINES,
    "checks": checks,
    "notes": "Every check is generated-input search (pgregory.net/rapid v1.3.0 state machines and generators, native go fuzzing in the thorough tier) against an explicit oracle (reference model, round-trip, differential against the independent codec in harness/ref, metamorphic relation, history invariant). Exit 2 = inconclusive (build failure, time-out, starved mandatory class). Known findings: known_findings.json.",
    "not_applicable": na,
}
json.dump(m, open(os.path.join(ROOT, "MANIFEST.json"), "w"), indent=1)
print("claimed:", [c["property_id"] for c in checks])
print("not claimed:", [n["property_id"] for n in na])
