#!/usr/bin/env python3
"""Regenerates the data-driven tables of DESIGN.md section 9 (between the
markers) from known_findings.json and seeded/*/meta.json."""
import json, glob, os, re
ROOT = "/verif"
kf = json.load(open(ROOT + "/known_findings.json"))["findings"]
out = []
out.append("### 9.2 Findings (generated from known_findings.json)\n")
out.append("| id | property | status | commit | what fails |")
out.append("|----|----------|--------|--------|------------|")
for f in kf:
    out.append("| %s | %s | %s | %s | %s |" % (f["id"], f["property"], f["status"], f.get("commit", "-"), f["what"].replace("|", "/")))
out.append("")
out.append("### 9.5 Seeded changes and which check catches them (generated from seeded/*/meta.json)\n")
out.append("Each change was written by a fresh sub-agent that saw only the property text and its own worktree; it compiles, passes the 82 baseline tests, and comes with a demonstration that fails with it and passes without (all re-confirmed by `tools/seedeval.py confirm`).  `tools/seedeval.py detect` applies it to /repo, runs the quick tier of the listed checks, and undoes it.\n")
out.append("| seed | property | what it changes / needs | caught by (quick tier) | first message |")
out.append("|------|----------|-------------------------|------------------------|---------------|")
for m in sorted(glob.glob(ROOT + "/seeded/*/meta.json")):
    d = json.load(open(m))
    det = d.get("detection", {})
    caught = d.get("detected_by", [])
    msg = ""
    for c in caught:
        mm = det.get(c, {}).get("first_messages", [])
        if mm:
            msg = re.sub(r"^\S+\.go:\d+: \[rapid\] failed after \d+ tests: ", "", mm[0])[:160]
            break
    status = ", ".join(caught) if caught else ("NOT CONFIRMED" if not d.get("confirmed") else "**missed**")
    out.append("| %s | %s | %s *Needs:* %s | %s | %s |" % (d["seed"], d["property"], (d.get("summary") or "")[:260].replace("|", "/"), (d.get("needs") or "")[:200].replace("|", "/"), status, msg.replace("|", "/")))
out.append("")
# ---- tests per check
import sys
sys.path.insert(0, ROOT)
import checks_conf
out.append("### 9.11 Tests behind each check (generated from checks_conf.py)\n")
out.append("*rapid* = sharded generative test (cases quick / thorough); *plain* = deterministic, exhaustive or scenario test run in both tiers; *fuzz* = native coverage-guided fuzzing, thorough tier (its seed corpus runs as a plain test); *race* = run under the race detector (thorough; the ones marked q also in the quick tier).\n")
out.append("| check | rapid | plain | fuzz | race |")
out.append("|-------|-------|-------|------|------|")
for cid in sorted(checks_conf.CHECKS):
    c = checks_conf.CHECKS[cid]
    rp = ", ".join("%s%s (%d / %d)" % (t["name"], (" [" + t["pkg"] + "]") if t.get("pkg") else "", t["quick"], t["thorough"]) for t in c.get("tests", []))
    pl = ", ".join(x["name"] if isinstance(x, dict) else x for x in c.get("plain", []))
    fz = ", ".join("%s (%d s)" % (f["name"], f["seconds"]) for f in c.get("fuzz", []))
    rc = ", ".join(r["name"] + (" q" if r.get("quick") else "") for r in c.get("race", []))
    out.append("| %s | %s | %s | %s | %s |" % (cid, rp or "-", pl or "-", fz or "-", rc or "-"))
out.append("")
txt = "\n".join(out)
p = ROOT + "/DESIGN.md"
s = open(p).read()
a, b = "<!-- BEGIN GENERATED -->", "<!-- END GENERATED -->"
if a in s:
    s = s[:s.index(a) + len(a)] + "\n" + txt + "\n" + s[s.index(b):]
    open(p, "w").write(s)
    print("updated")
else:
    print(txt)
