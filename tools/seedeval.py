#!/usr/bin/env python3
"""Confirms a seeded change delivered by a bug-seeding sub-agent and stores it
under /verif/seeded/<id>/.

  seedeval.py confirm <dir>...   apply in a scratch worktree: builds, repo tests pass, demo fails with / passes without
  seedeval.py detect  <id>...    apply /verif/seeded/<id>/patch.diff to /repo, run the checks for its property, undo
"""
import json, os, re, shutil, subprocess, sys, time
ENV = dict(os.environ, GOFLAGS="-mod=mod", GOPROXY="off", GOSUMDB="off")
# detect can run on a snapshot (vp run --with-repo): the repository copy and
# the /verif copy it works on
REPO = os.environ.get("VP_RUN_REPO", "/repo")
VERIF = os.path.dirname(os.path.dirname(os.path.abspath(__file__)))

def sh(cmd, cwd=None, timeout=1800):
    p = subprocess.run(cmd, shell=True, cwd=cwd, env=ENV, stdout=subprocess.PIPE, stderr=subprocess.STDOUT, text=True, timeout=timeout)
    return p.returncode, p.stdout

def confirm(d):
    sid = os.path.basename(d.rstrip("/"))
    meta = json.load(open(os.path.join(d, "meta.json")))
    out = os.path.join("/verif/seeded", sid)
    os.makedirs(out, exist_ok=True)
    wt = "/tmp/seedeval-" + sid
    sh("git -C /repo worktree remove --force %s" % wt)
    rc, o = sh("git -C /repo worktree add --detach %s HEAD" % wt)
    res = {"seed": sid, "property": meta["property"], "summary": meta.get("summary"), "needs": meta.get("needs"), "files": meta.get("files")}
    try:
        rc, o = sh("git apply %s/patch.diff" % d, cwd=wt)
        if rc != 0:
            rc, o = sh("git apply -3 %s/patch.diff" % d, cwd=wt)
        res["applies"] = rc == 0
        if rc != 0:
            res["note"] = o[-500:]
            return res
        rc, o = sh("go build ./... && go build -tags verif ./...", cwd=wt)
        res["builds"] = rc == 0
        rc, o = sh("go test -vet=off -count=1 ./... 2>&1 | tail -30", cwd=wt)
        res["repo_tests_pass_with_patch"] = ("FAIL" not in o) and rc == 0
        if not res["repo_tests_pass_with_patch"]:
            res["note"] = o[-800:]
        cmd = meta.get("demo_cmd", "")
        demo = [f for f in os.listdir(d) if f.endswith("_test.go") or f == "main.go"]
        m = re.search(r"(\./[\w/]+/?)\s*$", cmd.strip().rstrip("'\""))
        pkg = m.group(1) if m else None
        runpat = re.search(r"-run[ =]'?\"?([^'\" ]+)", cmd)
        tags = "-tags verif" if "-tags verif" in cmd else ""
        if not pkg or not demo:
            res["note"] = "could not parse demo_cmd: " + cmd
            return res
        for f in demo:
            shutil.copy(os.path.join(d, f), os.path.join(wt, pkg, "zz_seed_" + f))
        dcmd = "go test %s -vet=off -count=1 -timeout 300s %s %s" % (tags, ("-run '%s'" % runpat.group(1)) if runpat else "", pkg)
        rc, o = sh(dcmd, cwd=wt)
        res["demo_fails_with_patch"] = rc != 0
        res["demo_output_with_patch"] = o[-600:]
        sh("git apply -R %s/patch.diff" % d, cwd=wt)
        rc, o = sh(dcmd, cwd=wt)
        res["demo_passes_without"] = rc == 0
        if rc != 0:
            res["demo_output_without"] = o[-600:]
        res["demo_cmd_used"] = dcmd
        res["confirmed"] = all(res.get(k) for k in ("applies", "builds", "repo_tests_pass_with_patch", "demo_fails_with_patch", "demo_passes_without"))
        shutil.copy(os.path.join(d, "patch.diff"), os.path.join(out, "patch.diff"))
        for f in demo:
            shutil.copy(os.path.join(d, f), os.path.join(out, f))
    finally:
        sh("git -C /repo worktree remove --force %s" % wt)
        shutil.rmtree(wt, ignore_errors=True)
        res["confirmed_at_repo_head"] = sh("git -C /repo rev-parse --short HEAD")[1].strip()
        json.dump(res, open(os.path.join(out, "meta.json"), "w"), indent=1)
    return res

RELATED = {"C01": ["C01", "C02", "C16", "C17", "C06", "C08"], "C03": ["C03", "C01", "C17", "C11"], "C09": ["C09", "C14", "C11"], "C17": ["C17", "C09"],
           "C02": ["C02", "C10", "C01", "C17", "C09"], "C04": ["C04", "C05", "C06"], "C06": ["C06", "C04"], "C11": ["C11", "C09", "C05"],
           "C13": ["C13", "C12", "C11"], "C16": ["C16", "C01"], "C05": ["C05", "C04", "C12", "C16", "C01"], "C07": ["C07", "C08", "C04", "C06"], "C08": ["C08", "C07"],
           "C10": ["C10", "C02", "C17"], "C12": ["C12", "C05", "C06", "C04"], "C14": ["C14", "C09"], "C15": ["C15"], "C18": ["C18"], "C19": ["C19", "C20"], "C20": ["C20", "C19"]}

def detect(sid, extra=None):
    out = os.path.join(VERIF, "seeded", sid)
    meta = json.load(open(os.path.join(out, "meta.json")))
    if sh("git -C %s status --porcelain" % REPO)[1].strip():
        print("repo not clean"); sys.exit(3)
    ids = extra or RELATED.get(meta["property"], [meta["property"]])
    rc, o = sh("git -C %s apply %s/patch.diff || git -C %s apply -3 %s/patch.diff" % (REPO, out, REPO, out))
    det = {}
    try:
        if rc != 0:
            sh("git -C %s reset -q --hard" % REPO)
            det["error"] = "patch does not apply: " + o[-300:]
        else:
            for cid in ids:
                if not os.path.exists(os.path.join(VERIF, "harness")):
                    break
                t0 = time.time()
                rc, o = sh("./check %s" % cid, cwd=VERIF)
                v = [l for l in o.splitlines() if l.startswith("VIOLATION")]
                msg = [l.strip()[:300] for l in o.splitlines() if "failed after" in l or "--- FAIL" in l][:3]
                det[cid] = {"exit": rc, "caught": rc == 1 and bool(v), "wall_s": round(time.time() - t0, 1), "first_messages": msg}
    finally:
        sh("git -C %s reset -q --hard && git -C %s clean -fdq" % (REPO, REPO))
        sh("rm -rf %s/replays/*" % VERIF)
    meta["detection"] = det
    meta["detected_by"] = [c for c, r in det.items() if isinstance(r, dict) and r.get("caught")]
    json.dump(meta, open(os.path.join(out, "meta.json"), "w"), indent=1)
    print(sid, meta["property"], "caught by", meta["detected_by"], {c: (r.get("exit") if isinstance(r, dict) else r) for c, r in det.items()})

if __name__ == "__main__":
    if sys.argv[1] == "confirm":
        for d in sys.argv[2:]:
            r = confirm(d)
            print(r["seed"], "confirmed" if r.get("confirmed") else "NOT CONFIRMED", {k: r.get(k) for k in ("applies", "builds", "repo_tests_pass_with_patch", "demo_fails_with_patch", "demo_passes_without")}, flush=True)
    else:
        ids = sys.argv[2:]
        if ids == ["ALL"]:
            ids = sorted(d for d in os.listdir(os.path.join(VERIF, "seeded")) if os.path.exists(os.path.join(VERIF, "seeded", d, "patch.diff")))
        for s in ids:
            detect(s)
            sys.stdout.flush()
