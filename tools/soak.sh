#!/bin/bash
# usage: tools/soak.sh "<seeds>" [ids...]   — runs the quick tier of every check at each seed; prints anything that is not exit 0
cd /verif
seeds=${1:-"2 3 4"}
shift
ids=${@:-$(./check --list | awk '{print $1}')}
for s in $seeds; do
  for id in $ids; do
    out=$(VERIF_SEED=$s ./check $id 2>&1); rc=$?
    if [ $rc -ne 0 ]; then
      echo "SOAK seed=$s $id exit=$rc"
      echo "$out" | grep -v "rapid\] draw" | cut -c1-400 | tail -12
    else
      echo "soak seed=$s $id ok: $(echo "$out" | grep 'quick seed' | cut -c1-120)"
    fi
  done
done
git -C /verif clean -fdq replays/ 2>/dev/null
