#!/usr/bin/env python3
"""Sensitivity helper: apply a textual mutation to /repo, make sure it still
builds, run checks (quick tier), and restore /repo.

usage: tools/mut.py <file> <old> <new> <CHECK_ID>[,<CHECK_ID>...] [--tests]
  <old>/<new> are literal strings (python-escaped, e.g. '\\n' allowed).
--tests also runs the package's own tests to confirm the mutant survives them.
"""
import subprocess, sys, os, codecs
f, old, new, ids = sys.argv[1:5]
run_tests = "--tests" in sys.argv
old = codecs.decode(old, "unicode_escape"); new = codecs.decode(new, "unicode_escape")
path = os.path.join("/repo", f)
src = open(path).read()
if src.count(old) < 1:
    print("MUT: pattern not found"); sys.exit(3)
if subprocess.run(["git", "-C", "/repo", "status", "--porcelain"], capture_output=True, text=True).stdout.strip():
    print("MUT: /repo not clean"); sys.exit(3)
try:
    open(path, "w").write(src.replace(old, new, 1))
    b = subprocess.run("cd /repo && go build ./... 2>&1 | tail -5", shell=True, capture_output=True, text=True)
    if b.stdout.strip():
        print("MUT: does not build:\n" + b.stdout); sys.exit(3)
    if run_tests:
        pkg = "./" + os.path.dirname(f) + "/..."
        t = subprocess.run("cd /repo && go test -vet=off -count=1 %s 2>&1 | tail -5" % pkg, shell=True, capture_output=True, text=True)
        print("MUT: own tests:", t.stdout.strip().replace("\n", " | "))
    for cid in ids.split(","):
        r = subprocess.run(["/verif/check", cid], capture_output=True, text=True)
        v = [l for l in r.stdout.splitlines() if l.startswith("VIOLATION")]
        print("MUT: %s exit=%d %s" % (cid, r.returncode, "CAUGHT" if r.returncode == 1 and v else "MISSED" if r.returncode == 0 else "INCONCLUSIVE"))
        if r.returncode != 0:
            print("\n".join([l for l in r.stderr.splitlines() if "failed after" in l or "FAIL" in l][:4])[:1500])
finally:
    subprocess.run(["git", "-C", "/repo", "checkout", "--", "."])
    # drop replay files produced by the mutant
    subprocess.run("cd /verif && git clean -fdq replays/ 2>/dev/null", shell=True)
