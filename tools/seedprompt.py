#!/usr/bin/env python3
"""Writes the prompt of a further bug-seeding round for one property:
   tools/seedprompt.py <Cxx> <round>  ->  agents/seed_prompts/<Cxx>-r<round>.txt
The prompt contains the property text and one-line summaries of the changes of earlier
rounds (from seeded/*/meta.json), nothing else from /verif."""
import json, glob, os, sys
V = os.path.dirname(os.path.dirname(os.path.abspath(__file__)))
cid, rnd = sys.argv[1], int(sys.argv[2])
prop = [json.loads(l) for l in open(os.path.join(V, "properties.jsonl")) if json.loads(l)["id"] == cid][0]
earlier = []
for f in sorted(glob.glob(os.path.join(V, "seeded", cid + "-*", "meta.json"))):
    m = json.load(open(f))
    earlier.append("- " + m.get("summary", "")[:400])
files = ", ".join(prop["anchors"]["files"])
wt = "/tmp/seed-%s-%d" % (cid, rnd)
txt = f"""You are a senior Go engineer acting as a "bug seeder" for a verification study of the Go BitTorrent client jech/storrent.

Set up your own scratch copy first (do NOT touch /repo's working tree, and do not look at /verif at all):
  git -C /repo worktree add {wt} HEAD
Work only inside {wt}. Build/test with the default `go` (offline: export GOFLAGS=-mod=mod GOPROXY=off GOSUMDB=off).

The property under study ({cid}: {prop['title']}):

{prop['statement']}

It quantifies over: {prop['quantifier']['text']}

Your job: produce 3 DIFFERENT, realistic changes to storrent's source (each a small patch of the kind a maintainer could plausibly make during a refactor or an "optimisation": an off-by-one, a dropped re-check, a reordered pair of statements, a condition weakened, a counter updated on the wrong branch, two sites that each look fine alone) such that, for each change:
 1. the repository still compiles (`go build ./...`) and ALL existing tests still pass (`go test -vet=off -count=1 ./...`, ~1 min);
 2. the change BREAKS the property above (not some other behaviour);
 3. it needs something specific to manifest - a particular interleaving, a fault or disconnect at a particular point, a multi-step sequence of operations, an unusual input value, or two cooperating sites - NOT something ordinary use would expose at once;
 4. you provide a demonstration: a Go test file (or small program) placed in the worktree that FAILS with the change applied and PASSES on the unmodified tree. You may use internal (same-package) tests for the demonstration. The demonstration must be deterministic or loop until it manifests within a few seconds.
Spread the 3 changes over different mechanisms/files that the property depends on (read the code: {files}).

Changes already produced in earlier rounds - do NOT repeat these or close variants of them; look for other mechanisms, other files, other call sites the property depends on (rarely exercised branches: error paths, time-outs, congestion, shutdown and restart, boundary values, interactions between two features, state left behind by an earlier operation, configuration changes at run time, arithmetic on sizes and counts, ordering of notifications):
""" + "\n".join(earlier) + f"""

Deliverables, for each change j = 1..3, in directory /tmp/seed-out/{cid}-{rnd}-j/ :
  patch.diff   - `git diff` of the source change ONLY (no demo file), applicable with `git apply` at the worktree's HEAD
  demo_test.go (or demo/main.go) - the demonstration, with a header comment saying in which package directory it must be placed and the exact command to run it
  meta.json    - (demo_cmd must be ONLY the command, nothing after it) {{"property": "{cid}", "summary": "...one sentence...", "needs": "what it needs in order to manifest", "files": [...], "demo_cmd": "...", "demo_fails_with_patch": true, "demo_passes_without": true, "repo_tests_pass_with_patch": true}}
Verify every claim in meta.json yourself by actually running the commands (apply patch -> run repo tests -> run demo (fails) -> revert -> run demo (passes)).
When done, remove your worktree (`git -C /repo worktree remove --force {wt}`) and reply with a 5-line summary of the 3 changes.
"""
out = os.path.join(V, "agents", "seed_prompts", "%s-r%d.txt" % (cid, rnd))
open(out, "w").write(txt)
print(out, len(earlier), "earlier changes")
