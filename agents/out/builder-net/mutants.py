#!/usr/bin/env python3
"""Mutant runner: applies one textual mutant to the private worktree, checks
that it builds and that the repository's own tests of the package pass, runs
the harness tests, records which fail, restores the file."""
import os, subprocess, sys, shutil, json, time

REPO = '/tmp/builder-net/repo'
HARN = '/tmp/builder-net/harness'
ENV = dict(os.environ, GOFLAGS='-mod=mod', GOPROXY='off', GOSUMDB='off', GOTOOLCHAIN='local')

MUTANTS = {
 'c14-r1-revert-readfrom-fix': ('tor/writer.go', '''		if max < len(w.buf) {
			// Write may have buffered more than that
			max = len(w.buf)
		}
''', '', 'c14'),
 # ---- C14
 'c14-m1-write-clips-max+1': ('tor/writer.go', '''	if len(q) > max {
		q = q[:max]
	}''', '''	if len(q) > max+1 {
		q = q[:max+1]
	}''', 'c14'),
 'c14-m2-readfrom-forgets-tail': ('tor/writer.go', '''	if cap(w.buf) < 32768 {
		l := len(w.buf)''', '''	w.buf = w.buf[:0]
	if cap(w.buf) < 32768 {
		l := len(w.buf)''', 'c14'),
 'c14-m3-close-without-drop': ('tor/writer.go', '''		w.writeEvent(peer.TorDrop{w.index, w.offset, w.count})
		w.count = 0''', '''		w.count = 0''', 'c14'),
 'c14-m4-filechunks-keeps-file-ending-at-o': ('tor/tor.go', '''		if f.Offset+f.Length <= o {
			continue
		}''', '''		if f.Offset+f.Length < o {
			continue
		}''', 'c14'),
 'c14-m4b-filechunks-ignores-offset-in-file': ('tor/tor.go', '''		m := f.Length - (o - f.Offset)''', '''		m := f.Length''', 'c14'),
 'c14-m5-get-accepts-shifted-206': ('webseed/getright.go', '''		if o != offset {''', '''		if false && o != offset {''', 'c14'),
 'c14-m6-limit-length+1': ('webseed/getright.go', '''io.LimitReader(r.Body, length)''', '''io.LimitReader(r.Body, length+1)''', 'c14'),
 'c14-m7-get-ignores-total': ('webseed/getright.go', '''		if fl != flength {''', '''		if false && fl != flength {''', 'c14'),
 'c14-m8-get-accepts-200-at-nonzero': ('webseed/getright.go', '''		if offset != 0 {''', '''		if false && offset != 0 {''', 'c14'),
 'c14-m9-tordrop-rounds-down': ('tor/tor.go', '''			return nil
		}
		cpp := t.Pieces.PieceSize() / config.ChunkSize
		// the last chunk of a torrent may be short
		chunks := (c.Length + config.ChunkSize - 1) / config.ChunkSize
		for i := uint32(0); i < chunks; i++ {
			chunk := c.Index*cpp + c.Begin/config.ChunkSize + i
			noteInFlight(t, chunk, false)
		}
	case peer.TorRequest:''', '''			return nil
		}
		cpp := t.Pieces.PieceSize() / config.ChunkSize
		chunks := c.Length / config.ChunkSize
		for i := uint32(0); i < chunks; i++ {
			chunk := c.Index*cpp + c.Begin/config.ChunkSize + i
			noteInFlight(t, chunk, false)
		}
	case peer.TorRequest:''', 'c14'),
 'c14-m10-reserves-one-block-more': ('tor/tor.go', '''	for i := uint32(0); i < uint32(l); i += config.ChunkSize {
		chunk := index*cpp + (uint32(o)+i)/config.ChunkSize''', '''	for i := uint32(0); i <= uint32(l) && (uint32(o)+i)/config.ChunkSize < cpp && int(index*cpp+(uint32(o)+i)/config.ChunkSize) < len(t.inFlight); i += config.ChunkSize {
		chunk := index*cpp + (uint32(o)+i)/config.ChunkSize''', 'c14'),
 'c14-m11-writer-offset-not-advanced-by-count': ('tor/writer.go', '''		w.offset += count''', '''		w.offset += 16384''', 'c14'),
 'c14-m12-pad-fetched-from-server': ('tor/tor.go', '''		if fc.pad {
			n, err = io.Copy(writer, &zeroReader{fc.length})''', '''		if fc.pad && false {
			n, err = io.Copy(writer, &zeroReader{fc.length})''', 'c14'),
 'c14-m13-hoffman-ignores-content-length': ('webseed/hoffman.go', '''		if l != int64(length) {''', '''		if false && l != int64(length) {''', 'c14'),
 'c14-m14-zero-reader-one-short': ('tor/tor.go', '''	n := len(buf)
	if int64(n) > r.n {
		n = int(r.n)
	}
	for i := 0; i < n; i++ {
		buf[i] = 0
	}''', '''	n := len(buf)
	if int64(n) > r.n {
		n = int(r.n)
	}
	for i := 0; i < n; i++ {
		buf[i] = 1
	}''', 'c14'),
 'c14-m15-filechunks-off-by-one-length': ('tor/tor.go', '''		if m > l {
			m = l
		}
		fcs = append(fcs, filechunk{''', '''		if m >= l {
			m = l - 1
			if m == 0 {
				m = 1
			}
		}
		fcs = append(fcs, filechunk{''', 'c14'),
 'c14-m16-get-416-as-ok': ('webseed/getright.go', '''	} else if r.StatusCode == http.StatusPartialContent {''', '''	} else if r.StatusCode == http.StatusPartialContent || r.StatusCode == 203 {''', 'c14'),
 # ---- C15
 'c15-t1-stuck-busy-on-not-ready': ('tracker/http.go', '''	defer tracker.unlock()

	if !tracker.ready() {
		return ErrNotReady
	}

	tracker.time = time.Now()

	var interval int''', '''	if !tracker.ready() {
		return ErrNotReady
	}
	defer tracker.unlock()

	tracker.time = time.Now()

	var interval int''', 'c15'),
 'c15-t1u-stuck-busy-on-not-ready-udp': ('tracker/udp.go', '''	defer tracker.unlock()

	if !tracker.ready() {
		return ErrNotReady
	}''', '''	if !tracker.ready() {
		return ErrNotReady
	}
	defer tracker.unlock()''', 'c15'),
 'c15-t2-floor-5s': ('tracker/tracker.go', '''	if interval < 5*time.Minute {
		interval = 5 * time.Minute
	}''', '''	if interval < 5*time.Second {
		interval = 5 * time.Second
	}''', 'c15'),
 'c15-t2b-floor-4m59': ('tracker/tracker.go', '''	if interval < 5*time.Minute {
		interval = 5 * time.Minute
	}''', '''	if interval < 299*time.Second {
		interval = 299 * time.Second
	}''', 'c15'),
 'c15-t3-compact-port-byte-order': ('tracker/http.go', '''				port := 256*uint16(peers[i+4]) +
					uint16(peers[i+5])''', '''				port := 256*uint16(peers[i+5]) +
					uint16(peers[i+4])''', 'c15'),
 'c15-t3b-compact-skips-last': ('tracker/http.go', '''		for i := 0; i < len(peers); i += 6 {''', '''		for i := 0; i+6 < len(peers); i += 6 {''', 'c15'),
 'c15-t4-interval-ignored': ('tracker/tracker.go', '''	if interval > time.Minute {
		tracker.interval = interval
	} else if''', '''	if false && interval > time.Minute {
		tracker.interval = interval
	} else if''', 'c15'),
 'c15-t5-udp-action-check-removed': ('tracker/udp.go', '''		if a != action {
			return nil, errors.New("action mismatch")
		}''', '''		if false && a != action {
			return nil, errors.New("action mismatch")
		}''', 'c15'),
 'c15-t6-udp-tid-check-removed': ('tracker/udp.go', '''		if t != tid {
			// not a reply to our request
			err = ErrParse
			continue
		}''', '''		if false && t != tid {
			// not a reply to our request
			err = ErrParse
			continue
		}''', 'c15'),
 'c15-t7-peers6-port-bytes': ('tracker/http.go', '''				port := 256*uint16(reply.Peers6[i+16]) +
					uint16(reply.Peers6[i+17])''', '''				port := 256*uint16(reply.Peers6[i+15]) +
					uint16(reply.Peers6[i+16])''', 'c15'),
 'c15-t8-failure-reason-ignored': ('tracker/http.go', '''		tracker.interval = retry
		err = errors.New(reply.FailureReason)
		return 0, err''', '''		tracker.interval = retry''', 'c15'),
 'c15-t9-no-lock': ('tracker/http.go', '''	ok := tracker.tryLock()
	if !ok {
		return ErrNotReady
	}
	defer tracker.unlock()

	if !tracker.ready() {
		return ErrNotReady
	}

	tracker.time = time.Now()

	var interval int''', '''	if !tracker.ready() {
		return ErrNotReady
	}

	var interval int
	defer func() { tracker.time = time.Now() }()''', 'c15'),
 'c15-t10-status-check-removed': ('tracker/http.go', '''	if r.StatusCode != 200 {''', '''	if false && r.StatusCode != 200 {''', 'c15'),
 'c15-t11-udp6-address-length': ('tracker/udp.go', '''	case "udp6":
		len = 16''', '''	case "udp6":
		len = 4''', 'c15'),
 'c15-t12-time-not-recorded-on-error-udp': ('tracker/udp.go', '''	tracker.updateInterval(interval, err)
	return err
}''', '''	tracker.updateInterval(interval, err)
	if err != nil {
		tracker.time = time.Time{}
	}
	return err
}''', 'c15'),
 'c15-t13-retry-in-seconds': ('tracker/http.go', '''				retry = time.Duration(min) * time.Minute''', '''				retry = time.Duration(min) * time.Second''', 'c15'),
 'c15-t14-udp-error-action-as-success': ('tracker/udp.go', '''		if a == 3 {''', '''		if a == 3 && false {''', 'c15'),
 'c15-t15-dict-peer-duplicated': ('tracker/http.go', '''					f(netip.AddrPortFrom(ip, uint16(p.Port)))
				}
			}''', '''					f(netip.AddrPortFrom(ip, uint16(p.Port)))
					f(netip.AddrPortFrom(ip, uint16(p.Port)+1))
				}
			}''', 'c15'),
}

TESTS = {
 'c14': [('TestC14aFileChunks', 3000), ('TestC14bWriter', 3000), ('TestC14cGetRight', 1500), ('TestC14cHoffman', 1000), ('TestC14dFetch', 1000), ('TestReg', 1)],
 'c15': [('TestC15HTTP', 1500), ('TestC15UDP', 1500), ('TestReg', 1)],
}

def sh(cmd, cwd, env=None, timeout=900):
    p = subprocess.run(cmd, cwd=cwd, env=env or os.environ, shell=True, capture_output=True, text=True, timeout=timeout)
    return p.returncode, p.stdout + p.stderr

def main():
    names = sys.argv[1:] or list(MUTANTS)
    results = {}
    for name in names:
        path, old, new, pkg = MUTANTS[name]
        full = os.path.join(REPO, path)
        orig = open(full).read()
        if orig.count(old) != 1:
            print(name, 'PATTERN-NOT-UNIQUE', orig.count(old)); results[name] = 'bad-pattern'; continue
        open(full, 'w').write(orig.replace(old, new))
        try:
            rc, out = sh('go build ./... && go build -tags verif ./...', REPO)
            if rc != 0:
                print(name, 'DOES-NOT-BUILD', out[-400:]); results[name] = 'nobuild'; continue
            rc, out = sh('go test -vet=off -count=1 ./' + os.path.dirname(path) + '/...', REPO)
            own = 'own-tests-pass' if rc == 0 else 'OWN-TESTS-FAIL'
            caught = []
            for test, n in TESTS[pkg]:
                t0 = time.time()
                rc, out = sh(f'go1.26.8 test -tags verif -count=1 ./{pkg}/ -run "^{test}" -rapid.checks={n} -rapid.seed=11 -rapid.nofailfile', HARN, ENV)
                if rc != 0:
                    first = [l for l in out.splitlines() if ('C14' in l or 'C15 ' in l or 'panic' in l) and 'FAIL:' not in l][:1]
                    caught.append((test, round(time.time()-t0, 1), (first[0].strip()[:230] if first else out[-200:])))
            results[name] = (own, caught)
            print(name, own, 'CAUGHT by ' + ', '.join(c[0] for c in caught) if caught else 'MISSED')
            for c in caught:
                print('     ', c)
        finally:
            open(full, 'w').write(orig)
    json.dump(results, open('/tmp/builder-net/mut/results-%d.json' % os.getpid(), 'w'), indent=1)

main()
